//! asyncd engine (C15): operation histories on a real `AsyncDispatcher` built by
//! `DispatcherBuilder::build_async`: every public method (dispatch, wait, wait_without_tl,
//! running, world, res, world_mut, mut_res, setup) in every order, each one issued
//!   * while the job is certainly still running — chosen systems are held inside `run` by gates
//!     (or the job is kept queued behind harness jobs that occupy every pool thread) and are
//!     released only after the observation under test has returned or the calling thread has
//!     been *seen* parked inside it (scheduler state of the thread, not a timer), and
//!   * after the job has certainly finished on its own — `settle`: the harness waits for the
//!     systems' own completion signal and for the pool to go idle without calling any method
//!     of the dispatcher (logged as `quiet`).
//! The dispatcher lives on its own thread; the engine's thread watches it (release of held
//! systems, detection of a call that stays parked although nothing is left to wait for).
//! Which thread that is is a dimension of every case (the *calling context*, `CALLERS`): an
//! ordinary thread, a worker of the dispatcher's own pool (the whole script, building the
//! dispatcher included, runs inside `pool.install`), or a worker of another pool. The thread
//! class 'c' of the log, the thread whose scheduler state tells the watcher that the caller is
//! parked inside a call, and "the calling thread" of every oracle are that thread.
//! A fifth of the random plans and two of the fixed ones are long (8 to 20 stages).
//! The caller's `call` / `ret` events, `quiet` and the systems' F / D events go to one totally
//! ordered log; implementation-side oracles decide the property on that log and on counters
//! read at the very moment a call returns, then the log is fed to the Lean acceptor
//! (`asyncd` sub-model).
//! Panics are injected at every position of a history: an ordinary system of a chosen dispatch
//! panics in `fetch` or inside `run` (the pools have a `panic_handler`, which the harness also
//! uses to see that the job is over), a thread-local system panics inside a chosen `wait`; the
//! script goes on afterwards and every entry point is called on what is left. `setup` is followed
//! by a look at the world (hook events, default-provided resources), `mutate` removes / replaces
//! those resources through `world_mut()` in between.
use crate::build::*;
use crate::common::*;
use crate::engines::asyncd_sys::*;
use crate::engines::plan::shrink;
use crate::gen::*;
use crate::sys::*;
use shred::*;
use std::collections::BTreeMap;
use std::panic::{catch_unwind, AssertUnwindSafe};
use std::sync::atomic::{AtomicBool, AtomicU64, AtomicUsize, Ordering::SeqCst};
use std::sync::{mpsc, Arc, Mutex};
use std::time::{Duration, Instant};

#[derive(Clone, Debug, PartialEq)]
pub enum Rel {
    /// gates open `us` after the caller has entered its next blocking operation
    Block(u64),
    /// gates open `us` after `dispatch` returned
    Timer(u64),
    /// the dispatch stays held over the next `n` operations: released when the n-th of them has
    /// returned, or as soon as the calling thread has been seen parked inside one of them
    Obs(u64),
}
#[derive(Clone, Debug, PartialEq)]
pub enum AOp {
    /// `queue`: every pool thread is occupied by a harness job until the release, so that the
    /// dispatched job has certainly not started
    /// `panic`: (system, 1 = inside `run` | 2 = in `fetch`) — that ordinary system panics in this dispatch
    Dispatch { gate: Vec<usize>, rel: Rel, queue: bool, panic: Option<(usize, u8)> },
    Running,
    /// poll `running()` (every poll is logged) until it answers false, at most 60 times
    Spin,
    Wait,
    /// `wait()` during which thread-local system `tag` panics (1 = inside `run` | 2 = in `fetch`)
    WaitPanic { tag: usize, mode: u8 },
    /// `world_mut()`, then the setup resources are removed / replaced: per `Sr<k>` 0 = leave alone,
    /// 1 = remove, v + 2 = set to v
    Mutate { plan: Vec<usize> },
    WaitNoTl,
    World,
    WorldMut,
    Setup,
    /// deprecated alias of `world`
    Res,
    /// deprecated alias of `world_mut`
    MutRes,
    /// not a dispatcher method: everything held is released and the harness waits for the
    /// systems' own completion signal (then for the pool to go idle); logged as `quiet`
    Settle,
}
pub const OPS: [&str; 9] = ["dispatch", "wait", "wait_without_tl", "running", "world", "world_mut", "setup", "res", "mut_res"];

impl AOp {
    fn code(&self) -> usize {
        match self {
            AOp::Dispatch { .. } => 0,
            AOp::Wait | AOp::WaitPanic { .. } => 1,
            AOp::WaitNoTl => 2,
            AOp::Running | AOp::Spin => 3,
            AOp::World => 4,
            AOp::WorldMut | AOp::Mutate { .. } => 5,
            AOp::Setup => 6,
            AOp::Res => 7,
            AOp::MutRes => 8,
            AOp::Settle => usize::MAX,
        }
    }
    fn blocking(&self) -> bool {
        !matches!(self, AOp::Running | AOp::Spin | AOp::Settle)
    }
    fn line(&self) -> String {
        match self {
            AOp::Dispatch { gate, rel, queue, panic } => format!(
                "aop dispatch gate={} rel={}{}{}",
                if gate.is_empty() { "-".to_string() } else { gate.iter().map(|x| x.to_string()).collect::<Vec<_>>().join(",") },
                match rel {
                    Rel::Block(us) => format!("block:{}", us),
                    Rel::Timer(us) => format!("timer:{}", us),
                    Rel::Obs(n) => format!("obs:{}", n),
                },
                if *queue { " queue=1" } else { "" },
                match panic {
                    Some((t, m)) => format!(" panic={}:{}", t, if *m == 2 { "fetch" } else { "run" }),
                    None => String::new(),
                }
            ),
            AOp::WaitPanic { tag, mode } => format!("aop wait panic={}:{}", tag, if *mode == 2 { "fetch" } else { "run" }),
            AOp::Mutate { plan } => format!(
                "aop mutate {}",
                plan.iter().map(|p| match *p { 0 => "-".to_string(), 1 => "rm".to_string(), v => (v - 2).to_string() }).collect::<Vec<_>>().join(",")
            ),
            AOp::Spin => "aop spin".into(),
            AOp::Settle => "aop settle".into(),
            o => format!("aop {}", OPS[o.code()]),
        }
    }
}

#[derive(Clone, Debug)]
pub struct Case {
    pub ops: Vec<Op>,
    pub arc: bool,
    pub threads: usize,
    /// the calling context: which thread builds and drives the dispatcher (index into `CALLERS`)
    pub caller: usize,
    pub holds: Vec<(usize, u64)>,
    pub aops: Vec<AOp>,
}
/// the calling contexts: the thread that builds the `AsyncDispatcher` and calls its methods is
///   * `plain`: an ordinary thread (not a worker of any pool),
///   * `own`: a worker thread of the dispatcher's own pool — the whole script runs inside
///     `pool.install(..)`; `dispatch` then pushes the job onto that worker's own deque, a blocking
///     call parks the worker in `recv` (std mpsc, rayon does not know) and another worker steals
///     and runs the job. The pool has at least two threads: with exactly one, a blocking call
///     after a dispatch can never return on the unchanged crate either (the only thread that could
///     run the job is the one waiting for it), so that is not generated,
///   * `other`: a worker thread of a different pool (`foreign.install(..)`).
/// "The calling thread" of the oracles (thread class 'c', the thread whose scheduler state the
/// watcher samples) is that thread in every context.
pub const CALLERS: [&str; 3] = ["plain", "own", "other"];
pub const OWN: usize = 1;

impl Case {
    /// what is run: in the `own` context the pool has at least two threads
    pub fn normalized(mut self) -> Case {
        if self.caller == OWN && self.threads < 2 {
            self.threads = 2;
        }
        self
    }
    pub fn lines(&self) -> Vec<String> {
        let mut v = vec![];
        Op::lines(&self.ops, &mut v);
        v.push(format!("cfg world={} threads={} caller={}", if self.arc { "arc" } else { "plain" }, self.threads, CALLERS[self.caller.min(2)]));
        for (t, us) in &self.holds {
            v.push(format!("hold {} {}", t, us));
        }
        for a in &self.aops {
            v.push(a.line());
        }
        v
    }
    pub fn parse(lines: &[String]) -> Case {
        let mut c = Case { ops: vec![], arc: false, threads: 2, caller: 0, holds: vec![], aops: vec![] };
        let mut reg = vec![];
        for l in lines {
            let p: Vec<&str> = l.split_whitespace().collect();
            match p.as_slice() {
                ["cfg", rest @ ..] => {
                    for kv in rest {
                        if let Some(v) = kv.strip_prefix("world=") {
                            c.arc = v == "arc";
                        } else if let Some(v) = kv.strip_prefix("threads=") {
                            c.threads = v.parse().unwrap_or(2).clamp(1, 8);
                        } else if let Some(v) = kv.strip_prefix("caller=") {
                            // (lines written before the calling context existed have no such word: plain)
                            c.caller = CALLERS.iter().position(|n| *n == v).unwrap_or(0);
                        }
                    }
                }
                ["hold", t, us] => c.holds.push((t.parse().unwrap_or(0), us.parse().unwrap_or(0))),
                ["aop", "dispatch", rest @ ..] => {
                    let mut gate = vec![];
                    let mut rel = Rel::Block(200);
                    let mut queue = false;
                    let mut panic = None;
                    for kv in rest {
                        if let Some(v) = kv.strip_prefix("gate=") {
                            gate = v.split(',').filter_map(|x| x.parse().ok()).collect();
                        } else if let Some(v) = kv.strip_prefix("rel=") {
                            let mut q = v.split(':');
                            let k = q.next().unwrap_or("block");
                            let us = q.next().and_then(|x| x.parse().ok()).unwrap_or(200);
                            rel = match k {
                                "timer" => Rel::Timer(us),
                                "obs" => Rel::Obs(us.clamp(1, 64)),
                                _ => Rel::Block(us),
                            };
                        } else if let Some(v) = kv.strip_prefix("queue=") {
                            queue = v == "1";
                        } else if let Some(v) = kv.strip_prefix("panic=") {
                            panic = parse_panic(v);
                        }
                    }
                    c.aops.push(AOp::Dispatch { gate, rel, queue, panic });
                }
                ["aop", "wait", kv] if kv.starts_with("panic=") => match parse_panic(&kv[6..]) {
                    Some((tag, mode)) => c.aops.push(AOp::WaitPanic { tag, mode }),
                    None => c.aops.push(AOp::Wait),
                },
                ["aop", "mutate", plan] => {
                    let mut v: Vec<usize> = plan.split(',').map(|x| match x { "-" => 0, "rm" => 1, n => n.parse::<usize>().map(|n| n + 2).unwrap_or(0) }).collect();
                    v.resize(NSR, 0);
                    c.aops.push(AOp::Mutate { plan: v });
                }
                ["aop", "spin"] => c.aops.push(AOp::Spin),
                ["aop", "settle"] => c.aops.push(AOp::Settle),
                ["aop", name] => {
                    let a = match *name {
                        "wait" => Some(AOp::Wait),
                        "wait_without_tl" => Some(AOp::WaitNoTl),
                        "running" => Some(AOp::Running),
                        "world" => Some(AOp::World),
                        "world_mut" => Some(AOp::WorldMut),
                        "setup" => Some(AOp::Setup),
                        "res" => Some(AOp::Res),
                        "mut_res" => Some(AOp::MutRes),
                        _ => None,
                    };
                    if let Some(a) = a {
                        c.aops.push(a);
                    }
                }
                _ => reg.push(l.clone()),
            }
        }
        c.ops = Op::parse(&reg).into_iter().filter(|o| !matches!(o, Op::Batch { .. })).collect();
        c.normalized()
    }
    fn staged(&self) -> Vec<usize> {
        self.ops.iter().filter_map(|o| if let Op::Sys { tag, .. } = o { Some(*tag) } else { None }).collect()
    }
    fn tls(&self) -> Vec<usize> {
        self.ops.iter().filter_map(|o| if let Op::Tl { tag, .. } = o { Some(*tag) } else { None }).collect()
    }
}

fn parse_panic(v: &str) -> Option<(usize, u8)> {
    let mut q = v.split(':');
    let t = q.next()?.parse().ok()?;
    Some((t, if q.next() == Some("fetch") { 2 } else { 1 }))
}

/// a registration sequence whose plan has exactly `n` stages (8 ≤ n ≤ 20 from the generator), one
/// "spine" system per stage. `style` 0: a dependency chain — every spine system names its
/// predecessor. 1: a write-write chain on one resource — every system writes `R<0>`#0 and nothing
/// else orders them; the builder finds the single group of every existing stage in conflict, joining
/// it never improves the balance of a stage with one group, so each system opens a new stage.
/// 2: a mixture — a spine system follows its predecessor by a dependency (80 %) or a barrier, and on
/// top of that declares up to two reads / writes of four resources, so that the conflict search of
/// the builder finds write-write, read-after-write and write-after-read conflicts with older
/// stages. In styles 0 and 2 a fifth of the stages get a second, independent system (it depends on
/// the spine system of the stage in front and only reads a resource the spine never touches, so it
/// becomes a second group of the stage). Zero to two thread-local systems follow.
pub fn long_plan(r: &mut Rng, n: usize, style: u64) -> Vec<Op> {
    let mut ops = vec![];
    let mut tag = 0usize;
    let mut prev: Option<String> = None;
    for _ in 0..n {
        let name = format!("s{}", tag);
        let (mut deps, mut rd, mut wr): (Vec<String>, Vec<Res>, Vec<Res>) = (vec![], vec![], vec![]);
        match style {
            0 => deps.extend(prev.iter().cloned()),
            1 => wr.push((0, 0)),
            _ => {
                match &prev {
                    Some(pn) if r.chance(80) => deps.push(pn.clone()),
                    Some(_) => ops.push(Op::Barrier),
                    None => {}
                }
                if r.chance(70) {
                    for _ in 0..1 + r.below(2) {
                        let x: Res = (0, r.below(NDY));
                        if r.chance(50) {
                            if !wr.contains(&x) {
                                wr.push(x);
                            }
                        } else if !rd.contains(&x) && !wr.contains(&x) {
                            rd.push(x);
                        }
                    }
                }
            }
        }
        let t = if r.chance(60) { 1 } else { 1 + r.below(5) as u8 };
        ops.push(Op::Sys { tag, name: name.clone(), deps, r: rd, w: wr, t });
        tag += 1;
        if let (Some(pn), true, true) = (&prev, style != 1, r.chance(20)) {
            ops.push(Op::Sys { tag, name: format!("s{}", tag), deps: vec![pn.clone()], r: vec![(1, r.below(NDY))], w: vec![], t: 1 });
            tag += 1;
        }
        prev = Some(name);
    }
    for _ in 0..r.below(3) {
        ops.push(Op::Tl { tag, r: vec![], w: vec![] });
        tag += 1;
    }
    ops
}

pub fn gen_case(seed: u64, c: u64, max_ops: u64) -> Case {
    let mut cfg = GenCfg::profile("flat");
    cfg.max_n = 8;
    cfg.p_tl = 18;
    let mut g = Gen::new(Rng::new(seed, c), cfg);
    let mut ops = g.case();
    // long plans (8 to 20 stages) and the calling context have a stream of their own
    let mut rl = Rng::new(seed, c ^ 0x1009_91a5);
    if rl.chance(22) {
        let n = 8 + rl.below(13) as usize;
        let style = rl.below(3);
        ops = long_plan(&mut rl, n, style);
    }
    let caller = match rl.below(100) {
        0..=39 => 0,
        40..=74 => OWN,
        _ => 2,
    };
    let mut r = Rng::new(seed, c ^ 0x5eed_a5c1);
    // the injected panics and the world mutations have a stream of their own
    let mut rp = Rng::new(seed, c ^ 0x70a1_1c00);
    let mut case = Case { ops, arc: r.chance(30), threads: 1 + r.below(4) as usize, caller, holds: vec![], aops: vec![] }.normalized();
    let staged = case.staged();
    for t in &staged {
        if r.chance(25) {
            case.holds.push((*t, 20 + r.below(300)));
        }
    }
    for t in case.tls() {
        if r.chance(25) {
            case.holds.push((t, 20 + r.below(200)));
        }
    }
    let n = 1 + r.below(max_ops.max(1));
    // whether the most recent dispatch is held until the caller blocks (then `spin` would not end)
    let mut block_pending = false;
    let mut any_dispatch = false;
    for _ in 0..n {
        let k = r.below(100);
        let a = if k < 30 || !any_dispatch && k < 55 {
            let mut gate = vec![];
            if !staged.is_empty() && r.chance(65) {
                for _ in 0..1 + r.below(3) {
                    let t = *r.pick(&staged);
                    if !gate.contains(&t) {
                        gate.push(t);
                    }
                }
            }
            let queue = r.chance(15);
            let rel = match r.below(100) {
                0..=44 => Rel::Obs(1 + r.below(3)),
                45..=69 => Rel::Block(100 + r.below(900)),
                _ => Rel::Timer(50 + r.below(1200)),
            };
            block_pending = (!gate.is_empty() || queue) && !matches!(rel, Rel::Timer(_));
            any_dispatch = true;
            let panic = if !staged.is_empty() && rp.chance(12) { Some((*rp.pick(&staged), 1 + rp.below(2) as u8)) } else { None };
            AOp::Dispatch { gate, rel, queue, panic }
        } else if k < 50 {
            AOp::Running
        } else if k < 55 {
            if block_pending {
                AOp::Running
            } else {
                AOp::Spin
            }
        } else if k < 64 {
            let tls = case.tls();
            if !tls.is_empty() && rp.chance(30) {
                AOp::WaitPanic { tag: *rp.pick(&tls), mode: 1 + rp.below(2) as u8 }
            } else {
                AOp::Wait
            }
        } else if k < 70 {
            AOp::WaitNoTl
        } else if k < 74 {
            AOp::World
        } else if k < 78 {
            AOp::Res
        } else if k < 82 {
            AOp::WorldMut
        } else if k < 86 {
            AOp::MutRes
        } else if k < 91 {
            if case.arc {
                AOp::World
            } else {
                AOp::Setup
            }
        } else {
            AOp::Settle
        };
        if a.blocking() && !matches!(a, AOp::Dispatch { .. }) || a == AOp::Settle {
            block_pending = false;
        }
        let was_dispatch = matches!(a, AOp::Dispatch { .. });
        if a == AOp::Setup && rp.chance(50) || rp.chance(3) {
            // resources removed / replaced through `world_mut()` in front of it
            case.aops.push(AOp::Mutate { plan: (0..NSR).map(|k| match rp.below(4) { 0 => 0, 1 | 2 => 1, _ => 9000 + 10 * rp.below(50) as usize + k + 2 }).collect() });
        }
        case.aops.push(a);
        // a dispatch that is left alone until it has finished
        if was_dispatch && r.chance(20) {
            case.aops.push(AOp::Settle);
            block_pending = false;
        }
    }
    case
}

/// the contexts in which a history step issues its operation
pub const CTX: [&str; 6] = ["idle", "held", "queued", "settled", "panicked", "panicking"];
/// the entry points of a history step: the 9 public methods, and `wait` with a panic of the
/// first / of the last thread-local system
pub const ENTRIES: usize = 11;
/// number of different history steps: (context, entry point)
pub const STEPS: u64 = (CTX.len() * ENTRIES) as u64;
/// number of fixed plan / gate / pool / world variants of a history (the last two use `Arc<World>`,
/// where `setup` is not available)
pub const PLANS: u64 = 10;
/// plans × the two places of a panic (inside `run` / in `fetch`)
pub const VARIANTS: u64 = 2 * PLANS;

fn entry(code: usize, tls: &[usize], mode: u8) -> AOp {
    match code {
        0 => AOp::Dispatch { gate: vec![], rel: Rel::Timer(0), queue: false, panic: None },
        1 => AOp::Wait,
        2 => AOp::WaitNoTl,
        3 => AOp::Running,
        4 => AOp::World,
        5 => AOp::WorldMut,
        6 => AOp::Setup,
        7 => AOp::Res,
        8 => AOp::MutRes,
        9 => match tls.first() {
            Some(t) => AOp::WaitPanic { tag: *t, mode },
            None => AOp::Wait,
        },
        _ => match tls.last() {
            Some(t) => AOp::WaitPanic { tag: *t, mode },
            None => AOp::Wait,
        },
    }
}

/// the `idx`-th history of `depth` steps, each step = one entry point issued in one of six
/// contexts: `idle` (no new dispatch), `held` (a fresh dispatch with a system held inside `run`
/// until the entry point has returned or the caller is seen parked in it), `queued` (a fresh
/// dispatch whose job cannot start before that), `settled` (a fresh dispatch that has finished
/// on its own and has not been looked at), `panicked` (a fresh dispatch in which a system
/// panicked; the harness has seen the pool's panic handler run, no dispatcher method),
/// `panicking` (a fresh dispatch in which a system panics while a sibling — or the system itself,
/// or a system of an earlier stage — is held inside `run` until the entry point has returned or
/// the caller is seen parked in it). `variant` picks the plan, the held / panicking system, the
/// pool size, the world type and whether panics happen inside `run` or in `fetch`. A `setup`
/// step is preceded by a `mutate` (resources removed / replaced through `world_mut()`).
/// `caller` is the calling context of the whole history (`CALLERS`): the thread that builds the
/// dispatcher and issues every step.
pub fn hist_case(idx: u64, depth: u64, variant: u64, caller: usize) -> Case {
    let mut steps = vec![];
    let mut x = idx;
    for _ in 0..depth {
        steps.push(x % STEPS);
        x /= STEPS;
    }
    steps.reverse();
    let uses_setup = steps.iter().any(|s| (s % ENTRIES as u64) == 6);
    // (plan, gate, threads, arc, panicking system, held while it panics)
    let a = ["sys 0 7330 - - 0.0 1", "sys 1 7331 - 1.0 - 1", "sys 2 7332 7330 0.0 - 1", "tl 3 - -"];
    let b = ["sys 0 7330 - - 0.0 1"];
    let c = ["sys 0 7330 - - 0.0 1", "sys 1 7331 - - 0.0 1", "sys 2 7332 - - 0.0 1", "tl 3 - -", "tl 4 - -"];
    // long plans. `d`: nine systems that all write one resource — a write-write chain, nine stages,
    // one system each; a thread-local system. `e`: a dependency chain of twelve systems (twelve
    // stages), a second system in stages 4 and 8 (each depends on the spine system in front of its
    // stage and only reads), two thread-local systems
    let mut d: Vec<String> = (0..9).map(|k| format!("sys {} {} - - 0.0 1", k, hex(&format!("s{}", k)))).collect();
    d.push("tl 9 - -".into());
    let mut e: Vec<String> = (0..12).map(|k| format!("sys {} {} {} - - 1", k, hex(&format!("s{}", k)), if k == 0 { "-".to_string() } else { hex(&format!("s{}", k - 1)) })).collect();
    e.push(format!("sys 12 {} {} 1.0 - 1", hex("s12"), hex("s3")));
    e.push(format!("sys 13 {} {} 1.1 - 1", hex("s13"), hex("s7")));
    e.push("tl 14 - -".into());
    e.push("tl 15 - -".into());
    let fixed = |p: &[&str]| -> Vec<String> { p.iter().map(|s| s.to_string()).collect() };
    let variants: [(Vec<String>, &[usize], usize, bool, usize, &[usize]); PLANS as usize] = [
        (fixed(&a), &[0], 2, false, 0, &[1]),
        (fixed(&a), &[2], 1, false, 0, &[0]),
        (fixed(&b), &[0], 1, false, 0, &[0]),
        (fixed(&c), &[2], 3, false, 1, &[0]),
        (fixed(&a), &[1], 4, false, 1, &[0]),
        (fixed(&c), &[1], 2, false, 1, &[1]),
        // held: the system of the last stage / a system in the middle and the extra system of stage 8
        (d, &[8], 2, false, 7, &[7]),
        (e, &[5, 13], 3, false, 12, &[4]),
        (fixed(&a), &[2], 2, true, 0, &[1]),
        (fixed(&c), &[0, 2], 3, true, 0, &[0]),
    ];
    let nv = if uses_setup { PLANS - 2 } else { PLANS };
    let (lines, gate, threads, arc, pan, pheld) = variants[(variant % nv) as usize].clone();
    let mode = 1 + ((variant / nv) % 2) as u8;
    let mut case = Case { ops: Op::parse(&lines), arc, threads, caller: caller.min(2), holds: vec![], aops: vec![] }.normalized();
    let tls = case.tls();
    let mut setups = 0;
    for s in steps {
        let (ctx, op) = ((s / ENTRIES as u64) as usize, (s % ENTRIES as u64) as usize);
        if op == 6 && !arc {
            // even: everything the hooks provide is removed; odd: half removed, half replaced
            let odd = (variant / nv + setups) % 2 == 1;
            case.aops.push(AOp::Mutate { plan: (0..NSR).map(|k| if !odd || k % 2 == 0 { 1 } else { 9000 + 10 * setups as usize + k + 2 }).collect() });
            setups += 1;
        }
        match ctx {
            1 => case.aops.push(AOp::Dispatch { gate: gate.to_vec(), rel: Rel::Obs(1), queue: false, panic: None }),
            2 => case.aops.push(AOp::Dispatch { gate: vec![], rel: Rel::Obs(1), queue: true, panic: None }),
            3 => {
                case.aops.push(AOp::Dispatch { gate: vec![], rel: Rel::Timer(0), queue: false, panic: None });
                case.aops.push(AOp::Settle);
            }
            4 => {
                case.aops.push(AOp::Dispatch { gate: vec![], rel: Rel::Timer(0), queue: false, panic: Some((pan, mode)) });
                case.aops.push(AOp::Settle);
            }
            5 => case.aops.push(AOp::Dispatch { gate: pheld.to_vec(), rel: Rel::Obs(1), queue: false, panic: Some((pan, mode)) }),
            _ => {}
        }
        case.aops.push(entry(op, &tls, mode));
    }
    case
}

/// one entry of the merged log
#[derive(Clone, Debug, PartialEq)]
pub enum Ent {
    Call(usize),
    Ret(usize, bool),
    /// F / D (or P) of system `tag` on thread `th`; `d` = how many events of the same kind and
    /// tag precede it (= the dispatch number for ordinary systems)
    Sys { k: char, tag: usize, th: char, d: usize },
    /// the harness has seen the systems' own completion signal (no dispatcher method involved)
    Quiet,
    /// the call of the entry point ended by unwinding: 0 = "Sender dropped", 1 = the payload of an
    /// injected panic, 2 = anything else
    Unwound(usize, usize),
    /// the setup hook of system `tag` was called
    Hook { tag: usize, th: char },
    /// the harness has seen the pool's panic handler run for the job (no dispatcher method involved)
    Gone,
    /// harness bookkeeping, not events of the dispatcher: what `mutate` did to the setup resources
    /// (per `Sr<k>`: 0 left alone, 1 removed, v + 2 set to v) / what the world held of them when
    /// it was looked at after `setup` (0 absent, v + 1)
    Mutated(Vec<usize>),
    Probed(Vec<usize>),
}
impl Ent {
    pub fn show(&self) -> String {
        match self {
            Ent::Call(o) => format!("call {}", OPS[*o]),
            Ent::Ret(o, v) => format!("ret {} {}", OPS[*o], *v as u8),
            Ent::Sys { k, tag, th, d } => format!("ev {} {} {} {}", k, tag, th, d),
            Ent::Quiet => "quiet".into(),
            Ent::Unwound(o, _) => format!("unwound {}", OPS[*o]),
            Ent::Hook { tag, th } => format!("hook {} {}", tag, th),
            Ent::Gone => "gone".into(),
            Ent::Mutated(v) => format!("(mutate Sr<0..>: {})", v.iter().map(|p| match *p { 0 => "-".to_string(), 1 => "removed".to_string(), x => format!("set to {}", x - 2) }).collect::<Vec<_>>().join(", ")),
            Ent::Probed(v) => format!("(the world has Sr<0..>: {})", v.iter().map(|p| if *p == 0 { "absent".to_string() } else { (p - 1).to_string() }).collect::<Vec<_>>().join(", ")),
        }
    }
    /// what the Lean acceptor is told (harness bookkeeping is not an event of the model)
    pub fn model_line(&self) -> Option<String> {
        match self {
            Ent::Mutated(_) | Ent::Probed(_) => None,
            e => Some(e.show()),
        }
    }
}

#[derive(Default)]
pub struct RunOut {
    pub log: Vec<Ent>,
    /// for every `Ret` entry: (index in `log`, systems inside `run`, `run`s of ordinary systems
    /// that have returned) — both read at the moment the call returned, before anything else
    pub snaps: Vec<(usize, usize, u64)>,
    pub panicked: Option<String>,
    /// the panic message of every `Unwound` entry, in order
    pub unwinds: Vec<String>,
    pub gone_seen: u64,
    pub gone_missed: u64,
    /// a call that stayed parked although nothing was left to wait for: (operation, evidence)
    pub hang: Option<(String, String)>,
    /// the case was given up after a long time without any progress (time bound only)
    pub stall: Option<String>,
    pub watchdog: bool,
    pub runs: BTreeMap<usize, u64>,
    pub gate_waits: u64,
    /// how held dispatches were released: the caller was seen parked inside the operation /
    /// the operation(s) had returned / `settle` / the bound expired
    pub rel_blocked: u64,
    pub rel_returned: u64,
    pub rel_settle: u64,
    pub rel_fallback: u64,
    pub quiet_seen: u64,
    pub quiet_missed: u64,
    pub pool_idle_seen: u64,
}

enum Disp {
    Plain(AsyncDispatcher<'static, World>),
    Shared(AsyncDispatcher<'static, Arc<World>>),
}
macro_rules! with_d {
    ($d:expr, $x:ident => $e:expr) => {
        match $d {
            Disp::Plain($x) => $e,
            Disp::Shared($x) => $e,
        }
    };
}

/// the pools of the engine: `pools[n - 1]` has n threads and is the dispatcher's pool of a case
/// with `threads = n`; `foreign` is the pool whose worker drives the dispatcher in the `other`
/// calling context. All have a counting panic handler.
pub struct PoolSet {
    pub pools: Vec<Pool>,
    /// OS thread ids of the workers of each pool (empty / 0 when they cannot be determined)
    pub tids: Vec<Vec<u64>>,
    pub foreign: Pool,
}

/// what the engine needs besides the case
pub struct Env {
    pub set: Arc<Mutex<PoolSet>>,
    pub watchdog_ms: u64,
    /// a call is reported as stuck after it has been seen parked, with an idle pool, nothing
    /// held and no system inside `run`, at every sample over this many milliseconds
    pub hang_ms: u64,
    /// number of pool jobs that ended in a panic (counted by the pools' panic handler)
    pub pool_panics: Arc<AtomicU64>,
}
impl Env {
    pub fn new(watchdog_ms: u64, hang_ms: u64) -> Env {
        let pool_panics = Arc::new(AtomicU64::new(0));
        let pools: Vec<Pool> = (1..=4).map(|n| make_counting_pool(n, pool_panics.clone())).collect();
        let tids = pools.iter().map(|p| p.broadcast(|_| os_tid())).collect();
        let foreign = make_counting_pool(2, pool_panics.clone());
        Env { set: Arc::new(Mutex::new(PoolSet { pools, tids, foreign })), watchdog_ms, hang_ms, pool_panics }
    }
    /// the same pools, another observation period
    pub fn with_hang_ms(&self, hang_ms: u64) -> Env {
        Env { set: self.set.clone(), watchdog_ms: self.watchdog_ms, hang_ms, pool_panics: self.pool_panics.clone() }
    }
    /// a worker of pool `pi` / of the foreign pool is lost for good (it drove a dispatcher whose
    /// call never returned and was abandoned): later cases get a fresh pool
    fn replace_lost(&self, pi: usize, foreign: bool) {
        let mut set = self.set.lock().unwrap();
        if foreign {
            set.foreign = make_counting_pool(2, self.pool_panics.clone());
        } else if pi < set.pools.len() {
            let p = make_counting_pool(pi + 1, self.pool_panics.clone());
            set.tids[pi] = p.broadcast(|_| os_tid());
            set.pools[pi] = p;
        }
    }
}

/// a dispatch whose systems (or whose job) the harness keeps from finishing
struct Hold {
    disp: u64,
    gate: Vec<usize>,
    latch: Option<Arc<Latch>>,
    /// operations still to be observed before the release
    left: u64,
}

/// shared between the thread that owns the dispatcher and the engine's thread that watches it
struct Watch {
    /// sequence number of the dispatcher call the caller has entered / that has returned
    entered: AtomicU64,
    returned: AtomicU64,
    cur_op: AtomicUsize,
    tid: AtomicU64,
    holds: Mutex<Vec<Hold>>,
    /// helper threads (timer / legacy block releases) that have not opened their gates yet
    legacy_pending: AtomicU64,
    rel_blocked: AtomicU64,
    rel_returned: AtomicU64,
    rel_settle: AtomicU64,
    rel_fallback: AtomicU64,
    quiet_seen: AtomicU64,
    quiet_missed: AtomicU64,
    pool_idle_seen: AtomicU64,
    abandoned: AtomicBool,
}
impl Watch {
    fn release_all(&self, gates: &Gates) -> usize {
        let hs: Vec<Hold> = std::mem::take(&mut *self.holds.lock().unwrap());
        for h in &hs {
            for t in &h.gate {
                gates.open(*t, h.disp);
            }
            if let Some(l) = &h.latch {
                l.open();
            }
        }
        hs.len()
    }
    /// an operation has returned: holds that were to last over it are released
    fn op_returned(&self, gates: &Gates) {
        let mut due = vec![];
        {
            let mut hs = self.holds.lock().unwrap();
            let mut i = 0;
            while i < hs.len() {
                hs[i].left = hs[i].left.saturating_sub(1);
                if hs[i].left == 0 {
                    due.push(hs.remove(i));
                } else {
                    i += 1;
                }
            }
        }
        for h in &due {
            for t in &h.gate {
                gates.open(*t, h.disp);
            }
            if let Some(l) = &h.latch {
                l.open();
            }
            self.rel_returned.fetch_add(1, SeqCst);
        }
    }
}

fn all_parked(tids: &[u64]) -> Option<bool> {
    if tids.is_empty() {
        return None;
    }
    let mut all = true;
    for t in tids {
        match thread_state(*t) {
            Some('S') => {}
            Some(_) => all = false,
            None => return None,
        }
    }
    Some(all)
}

/// what the thread owning the dispatcher reports back
#[derive(Default)]
pub struct CallerOut {
    /// the dispatcher could not be built
    pub failed: Option<String>,
    /// the panic message of every call that unwound, in the order of the `U` entries of the log
    pub unwinds: Vec<String>,
    pub gone_seen: u64,
    pub gone_missed: u64,
}

/// 0 = "Sender dropped", 1 = the payload of a panic the harness injected, 2 = anything else
fn unwind_kind(msg: &str) -> usize {
    if msg.contains("Sender dropped") {
        0
    } else if msg.contains("harness panic") {
        1
    } else {
        2
    }
}

/// the part of `run_real` that runs on the thread owning the dispatcher
fn caller_body(case: &Case, shared: &Arc<Shared>, gates: &Arc<Gates>, w: &Arc<Watch>, pool: &Pool, ptids: &[u64], skip: &[usize], watchdog_ms: u64, pool_panics: &Arc<AtomicU64>) -> CallerOut {
    let mut cout = CallerOut::default();
    // the calling thread of this case is the thread this function runs on — in the `own` / `other`
    // contexts a pool worker (inside `install`), not the thread that was spawned for the case
    shared.set_caller();
    let me = os_tid();
    w.tid.store(me, SeqCst);
    // in the `own` context the calling thread is itself one of the pool's workers: seen from here
    // "every worker is parked" is a question about the others (this one is running)
    let others: Vec<u64> = ptids.iter().cloned().filter(|t| *t != me).collect();
    let ptids: &[u64] = &others;
    let staged: Vec<usize> = case.staged().into_iter().filter(|t| !skip.contains(t)).collect();
    let tls = case.tls();
    let built = catch_unwind(AssertUnwindSafe(|| {
        let b = build_gated(&case.ops, shared, gates, pool, skip);
        if case.arc {
            Disp::Shared(b.build_async(Arc::new(full_world())))
        } else {
            Disp::Plain(b.build_async(full_world()))
        }
    }));
    let mut d = match built {
        Ok(d) => d,
        Err(p) => {
            cout.failed = Some(format!("build_async panicked: {}", panic_message(&p)));
            return cout;
        }
    };
    // number of blocking operations the caller has entered so far (timer / block releases)
    let entered = Arc::new(AtomicU64::new(0));
    let mut helpers = vec![];
    let mut aops = case.aops.clone();
    if !matches!(aops.last(), Some(AOp::Wait) | Some(AOp::WaitNoTl) | Some(AOp::World) | Some(AOp::WorldMut) | Some(AOp::Setup) | Some(AOp::Res) | Some(AOp::MutRes)) {
        aops.push(AOp::Wait);
    }
    let mut n_dispatch = 0u64;
    let mut seq = 0u64;
    // the value of the pool's panic counter when a dispatch with an injected panic returned: the
    // job of that dispatch will end in the pool's panic handler
    let mut armed: Option<u64> = None;
    let fin = |gates: &Gates| -> u64 { staged.iter().map(|t| gates.done[*t].load(SeqCst)).sum() };
    // one call of a dispatcher method: logged as C … R (returned) or C … U (unwound), with the
    // counters read at the very moment the call ended
    let mut call = |d: &mut Disp, seq: &mut u64, unwinds: &mut Vec<String>, code: usize, f: &mut dyn FnMut(&mut Disp) -> bool| -> Option<bool> {
        shared.push('C', vec![code]);
        *seq += 1;
        w.cur_op.store(code, SeqCst);
        w.entered.store(*seq, SeqCst);
        let res = catch_unwind(AssertUnwindSafe(|| f(d)));
        // the state at the moment of the return, before anything else is done
        let inside = shared.inside.load(SeqCst);
        let done = fin(gates);
        w.returned.store(*seq, SeqCst);
        match res {
            Ok(v) => {
                shared.push('R', vec![code, v as usize, inside, done as usize]);
                Some(v)
            }
            Err(p) => {
                let msg = panic_message(&p);
                shared.push('U', vec![code, unwind_kind(&msg), inside, done as usize]);
                unwinds.push(msg);
                None
            }
        }
    };
    for a in &aops {
        if *a == AOp::Settle {
            // let everything finish on its own: no method of the dispatcher is called
            if w.release_all(gates) > 0 {
                w.rel_settle.fetch_add(1, SeqCst);
            }
            // (timer / block releases take it for the caller's next blocking operation)
            entered.fetch_add(1, SeqCst);
            let t0 = Instant::now();
            let mut idle_run = 0;
            let complete = loop {
                let over = match armed {
                    // a job in which a system panics is over when the pool's panic handler has run
                    Some(before) => pool_panics.load(SeqCst) > before,
                    None => staged.iter().all(|t| gates.done[*t].load(SeqCst) >= n_dispatch),
                };
                if over {
                    break true;
                }
                if t0.elapsed() > Duration::from_millis(watchdog_ms) {
                    break false;
                }
                // nothing will finish any more when every worker is parked and nothing is held
                // (a dispatcher that lost a job); not a verdict here — the next return is judged
                if w.legacy_pending.load(SeqCst) == 0 && all_parked(ptids) == Some(true) {
                    idle_run += 1;
                    if idle_run >= 8 {
                        break false;
                    }
                    std::thread::sleep(Duration::from_micros(200));
                } else {
                    idle_run = 0;
                    std::thread::sleep(Duration::from_micros(20));
                }
            };
            if complete && armed.is_some() {
                shared.push('G', vec![]);
                cout.gone_seen += 1;
            } else if armed.is_some() {
                cout.gone_missed += 1;
            } else if complete {
                shared.push('Q', vec![]);
                w.quiet_seen.fetch_add(1, SeqCst);
                // … and until the job itself is over (its worker parked again): steering only,
                // nothing is concluded from it
                let t1 = Instant::now();
                let mut parked = 0;
                while t1.elapsed() < Duration::from_millis(20) {
                    match all_parked(ptids) {
                        Some(true) => {
                            parked += 1;
                            if parked >= 2 {
                                w.pool_idle_seen.fetch_add(1, SeqCst);
                                break;
                            }
                        }
                        Some(false) => parked = 0,
                        None => {
                            std::thread::sleep(Duration::from_micros(300));
                            break;
                        }
                    }
                    std::thread::sleep(Duration::from_micros(30));
                }
            } else {
                w.quiet_missed.fetch_add(1, SeqCst);
            }
            continue;
        }
        let polls = if *a == AOp::Spin { 60 } else { 1 };
        for _ in 0..polls {
            let mut latch = None;
            if let AOp::Dispatch { gate, queue, panic, .. } = a {
                for t in gate {
                    if staged.contains(t) {
                        gates.close(*t, n_dispatch);
                    }
                }
                if let Some((t, mode)) = panic {
                    if staged.contains(t) && armed.is_none() {
                        // system `t` panics in the run that `n_dispatch` earlier ones precede
                        shared.behav[*t].panic_only_run.store(n_dispatch + 1, SeqCst);
                        shared.behav[*t].panic_mode.store(*mode as usize, SeqCst);
                    }
                }
                if *queue {
                    // one harness job per pool thread, injected in front of the dispatcher's job
                    let l = Latch::new();
                    for _ in 0..case.threads {
                        let l2 = l.clone();
                        pool.spawn(move || {
                            l2.wait(watchdog_ms);
                        });
                    }
                    latch = Some(l);
                }
                // registered before the call: if `dispatch` itself has to wait (for the previous
                // job, which may need the occupied threads) the watcher can release it
                let gate: Vec<usize> = gate.iter().cloned().filter(|t| staged.contains(t)).collect();
                if !gate.is_empty() || latch.is_some() {
                    let left = if let AOp::Dispatch { rel: Rel::Obs(n), .. } = a { *n + 1 } else { u64::MAX };
                    w.holds.lock().unwrap().push(Hold { disp: n_dispatch, gate, latch: latch.clone(), left });
                }
            }
            if let AOp::WaitPanic { tag, mode } = a {
                if tls.contains(tag) {
                    // only the calling thread runs thread-local systems: their counters are exact
                    let b = &shared.behav[*tag];
                    b.panic_only_run.store(b.runs.load(SeqCst) + 1, SeqCst);
                    b.panic_mode.store(*mode as usize, SeqCst);
                }
            }
            if a.blocking() {
                entered.fetch_add(1, SeqCst);
            }
            let panics_before = pool_panics.load(SeqCst);
            #[allow(deprecated)]
            // (`setup` needs `BorrowMut<World>`: with `Arc<World>` the script calls `world` instead)
            let code = if case.arc && *a == AOp::Setup { 4 } else { a.code() };
            let res = call(&mut d, &mut seq, &mut cout.unwinds, code, &mut |d: &mut Disp| match a {
                AOp::Dispatch { .. } => {
                    with_d!(d, x => x.dispatch());
                    false
                }
                AOp::Running | AOp::Spin => with_d!(d, x => x.running()),
                AOp::Wait | AOp::WaitPanic { .. } => {
                    with_d!(d, x => x.wait());
                    false
                }
                AOp::WaitNoTl => {
                    with_d!(d, x => x.wait_without_tl());
                    false
                }
                AOp::World => {
                    with_d!(d, x => {
                        let _ = x.world();
                    });
                    false
                }
                AOp::Res => {
                    with_d!(d, x => {
                        let _ = x.res();
                    });
                    false
                }
                AOp::WorldMut => {
                    with_d!(d, x => {
                        let _ = x.world_mut();
                    });
                    false
                }
                AOp::Mutate { plan } => {
                    match d {
                        Disp::Plain(x) => sr_mutate(x.world_mut(), plan),
                        Disp::Shared(x) => {
                            let _ = x.world_mut();
                        }
                    }
                    false
                }
                AOp::MutRes => {
                    with_d!(d, x => {
                        let _ = x.mut_res();
                    });
                    false
                }
                AOp::Setup => {
                    match d {
                        Disp::Plain(x) => x.setup(),
                        Disp::Shared(x) => {
                            let _ = x.world();
                        }
                    }
                    false
                }
                AOp::Settle => false,
            });
            if let AOp::WaitPanic { tag, .. } = a {
                if let Some(b) = shared.behav.get(*tag) {
                    if tls.contains(tag) {
                        b.panic_mode.store(0, SeqCst);
                    }
                }
            }
            if let (AOp::Mutate { plan }, Some(_), false) = (a, res, case.arc) {
                shared.push('M', plan.clone());
            }
            if let (AOp::Setup, Some(_), false) = (a, res, case.arc) {
                // what `setup` left in the world: a `world()` call like any other (on the unchanged
                // crate it finds `Data::Inner` and returns at once)
                let mut seen = vec![];
                let r2 = call(&mut d, &mut seq, &mut cout.unwinds, 4, &mut |d: &mut Disp| {
                    if let Disp::Plain(x) = d {
                        seen = sr_probe(x.world());
                    }
                    false
                });
                if r2.is_some() {
                    shared.push('V', seen);
                }
            }
            w.op_returned(gates);
            if let AOp::Dispatch { gate, rel, panic, .. } = a {
                let my = n_dispatch;
                if res.is_none() {
                    // no job was spawned: what was prepared for it is taken back
                    let mine: Vec<Hold> = {
                        let mut hs = w.holds.lock().unwrap();
                        let (m, rest): (Vec<Hold>, Vec<Hold>) = std::mem::take(&mut *hs).into_iter().partition(|h| h.disp == my);
                        *hs = rest;
                        m
                    };
                    for h in &mine {
                        for t in &h.gate {
                            gates.open(*t, my);
                        }
                        if let Some(l) = &h.latch {
                            l.open();
                        }
                    }
                    if let Some(l) = &latch {
                        l.open();
                    }
                    for t in gate {
                        gates.open(*t, my);
                    }
                    if let (Some((t, _)), None) = (panic, armed) {
                        if let Some(b) = shared.behav.get(*t) {
                            b.panic_mode.store(0, SeqCst);
                        }
                    }
                    continue;
                }
                n_dispatch += 1;
                if let Some((t, _)) = panic {
                    if staged.contains(t) && armed.is_none() {
                        armed = Some(panics_before);
                    }
                }
                let gate: Vec<usize> = gate.iter().cloned().filter(|t| staged.contains(t)).collect();
                if matches!(rel, Rel::Obs(_)) && !gate.is_empty() && latch.is_none() {
                    // "certainly still running": go on only when a held system is really inside
                    // `run`, waiting at its gate (or the hold is gone / nothing will come any more)
                    let t0 = Instant::now();
                    let mut idle_run = 0;
                    while gates.at_gate.load(SeqCst) == 0 && t0.elapsed() < Duration::from_millis(watchdog_ms) {
                        if !w.holds.lock().unwrap().iter().any(|h| h.disp == my) {
                            break;
                        }
                        if all_parked(ptids) == Some(true) {
                            idle_run += 1;
                            if idle_run >= 8 {
                                break;
                            }
                            std::thread::sleep(Duration::from_micros(200));
                        } else {
                            idle_run = 0;
                            std::thread::yield_now();
                        }
                    }
                }
                if !matches!(rel, Rel::Obs(_)) && (!gate.is_empty() || latch.is_some()) {
                    // timer / block release: a helper opens the gates (the registered hold stays
                    // until then, so that the watcher can still release it when the caller parks)
                    let (g, e, rel) = (gates.clone(), entered.clone(), rel.clone());
                    let seen = entered.load(SeqCst);
                    let w2 = w.clone();
                    w.legacy_pending.fetch_add(1, SeqCst);
                    helpers.push(std::thread::spawn(move || {
                        let t0 = Instant::now();
                        let us = match rel {
                            Rel::Timer(us) | Rel::Obs(us) => us,
                            Rel::Block(us) => {
                                while e.load(SeqCst) <= seen && t0.elapsed() < Duration::from_millis(1000) {
                                    std::thread::sleep(Duration::from_micros(20));
                                }
                                us
                            }
                        };
                        std::thread::sleep(Duration::from_micros(us));
                        w2.holds.lock().unwrap().retain(|h| h.disp != my);
                        for t in gate {
                            g.open(t, my);
                        }
                        if let Some(l) = latch {
                            l.open();
                        }
                        w2.legacy_pending.fetch_sub(1, SeqCst);
                    }));
                }
            }
            if *a == AOp::Spin {
                if res != Some(true) {
                    break;
                }
                std::thread::sleep(Duration::from_micros(50));
            }
        }
    }
    // never leave anything blocked behind
    entered.fetch_add(1000, SeqCst);
    w.release_all(gates);
    gates.open_all();
    for h in helpers {
        let _ = h.join();
    }
    gates.open_all();
    seq += 1;
    w.cur_op.store(2, SeqCst);
    w.entered.store(seq, SeqCst);
    let _ = catch_unwind(AssertUnwindSafe(|| with_d!(&mut d, x => x.wait_without_tl())));
    w.returned.store(seq, SeqCst);
    drop(d);
    if let Some(before) = armed {
        // the panic handler of this case's job must not be taken for the next case's
        let t0 = Instant::now();
        let mut idle_run = 0;
        while pool_panics.load(SeqCst) <= before && t0.elapsed() < Duration::from_millis(watchdog_ms) {
            if all_parked(ptids) == Some(true) {
                idle_run += 1;
                if idle_run >= 8 {
                    break;
                }
                std::thread::sleep(Duration::from_micros(200));
            } else {
                idle_run = 0;
                std::thread::sleep(Duration::from_micros(20));
            }
        }
    }
    cout
}

/// runs the operation sequence on the real dispatcher (on a thread of its own) and watches it;
/// everything is logged on `shared`
pub fn run_real(case: &Case, shared: &Arc<Shared>, env: &Env, skip: &[usize]) -> RunOut {
    let ntags = Op::max_tag(&case.ops) + 1;
    let gates = Gates::new(ntags, env.watchdog_ms);
    shared.reset_behaviour();
    shared.reset_state();
    shared.take_log();
    shared.inside.store(0, SeqCst);
    for (t, us) in &case.holds {
        if let Some(b) = shared.behav.get(*t) {
            b.hold_us.store(*us, SeqCst);
        }
    }
    let (pi, pool, ptids, foreign) = {
        let set = env.set.lock().unwrap();
        let pi = (case.threads.max(if case.caller == OWN { 2 } else { 1 }) - 1).min(set.pools.len() - 1);
        let ptids: Vec<u64> = set.tids[pi].iter().cloned().filter(|t| *t != 0).collect();
        let ptids = if ptids.len() == set.tids[pi].len() { ptids } else { vec![] };
        (pi, set.pools[pi].clone(), ptids, set.foreign.clone())
    };
    let w = Arc::new(Watch {
        entered: AtomicU64::new(0),
        returned: AtomicU64::new(0),
        cur_op: AtomicUsize::new(0),
        tid: AtomicU64::new(0),
        holds: Mutex::new(vec![]),
        legacy_pending: AtomicU64::new(0),
        rel_blocked: AtomicU64::new(0),
        rel_returned: AtomicU64::new(0),
        rel_settle: AtomicU64::new(0),
        rel_fallback: AtomicU64::new(0),
        quiet_seen: AtomicU64::new(0),
        quiet_missed: AtomicU64::new(0),
        pool_idle_seen: AtomicU64::new(0),
        abandoned: AtomicBool::new(false),
    });
    let mut out = RunOut::default();
    let (tx, rx) = mpsc::channel::<CallerOut>();
    let handle = {
        let (case, shared, gates, w, pool, ptids, skip, wd, pp) = (case.clone(), shared.clone(), gates.clone(), w.clone(), pool.clone(), ptids.clone(), skip.to_vec(), env.watchdog_ms, env.pool_panics.clone());
        std::thread::Builder::new().name("asyncd-caller".into()).spawn(move || {
            // the calling context: the script (building the dispatcher included) runs on this
            // thread, on a worker of the dispatcher's own pool, or on a worker of another pool
            let r = match case.caller {
                OWN => pool.install(|| caller_body(&case, &shared, &gates, &w, &pool, &ptids, &skip, wd, &pp)),
                2 => foreign.install(|| caller_body(&case, &shared, &gates, &w, &pool, &ptids, &skip, wd, &pp)),
                _ => caller_body(&case, &shared, &gates, &w, &pool, &ptids, &skip, wd, &pp),
            };
            let _ = tx.send(r);
        })
    };
    let handle = match handle {
        Ok(h) => h,
        Err(e) => {
            out.panicked = Some(format!("harness: cannot start the caller thread: {}", e));
            return out;
        }
    };
    // watch the caller: release what is held once it has been seen parked inside a call (or the
    // bound expires); notice a call that stays parked although nothing is left to wait for
    let (mut cur, mut t_enter, mut parked) = (0u64, Instant::now(), 0u32);
    let mut stuck_since: Option<Instant> = None;
    let mut stuck_samples = 0u64;
    let (mut last_look, mut last_progress, mut last_sig) = (Instant::now(), Instant::now(), (0u64, 0u64, 0usize));
    loop {
        match rx.recv_timeout(Duration::from_micros(30)) {
            Ok(p) => {
                out.panicked = p.failed;
                out.unwinds = p.unwinds;
                out.gone_seen = p.gone_seen;
                out.gone_missed = p.gone_missed;
                let _ = handle.join();
                break;
            }
            Err(mpsc::RecvTimeoutError::Disconnected) => {
                out.panicked = Some("harness: the caller thread ended without a result".into());
                let _ = handle.join();
                break;
            }
            Err(mpsc::RecvTimeoutError::Timeout) => {}
        }
        let e = w.entered.load(SeqCst);
        let r = w.returned.load(SeqCst);
        // nothing is waited for for ever, whatever the thread states say (or when they cannot be
        // read): a case in which nothing at all has happened for this long — no call entered or
        // returned, no event logged — is given up (every wait of the harness itself is bounded by
        // the gate watchdog, far below this)
        if last_look.elapsed() > Duration::from_millis(100) {
            last_look = Instant::now();
            let sig = (e, r, shared.log.lock().unwrap().len());
            if sig != last_sig {
                last_sig = sig;
                last_progress = Instant::now();
            } else if last_progress.elapsed() > Duration::from_millis((4 * env.hang_ms).max(4 * env.watchdog_ms).max(20_000)) {
                let op = if e > r { format!("inside {}()", OPS[w.cur_op.load(SeqCst).min(OPS.len() - 1)]) } else { "between two calls".to_string() };
                out.stall = Some(format!(
                    "the case was given up: nothing has happened for {} ms (no call entered or returned, no event logged) while the calling thread is {}; time bound only — the thread states do not show an idle pool, or cannot be read, so this is not a verdict about the call: calling thread state {:?}, systems inside run {}, held by the harness {}, runs finished per system: {:?}",
                    last_progress.elapsed().as_millis(),
                    op,
                    thread_state(w.tid.load(SeqCst)),
                    shared.inside.load(SeqCst),
                    w.holds.lock().unwrap().len(),
                    gates.done.iter().map(|c| c.load(SeqCst)).collect::<Vec<_>>()
                ));
                w.abandoned.store(true, SeqCst);
                drop(handle);
                // (the pool may still be occupied by whatever does not end: later cases get fresh ones)
                env.replace_lost(pi, false);
                if case.caller == 2 {
                    env.replace_lost(pi, true);
                }
                break;
            }
        }
        if e <= r {
            stuck_since = None;
            continue;
        }
        if e != cur {
            cur = e;
            t_enter = Instant::now();
            parked = 0;
            stuck_since = None;
        }
        let tid = w.tid.load(SeqCst);
        let holding = !w.holds.lock().unwrap().is_empty();
        if holding {
            stuck_since = None;
            let st = thread_state(tid);
            parked = if st == Some('S') { parked + 1 } else { 0 };
            let el = t_enter.elapsed();
            if parked >= 2 {
                if w.returned.load(SeqCst) < e && w.release_all(&gates) > 0 {
                    w.rel_blocked.fetch_add(1, SeqCst);
                }
            } else if st.is_none() && el > Duration::from_micros(500) || el > Duration::from_millis(50) {
                if w.release_all(&gates) > 0 {
                    w.rel_fallback.fetch_add(1, SeqCst);
                }
            }
            continue;
        }
        // nothing is held by the harness any more
        if t_enter.elapsed() < Duration::from_millis(20) {
            continue;
        }
        let quiet = w.legacy_pending.load(SeqCst) == 0
            && shared.inside.load(SeqCst) == 0
            && thread_state(tid) == Some('S')
            && all_parked(&ptids) == Some(true)
            && w.holds.lock().unwrap().is_empty();
        if !quiet {
            stuck_since = None;
            stuck_samples = 0;
            continue;
        }
        stuck_samples += 1;
        let since = *stuck_since.get_or_insert_with(Instant::now);
        if since.elapsed() > Duration::from_millis(env.hang_ms) && w.returned.load(SeqCst) < e {
            let op = OPS[w.cur_op.load(SeqCst).min(OPS.len() - 1)];
            out.hang = Some((
                op.to_string(),
                format!(
                    "the calling thread has been parked inside {}() for {} ms ({} consecutive samples) while no system is inside run, nothing is held by the harness and every pool worker is parked; runs finished per system: {:?}",
                    op,
                    since.elapsed().as_millis(),
                    stuck_samples,
                    gates.done.iter().map(|c| c.load(SeqCst)).collect::<Vec<_>>()
                ),
            ));
            // the thread (and the dispatcher it owns) is abandoned; when that thread is a pool
            // worker the pool has lost it for good, so later cases get a fresh pool
            w.abandoned.store(true, SeqCst);
            drop(handle);
            if case.caller != 0 {
                env.replace_lost(pi, case.caller == 2);
            }
            break;
        }
        std::thread::sleep(Duration::from_micros(500));
    }
    gates.open_all();
    out.watchdog = gates.watchdog_fired.load(SeqCst);
    out.gate_waits = gates.waited.load(SeqCst);
    out.rel_blocked = w.rel_blocked.load(SeqCst);
    out.rel_returned = w.rel_returned.load(SeqCst);
    out.rel_settle = w.rel_settle.load(SeqCst);
    out.rel_fallback = w.rel_fallback.load(SeqCst);
    out.quiet_seen = w.quiet_seen.load(SeqCst);
    out.quiet_missed = w.quiet_missed.load(SeqCst);
    out.pool_idle_seen = w.pool_idle_seen.load(SeqCst);
    let raw = shared.take_log();
    // what ran during the cleanup `wait_without_tl` is not part of the case (normally nothing)
    let mut cnt: BTreeMap<(char, usize), usize> = BTreeMap::new();
    for e in raw {
        match e.kind {
            'C' => out.log.push(Ent::Call(e.inst[0])),
            'R' => {
                out.snaps.push((out.log.len(), e.inst.get(2).cloned().unwrap_or(0), e.inst.get(3).cloned().unwrap_or(0) as u64));
                out.log.push(Ent::Ret(e.inst[0], e.inst[1] != 0));
            }
            'Q' => out.log.push(Ent::Quiet),
            'G' => out.log.push(Ent::Gone),
            'U' => {
                out.snaps.push((out.log.len(), e.inst.get(2).cloned().unwrap_or(0), e.inst.get(3).cloned().unwrap_or(0) as u64));
                out.log.push(Ent::Unwound(e.inst[0], e.inst[1]));
            }
            'S' => out.log.push(Ent::Hook { tag: e.inst[0], th: e.th }),
            'M' => out.log.push(Ent::Mutated(e.inst.clone())),
            'V' => out.log.push(Ent::Probed(e.inst.clone())),
            'P' => {
                // the run it belongs to is the one its F opened
                let tag = *e.inst.last().unwrap_or(&0);
                let d = cnt.get(&('F', tag)).cloned().unwrap_or(1).saturating_sub(1);
                out.log.push(Ent::Sys { k: 'P', tag, th: e.th, d });
            }
            k => {
                let tag = *e.inst.last().unwrap_or(&0);
                let c = cnt.entry((k, tag)).or_insert(0);
                out.log.push(Ent::Sys { k, tag, th: e.th, d: *c });
                *c += 1;
            }
        }
    }
    for t in case.staged().iter().chain(case.tls().iter()) {
        out.runs.insert(*t, shared.behav[*t].runs.load(SeqCst));
    }
    out
}

/// implementation-side oracles on the merged log (no model involved): (class, what)
pub fn impl_oracles(case: &Case, skip: &[usize], out: &RunOut) -> Vec<(String, String)> {
    let mut v: Vec<(String, String)> = vec![];
    let staged: Vec<usize> = case.staged().into_iter().filter(|t| !skip.contains(t)).collect();
    let tls = case.tls();
    let mut nf: BTreeMap<usize, usize> = staged.iter().map(|t| (*t, 0)).collect();
    let mut nd: BTreeMap<usize, usize> = nf.clone();
    // windows closed by an injected panic
    let mut np: BTreeMap<usize, usize> = nf.clone();
    let (mut calls, mut rets, mut wait_calls) = (0usize, 0usize, 0usize);
    let mut cur: Option<usize> = None;
    // the panics the script injects: into the j-th `dispatch` call / the j-th `wait` call
    let disp_specs: Vec<Option<(usize, u8)>> = case.aops.iter().filter_map(|a| if let AOp::Dispatch { panic, .. } = a { Some(*panic) } else { None }).collect();
    let wait_specs: Vec<Option<(usize, u8)>> = case
        .aops
        .iter()
        .filter_map(|a| match a {
            AOp::Wait => Some(None),
            AOp::WaitPanic { tag, mode } => Some(Some((*tag, *mode))),
            _ => None,
        })
        .collect();
    // (system, index in the log) of the first ordinary system that panicked
    let mut job_panic: Option<(usize, usize)> = None;
    // the thread-local events of the current `wait`
    let mut wait_seq: Vec<(char, usize)> = vec![];
    let mut tl_expected_runs: BTreeMap<usize, u64> = tls.iter().map(|t| (*t, 0)).collect();
    // setup: hooks called in the current `setup`, the setup resources as the harness knows them
    // (0 absent, v + 1), what the look at the world after the latest `setup` must find
    let hooked: Vec<usize> = staged.iter().chain(tls.iter()).cloned().collect();
    let needed: Vec<usize> = (0..NSR).filter(|k| hooked.iter().any(|t| t % NSR == *k)).collect();
    let mut hooks: BTreeMap<usize, usize> = BTreeMap::new();
    let mut sr: Vec<usize> = vec![0; NSR];
    let mut unwinds = out.unwinds.iter();
    let mut add = |class: &str, what: String| {
        if !v.iter().any(|(c, _)| c == class) {
            v.push((class.to_string(), what));
        }
    };
    if let Some(p) = &out.panicked {
        add("panic", format!("a dispatcher operation panicked: {}", p));
    }
    let full_tl: Vec<(char, usize)> = tls.iter().flat_map(|t| vec![('F', *t), ('D', *t)]).collect();
    let show_seq = |q: &[(char, usize)]| q.iter().map(|(k, t)| format!("{}{}", k, t)).collect::<Vec<_>>().join(" ");
    let snaps: BTreeMap<usize, (usize, u64)> = out.snaps.iter().map(|(i, a, b)| (*i, (*a, *b))).collect();
    for (i, e) in out.log.iter().enumerate() {
        let open: Vec<usize> = staged.iter().cloned().filter(|t| nf[t] > nd[t] + np[t]).collect();
        // counters read at the moment the call returned (independent of the order of the log)
        if let (Ent::Ret(o, val), Some((inside, done))) = (e, snaps.get(&i)) {
            let want = (rets * staged.len()) as u64;
            match *o {
                3 => {
                    if !*val && *inside > 0 {
                        add("running-false-while-open", format!("log[{}]: running() returned false at a moment at which {} system(s) were inside run", i, inside));
                    } else if !*val && *done != want {
                        add("running-false-before-done", format!("log[{}]: running() returned false at a moment at which {} runs of ordinary systems had finished; {} dispatches of {} systems were issued", i, done, rets, staged.len()));
                    }
                }
                0 => {
                    if *done < want {
                        add("dispatch-overtakes", format!("log[{}]: dispatch #{} returned at a moment at which only {} runs of ordinary systems had finished ({} systems)", i, rets, done, staged.len()));
                    }
                }
                _ => {
                    if *inside > 0 {
                        add("accessor-while-open", format!("log[{}]: {} returned at a moment at which {} system(s) were inside run", i, OPS[*o], inside));
                    } else if *done != want {
                        add("accessor-before-done", format!("log[{}]: {} returned at a moment at which {} runs of ordinary systems had finished; {} dispatches of {} systems were issued", i, OPS[*o], done, rets, staged.len()));
                    }
                }
            }
        }
        let panicked_note = |jp: &Option<(usize, usize)>| match jp {
            Some((t, at)) => format!(" (system {} of dispatch #{} panicked at log[{}]; that dispatch never completes)", t, rets.saturating_sub(1), at),
            None => String::new(),
        };
        match e {
            Ent::Quiet => {
                // the harness's own reading of the completion counters; nothing may start after it
                if !open.is_empty() {
                    add("harness", format!("log[{}]: completion signal while system(s) {:?} are inside run", i, open));
                }
            }
            Ent::Gone => {
                if job_panic.is_none() {
                    add("harness", format!("log[{}]: the pool's panic handler was seen although no system has panicked", i));
                } else if !open.is_empty() {
                    add("job-unwound-while-open", format!("log[{}]: the job's closure has been unwound (panic handler called) while system(s) {:?} are inside run", i, open));
                }
            }
            Ent::Mutated(plan) => {
                for (k, p) in plan.iter().enumerate().take(NSR) {
                    match *p {
                        0 => {}
                        1 => sr[k] = 0,
                        x => sr[k] = x - 1,
                    }
                }
            }
            Ent::Probed(seen) => {
                // the look at the world that follows a `setup` that returned
                for k in 0..NSR {
                    let (before, now) = (sr[k], seen.get(k).cloned().unwrap_or(0));
                    let users: Vec<usize> = hooked.iter().cloned().filter(|t| t % NSR == k).collect();
                    if before != 0 && now != before {
                        add("setup-overwrite", format!("log[{}]: setup() changed a resource that already existed: Sr<{}> was {} before setup() and is {} after it", i, k, before - 1, if now == 0 { "absent".to_string() } else { (now - 1).to_string() }));
                    } else if before == 0 && needed.contains(&k) && now == 0 {
                        add("setup-resource", format!("log[{}]: after setup() returned the default-provided resource Sr<{}> of system(s) {:?} does not exist", i, k, users));
                    } else if before == 0 && needed.contains(&k) && now != sr_default(k) as usize + 1 {
                        add("setup-resource", format!("log[{}]: after setup() the resource Sr<{}> of system(s) {:?} is {} instead of its default {}", i, k, users, now - 1, sr_default(k)));
                    } else if before == 0 && !needed.contains(&k) && now != 0 {
                        add("setup-resource", format!("log[{}]: setup() created Sr<{}>, which no system asks for", i, k));
                    }
                    sr[k] = now;
                }
            }
            Ent::Hook { tag, th } => {
                *hooks.entry(*tag).or_insert(0) += 1;
                if cur != Some(6) {
                    add("setup-hooks", format!("log[{}]: the setup hook of system {} is called outside setup (caller is in {:?})", i, tag, cur.map(|o| OPS[o])));
                }
                if *th != 'c' {
                    add("setup-hooks", format!("log[{}]: the setup hook of system {} runs on thread class '{}'", i, tag, th));
                }
                if !open.is_empty() || staged.iter().any(|t| nd[t] != rets) {
                    add("setup-before-finish", format!("log[{}]: the setup hook of system {} is called while the dispatched systems have not finished (open {:?}){}", i, tag, open, panicked_note(&job_panic)));
                }
            }
            Ent::Call(o) => {
                cur = Some(*o);
                if *o == 0 {
                    calls += 1;
                }
                if *o == 1 {
                    wait_calls += 1;
                    wait_seq.clear();
                }
                if *o == 6 {
                    hooks.clear();
                }
            }
            Ent::Unwound(o, kind) => {
                let msg = unwinds.next().cloned().unwrap_or_default();
                let spec = if *o == 1 { wait_specs.get(wait_calls.wrapping_sub(1)).cloned().flatten().filter(|(t, _)| tls.contains(t)) } else { None };
                if job_panic.is_some() {
                    // whatever is called after a system of the job has panicked may unwind
                } else if let (1, Some((t, mode))) = (*o, spec) {
                    // the thread-local systems in front of `t` ran, `t` started and was unwound,
                    // the ones behind it did not start
                    let mut want: Vec<(char, usize)> = vec![];
                    for x in &tls {
                        if *x == t {
                            break;
                        }
                        want.push(('F', *x));
                        want.push(('D', *x));
                        *tl_expected_runs.get_mut(x).unwrap() += 1;
                    }
                    want.push(('F', t));
                    want.push(('P', t));
                    if mode == 1 {
                        *tl_expected_runs.get_mut(&t).unwrap() += 1;
                    }
                    if *kind != 1 {
                        add("panic", format!("log[{}]: wait() unwound with `{}` instead of the panic of thread-local system {}", i, msg, t));
                    }
                    if wait_seq != want {
                        let class = if wait_seq.len() != want.len() { "tl-count" } else { "tl-order" };
                        add(class, format!("log[{}]: thread-local system {} panicked inside wait(); the thread-local events of that wait are [{}], expected [{}]", i, t, show_seq(&wait_seq), show_seq(&want)));
                    }
                } else {
                    add("panic", format!("log[{}]: {}() panicked: {}", i, OPS[*o], msg));
                }
                cur = None;
            }
            Ent::Ret(o, val) => {
                cur = None;
                match *o {
                    3 => {
                        if !*val {
                            if !open.is_empty() {
                                add("running-false-while-open", format!("log[{}]: running() returned false while system(s) {:?} are inside run", i, open));
                            } else if let Some(t) = staged.iter().find(|t| nd[t] != rets || nf[t] != rets) {
                                add("running-false-before-done", format!("log[{}]: running() returned false but system {} has started {} / finished {} times for {} dispatches{}", i, t, nf[t], nd[t], rets, panicked_note(&job_panic)));
                            }
                        }
                    }
                    0 => {
                        if let Some(t) = staged.iter().find(|t| nd[t] < rets || nf[t] > rets + 1) {
                            add("dispatch-overtakes", format!("log[{}]: dispatch #{} returned but system {} has started {} / finished {} times{}", i, rets, t, nf[t], nd[t], panicked_note(&job_panic)));
                        }
                        rets += 1;
                    }
                    _ => {
                        if !open.is_empty() {
                            add("accessor-while-open", format!("log[{}]: {} returned while system(s) {:?} are inside run", i, OPS[*o], open));
                        } else if let Some(t) = staged.iter().find(|t| nd[t] != rets || nf[t] != rets) {
                            add("accessor-before-done", format!("log[{}]: {} returned after {} dispatches but system {} has started {} / finished {} times{}", i, OPS[*o], rets, t, nf[t], nd[t], panicked_note(&job_panic)));
                        }
                        if *o == 1 {
                            for t in &tls {
                                *tl_expected_runs.get_mut(t).unwrap() += 1;
                            }
                            if wait_seq != full_tl {
                                let class = if wait_seq.len() != full_tl.len() { "tl-count" } else { "tl-order" };
                                add(class, format!("log[{}]: wait #{} returned; its thread-local events are [{}], expected [{}] (every thread-local system once, in registration order)", i, wait_calls, show_seq(&wait_seq), show_seq(&full_tl)));
                            }
                        }
                        if *o == 6 {
                            for t in &hooked {
                                let n = hooks.get(t).cloned().unwrap_or(0);
                                if n != 1 {
                                    add("setup-hooks", format!("log[{}]: setup() returned having called the setup hook of system {} {} times (hooks called: {:?})", i, t, n, hooks));
                                }
                            }
                            // what the look at the world that follows must find is judged there
                        }
                    }
                }
            }
            Ent::Sys { k, tag, th, .. } => {
                if tls.contains(tag) {
                    wait_seq.push((*k, *tag));
                    if cur != Some(1) {
                        add("tl-outside-wait", format!("log[{}]: thread-local system {} logs {} outside wait (caller is in {:?})", i, tag, k, cur.map(|o| OPS[o])));
                    }
                    if *th != 'c' {
                        add("tl-thread", format!("log[{}]: thread-local system {} runs on thread class '{}'", i, tag, th));
                    }
                    if !open.is_empty() || staged.iter().any(|t| nd[t] != rets) {
                        add("tl-before-finish", format!("log[{}]: thread-local system {} logs {} while the dispatched systems have not finished (open {:?}){}", i, tag, k, open, panicked_note(&job_panic)));
                    }
                    if *k == 'P' {
                        let injected = cur == Some(1) && wait_specs.get(wait_calls.wrapping_sub(1)).cloned().flatten().map(|(t, _)| t) == Some(*tag);
                        if !injected {
                            add("panic", format!("log[{}]: thread-local system {} panicked", i, tag));
                        }
                    }
                } else if staged.contains(tag) {
                    if *k == 'F' {
                        let d = nf[tag];
                        if d >= calls {
                            add("run-without-dispatch", format!("log[{}]: system {} starts run #{} but dispatch was called {} times", i, tag, d + 1, calls));
                        }
                        if let Some(t) = staged.iter().find(|t| nd[t] < d) {
                            add("dispatch-overtakes", format!("log[{}]: system {} starts for dispatch #{} while system {} has finished only {} times{}", i, tag, d, t, nd[t], panicked_note(&job_panic)));
                        }
                        *nf.get_mut(tag).unwrap() += 1;
                    } else if *k == 'D' {
                        *nd.get_mut(tag).unwrap() += 1;
                        if nd[tag] + np[tag] > nf[tag] {
                            add("drop-without-fetch", format!("log[{}]: system {} finishes more often than it starts", i, tag));
                        }
                    } else {
                        let injected = disp_specs.iter().take(calls).any(|s| s.map(|(t, _)| t) == Some(*tag));
                        if injected {
                            *np.get_mut(tag).unwrap() += 1;
                            if job_panic.is_none() {
                                job_panic = Some((*tag, i));
                            }
                        } else {
                            add("panic", format!("log[{}]: system {} panicked", i, tag));
                        }
                    }
                }
            }
        }
    }
    if out.panicked.is_none() && out.hang.is_none() && out.stall.is_none() {
        if job_panic.is_none() {
            for t in &staged {
                if out.runs.get(t).cloned().unwrap_or(0) != rets as u64 {
                    add("run-count", format!("system {} ran {} times for {} dispatches", t, out.runs.get(t).cloned().unwrap_or(0), rets));
                }
            }
        }
        for t in &tls {
            if out.runs.get(t).cloned().unwrap_or(0) != tl_expected_runs[t] {
                add("tl-count", format!("thread-local system {} entered run {} times; the waits of this history make it {}", t, out.runs.get(t).cloned().unwrap_or(0), tl_expected_runs[t]));
            }
        }
    }
    v
}

/// feeds the merged log to the Lean acceptor; Some(reason) on rejection
pub fn model_check(drv: &mut Drv, layout: &str, log: &[Ent]) -> Option<String> {
    let m = parse_model_layout(layout);
    let tl = format!("[{}]", m.tl.iter().map(|x| x.to_string()).collect::<Vec<_>>().join(","));
    let a = drv.ask(&format!("asyncd begin {} {}", show_nested(&m.sys), tl));
    if a != "ok" {
        return Some(format!("asyncd begin answered `{}`", a));
    }
    for (i, e) in log.iter().enumerate() {
        let line = match e.model_line() {
            Some(l) => l,
            None => continue,
        };
        let a = drv.ask(&format!("asyncd {}", line));
        if a != "ok" {
            let from = i.saturating_sub(6);
            let ctx: Vec<String> = log[from..=i].iter().map(|e| e.show()).collect();
            return Some(format!("the model rejects log[{}] `{}`: {} (preceding events: {})", i, e.show(), a, ctx.join("; ")));
        }
    }
    let a = drv.ask("asyncd end");
    if a != "accept" {
        return Some(format!("end of log: {}", a));
    }
    None
}

pub struct Eval {
    pub impl_v: Vec<(String, String)>,
    pub model_v: Vec<(String, String)>,
    pub out: RunOut,
    pub layout: String,
}

pub fn eval_case(case: &Case, drv: Option<&mut Drv>, env: &Env) -> Eval {
    let pool0 = env.set.lock().unwrap().pools[0].clone();
    let shared = Shared::new(Op::max_tag(&case.ops) + 1);
    let mut drv = drv;
    let mut model_v = vec![];
    // model layout (and the outcome of every registration) via the plan engine's builder run
    let built = build_case(&case.ops, drv.as_deref_mut(), shared.clone(), &pool0, false);
    for d in &built.diffs {
        model_v.push(("outcome".to_string(), d.clone()));
    }
    let skip: Vec<usize> = built.infos.values().filter(|i| !i.placed).map(|i| i.tag).collect();
    let layout = built.model_layouts.get(&None).cloned().unwrap_or_default();
    drop(built);
    let mut out = run_real(case, &shared, env, &skip);
    if out.watchdog {
        // a starved harness thread, not the crate: the bound alone decides nothing — once more
        out = run_real(case, &shared, env, &skip);
    }
    let impl_v = impl_oracles(case, &skip, &out);
    if out.watchdog {
        model_v.push(("harness".into(), "a gate watchdog fired: a system waited for its gate longer than the bound".into()));
    }
    if let Some(why) = &out.stall {
        model_v.push(("harness".into(), why.clone()));
    }
    if let Some((op, why)) = &out.hang {
        // `Async.blocked_only_while_running`: in the model a blocking call is disabled only while
        // the job has not sent, and the job can send once every system has finished
        let from = out.log.len().saturating_sub(24);
        model_v.push((
            "async-progress".into(),
            format!("{}() does not return although the model enables its return: {} [end of the merged log: {}]", op, why, out.log[from..].iter().map(|e| e.show()).collect::<Vec<_>>().join("; ")),
        ));
    }
    if let Some(d) = drv {
        if out.panicked.is_none() && out.hang.is_none() && out.stall.is_none() {
            if let Some(why) = model_check(d, &layout, &out.log) {
                model_v.push(("async-log".into(), why));
            }
        }
    }
    Eval { impl_v, model_v, out, layout }
}

fn shrink_case(case: &Case, pred: &mut dyn FnMut(&Case) -> bool) -> Case {
    let mut cur = case.clone();
    // operations first
    let mut i = 0;
    while i < cur.aops.len() {
        let mut c = cur.clone();
        c.aops.remove(i);
        if pred(&c) {
            cur = c;
        } else {
            i += 1;
        }
    }
    // gates and holds
    for i in 0..cur.aops.len() {
        if let AOp::Dispatch { gate, rel, queue, panic } = cur.aops[i].clone() {
            let mut j = 0;
            let mut gate = gate;
            let mut queue = queue;
            let mut panic = panic;
            if panic.is_some() {
                let mut c = cur.clone();
                c.aops[i] = AOp::Dispatch { gate: gate.clone(), rel: rel.clone(), queue, panic: None };
                if pred(&c) {
                    cur = c;
                    panic = None;
                }
            }
            if queue {
                let mut c = cur.clone();
                c.aops[i] = AOp::Dispatch { gate: gate.clone(), rel: rel.clone(), queue: false, panic };
                if pred(&c) {
                    cur = c;
                    queue = false;
                }
            }
            while j < gate.len() {
                let mut g2 = gate.clone();
                g2.remove(j);
                let mut c = cur.clone();
                c.aops[i] = AOp::Dispatch { gate: g2.clone(), rel: rel.clone(), queue, panic };
                if pred(&c) {
                    cur = c;
                    gate = g2;
                } else {
                    j += 1;
                }
            }
        }
    }
    for i in 0..cur.aops.len() {
        if matches!(cur.aops[i], AOp::WaitPanic { .. }) {
            let mut c = cur.clone();
            c.aops[i] = AOp::Wait;
            if pred(&c) {
                cur = c;
            }
        }
    }
    let mut c = cur.clone();
    c.holds.clear();
    if pred(&c) {
        cur = c;
    }
    // registrations (keep the gated tags meaningful: gates of removed systems are ignored)
    let base = cur.clone();
    let ops = shrink(&cur.ops, &mut |o: &[Op]| {
        let mut c = base.clone();
        c.ops = o.to_vec();
        pred(&c)
    });
    cur.ops = ops;
    let live = cur.staged();
    for a in cur.aops.iter_mut() {
        if let AOp::Dispatch { gate, .. } = a {
            gate.retain(|t| live.contains(t));
        }
    }
    cur
}

/// what the distribution counters need to know about one evaluated case
struct Shape {
    run_true: u64,
    run_false: u64,
    entered_open: u64,
    second_disp_open: u64,
    /// (entry point, context) of every call: context = the job of the latest dispatch was …
    /// 0 idle (already observed complete) / 1 inside run / 2 not started / 3 finished on its own, unobserved
    /// / 4 a system of it has panicked and the harness has seen the pool's panic handler (the sender
    /// is gone) / 5 a system of it has panicked, the job is still being unwound or was not seen to end
    ctxs: Vec<(usize, usize)>,
    tl_panics: u64,
    job_panics: u64,
    unwound_sender: u64,
    unwound_tl: u64,
    setups: u64,
    /// (first entry point to look at a dispatch that finished on its own, a later entry point
    /// issued while a system of a later dispatch was inside run or its job had not started)
    pairs: Vec<(usize, usize)>,
}
fn shape(case: &Case, log: &[Ent]) -> Shape {
    let tls = case.tls();
    let mut sh = Shape { run_true: 0, run_false: 0, entered_open: 0, second_disp_open: 0, ctxs: vec![], pairs: vec![], tl_panics: 0, job_panics: 0, unwound_sender: 0, unwound_tl: 0, setups: 0 };
    let (mut panicked, mut gone) = (false, false);
    let mut open = 0i64;
    // state of the latest dispatch as the harness knows it from the log
    let (mut started, mut pending_disp, mut unobserved_quiet) = (false, false, false);
    let mut first_obs: Vec<usize> = vec![];
    for e in log {
        match e {
            Ent::Sys { k: 'F', tag, .. } if !tls.contains(tag) => {
                open += 1;
                started = true;
            }
            Ent::Sys { k: 'D', tag, .. } if !tls.contains(tag) => open -= 1,
            Ent::Sys { k: 'P', tag, .. } if !tls.contains(tag) => {
                open -= 1;
                panicked = true;
                sh.job_panics += 1;
            }
            Ent::Sys { k: 'P', .. } => sh.tl_panics += 1,
            Ent::Sys { .. } => {}
            Ent::Gone => gone = true,
            Ent::Hook { .. } | Ent::Mutated(_) => {}
            Ent::Probed(_) => sh.setups += 1,
            Ent::Unwound(_, kind) => {
                pending_disp = false;
                if *kind == 0 {
                    sh.unwound_sender += 1;
                } else if *kind == 1 {
                    sh.unwound_tl += 1;
                }
            }
            Ent::Quiet => {
                if pending_disp {
                    unobserved_quiet = true;
                }
            }
            Ent::Call(o) => {
                let ctx = if gone {
                    4
                } else if panicked {
                    5
                } else if open > 0 {
                    1
                } else if pending_disp && !started {
                    2
                } else if unobserved_quiet {
                    3
                } else {
                    0
                };
                sh.ctxs.push((*o, ctx));
                if ctx == 3 {
                    first_obs.push(*o);
                    unobserved_quiet = false;
                    pending_disp = false;
                } else if (ctx == 1 || ctx == 2) && *o != 0 {
                    for f in &first_obs {
                        sh.pairs.push((*f, *o));
                    }
                }
                if open > 0 && *o != 3 {
                    sh.entered_open += 1;
                    if *o == 0 {
                        sh.second_disp_open += 1;
                    }
                }
            }
            Ent::Ret(3, true) => sh.run_true += 1,
            Ent::Ret(3, false) => {
                sh.run_false += 1;
                pending_disp = false;
            }
            Ent::Ret(0, _) => {
                pending_disp = true;
                started = open > 0;
                unobserved_quiet = false;
            }
            Ent::Ret(_, _) => pending_disp = false,
        }
    }
    sh
}

/// `AsyncDispatcher::setup` during which the setup hook of one system panics (caught by the caller),
/// then the dispatcher is used on: every later `dispatch` + `wait` still runs every ordinary system and then
/// every thread-local system on the caller, in registration order; a later `setup` reaches every hook.
/// Self-contained (its own four systems; the hook that panics is each of them in turn).
fn failed_setup_check() -> (u64, Vec<String>) {
    use shred::{DispatcherBuilder, System, World};
    use std::sync::atomic::AtomicBool;
    type Log = Arc<Mutex<Vec<String>>>;
    struct S {
        name: &'static str,
        log: Log,
        bad: Arc<AtomicBool>,
        _not_send: std::marker::PhantomData<*const ()>,
    }
    // only the two registered with `with` cross threads; the marker keeps the type usable for both kinds
    unsafe impl Send for S {}
    impl<'a> System<'a> for S {
        type SystemData = ();
        fn run(&mut self, _: ()) {
            self.log.lock().unwrap().push(self.name.to_string());
        }
        fn setup(&mut self, _: &mut World) {
            if self.bad.load(SeqCst) {
                panic!("harness: the setup hook of {} panics", self.name);
            }
            self.log.lock().unwrap().push(format!("setup:{}", self.name));
        }
    }
    let mut bad = vec![];
    let mut n = 0u64;
    let pool = Arc::new(rayon::ThreadPoolBuilder::new().num_threads(2).panic_handler(|_| {}).build().unwrap());
    for victim in 0..4usize {
        n += 1;
        let log: Log = Arc::new(Mutex::new(vec![]));
        let flags: Vec<Arc<AtomicBool>> = (0..4).map(|_| Arc::new(AtomicBool::new(false))).collect();
        let mk = |i: usize, name: &'static str| S { name, log: log.clone(), bad: flags[i].clone(), _not_send: std::marker::PhantomData };
        let mut d = DispatcherBuilder::new()
            .with_pool(pool.clone())
            .with(mk(0, "a"), "a", &[])
            .with(mk(1, "b"), "b", &["a"])
            .with_thread_local(mk(2, "x"))
            .with_thread_local(mk(3, "y"))
            .build_async(World::empty());
        flags[victim].store(true, SeqCst);
        let r = catch_unwind(AssertUnwindSafe(|| d.setup()));
        flags[victim].store(false, SeqCst);
        if r.is_ok() {
            bad.push(format!("the setup hook of system {} panicked but AsyncDispatcher::setup returned normally", victim));
            continue;
        }
        for round in 0..2 {
            log.lock().unwrap().clear();
            let r = catch_unwind(AssertUnwindSafe(|| {
                d.dispatch();
                d.wait();
            }));
            let got = log.lock().unwrap().clone();
            if r.is_err() || got != ["a", "b", "x", "y"] {
                bad.push(format!("after a setup() in which the hook of system {} (0, 1 ordinary; 2, 3 thread-local) panicked and was caught, dispatch + wait no. {} {} and ran {:?}; expected a, b, then the thread-local x, y", victim, round + 1, if r.is_err() { "panicked" } else { "returned" }, got));
                break;
            }
        }
        log.lock().unwrap().clear();
        let r = catch_unwind(AssertUnwindSafe(|| d.setup()));
        let mut got = log.lock().unwrap().clone();
        got.sort();
        if r.is_err() || got != ["setup:a", "setup:b", "setup:x", "setup:y"] {
            bad.push(format!("a later setup() after the failed one (hook of system {}) reached {:?}, expected the hooks of a, b, x, y", victim, got));
        }
    }
    (n, bad)
}

/// `dispatch(); dispatch(); wait()` in a tight loop for `ms` milliseconds: when `wait` returns, both
/// dispatches have run the ordinary system (2 runs per round) and the thread-local system has run once,
/// after them. Counters only; a race between a second `dispatch` and the end of the first job shows up
/// as a round whose second dispatch has not run yet when `wait` returns.
fn redispatch_stress(ms: u64) -> (u64, Option<String>) {
    use shred::{DispatcherBuilder, System, World};
    struct A(Arc<AtomicU64>);
    impl<'a> System<'a> for A {
        type SystemData = ();
        fn run(&mut self, _: ()) {
            self.0.fetch_add(1, SeqCst);
        }
    }
    struct T(Arc<AtomicU64>, Arc<AtomicU64>, Arc<Mutex<Option<String>>>);
    impl<'a> System<'a> for T {
        type SystemData = ();
        fn run(&mut self, _: ()) {
            let k = self.1.fetch_add(1, SeqCst) + 1;
            let a = self.0.load(SeqCst);
            if a != 2 * k {
                let mut b = self.2.lock().unwrap();
                if b.is_none() {
                    *b = Some(format!("round {}: the thread-local system runs inside wait() while the ordinary system has run {} times in all, expected {} (two dispatches per round)", k, a, 2 * k));
                }
            }
        }
    }
    let (a, t, bad) = (Arc::new(AtomicU64::new(0)), Arc::new(AtomicU64::new(0)), Arc::new(Mutex::new(None)));
    let pool = Arc::new(rayon::ThreadPoolBuilder::new().num_threads(2).panic_handler(|_| {}).build().unwrap());
    let mut d = DispatcherBuilder::new().with_pool(pool).with(A(a.clone()), "a", &[]).with_thread_local(T(a.clone(), t.clone(), bad.clone())).build_async(World::empty());
    let t0 = Instant::now();
    let mut rounds = 0u64;
    while t0.elapsed() < Duration::from_millis(ms) && bad.lock().unwrap().is_none() {
        for _ in 0..50 {
            d.dispatch();
            d.dispatch();
            d.wait();
            rounds += 1;
        }
    }
    let b = bad.lock().unwrap().clone();
    (rounds, b)
}

pub fn run(args: &Args, rep: &mut Report) {
    if args.get("replay").is_none() {
        let (n, bad) = redispatch_stress(args.num("stress-ms", 400));
        rep.add("rounds_of_dispatch_dispatch_wait_in_a_tight_loop", n);
        if let Some(b) = bad {
            rep.violate("C12", "impl", "tl-before-finish", format!("{} [redispatch-stress]", b), vec!["# redispatch-stress: dispatch(); dispatch(); wait() in a tight loop, see harness/src/engines/asyncd.rs".into()]);
            rep.violate("C15", "impl", "each-once", format!("{} [redispatch-stress]", b), vec!["# redispatch-stress".into()]);
        }
        let (n, bad) = failed_setup_check();
        rep.add("dispatchers_used_on_after_a_setup_hook_panicked", n);
        for b in bad {
            rep.violate("C12", "impl", "tl-count", format!("{} [failed-setup]", b), vec!["# failed-setup: self-contained sequence, see harness/src/engines/asyncd.rs failed_setup_check".into()]);
            rep.violate("C13", "impl", "setup-hooks", format!("{} [failed-setup]", b.clone()), vec!["# failed-setup".into()]);
        }
    }
    let seed = args.num("seed", 1);
    let cases = args.num("cases", 300);
    let max_ops = args.num("max-ops", 12);
    let watchdog_ms = args.num("watchdog-ms", 3000);
    let hang_ms = args.num("hang-ms", 5000);
    // histories: every sequence of `hist` steps (context × entry point); `hist-stride` > 1 takes
    // every stride-th of them (offset from the seed)
    let hist = args.num("hist", 0);
    let hist_stride = args.num("hist-stride", 1).max(1);
    // `--callers all`: every history in every calling context; `--callers one`: one context per
    // history; default: all for single steps, one for longer histories
    let all_callers = match args.str("callers", "auto").as_str() {
        "all" => true,
        "one" => false,
        _ => hist == 1,
    };
    let mut drv = Drv::spawn(&args.str("driver", "/verif/lean/.lake/build/bin/driver"));
    let env = Env::new(watchdog_ms, hang_ms);
    // while a stuck case is being made smaller a shorter observation period is enough
    let env_shrink = env.with_hang_ms(hang_ms.min(1200));
    rep.rule = "(a) histories: every sequence of `hist` steps, a step = an entry point — one of the 9 public methods of AsyncDispatcher (dispatch / wait / wait_without_tl / running / world / world_mut / setup / res / mut_res), or wait with a panic injected into the first / the last thread-local system — issued in one of 6 contexts — idle; held: after a fresh dispatch with a system kept inside run; queued: after a fresh dispatch whose job cannot start; settled: after a fresh dispatch that finished on its own (the harness waits for the systems' own completion signal and an idle pool, no dispatcher method); panicked: after a fresh dispatch in which an ordinary system panicked (in fetch or inside run) and the pool's panic handler has been seen; panicking: after such a dispatch while another system (or the panicking one) is still held inside run — on 10 fixed plans / pools / world types (two of them long: nine stages of one system each — nine writers of one resource —, and a dependency chain of twelve stages with a second system in two of them), the whole history in one of 3 calling contexts: the thread that builds the dispatcher and issues every call is an ordinary thread / a worker of the dispatcher's own pool (the script runs inside pool.install, pool of at least 2 threads) / a worker of another pool (single steps: every context; longer histories: one context per history, chosen by a hash of seed and index, unless --callers all); every setup is preceded by a mutate (the default-provided resources of the setup hooks removed / replaced through world_mut()) and followed by a look at the world; hist = 1 runs every step on all plans with both places of a panic; (b) flat registration sequences (profile flat + thread-local systems; 22 %: long plans of 8 to 20 stages — a dependency chain, a write-write chain on one resource, or a mixture of dependencies, barriers and conflicting reads / writes, some stages with a second system) in a random calling context (40 % plain, 35 % own pool, 25 % other pool) × random sequences of ≤ max-ops such operations plus spin, settle and mutate (World or Arc<World>, pool of 1-4 threads, all with a panic handler), per-dispatch gates / queued jobs released after n further operations, by timer, or after the caller entered its next blocking operation, 12 % of the dispatches with a panicking system, 30 % of the waits with a panicking thread-local system; the script always goes on after a panic. Held systems are released only when the operation under test has returned or the calling thread — the thread that drives the dispatcher in the case's calling context — has been seen parked inside it. Every oracle is the same in every context. distinct = distinct case texts; non-trivial = an entry point was issued while a system was inside run / the job had not started / the job had finished on its own unobserved / a system of the job had panicked".into();
    let mut todo: Vec<(String, Case)> = vec![];
    if let Some(f) = args.get("replay") {
        let text = std::fs::read_to_string(&f).expect("replay file");
        let lines: Vec<String> = text.lines().filter(|l| !l.starts_with('#')).map(|s| s.to_string()).collect();
        todo.push((format!("replay:{}", f), Case::parse(&lines)));
    }
    if let Some(dir) = args.get("corpus") {
        if let Ok(rd) = std::fs::read_dir(&dir) {
            let mut files: Vec<_> = rd.filter_map(|e| e.ok()).map(|e| e.path()).filter(|p| p.extension().map(|x| x == "case").unwrap_or(false)).collect();
            files.sort();
            for f in files {
                let text = std::fs::read_to_string(&f).unwrap_or_default();
                let lines: Vec<String> = text.lines().filter(|l| !l.starts_with('#')).map(|s| s.to_string()).collect();
                todo.push((format!("corpus:{}", f.display()), Case::parse(&lines)));
                rep.count("corpus_cases");
            }
        }
    }
    if args.get("replay").is_none() {
        if hist > 0 {
            let total = STEPS.pow(hist as u32);
            let mut i = seed % hist_stride;
            while i < total {
                if hist == 1 {
                    // single steps: on every plan / pool / world type, with both places of a panic,
                    // in every calling context
                    for v in 0..VARIANTS {
                        for cc in 0..CALLERS.len() {
                            if all_callers || cc as u64 == (i + v + seed) % CALLERS.len() as u64 {
                                todo.push((format!("hist:1:{}:v{}:{}", i, v, CALLERS[cc]), hist_case(i, 1, v, cc)));
                                rep.count("history_cases");
                            }
                        }
                    }
                } else {
                    // the calling context is a third coordinate of the space of histories (and the
                    // variant a fourth); unless `--callers all` is given one point per history is
                    // taken, chosen by a hash of the seed and the index so that neither is tied to
                    // a step or to a position in the history
                    let mut h = Rng::new(seed, 0x4157_0000_0000 ^ i);
                    let v = h.below(VARIANTS);
                    let pick = h.below(CALLERS.len() as u64) as usize;
                    for cc in 0..CALLERS.len() {
                        if all_callers || cc == pick {
                            todo.push((format!("hist:{}:{}:v{}:{}", hist, i, v, CALLERS[cc]), hist_case(i, hist, v, cc)));
                            rep.count("history_cases");
                        }
                    }
                }
                i += hist_stride;
            }
        }
        for c in 0..cases {
            todo.push((format!("gen:{}:{}", seed, c), gen_case(seed, c, max_ops)));
        }
    }
    let mut reported: std::collections::BTreeSet<String> = Default::default();
    let mut pairs_seen: std::collections::BTreeSet<(usize, usize)> = Default::default();
    let mut ctx_seen: std::collections::BTreeSet<(usize, usize)> = Default::default();
    let mut caller_ctx_seen: std::collections::BTreeSet<(usize, usize, usize)> = Default::default();
    let mut stuck = 0;
    for (label, case) in todo {
        if stuck >= 3 {
            // every further stuck call would cost a whole observation period; the verdict is in
            rep.count("cases_not_run_after_three_stuck_calls");
            continue;
        }
        mark_current(&case.lines());
        drv.begin_case();
        let t_case = Instant::now();
        let ev = eval_case(&case, Some(&mut drv), &env);
        if args.flag("slow") && t_case.elapsed() > Duration::from_millis(args.num("slow-ms", 30)) {
            eprintln!("SLOW {} ms {}\n  {}", t_case.elapsed().as_millis(), label, case.lines().join("\n  "));
        }
        rep.maxi("max_case_ms", t_case.elapsed().as_millis() as u64);
        // distribution
        let sh = shape(&case, &ev.out.log);
        for e in &ev.out.log {
            match e {
                Ent::Sys { tag, .. } if case.tls().contains(tag) => rep.count("thread_local_events"),
                Ent::Hook { .. } => rep.count("setup_hook_events"),
                Ent::Gone => rep.count("panic_handler_seen_for_the_job"),
                Ent::Call(o) => rep.count(&format!("op_{}", OPS[*o])),
                Ent::Quiet => rep.count("quiet_completion_signal_seen"),
                _ => {}
            }
        }
        for (o, c) in &sh.ctxs {
            rep.count(&format!("ctx_{}_{}", ["job_observed_complete", "system_inside_run", "job_not_started", "finished_on_its_own_unobserved", "job_panicked_sender_gone", "job_panicked_still_unwinding"][*c], OPS[*o]));
            ctx_seen.insert((*o, *c));
        }
        for pr in &sh.pairs {
            pairs_seen.insert(*pr);
        }
        rep.add("hist_first_look_after_own_finish_then_later_call_while_running", sh.pairs.len() as u64);
        rep.add("ordinary_system_panics_injected", sh.job_panics);
        rep.add("thread_local_panics_injected_inside_wait", sh.tl_panics);
        rep.add("calls_unwound_sender_dropped", sh.unwound_sender);
        rep.add("calls_unwound_by_injected_panic", sh.unwound_tl);
        rep.add("setup_calls_followed_by_a_look_at_the_world", sh.setups);
        rep.add("panic_handler_not_seen", ev.out.gone_missed);
        rep.add("running_true", sh.run_true);
        rep.add("running_false", sh.run_false);
        rep.add("blocking_op_entered_while_a_system_is_inside_run", sh.entered_open);
        rep.add("dispatch_entered_while_previous_still_running", sh.second_disp_open);
        rep.add("systems_held_at_a_gate", ev.out.gate_waits);
        rep.add("released_after_caller_seen_parked_in_the_call", ev.out.rel_blocked);
        rep.add("released_after_the_call_returned", ev.out.rel_returned);
        rep.add("released_by_settle", ev.out.rel_settle);
        rep.add("released_by_time_bound", ev.out.rel_fallback);
        rep.add("settle_without_completion", ev.out.quiet_missed);
        rep.add("settle_pool_seen_idle", ev.out.pool_idle_seen);
        rep.add("log_events", ev.out.log.len() as u64);
        rep.maxi("max_log_len", ev.out.log.len() as u64);
        rep.add("registrations", Op::count(&case.ops) as u64);
        rep.maxi("max_systems", case.staged().len() as u64);
        rep.count(if case.arc { "world_arc" } else { "world_plain" });
        rep.count(&format!("pool_threads_{}", case.threads));
        // the calling context, and what was observed in it (the watcher's instrumentation works on
        // the driving thread of every context: holds released because that thread was seen parked)
        let cn = CALLERS[case.caller.min(2)];
        rep.count(&format!("caller_{}", cn));
        rep.add(&format!("caller_{}_blocking_op_entered_while_a_system_is_inside_run", cn), sh.entered_open);
        rep.add(&format!("caller_{}_released_after_caller_seen_parked_in_the_call", cn), ev.out.rel_blocked);
        rep.add(&format!("caller_{}_released_by_time_bound", cn), ev.out.rel_fallback);
        for (o, c) in &sh.ctxs {
            caller_ctx_seen.insert((case.caller, *o, *c));
        }
        // long plans: stages of the plan the dispatcher executes, dispatches of such plans
        let n_stages = parse_model_layout(&ev.layout).sys.len() as u64;
        let n_disp = ev.out.log.iter().filter(|e| matches!(e, Ent::Ret(0, _))).count() as u64;
        rep.maxi("max_stages", n_stages);
        if n_stages >= 8 {
            rep.count("cases_with_a_plan_of_8_or_more_stages");
            rep.count(&format!("caller_{}_cases_with_a_plan_of_8_or_more_stages", cn));
            rep.add("dispatches_of_plans_with_8_or_more_stages", n_disp);
        }
        if n_stages >= 16 {
            rep.count("cases_with_a_plan_of_16_or_more_stages");
        }
        if case.aops.iter().any(|a| matches!(a, AOp::Dispatch { gate, .. } if !gate.is_empty())) {
            rep.count("cases_with_gated_dispatch");
        }
        if case.aops.iter().any(|a| matches!(a, AOp::Dispatch { queue: true, .. })) {
            rep.count("cases_with_queued_dispatch");
        }
        if ev.out.watchdog {
            rep.count("watchdog_fired");
        }
        if ev.out.hang.is_some() {
            rep.count("stuck_calls");
            stuck += 1;
        }
        if ev.out.stall.is_some() {
            rep.count("cases_given_up_after_no_progress");
            stuck += 1;
        }
        let nontrivial = sh.ctxs.iter().any(|(_, c)| *c != 0);
        rep.case(&case.lines().join("\n"), nontrivial);
        if ev.model_v.is_empty() && ev.out.panicked.is_none() {
            rep.traces_validated += 1;
        }
        if nontrivial {
            rep.sample(Json::obj(vec![
                ("case", Json::Arr(case.lines().into_iter().map(Json::s).collect())),
                ("model_layout", Json::s(ev.layout.clone())),
                ("merged_log", Json::s(ev.out.log.iter().map(|e| e.show()).collect::<Vec<_>>().join("; "))),
            ]));
        }
        for (class, what) in &ev.impl_v {
            if reported.insert(format!("impl:{}", class)) {
                let cl = class.clone();
                let small = shrink_case(&case, &mut |c: &Case| {
                    // a smaller case is kept only if the failure shows in both of two runs: the replay
                    // should not depend on a race the original case did not depend on
                    (0..2).all(|_| eval_case(c, None, &env_shrink).impl_v.iter().any(|(q, _)| *q == cl))
                });
                let mut what2 = what.clone();
                for _ in 0..3 {
                    let r2 = eval_case(&small, None, &env_shrink);
                    if let Some(x) = r2.impl_v.iter().find(|(q, _)| q == class) {
                        what2 = format!("{} [merged log: {}]", x.1, r2.out.log.iter().map(|e| e.show()).collect::<Vec<_>>().join("; "));
                        break;
                    }
                }
                rep.violate("C15", "impl", class, format!("{} [{}]", what2, label), small.lines());
            }
        }
        for (aspect, what) in &ev.model_v {
            if aspect == "async-progress" && ev.out.stall.is_none() && !reported.contains("model:async-progress") {
                // a call that never returned while everything was parked: a verdict about the scheduler of
                // a loaded machine as much as about the crate. It is reported only if the same case gets
                // stuck again in one of three further runs (a hang the code causes shows every time)
                let again = (0..3).any(|_| {
                    drv.begin_case();
                    eval_case(&case, Some(&mut drv), &env).model_v.iter().any(|(a, _)| a == "async-progress")
                });
                if !again {
                    rep.count("stuck_calls_not_reproduced_in_three_further_runs");
                    continue;
                }
            }
            if reported.insert(format!("model:{}", aspect)) {
                let asp = aspect.clone();
                // a stuck call costs a whole observation period per attempt: bounded effort
                // (a case given up after the no-progress bound is reported as it is)
                let mut budget = if ev.out.stall.is_some() { 0 } else if asp == "async-progress" { 14 } else { 400 };
                let small = shrink_case(&case, &mut |c: &Case| {
                    if budget == 0 {
                        return false;
                    }
                    budget -= 1;
                    drv.begin_case();
                    let tries = if asp == "async-progress" { 1 } else { 2 };
                    (0..tries).any(|_| eval_case(c, Some(&mut drv), &env_shrink).model_v.iter().any(|(a, _)| *a == asp))
                });
                rep.violate(&format!("MODEL:{}", aspect), "model", "", format!("{} [{}]", what, label), small.lines());
            }
        }
    }
    rep.add("distinct_entry_point_x_job_state", ctx_seen.len() as u64);
    rep.add("distinct_calling_context_x_entry_point_x_job_state", caller_ctx_seen.len() as u64);
    rep.add("distinct_first_look_x_later_call_pairs", pairs_seen.len() as u64);
    rep.add("driver_requests", drv.requests);
}
