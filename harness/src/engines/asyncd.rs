//! asyncd engine (C15): random operation sequences on a real `AsyncDispatcher` built by
//! `DispatcherBuilder::build_async`, with systems held inside `run` by gates while the caller
//! polls `running()` or blocks in an accessor. The caller's `call` / `ret` events and the
//! systems' F / D events go to one totally ordered log; implementation-side oracles decide the
//! property on that log, then the log is fed to the Lean acceptor (`asyncd` sub-model).
use crate::build::*;
use crate::common::*;
use crate::engines::asyncd_sys::*;
use crate::engines::plan::shrink;
use crate::gen::*;
use crate::sys::*;
use shred::*;
use std::collections::BTreeMap;
use std::panic::{catch_unwind, AssertUnwindSafe};
use std::sync::atomic::{AtomicU64, Ordering::SeqCst};
use std::sync::Arc;
use std::time::{Duration, Instant};

#[derive(Clone, Debug, PartialEq)]
pub enum Rel {
    /// gates open `us` after the caller has entered its next blocking operation
    Block(u64),
    /// gates open `us` after `dispatch` returned
    Timer(u64),
}
#[derive(Clone, Debug, PartialEq)]
pub enum AOp {
    Dispatch { gate: Vec<usize>, rel: Rel },
    Running,
    /// poll `running()` (every poll is logged) until it answers false, at most 60 times
    Spin,
    Wait,
    WaitNoTl,
    World,
    WorldMut,
    Setup,
}
pub const OPS: [&str; 7] = ["dispatch", "wait", "wait_without_tl", "running", "world", "world_mut", "setup"];
impl AOp {
    fn code(&self) -> usize {
        match self {
            AOp::Dispatch { .. } => 0,
            AOp::Wait => 1,
            AOp::WaitNoTl => 2,
            AOp::Running | AOp::Spin => 3,
            AOp::World => 4,
            AOp::WorldMut => 5,
            AOp::Setup => 6,
        }
    }
    fn blocking(&self) -> bool {
        !matches!(self, AOp::Running | AOp::Spin)
    }
    fn line(&self) -> String {
        match self {
            AOp::Dispatch { gate, rel } => format!(
                "aop dispatch gate={} rel={}",
                if gate.is_empty() { "-".to_string() } else { gate.iter().map(|x| x.to_string()).collect::<Vec<_>>().join(",") },
                match rel {
                    Rel::Block(us) => format!("block:{}", us),
                    Rel::Timer(us) => format!("timer:{}", us),
                }
            ),
            AOp::Spin => "aop spin".into(),
            o => format!("aop {}", OPS[o.code()]),
        }
    }
}

#[derive(Clone, Debug)]
pub struct Case {
    pub ops: Vec<Op>,
    pub arc: bool,
    pub threads: usize,
    pub holds: Vec<(usize, u64)>,
    pub aops: Vec<AOp>,
}
impl Case {
    pub fn lines(&self) -> Vec<String> {
        let mut v = vec![];
        Op::lines(&self.ops, &mut v);
        v.push(format!("cfg world={} threads={}", if self.arc { "arc" } else { "plain" }, self.threads));
        for (t, us) in &self.holds {
            v.push(format!("hold {} {}", t, us));
        }
        for a in &self.aops {
            v.push(a.line());
        }
        v
    }
    pub fn parse(lines: &[String]) -> Case {
        let mut c = Case { ops: vec![], arc: false, threads: 2, holds: vec![], aops: vec![] };
        let mut reg = vec![];
        for l in lines {
            let p: Vec<&str> = l.split_whitespace().collect();
            match p.as_slice() {
                ["cfg", rest @ ..] => {
                    for kv in rest {
                        if let Some(v) = kv.strip_prefix("world=") {
                            c.arc = v == "arc";
                        } else if let Some(v) = kv.strip_prefix("threads=") {
                            c.threads = v.parse().unwrap_or(2).clamp(1, 8);
                        }
                    }
                }
                ["hold", t, us] => c.holds.push((t.parse().unwrap_or(0), us.parse().unwrap_or(0))),
                ["aop", "dispatch", rest @ ..] => {
                    let mut gate = vec![];
                    let mut rel = Rel::Block(200);
                    for kv in rest {
                        if let Some(v) = kv.strip_prefix("gate=") {
                            gate = v.split(',').filter_map(|x| x.parse().ok()).collect();
                        } else if let Some(v) = kv.strip_prefix("rel=") {
                            let mut q = v.split(':');
                            let k = q.next().unwrap_or("block");
                            let us = q.next().and_then(|x| x.parse().ok()).unwrap_or(200);
                            rel = if k == "timer" { Rel::Timer(us) } else { Rel::Block(us) };
                        }
                    }
                    c.aops.push(AOp::Dispatch { gate, rel });
                }
                ["aop", "spin"] => c.aops.push(AOp::Spin),
                ["aop", name] => {
                    let a = match *name {
                        "wait" => Some(AOp::Wait),
                        "wait_without_tl" => Some(AOp::WaitNoTl),
                        "running" => Some(AOp::Running),
                        "world" => Some(AOp::World),
                        "world_mut" => Some(AOp::WorldMut),
                        "setup" => Some(AOp::Setup),
                        _ => None,
                    };
                    if let Some(a) = a {
                        c.aops.push(a);
                    }
                }
                _ => reg.push(l.clone()),
            }
        }
        c.ops = Op::parse(&reg).into_iter().filter(|o| !matches!(o, Op::Batch { .. })).collect();
        c
    }
    fn staged(&self) -> Vec<usize> {
        self.ops.iter().filter_map(|o| if let Op::Sys { tag, .. } = o { Some(*tag) } else { None }).collect()
    }
    fn tls(&self) -> Vec<usize> {
        self.ops.iter().filter_map(|o| if let Op::Tl { tag, .. } = o { Some(*tag) } else { None }).collect()
    }
}

pub fn gen_case(seed: u64, c: u64, max_ops: u64) -> Case {
    let mut cfg = GenCfg::profile("flat");
    cfg.max_n = 8;
    cfg.p_tl = 18;
    let mut g = Gen::new(Rng::new(seed, c), cfg);
    let ops = g.case();
    let mut r = Rng::new(seed, c ^ 0x5eed_a5c1);
    let mut case = Case { ops, arc: r.chance(30), threads: 1 + r.below(4) as usize, holds: vec![], aops: vec![] };
    let staged = case.staged();
    for t in &staged {
        if r.chance(25) {
            case.holds.push((*t, 20 + r.below(300)));
        }
    }
    for t in case.tls() {
        if r.chance(25) {
            case.holds.push((t, 20 + r.below(200)));
        }
    }
    let n = 1 + r.below(max_ops.max(1));
    // whether the most recent dispatch is held until the caller blocks (then `spin` would not end)
    let mut block_pending = false;
    let mut any_dispatch = false;
    for _ in 0..n {
        let k = r.below(100);
        let a = if k < 34 || !any_dispatch && k < 60 {
            let mut gate = vec![];
            if !staged.is_empty() && r.chance(65) {
                for _ in 0..1 + r.below(3) {
                    let t = *r.pick(&staged);
                    if !gate.contains(&t) {
                        gate.push(t);
                    }
                }
            }
            let rel = if r.chance(60) { Rel::Block(100 + r.below(900)) } else { Rel::Timer(50 + r.below(1200)) };
            block_pending = !gate.is_empty() && matches!(rel, Rel::Block(_));
            any_dispatch = true;
            AOp::Dispatch { gate, rel }
        } else if k < 58 {
            AOp::Running
        } else if k < 64 {
            if block_pending {
                AOp::Running
            } else {
                AOp::Spin
            }
        } else if k < 76 {
            AOp::Wait
        } else if k < 84 {
            AOp::WaitNoTl
        } else if k < 89 {
            AOp::World
        } else if k < 94 {
            AOp::WorldMut
        } else if case.arc {
            AOp::World
        } else {
            AOp::Setup
        };
        if a.blocking() && !matches!(a, AOp::Dispatch { .. }) {
            block_pending = false;
        }
        case.aops.push(a);
    }
    case
}

/// one entry of the merged log
#[derive(Clone, Debug, PartialEq)]
pub enum Ent {
    Call(usize),
    Ret(usize, bool),
    /// F / D (or P) of system `tag` on thread `th`; `d` = how many events of the same kind and
    /// tag precede it (= the dispatch number for ordinary systems)
    Sys { k: char, tag: usize, th: char, d: usize },
}
impl Ent {
    pub fn show(&self) -> String {
        match self {
            Ent::Call(o) => format!("call {}", OPS[*o]),
            Ent::Ret(o, v) => format!("ret {} {}", OPS[*o], *v as u8),
            Ent::Sys { k, tag, th, d } => format!("ev {} {} {} {}", k, tag, th, d),
        }
    }
}

pub struct RunOut {
    pub log: Vec<Ent>,
    pub panicked: Option<String>,
    pub watchdog: bool,
    pub runs: BTreeMap<usize, u64>,
    pub gate_waits: u64,
}

enum Disp {
    Plain(AsyncDispatcher<'static, World>),
    Shared(AsyncDispatcher<'static, Arc<World>>),
}
macro_rules! with_d {
    ($d:expr, $x:ident => $e:expr) => {
        match $d {
            Disp::Plain($x) => $e,
            Disp::Shared($x) => $e,
        }
    };
}

/// runs the operation sequence on the real dispatcher; everything is logged on `shared`
pub fn run_real(case: &Case, shared: &Arc<Shared>, pools: &[Pool], skip: &[usize], watchdog_ms: u64) -> RunOut {
    let ntags = Op::max_tag(&case.ops) + 1;
    let gates = Gates::new(ntags, watchdog_ms);
    shared.reset_behaviour();
    shared.reset_state();
    shared.take_log();
    shared.set_caller();
    for (t, us) in &case.holds {
        if let Some(b) = shared.behav.get(*t) {
            b.hold_us.store(*us, SeqCst);
        }
    }
    let pool = &pools[(case.threads - 1).min(pools.len() - 1)];
    let staged = case.staged();
    let mut out = RunOut { log: vec![], panicked: None, watchdog: false, runs: BTreeMap::new(), gate_waits: 0 };
    let built = catch_unwind(AssertUnwindSafe(|| {
        let b = build_gated(&case.ops, shared, &gates, pool, skip);
        if case.arc {
            Disp::Shared(b.build_async(Arc::new(full_world())))
        } else {
            Disp::Plain(b.build_async(full_world()))
        }
    }));
    let mut d = match built {
        Ok(d) => d,
        Err(p) => {
            out.panicked = Some(format!("build_async panicked: {}", panic_message(&p)));
            return out;
        }
    };
    // number of blocking operations the caller has entered so far
    let entered = Arc::new(AtomicU64::new(0));
    let mut helpers = vec![];
    let mut aops = case.aops.clone();
    if !matches!(aops.last(), Some(AOp::Wait) | Some(AOp::WaitNoTl) | Some(AOp::World) | Some(AOp::WorldMut) | Some(AOp::Setup)) {
        aops.push(AOp::Wait);
    }
    let mut n_dispatch = 0u64;
    'script: for a in &aops {
        let polls = if *a == AOp::Spin { 60 } else { 1 };
        for _ in 0..polls {
            if let AOp::Dispatch { gate, .. } = a {
                for t in gate {
                    if staged.contains(t) {
                        gates.close(*t, n_dispatch);
                    }
                }
            }
            shared.push('C', vec![a.code()]);
            if a.blocking() {
                entered.fetch_add(1, SeqCst);
            }
            let res = catch_unwind(AssertUnwindSafe(|| match a {
                AOp::Dispatch { .. } => {
                    with_d!(&mut d, x => x.dispatch());
                    false
                }
                AOp::Running | AOp::Spin => with_d!(&mut d, x => x.running()),
                AOp::Wait => {
                    with_d!(&mut d, x => x.wait());
                    false
                }
                AOp::WaitNoTl => {
                    with_d!(&mut d, x => x.wait_without_tl());
                    false
                }
                AOp::World => {
                    with_d!(&mut d, x => {
                        let _ = x.world();
                    });
                    false
                }
                AOp::WorldMut => {
                    with_d!(&mut d, x => {
                        let _ = x.world_mut();
                    });
                    false
                }
                AOp::Setup => {
                    match &mut d {
                        Disp::Plain(x) => x.setup(),
                        Disp::Shared(x) => {
                            let _ = x.world();
                        }
                    }
                    false
                }
            }));
            match res {
                Ok(v) => shared.push('R', vec![a.code(), v as usize]),
                Err(p) => {
                    out.panicked = Some(format!("{} panicked: {}", OPS[a.code()], panic_message(&p)));
                    break 'script;
                }
            }
            if let AOp::Dispatch { gate, rel } = a {
                let my = n_dispatch;
                n_dispatch += 1;
                let gate: Vec<usize> = gate.iter().cloned().filter(|t| staged.contains(t)).collect();
                if !gate.is_empty() {
                    let (g, e, rel) = (gates.clone(), entered.clone(), rel.clone());
                    let seen = entered.load(SeqCst);
                    helpers.push(std::thread::spawn(move || {
                        let t0 = Instant::now();
                        let us = match rel {
                            Rel::Timer(us) => us,
                            Rel::Block(us) => {
                                while e.load(SeqCst) <= seen && t0.elapsed() < Duration::from_millis(1000) {
                                    std::thread::sleep(Duration::from_micros(20));
                                }
                                us
                            }
                        };
                        std::thread::sleep(Duration::from_micros(us));
                        for t in gate {
                            g.open(t, my);
                        }
                    }));
                }
            }
            if *a == AOp::Spin {
                let last_false = shared.log.lock().unwrap().last().map(|e| e.kind == 'R' && e.inst.get(1) == Some(&0)).unwrap_or(true);
                if last_false {
                    break;
                }
                std::thread::sleep(Duration::from_micros(50));
            }
        }
    }
    // never leave anything blocked behind
    entered.fetch_add(1000, SeqCst);
    gates.open_all();
    for h in helpers {
        let _ = h.join();
    }
    gates.open_all();
    let _ = catch_unwind(AssertUnwindSafe(|| with_d!(&mut d, x => x.wait_without_tl())));
    out.watchdog = gates.watchdog_fired.load(SeqCst);
    out.gate_waits = gates.waited.load(SeqCst);
    let raw = shared.take_log();
    // what ran during the cleanup `wait_without_tl` is not part of the case (normally nothing)
    let mut cnt: BTreeMap<(char, usize), usize> = BTreeMap::new();
    for e in raw {
        match e.kind {
            'C' => out.log.push(Ent::Call(e.inst[0])),
            'R' => out.log.push(Ent::Ret(e.inst[0], e.inst[1] != 0)),
            k => {
                let tag = *e.inst.last().unwrap_or(&0);
                let c = cnt.entry((k, tag)).or_insert(0);
                out.log.push(Ent::Sys { k, tag, th: e.th, d: *c });
                *c += 1;
            }
        }
    }
    for t in staged.iter().chain(case.tls().iter()) {
        out.runs.insert(*t, shared.behav[*t].runs.load(SeqCst));
    }
    drop(d);
    out
}

/// implementation-side oracles on the merged log (no model involved): (class, what)
pub fn impl_oracles(case: &Case, skip: &[usize], out: &RunOut) -> Vec<(String, String)> {
    let mut v: Vec<(String, String)> = vec![];
    let staged: Vec<usize> = case.staged().into_iter().filter(|t| !skip.contains(t)).collect();
    let tls = case.tls();
    let mut nf: BTreeMap<usize, usize> = staged.iter().map(|t| (*t, 0)).collect();
    let mut nd: BTreeMap<usize, usize> = nf.clone();
    let mut tl_runs: BTreeMap<usize, usize> = tls.iter().map(|t| (*t, 0)).collect();
    let (mut calls, mut rets, mut waits) = (0usize, 0usize, 0usize);
    let mut cur: Option<usize> = None;
    let mut add = |class: &str, what: String| {
        if !v.iter().any(|(c, _)| c == class) {
            v.push((class.to_string(), what));
        }
    };
    if let Some(p) = &out.panicked {
        add("panic", format!("a dispatcher operation panicked: {}", p));
    }
    for (i, e) in out.log.iter().enumerate() {
        let open: Vec<usize> = staged.iter().cloned().filter(|t| nf[t] > nd[t]).collect();
        match e {
            Ent::Call(o) => {
                cur = Some(*o);
                if *o == 0 {
                    calls += 1;
                }
            }
            Ent::Ret(o, val) => {
                cur = None;
                match *o {
                    3 => {
                        if !*val {
                            if !open.is_empty() {
                                add("running-false-while-open", format!("log[{}]: running() returned false while system(s) {:?} are inside run", i, open));
                            } else if let Some(t) = staged.iter().find(|t| nd[t] != rets || nf[t] != rets) {
                                add("running-false-before-done", format!("log[{}]: running() returned false but system {} has started {} / finished {} times for {} dispatches", i, t, nf[t], nd[t], rets));
                            }
                        }
                    }
                    0 => {
                        if let Some(t) = staged.iter().find(|t| nd[t] < rets || nf[t] > rets + 1) {
                            add("dispatch-overtakes", format!("log[{}]: dispatch #{} returned but system {} has started {} / finished {} times", i, rets, t, nf[t], nd[t]));
                        }
                        rets += 1;
                    }
                    _ => {
                        if !open.is_empty() {
                            add("accessor-while-open", format!("log[{}]: {} returned while system(s) {:?} are inside run", i, OPS[*o], open));
                        } else if let Some(t) = staged.iter().find(|t| nd[t] != rets || nf[t] != rets) {
                            add("accessor-before-done", format!("log[{}]: {} returned after {} dispatches but system {} has started {} / finished {} times", i, OPS[*o], rets, t, nf[t], nd[t]));
                        }
                        if *o == 1 {
                            waits += 1;
                            if let Some(t) = tls.iter().find(|t| tl_runs[t] != 2 * waits) {
                                add("tl-count", format!("log[{}]: after {} wait(s) thread-local system {} has logged {} events", i, waits, t, tl_runs[t]));
                            }
                        }
                    }
                }
            }
            Ent::Sys { k, tag, th, .. } => {
                if tls.contains(tag) {
                    *tl_runs.get_mut(tag).unwrap() += 1;
                    if cur != Some(1) {
                        add("tl-outside-wait", format!("log[{}]: thread-local system {} logs {} outside wait (caller is in {:?})", i, tag, k, cur.map(|o| OPS[o])));
                    }
                    if *th != 'c' {
                        add("tl-thread", format!("log[{}]: thread-local system {} runs on thread class '{}'", i, tag, th));
                    }
                    if !open.is_empty() || staged.iter().any(|t| nd[t] != rets) {
                        add("tl-before-finish", format!("log[{}]: thread-local system {} logs {} while the dispatched systems have not finished (open {:?})", i, tag, k, open));
                    }
                } else if staged.contains(tag) {
                    if *k == 'F' {
                        let d = nf[tag];
                        if d >= calls {
                            add("run-without-dispatch", format!("log[{}]: system {} starts run #{} but dispatch was called {} times", i, tag, d + 1, calls));
                        }
                        if let Some(t) = staged.iter().find(|t| nd[t] < d) {
                            add("dispatch-overtakes", format!("log[{}]: system {} starts for dispatch #{} while system {} has finished only {} times", i, tag, d, t, nd[t]));
                        }
                        *nf.get_mut(tag).unwrap() += 1;
                    } else if *k == 'D' {
                        *nd.get_mut(tag).unwrap() += 1;
                        if nd[tag] > nf[tag] {
                            add("drop-without-fetch", format!("log[{}]: system {} finishes more often than it starts", i, tag));
                        }
                    } else {
                        add("panic", format!("log[{}]: system {} panicked", i, tag));
                    }
                }
            }
        }
    }
    if out.panicked.is_none() {
        for t in &staged {
            if out.runs.get(t).cloned().unwrap_or(0) != rets as u64 {
                add("run-count", format!("system {} ran {} times for {} dispatches", t, out.runs.get(t).cloned().unwrap_or(0), rets));
            }
        }
        for t in &tls {
            if out.runs.get(t).cloned().unwrap_or(0) != waits as u64 {
                add("tl-count", format!("thread-local system {} ran {} times for {} waits", t, out.runs.get(t).cloned().unwrap_or(0), waits));
            }
        }
    }
    v
}

/// feeds the merged log to the Lean acceptor; Some(reason) on rejection
pub fn model_check(drv: &mut Drv, layout: &str, log: &[Ent]) -> Option<String> {
    let m = parse_model_layout(layout);
    let tl = format!("[{}]", m.tl.iter().map(|x| x.to_string()).collect::<Vec<_>>().join(","));
    let a = drv.ask(&format!("asyncd begin {} {}", show_nested(&m.sys), tl));
    if a != "ok" {
        return Some(format!("asyncd begin answered `{}`", a));
    }
    for (i, e) in log.iter().enumerate() {
        let a = drv.ask(&format!("asyncd {}", e.show()));
        if a != "ok" {
            let from = i.saturating_sub(6);
            let ctx: Vec<String> = log[from..=i].iter().map(|e| e.show()).collect();
            return Some(format!("the model rejects log[{}] `{}`: {} (preceding events: {})", i, e.show(), a, ctx.join("; ")));
        }
    }
    let a = drv.ask("asyncd end");
    if a != "accept" {
        return Some(format!("end of log: {}", a));
    }
    None
}

pub struct Eval {
    pub impl_v: Vec<(String, String)>,
    pub model_v: Vec<(String, String)>,
    pub out: RunOut,
    pub layout: String,
}

pub fn eval_case(case: &Case, drv: Option<&mut Drv>, pools: &[Pool], watchdog_ms: u64) -> Eval {
    let shared = Shared::new(Op::max_tag(&case.ops) + 1);
    let mut drv = drv;
    let mut model_v = vec![];
    // model layout (and the outcome of every registration) via the plan engine's builder run
    let built = build_case(&case.ops, drv.as_deref_mut(), shared.clone(), &pools[0], false);
    for d in &built.diffs {
        model_v.push(("outcome".to_string(), d.clone()));
    }
    let skip: Vec<usize> = built.infos.values().filter(|i| !i.placed).map(|i| i.tag).collect();
    let layout = built.model_layouts.get(&None).cloned().unwrap_or_default();
    drop(built);
    let out = run_real(case, &shared, pools, &skip, watchdog_ms);
    let impl_v = impl_oracles(case, &skip, &out);
    if out.watchdog {
        model_v.push(("harness".into(), "a gate watchdog fired: a system waited for its gate longer than the bound".into()));
    }
    if let Some(d) = drv {
        if out.panicked.is_none() {
            if let Some(why) = model_check(d, &layout, &out.log) {
                model_v.push(("async-log".into(), why));
            }
        }
    }
    Eval { impl_v, model_v, out, layout }
}

fn shrink_case(case: &Case, pred: &mut dyn FnMut(&Case) -> bool) -> Case {
    let mut cur = case.clone();
    // operations first
    let mut i = 0;
    while i < cur.aops.len() {
        let mut c = cur.clone();
        c.aops.remove(i);
        if pred(&c) {
            cur = c;
        } else {
            i += 1;
        }
    }
    // gates and holds
    for i in 0..cur.aops.len() {
        if let AOp::Dispatch { gate, rel } = cur.aops[i].clone() {
            let mut j = 0;
            let mut gate = gate;
            while j < gate.len() {
                let mut g2 = gate.clone();
                g2.remove(j);
                let mut c = cur.clone();
                c.aops[i] = AOp::Dispatch { gate: g2.clone(), rel: rel.clone() };
                if pred(&c) {
                    cur = c;
                    gate = g2;
                } else {
                    j += 1;
                }
            }
        }
    }
    let mut c = cur.clone();
    c.holds.clear();
    if pred(&c) {
        cur = c;
    }
    // registrations (keep the gated tags meaningful: gates of removed systems are ignored)
    let base = cur.clone();
    let ops = shrink(&cur.ops, &mut |o: &[Op]| {
        let mut c = base.clone();
        c.ops = o.to_vec();
        pred(&c)
    });
    cur.ops = ops;
    let live = cur.staged();
    for a in cur.aops.iter_mut() {
        if let AOp::Dispatch { gate, .. } = a {
            gate.retain(|t| live.contains(t));
        }
    }
    cur
}

pub fn run(args: &Args, rep: &mut Report) {
    let seed = args.num("seed", 1);
    let cases = args.num("cases", 300);
    let max_ops = args.num("max-ops", 12);
    let watchdog_ms = args.num("watchdog-ms", 3000);
    let mut drv = Drv::spawn(&args.str("driver", "/verif/lean/.lake/build/bin/driver"));
    let pools: Vec<Pool> = (1..=4).map(make_pool).collect();
    rep.rule = "flat registration sequences (profile flat + thread-local systems) × random sequences of ≤ max-ops dispatch / running / spin / wait / wait_without_tl / world / world_mut / setup on a real AsyncDispatcher (World or Arc<World>, pool of 1-4 threads) with per-dispatch gates holding chosen systems inside run until the caller has entered its next blocking operation (or a timer fires); distinct = distinct case texts; non-trivial = a system was really held at a gate and (running() answered true or an accessor / second dispatch was entered while a system was inside run)".into();
    let mut todo: Vec<(String, Case)> = vec![];
    if let Some(f) = args.get("replay") {
        let text = std::fs::read_to_string(&f).expect("replay file");
        let lines: Vec<String> = text.lines().filter(|l| !l.starts_with('#')).map(|s| s.to_string()).collect();
        todo.push((format!("replay:{}", f), Case::parse(&lines)));
    }
    if let Some(dir) = args.get("corpus") {
        if let Ok(rd) = std::fs::read_dir(&dir) {
            let mut files: Vec<_> = rd.filter_map(|e| e.ok()).map(|e| e.path()).filter(|p| p.extension().map(|x| x == "case").unwrap_or(false)).collect();
            files.sort();
            for f in files {
                let text = std::fs::read_to_string(&f).unwrap_or_default();
                let lines: Vec<String> = text.lines().filter(|l| !l.starts_with('#')).map(|s| s.to_string()).collect();
                todo.push((format!("corpus:{}", f.display()), Case::parse(&lines)));
                rep.count("corpus_cases");
            }
        }
    }
    if args.get("replay").is_none() {
        for c in 0..cases {
            todo.push((format!("gen:{}:{}", seed, c), gen_case(seed, c, max_ops)));
        }
    }
    let mut reported: std::collections::BTreeSet<String> = Default::default();
    for (label, case) in todo {
        drv.begin_case();
        let ev = eval_case(&case, Some(&mut drv), &pools, watchdog_ms);
        // distribution
        let mut open = 0i64;
        let (mut run_true, mut run_false, mut entered_open, mut second_disp_open) = (0u64, 0u64, 0u64, 0u64);
        for e in &ev.out.log {
            match e {
                Ent::Sys { k: 'F', tag, .. } if !case.tls().contains(tag) => open += 1,
                Ent::Sys { k: 'D', tag, .. } if !case.tls().contains(tag) => open -= 1,
                Ent::Sys { .. } => rep.count("thread_local_events"),
                Ent::Call(o) => {
                    rep.count(&format!("op_{}", OPS[*o]));
                    if open > 0 && *o != 3 {
                        entered_open += 1;
                        if *o == 0 {
                            second_disp_open += 1;
                        }
                    }
                }
                Ent::Ret(3, true) => run_true += 1,
                Ent::Ret(3, false) => run_false += 1,
                _ => {}
            }
        }
        rep.add("running_true", run_true);
        rep.add("running_false", run_false);
        rep.add("blocking_op_entered_while_a_system_is_inside_run", entered_open);
        rep.add("dispatch_entered_while_previous_still_running", second_disp_open);
        rep.add("systems_held_at_a_gate", ev.out.gate_waits);
        rep.add("log_events", ev.out.log.len() as u64);
        rep.maxi("max_log_len", ev.out.log.len() as u64);
        rep.add("registrations", Op::count(&case.ops) as u64);
        rep.maxi("max_systems", case.staged().len() as u64);
        rep.count(if case.arc { "world_arc" } else { "world_plain" });
        rep.count(&format!("pool_threads_{}", case.threads));
        if case.aops.iter().any(|a| matches!(a, AOp::Dispatch { gate, .. } if !gate.is_empty())) {
            rep.count("cases_with_gated_dispatch");
        }
        if ev.out.watchdog {
            rep.count("watchdog_fired");
        }
        let nontrivial = ev.out.gate_waits > 0 && (run_true > 0 || entered_open > 0);
        rep.case(&case.lines().join("\n"), nontrivial);
        if ev.model_v.is_empty() && ev.out.panicked.is_none() {
            rep.traces_validated += 1;
        }
        if nontrivial {
            rep.sample(Json::obj(vec![
                ("case", Json::Arr(case.lines().into_iter().map(Json::s).collect())),
                ("model_layout", Json::s(ev.layout.clone())),
                ("merged_log", Json::s(ev.out.log.iter().map(|e| e.show()).collect::<Vec<_>>().join("; "))),
            ]));
        }
        for (class, what) in &ev.impl_v {
            if reported.insert(format!("impl:{}", class)) {
                let cl = class.clone();
                let small = shrink_case(&case, &mut |c: &Case| {
                    // timing may matter: the failure must show in one of two runs
                    (0..2).any(|_| eval_case(c, None, &pools, watchdog_ms).impl_v.iter().any(|(q, _)| *q == cl))
                });
                let mut what2 = what.clone();
                for _ in 0..3 {
                    let r2 = eval_case(&small, None, &pools, watchdog_ms);
                    if let Some(x) = r2.impl_v.iter().find(|(q, _)| q == class) {
                        what2 = format!("{} [merged log: {}]", x.1, r2.out.log.iter().map(|e| e.show()).collect::<Vec<_>>().join("; "));
                        break;
                    }
                }
                rep.violate("C15", "impl", class, format!("{} [{}]", what2, label), small.lines());
            }
        }
        for (aspect, what) in &ev.model_v {
            if reported.insert(format!("model:{}", aspect)) {
                let asp = aspect.clone();
                let small = shrink_case(&case, &mut |c: &Case| {
                    drv.begin_case();
                    (0..2).any(|_| eval_case(c, Some(&mut drv), &pools, watchdog_ms).model_v.iter().any(|(a, _)| *a == asp))
                });
                rep.violate(&format!("MODEL:{}", aspect), "model", "", format!("{} [{}]", what, label), small.lines());
            }
        }
    }
    rep.add("driver_requests", drv.requests);
}
