//! Lifecycle engine (C13): `setup` and `dispose` of real dispatchers built from generated
//! registration sequences (batches nested up to 3, thread-local systems) on worlds in which a
//! random subset of the resources already exists with non-default values; setup repeated and
//! interleaved with inserts / removes.
use crate::build::*;
use crate::common::*;
use crate::engines::plan::{case_lines, shrink};
use crate::gen::*;
use crate::sys::*;
use shred::*;
use std::collections::BTreeMap;
use std::panic::{catch_unwind, AssertUnwindSafe};
use std::sync::atomic::Ordering::SeqCst;

pub struct LOut {
    pub impl_v: Vec<(String, String)>,
    pub model_v: Vec<(String, String)>,
    pub key: String,
    pub nontrivial: bool,
    pub sample: String,
}

fn world_map(w: &World) -> BTreeMap<Res, u64> {
    world_values(w).into_iter().collect()
}

/// the systems whose hooks must be called, in the harness's own reckoning (no model): every
/// placed non-batch system of every placed builder, and the resources controller data creates
fn expected(built: &Built, key: Option<usize>, ops: &[Op], hooks: &mut Vec<usize>, creates: &mut Vec<Res>) {
    for o in ops {
        match o {
            Op::Sys { tag, .. } => {
                if built.infos[tag].placed {
                    hooks.push(*tag)
                }
            }
            Op::Tl { tag, .. } => hooks.push(*tag),
            Op::Batch { tag, ctl, inner, .. } => {
                if built.infos[tag].placed {
                    creates.extend(CTL_CREATES[*ctl].iter().cloned());
                    expected(built, Some(*tag), inner, hooks, creates);
                }
            }
            Op::Barrier => {}
        }
    }
    let _ = key;
}

pub fn eval_case(ops: &[Op], drv: Option<&mut Drv>, pool: &Pool, rng: &mut Rng, direct: Option<bool>) -> LOut {
    let mut out = LOut { impl_v: vec![], model_v: vec![], key: String::new(), nontrivial: false, sample: String::new() };
    let mut drv = drv;
    let shared = Shared::new(Op::max_tag(ops) + 1);
    // half of the cases register the library's `MultiDispatcher` directly (no event wrapper)
    let drawn = rng.chance(50);
    let direct = direct.unwrap_or(drawn);
    shared.direct_multi.store(direct, SeqCst);
    // the library's controller keeps `BatchController::running_time`'s default (VeryLong)
    fn very_long(ops: &[Op]) -> Vec<Op> {
        ops.iter()
            .map(|o| match o {
                Op::Batch { tag, name, deps, ctl, t, n, inner } => Op::Batch { tag: *tag, name: name.clone(), deps: deps.clone(), ctl: *ctl, t: if ctl_is_multi(*ctl) { 5 } else { *t }, n: *n, inner: very_long(inner) },
                o => o.clone(),
            })
            .collect()
    }
    let ops_direct;
    let ops: &[Op] = if direct {
        ops_direct = very_long(ops);
        &ops_direct
    } else {
        ops
    };
    let mut built = build_case(ops, drv.as_deref_mut(), shared.clone(), pool, false);
    for d in std::mem::take(&mut built.diffs) {
        out.model_v.push(("outcome".into(), d));
    }
    let disp = built.builder.take().unwrap().build();
    // without thread-local systems the dispatcher may be used in its sendable form
    // (`SendDispatcher::setup` / `dispose`, send_dispatcher.rs)
    enum AnyDisp {
        D(Dispatcher<'static, 'static>),
        S(SendDispatcher<'static>),
        /// through `impl RunNow for Dispatcher` (dispatcher.rs l.131): what a dispatcher nested
        /// as a thread-local system of another one is driven by
        B(Box<dyn for<'x> RunNow<'x> + 'static>),
    }
    let has_tl = ops.iter().any(|o| matches!(o, Op::Tl { .. }));
    let mut disp = if !has_tl && rng.chance(30) {
        match disp.try_into_sendable() {
            Ok(s) => AnyDisp::S(s),
            Err(d) => {
                out.impl_v.push(("C12".into(), "try_into_sendable refused a dispatcher without thread-local systems".into()));
                AnyDisp::D(d)
            }
        }
    } else if rng.chance(25) {
        AnyDisp::B(Box::new(disp))
    } else {
        AnyDisp::D(disp)
    };
    let (mut hooks, mut creates) = (vec![], vec![]);
    expected(&built, None, ops, &mut hooks, &mut creates);
    hooks.sort();
    // a world in which a random subset of the resources exists, with non-default values
    let mut world = World::empty();
    for ty in 0..NTY {
        for dy in 0..NDY {
            if rng.chance(if dy == 0 { 45 } else { 25 }) {
                let v = 7000 + rng.below(1000);
                by_ty!(ty, K => world.insert_by_id(rid((ty, dy)), R::<K>(v)));
            }
        }
    }
    // a dispatch in which a system panics (caught) must not change what setup and dispose reach later
    if rng.chance(30) {
        let staged: Vec<usize> = built.infos.values().filter(|i| i.placed && !i.is_tl && i.parent.is_none()).map(|i| i.tag).collect();
        if !staged.is_empty() {
            let t = *rng.pick(&staged);
            shared.behav[t].panic_mode.store(1, SeqCst);
            shared.set_caller();
            let w = full_world();
            let r = catch_unwind(AssertUnwindSafe(|| match &mut disp {
                AnyDisp::D(d) => d.dispatch(&w),
                AnyDisp::S(d) => d.dispatch(&w),
                AnyDisp::B(d) => d.run_now(&w),
            }));
            shared.behav[t].panic_mode.store(0, SeqCst);
            shared.take_log();
            if r.is_ok() && !built.infos[&t].is_batch {
                out.impl_v.push(("C14".into(), format!("system {} panicked inside run but dispatch returned normally", t)));
            }
        }
    }
    let rounds = 1 + rng.below(3);
    let mut log_all = String::new();
    for round in 0..rounds {
        let before = world_map(&world);
        shared.lifecycle.lock().unwrap().clear();
        let r = catch_unwind(AssertUnwindSafe(|| match &mut disp {
            AnyDisp::D(d) => d.setup(&mut world),
            AnyDisp::S(d) => d.setup(&mut world),
            AnyDisp::B(d) => d.setup(&mut world),
        }));
        if let Err(p) = r {
            out.impl_v.push(("C13".into(), format!("setup panicked: {}", panic_message(&p))));
            return out;
        }
        let log: Vec<(char, usize)> = shared.lifecycle.lock().unwrap().clone();
        let after = world_map(&world);
        // --- oracles
        let mut got: Vec<usize> = log.iter().filter(|e| e.0 == 'S').map(|e| e.1).collect();
        got.sort();
        if got != hooks {
            out.impl_v.push(("C13".into(), format!("setup round {}: setup hooks called for {:?}, registered systems are {:?}", round, got, hooks)));
        }
        let mut got_u: Vec<usize> = log.iter().filter(|e| e.0 == 'U').map(|e| e.1).collect();
        got_u.sort();
        if got_u != hooks {
            out.impl_v.push(("C13".into(), format!("setup round {}: the systems' own `System::setup` was called for {:?}, registered systems are {:?}", round, got_u, hooks)));
        }
        if log.iter().any(|e| e.0 == 'X') {
            out.impl_v.push(("C13".into(), "setup called a dispose hook".into()));
        }
        for (k, v) in &before {
            if after.get(k) != Some(v) {
                out.impl_v.push(("C13".into(), format!("setup changed the existing resource {:?}: {} -> {:?}", k, v, after.get(k))));
            }
        }
        for c in &creates {
            if !after.contains_key(c) {
                out.impl_v.push(("C13".into(), format!("after setup the default-provided resource {:?} does not exist", c)));
            }
        }
        for (k, v) in &after {
            if !before.contains_key(k) && (!creates.contains(k) || *v != 0) {
                out.impl_v.push(("C13".into(), format!("setup created {:?} = {} although no default-providing accessor asks for it (or not with the default value)", k, v)));
            }
        }
        // --- model
        if let Some(d) = drv.as_deref_mut() {
            let slog: Vec<&(char, usize)> = log.iter().filter(|e| e.0 == 'S').collect();
            let real = if slog.is_empty() { "-".to_string() } else { slog.iter().map(|e| format!("{}{}", e.0, e.1)).collect::<Vec<_>>().join(" ") };
            let model = d.ask("lifecycle setup");
            let model_s: String = model.split_whitespace().filter(|x| x.starts_with('S')).collect::<Vec<_>>().join(" ");
            if (if model_s.is_empty() { "-".to_string() } else { model_s }) != real {
                out.model_v.push(("lifecycle".into(), format!("setup order: real [{}] model [{}]", real, model)));
            }
            let present = if before.is_empty() { "-".to_string() } else { before.iter().map(|((t, y), v)| format!("{}.{}={}", t, y, v)).collect::<Vec<_>>().join(",") };
            let mw = d.ask(&format!("setup-world {}", present));
            let mut mm: BTreeMap<Res, u64> = BTreeMap::new();
            if mw != "-" {
                for p in mw.split(',') {
                    let kv: Vec<&str> = p.split('=').collect();
                    if kv.len() == 2 {
                        let r = parse_resl(kv[0]);
                        if r.len() == 1 {
                            mm.insert(r[0], kv[1].parse().unwrap_or(0));
                        }
                    }
                }
            }
            if mm != after {
                out.model_v.push(("lifecycle".into(), format!("world after setup: real {:?} model {:?}", after, mm)));
            }
            if log_all.is_empty() {
                log_all = format!("setup: {} | world before {:?} after {:?}", model, before.keys().collect::<Vec<_>>(), after.keys().collect::<Vec<_>>());
            }
        }
        // interleave inserts / removes
        for _ in 0..rng.below(4) {
            let r: Res = (rng.below(NTY as u64) as u8, rng.below(2));
            if rng.chance(50) {
                let v = 8000 + rng.below(1000);
                by_ty!(r.0, K => world.insert_by_id(rid(r), R::<K>(v)));
            } else {
                by_ty!(r.0, K => { world.remove_by_id::<R<K>>(rid(r)); });
            }
        }
    }
    // dispose
    let before = world_map(&world);
    shared.lifecycle.lock().unwrap().clear();
    // one time in five from a destructor while the caller unwinds (an owner that disposes in its `Drop`)
    let unwinding = rng.chance(20);
    let go = move || match disp {
        AnyDisp::D(d) => d.dispose(&mut world),
        AnyDisp::S(d) => d.dispose(&mut world),
        AnyDisp::B(d) => d.dispose(&mut world),
    };
    let r = if unwinding { in_unwinding(|| catch_unwind(AssertUnwindSafe(go))) } else { catch_unwind(AssertUnwindSafe(go)) };
    if let Err(p) = r {
        out.impl_v.push(("C13".into(), format!("dispose panicked: {}", panic_message(&p))));
        return out;
    }
    let _ = before;
    let log: Vec<(char, usize)> = shared.lifecycle.lock().unwrap().clone();
    let mut got: Vec<usize> = log.iter().filter(|e| e.0 == 'X').map(|e| e.1).collect();
    got.sort();
    if got != hooks {
        out.impl_v.push(("C13".into(), format!("dispose hooks called for {:?}, registered systems are {:?}", got, hooks)));
    }
    for t in &hooks {
        let n = shared.behav[*t].disposes.load(SeqCst);
        if n != 1 {
            out.impl_v.push(("C13".into(), format!("system {} was handed to its dispose hook {} times", t, n)));
        }
    }
    if let Some(d) = drv.as_deref_mut() {
        let real = if log.is_empty() { "-".to_string() } else { log.iter().map(|e| format!("{}{}", e.0, e.1)).collect::<Vec<_>>().join(" ") };
        let model = d.ask("lifecycle dispose");
        if model != real {
            out.model_v.push(("lifecycle".into(), format!("dispose order: real [{}] model [{}]", real, model)));
        }
        out.sample = format!("{} | dispose: {}", log_all, model);
    }
    out.key = format!("{:?}/{:?}", hooks, creates);
    out.nontrivial = hooks.len() >= 2 && (Op::depth(ops) > 0 || ops.iter().any(|o| matches!(o, Op::Tl { .. })));
    out
}

/// Systems that rely on the *provided* `System::setup` (the harness systems elsewhere override it in
/// order to count): dynamic system data, `accessor()` overridden to hand out the instance's own accessor,
/// an accessor type that also has a blank default (`try_new() = Some(..)`). The provided setup must use
/// the accessor the system hands out: the data's setup hook then counts under the system's tag. One such
/// system as an ordinary system, one as a thread-local system, one inside a batch.
fn provided_setup_check(pool: &Pool) -> Vec<String> {
    struct Plain(Acc);
    impl<'a> System<'a> for Plain {
        type SystemData = Data<'a>;
        fn run(&mut self, _: Data<'a>) {}
        fn accessor<'b>(&'b self) -> AccessorCow<'a, 'b, Self> {
            AccessorCow::Ref(&self.0)
        }
    }
    let shared = Shared::new(8);
    let mk = |tag: usize| Plain(Acc { tag, decl_r: vec![(0, 0)], decl_w: vec![(1, tag as u64 % 4)], shared: shared.clone(), path: vec![], borrow: false });
    let mut inner = new_builder(pool);
    inner.add(mk(3), "in", &[]);
    let core = CtlCore { tag: 4, n: 1, t: 3, shared: shared.clone(), path: vec![], iter: Default::default() };
    let mut b = new_builder(pool);
    b.add(mk(1), "plain", &[]);
    b.add_batch(Ctl0(core), inner, "batch", &[]);
    b.add_thread_local(mk(2));
    let mut d = b.build();
    let mut w = full_world();
    let mut bad = vec![];
    if let Err(p) = catch_unwind(AssertUnwindSafe(|| d.setup(&mut w))) {
        bad.push(format!("Dispatcher::setup panicked: {}", panic_message(&p)));
        return bad;
    }
    for (tag, what) in [(1usize, "an ordinary system"), (2, "a thread-local system"), (3, "a system inside a batch")] {
        let n = shared.behav[tag].setups.load(SeqCst);
        if n != 1 {
            bad.push(format!("the setup hook of the system data of {} that relies on the provided System::setup ran {} times with the accessor that system hands out (1 expected: setup of every registered system, with its own accessor)", what, n));
        }
    }
    bad
}

pub fn run(args: &Args, rep: &mut Report) {
    if args.get("replay").is_none() {
        let pool = make_pool(2);
        for b in provided_setup_check(&pool) {
            rep.violate("C13", "impl", "", format!("{} [provided-setup]", b), vec!["# provided-setup: self-contained, see harness/src/engines/lifecycle.rs provided_setup_check".into()]);
        }
        rep.count("dispatchers_of_systems_relying_on_the_provided_setup");
    }
    let seed = args.num("seed", 1);
    let cases = args.num("cases", 200);
    let mut drv = Drv::spawn(&args.str("driver", "/verif/lean/.lake/build/bin/driver"));
    let pool = make_pool(2);
    rep.rule = "generated registration sequences (batches nested 0-3 with all eleven controller kinds incl. the library's MultiDispatcher, thread-local systems, failed registrations), worlds with a random subset of resources pre-populated with non-default values, setup called 1-3 times interleaved with inserts/removes, then dispose; distinct = distinct (hook set, created set); non-trivial = at least two systems and a batch or thread-local system".into();
    let mut todo: Vec<(String, Vec<Op>, u64)> = vec![];
    if let Some(f) = args.get("replay") {
        let text = std::fs::read_to_string(&f).expect("replay file");
        let lines: Vec<String> = text.lines().map(|s| s.to_string()).collect();
        todo.push(("replay".into(), Op::parse(&lines), 0));
    } else {
        if let Some(dir) = args.get("corpus") {
            if let Ok(rd) = std::fs::read_dir(&dir) {
                let mut files: Vec<_> = rd.filter_map(|e| e.ok()).map(|e| e.path()).filter(|p| p.extension().map(|x| x == "case").unwrap_or(false)).collect();
                files.sort();
                for f in files {
                    let text = std::fs::read_to_string(&f).unwrap_or_default();
                    let lines: Vec<String> = text.lines().filter(|l| !l.starts_with('#')).map(|s| s.to_string()).collect();
                    todo.push((format!("corpus:{}", f.display()), Op::parse(&lines), 999));
                    rep.count("corpus_cases");
                }
            }
        }
        for c in 0..cases {
            let prof = ["batch", "tl", "kf1", "malformed"][(c % 4) as usize];
            let mut cfg = GenCfg::profile(prof);
            cfg.max_depth = 3;
            let mut g = Gen::new(Rng::new(seed, c), cfg);
            todo.push((format!("gen:{}:{}:{}", prof, seed, c), g.case(), c));
        }
    }
    let mut reported: std::collections::BTreeSet<String> = Default::default();
    for (label, ops, stream) in todo {
      mark_current(&case_lines(&ops));
      // replayed / corpus cases run both ways of registering a `MultiDispatcher`
      let variants: Vec<Option<bool>> = if label.starts_with("gen:") { vec![None] } else { vec![Some(false), Some(true)] };
      for direct in variants {
        drv.begin_case();
        let mut rng = Rng::new(seed ^ 0x11fe, stream);
        let o = eval_case(&ops, Some(&mut drv), &pool, &mut rng, direct);
        rep.case(&o.key, o.nontrivial);
        rep.add("registrations", Op::count(&ops) as u64);
        rep.maxi("max_batch_depth", Op::depth(&ops) as u64);
        if Op::has_tl_in_batch(&ops, false) {
            rep.count("cases_with_thread_local_inside_batch");
        }
        if rep.samples.len() < 2 && o.nontrivial {
            rep.sample(Json::obj(vec![("case", Json::Arr(case_lines(&ops).into_iter().map(Json::s).collect())), ("hooks", Json::s(o.sample.clone()))]));
        }
        for (p, what) in &o.impl_v {
            if reported.insert(format!("impl:{}", p)) {
                let small = shrink(&ops, &mut |c: &[Op]| {
                    let mut r = Rng::new(seed ^ 0x11fe, stream);
                    !eval_case(c, None, &pool, &mut r, direct).impl_v.is_empty()
                });
                let mut r = Rng::new(seed ^ 0x11fe, stream);
                let what2 = eval_case(&small, None, &pool, &mut r, direct).impl_v.first().map(|x| x.1.clone()).unwrap_or_else(|| what.clone());
                rep.violate(p, "impl", "", format!("{} [{}]", what2, label), case_lines(&small));
            }
        }
        for (a, what) in &o.model_v {
            if reported.insert(format!("model:{}", a)) {
                rep.violate(&format!("MODEL:{}", a), "model", "", format!("{} [{}]", what, label), case_lines(&ops));
            }
        }
      }
    }
}
