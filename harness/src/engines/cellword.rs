//! Cell-word engine (C08, the many-thread clause): ties `Model/CellWord.lean` — the hand transcription
//! of the four borrow-word operations of `atomic_refcell` — to the real cell behind `shred::cell`.
//!
//! (1) Sequential histories: random legal sequences of try_borrow / try_borrow_mut / guard drops on
//! one real `AtomicRefCell`; after **every** step the answer (granted or refused) *and the raw borrow
//! word* (read from the cell's memory) must equal what the model's `wordStep` says — including the
//! increments refused shared attempts leave behind and the `store(0)` of an exclusive drop.
//! (2) Many threads: threads hammer one cell with the same operations and keep a shadow account;
//! no exclusive guard may ever coexist with another guard, and when every guard is gone the word is 0
//! (model: any sequence of legal steps that ends with no guard alive leaves the word 0 or, if the
//! last exclusive guard was dropped, 0 — `dropExcl` wipes refused attempts).
use crate::common::*;
use shred::cell::{AtomicRef, AtomicRefCell, AtomicRefMut};
use std::sync::atomic::{AtomicBool, AtomicI64, Ordering::SeqCst};
use std::sync::Arc;

const FILL: u64 = 0xA5A5_5A5A_C3C3_3C3C;

/// index (in `usize` words) of the borrow word inside `AtomicRefCell<u64>`, found by experiment:
/// the one word that is 0 on a fresh cell, 1 while one shared guard is alive and 0 again after
fn find_word() -> Option<usize> {
    let cell = AtomicRefCell::new(FILL);
    let n = std::mem::size_of::<AtomicRefCell<u64>>() / std::mem::size_of::<usize>();
    let read = |c: &AtomicRefCell<u64>| -> Vec<usize> { (0..n).map(|i| unsafe { std::ptr::read_volatile((c as *const _ as *const usize).add(i)) }).collect() };
    let a = read(&cell);
    let g = cell.borrow();
    let b = read(&cell);
    drop(g);
    let c = read(&cell);
    let cand: Vec<usize> = (0..n).filter(|&i| a[i] == 0 && b[i] == 1 && c[i] == 0).collect();
    if cand.len() == 1 {
        Some(cand[0])
    } else {
        None
    }
}
fn word(c: &AtomicRefCell<u64>, idx: usize) -> usize {
    unsafe { std::ptr::read_volatile((c as *const _ as *const usize).add(idx)) }
}

/// the harness's own reckoning (no model): a shared attempt is granted iff no exclusive guard is
/// alive, an exclusive one iff no guard at all is alive
fn impl_case(lines: &[String]) -> Option<String> {
    let cell = AtomicRefCell::new(FILL);
    let mut shared: Vec<AtomicRef<u64>> = vec![];
    let mut excl: Option<AtomicRefMut<u64>> = None;
    for (k, op) in lines.iter().enumerate() {
        match op.as_str() {
            "try-shared" => {
                let want = excl.is_none();
                let got = match cell.try_borrow() {
                    Ok(g) => {
                        shared.push(g);
                        true
                    }
                    Err(_) => false,
                };
                if got != want {
                    return Some(format!("step {}: try_borrow was {} while {} shared and {} exclusive guard(s) are alive", k, if got { "granted" } else { "refused" }, shared.len() - got as usize, excl.is_some() as usize));
                }
            }
            "try-excl" => {
                let want = excl.is_none() && shared.is_empty();
                let got = match cell.try_borrow_mut() {
                    Ok(g) => {
                        if want {
                            excl = Some(g);
                        } else {
                            std::mem::forget(g);
                        }
                        true
                    }
                    Err(_) => false,
                };
                if got != want {
                    return Some(format!("step {}: try_borrow_mut was {} while {} shared and {} exclusive guard(s) are alive", k, if got { "granted" } else { "refused" }, shared.len(), excl.is_some() as usize));
                }
            }
            "drop-shared" => {
                shared.pop();
            }
            "drop-excl" => {
                excl.take();
            }
            _ => {}
        }
    }
    None
}

fn run_case(lines: &[String], drv: &mut Drv, idx: usize) -> Option<String> {
    let cell = AtomicRefCell::new(FILL);
    let mut shared: Vec<AtomicRef<u64>> = vec![];
    let mut excl: Option<AtomicRefMut<u64>> = None;
    drv.ask("cellw new");
    for (k, op) in lines.iter().enumerate() {
        let granted = match op.as_str() {
            "try-shared" => match cell.try_borrow() {
                Ok(g) => {
                    shared.push(g);
                    true
                }
                Err(_) => false,
            },
            "try-excl" => match cell.try_borrow_mut() {
                Ok(g) => {
                    excl = Some(g);
                    true
                }
                Err(_) => false,
            },
            "drop-shared" => {
                if shared.pop().is_none() {
                    return Some(format!("step {}: illegal case line (no shared guard to drop)", k));
                }
                true
            }
            "drop-excl" => {
                if excl.take().is_none() {
                    return Some(format!("step {}: illegal case line (no exclusive guard to drop)", k));
                }
                true
            }
            _ => continue,
        };
        let real = format!("{} {}", granted, word(&cell, idx));
        let model = drv.ask(&format!("cellw {}", op));
        if real != model {
            return Some(format!("step {} `{}`: the real cell answers / holds `{}` (granted, borrow word), the model `{}`", k, op, real, model));
        }
    }
    None
}

fn gen_case(rng: &mut Rng, len: usize) -> Vec<String> {
    let (mut ns, mut ex) = (0usize, false);
    let mut v = vec![];
    for _ in 0..len {
        let mut opts = vec!["try-shared", "try-excl"];
        if ns > 0 {
            opts.push("drop-shared");
            opts.push("drop-shared");
        }
        if ex {
            opts.push("drop-excl");
        }
        let op = *rng.pick(&opts);
        match op {
            "try-shared" => {
                if !ex {
                    ns += 1
                }
            }
            "try-excl" => {
                if !ex && ns == 0 {
                    ex = true
                }
            }
            "drop-shared" => ns -= 1,
            _ => ex = false,
        }
        v.push(op.to_string());
    }
    v
}

#[cfg(not(feature = "parallel"))]
fn stress(_seed: u64, _threads: usize, _ops: u64, _idx: usize, _rep: &mut Report) {}
#[cfg(feature = "parallel")]
fn stress(seed: u64, threads: usize, ops: u64, idx: usize, rep: &mut Report) {
    let cell = Arc::new(AtomicRefCell::new(FILL));
    let readers = Arc::new(AtomicI64::new(0));
    let writers = Arc::new(AtomicI64::new(0));
    let bad = Arc::new(AtomicBool::new(false));
    let mut hs = vec![];
    for t in 0..threads {
        let (cell, readers, writers, bad) = (cell.clone(), readers.clone(), writers.clone(), bad.clone());
        hs.push(std::thread::spawn(move || {
            let mut rng = Rng::new(seed ^ 0xce11, t as u64);
            let mut granted = (0u64, 0u64);
            for _ in 0..ops {
                if rng.chance(70) {
                    if let Ok(g) = cell.try_borrow() {
                        readers.fetch_add(1, SeqCst);
                        if writers.load(SeqCst) != 0 || *g != FILL {
                            bad.store(true, SeqCst);
                        }
                        granted.0 += 1;
                        readers.fetch_sub(1, SeqCst);
                        drop(g);
                    }
                } else if let Ok(mut g) = cell.try_borrow_mut() {
                    let w = writers.fetch_add(1, SeqCst);
                    if w != 0 || readers.load(SeqCst) != 0 {
                        bad.store(true, SeqCst);
                    }
                    *g = !FILL;
                    std::thread::yield_now();
                    *g = FILL;
                    granted.1 += 1;
                    writers.fetch_sub(1, SeqCst);
                    drop(g);
                }
            }
            granted
        }));
    }
    let mut tot = (0u64, 0u64);
    for h in hs {
        if let Ok(g) = h.join() {
            tot.0 += g.0;
            tot.1 += g.1;
        }
    }
    rep.add("stress_shared_grants", tot.0);
    rep.add("stress_exclusive_grants", tot.1);
    let line = format!("stress threads={} ops={}", threads, ops);
    if bad.load(SeqCst) {
        rep.violate("C08", "impl", "", format!("{}: an exclusive guard coexisted with another guard on one cell (or a reader saw a half-written value)", line), vec![line.clone()]);
    }
    // every guard is gone; a last exclusive borrow wipes refused attempts, and shared attempts are
    // only refused during an exclusive borrow, so the word must be 0 again
    let w = word(&cell, idx);
    if w != 0 && cell.try_borrow_mut().is_err() {
        rep.violate("C08", "impl", "", format!("{}: after all threads finished and every guard was dropped the cell cannot be borrowed (borrow word {})", line, w), vec![line]);
    }
}

pub fn run(args: &Args, rep: &mut Report) {
    let seed = args.num("seed", 1);
    let cases = args.num("cases", 400);
    let maxlen = args.num("max-len", 40) as usize;
    let mut drv = Drv::spawn(&args.str("driver", "/verif/lean/.lake/build/bin/driver"));
    rep.rule = "random legal sequences (<= max-len) of try_borrow / try_borrow_mut / guard drops on one real AtomicRefCell, the answer and the raw borrow word compared with the model after every step; plus many-thread rounds with a shadow account of live guards. distinct = distinct sequences; non-trivial = at least one refused attempt".into();
    let idx = match find_word() {
        Some(i) => i,
        None => {
            // the layout of the dependency changed: the word cannot be observed, only the answers are compared
            rep.count("borrow_word_not_located");
            usize::MAX
        }
    };
    let word_found = idx != usize::MAX;
    if !word_found {
        rep.violate("MODEL:cellword", "model", "", "the borrow word of AtomicRefCell could not be located by experiment (layout of the dependency changed?)".into(), vec![]);
    }
    let mut todo: Vec<(String, Vec<String>)> = vec![];
    if let Some(f) = args.get("replay") {
        let text = std::fs::read_to_string(&f).unwrap_or_default();
        let lines: Vec<String> = text.lines().filter(|l| !l.starts_with('#')).map(|s| s.trim().to_string()).filter(|s| !s.is_empty()).collect();
        if lines.first().map(|l| l.starts_with("stress")).unwrap_or(false) {
            stress(seed, 8, 200_000, idx, rep);
            return;
        }
        todo.push(("replay".into(), lines));
    } else {
        if let Some(dir) = args.get("corpus") {
            if let Ok(rd) = std::fs::read_dir(&dir) {
                let mut files: Vec<_> = rd.filter_map(|e| e.ok()).map(|e| e.path()).filter(|p| p.extension().map(|x| x == "case").unwrap_or(false)).collect();
                files.sort();
                for f in files {
                    let text = std::fs::read_to_string(&f).unwrap_or_default();
                    todo.push((format!("corpus:{}", f.display()), text.lines().filter(|l| !l.starts_with('#')).map(|s| s.trim().to_string()).filter(|s| !s.is_empty()).collect()));
                    rep.count("corpus_cases");
                }
            }
        }
        for c in 0..cases {
            let mut rng = Rng::new(seed, c);
            let len = 1 + rng.below(maxlen as u64) as usize;
            todo.push((format!("gen:{}:{}", seed, c), gen_case(&mut rng, len)));
        }
    }
    let mut reported = false;
    let mut reported_impl = false;
    for (label, lines) in todo {
        let refused = {
            // a refused attempt: try-shared while exclusive, try-excl while anything is held
            let (mut ns, mut ex, mut r) = (0i64, false, false);
            for l in &lines {
                match l.as_str() {
                    "try-shared" => {
                        if ex {
                            r = true
                        } else {
                            ns += 1
                        }
                    }
                    "try-excl" => {
                        if ex || ns > 0 {
                            r = true
                        } else {
                            ex = true
                        }
                    }
                    "drop-shared" => ns -= 1,
                    "drop-excl" => ex = false,
                    _ => {}
                }
            }
            r
        };
        rep.case(&lines.join(" "), refused);
        rep.add("steps", lines.len() as u64);
        rep.traces_validated += 1;
        if let Some(what) = impl_case(&lines) {
            if !reported_impl {
                reported_impl = true;
                let mut small = lines.clone();
                for n in 1..=lines.len() {
                    if impl_case(&lines[..n].to_vec()).is_some() {
                        small = lines[..n].to_vec();
                        break;
                    }
                }
                rep.violate("C08", "impl", "", format!("one AtomicRefCell, one thread: {} [{}]", what, label), small);
            }
            continue;
        }
        if !word_found {
            continue;
        }
        if let Some(what) = run_case(&lines, &mut drv, idx) {
            if !reported {
                reported = true;
                // shrink: shortest prefix that still disagrees
                let mut small = lines.clone();
                for n in 1..=lines.len() {
                    if run_case(&lines[..n].to_vec(), &mut drv, idx).is_some() {
                        small = lines[..n].to_vec();
                        break;
                    }
                }
                rep.violate("MODEL:cellword", "model", "", format!("{} [{}]", what, label), small);
            }
        }
    }
    if rep.samples.is_empty() {
        let mut rng = Rng::new(seed, 0);
        rep.sample(Json::obj(vec![("sequence", Json::Arr(gen_case(&mut rng, 12).into_iter().map(Json::s).collect()))]));
    }
    let rounds = args.num("stress-rounds", 2);
    for r in 0..(if word_found { rounds } else { 0 }) {
        stress(seed + r, 4 + 4 * (r as usize % 2), args.num("stress-ops", 100_000), idx, rep);
    }
    rep.add("driver_requests", drv.requests);
}
