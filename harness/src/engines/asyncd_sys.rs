//! Gated harness systems for the `asyncd` engine: the same self-identifying accessor / data as
//! `sys.rs` (F logged in `fetch`, D when the data value drops), but `run` waits on a per-system
//! gate that only the test thread (or its helper) opens. Every wait is bounded by a watchdog so
//! that no thread is ever left blocked. A system can be made to panic in `fetch` or inside `run`
//! of one particular run (`Behav::panic_mode` / `panic_only_run`); its setup hook is logged and
//! asks the library for a default-provided resource (`Read<Sr<K>>::setup`).
use crate::build::{new_builder, Builder, Pool};
use crate::gen::Op;
use crate::sys::*;
use shred::*;
use std::sync::atomic::{AtomicBool, AtomicU64, Ordering::SeqCst};
use std::collections::BTreeSet;
use std::sync::{Arc, Condvar, Mutex};
use std::time::{Duration, Instant};

/// one gate per system; it can be closed for a particular run number of that system (= the
/// dispatch number), so that holding a system of dispatch k+1 does not interfere with
/// releasing the same system of dispatch k
pub struct Gate {
    closed: Mutex<BTreeSet<u64>>,
    cv: Condvar,
}
pub struct Gates {
    gates: Vec<Gate>,
    /// set when a system gave up waiting for its gate (the harness, not the crate, is at fault)
    pub watchdog_fired: AtomicBool,
    pub watchdog_ms: AtomicU64,
    /// number of times a system really had to wait for its gate
    pub waited: AtomicU64,
    /// the systems' own completion signal: per system, the number of `run`s that have returned
    /// *and* logged their D (incremented after the D is in the log)
    pub done: Vec<AtomicU64>,
    /// number of systems that are waiting at their gate right now
    pub at_gate: AtomicU64,
}
impl Gates {
    pub fn new(ntags: usize, watchdog_ms: u64) -> Arc<Gates> {
        Arc::new(Gates {
            gates: (0..ntags).map(|_| Gate { closed: Mutex::new(BTreeSet::new()), cv: Condvar::new() }).collect(),
            watchdog_fired: AtomicBool::new(false),
            watchdog_ms: AtomicU64::new(watchdog_ms),
            waited: AtomicU64::new(0),
            done: (0..ntags).map(|_| AtomicU64::new(0)).collect(),
            at_gate: AtomicU64::new(0),
        })
    }
    pub fn close(&self, tag: usize, run: u64) {
        if let Some(g) = self.gates.get(tag) {
            g.closed.lock().unwrap().insert(run);
        }
    }
    pub fn open(&self, tag: usize, run: u64) {
        if let Some(g) = self.gates.get(tag) {
            g.closed.lock().unwrap().remove(&run);
            g.cv.notify_all();
        }
    }
    pub fn open_all(&self) {
        for g in &self.gates {
            g.closed.lock().unwrap().clear();
            g.cv.notify_all();
        }
    }
    /// called from inside `run`
    pub fn pass(&self, tag: usize, run: u64) {
        let g = match self.gates.get(tag) {
            Some(g) => g,
            None => return,
        };
        let t0 = Instant::now();
        let lim = Duration::from_millis(self.watchdog_ms.load(SeqCst));
        let mut closed = g.closed.lock().unwrap();
        let mut waited = false;
        while closed.contains(&run) {
            if !waited {
                self.at_gate.fetch_add(1, SeqCst);
            }
            waited = true;
            let left = match lim.checked_sub(t0.elapsed()) {
                Some(l) if !l.is_zero() => l,
                _ => {
                    self.watchdog_fired.store(true, SeqCst);
                    break;
                }
            };
            let (c, _) = g.cv.wait_timeout(closed, left).unwrap();
            closed = c;
        }
        if waited {
            self.at_gate.fetch_sub(1, SeqCst);
            self.waited.fetch_add(1, SeqCst);
        }
    }
}

/// a one-shot latch (bounded wait): keeps a pool thread occupied by a harness job so that a
/// dispatched job stays queued behind it
pub struct Latch {
    open: Mutex<bool>,
    cv: Condvar,
}
impl Latch {
    pub fn new() -> Arc<Latch> {
        Arc::new(Latch { open: Mutex::new(false), cv: Condvar::new() })
    }
    pub fn open(&self) {
        *self.open.lock().unwrap() = true;
        self.cv.notify_all();
    }
    /// false when the bound expired
    pub fn wait(&self, ms: u64) -> bool {
        let t0 = Instant::now();
        let lim = Duration::from_millis(ms);
        let mut o = self.open.lock().unwrap();
        while !*o {
            let left = match lim.checked_sub(t0.elapsed()) {
                Some(l) if !l.is_zero() => l,
                _ => return false,
            };
            let (g, _) = self.cv.wait_timeout(o, left).unwrap();
            o = g;
        }
        true
    }
}

/// the OS id of the calling thread (Linux: `/proc/thread-self` -> `<pid>/task/<tid>`); 0 = unknown
pub fn os_tid() -> u64 {
    std::fs::read_link("/proc/thread-self")
        .ok()
        .and_then(|p| p.file_name().map(|f| f.to_string_lossy().to_string()))
        .and_then(|s| s.parse().ok())
        .unwrap_or(0)
}

/// the scheduler state of a thread of this process: 'R' running / runnable, 'S' sleeping (parked
/// in a futex: a blocked `recv`, an idle pool worker), 'D' …; None when it cannot be read
pub fn thread_state(tid: u64) -> Option<char> {
    if tid == 0 {
        return None;
    }
    let s = std::fs::read_to_string(format!("/proc/self/task/{}/stat", tid)).ok()?;
    let i = s.rfind(')')?;
    s[i + 1..].trim_start().chars().next()
}

/// the resources the setup hooks ask the library to provide: system `tag` uses `Sr<tag % NSR>`
/// through a default-providing accessor (`Read<Sr<K>>`), so `setup` must create it when absent
/// and must leave it alone when present
#[derive(Debug, Clone, PartialEq)]
pub struct Sr<const K: usize>(pub u64);
impl<const K: usize> Default for Sr<K> {
    fn default() -> Self {
        Sr(sr_default(K))
    }
}
pub const NSR: usize = 6;
pub fn sr_default(k: usize) -> u64 {
    7000 + k as u64
}
/// what the world holds of `Sr<0..NSR>`: 0 absent, value + 1 otherwise
pub fn sr_probe(w: &World) -> Vec<usize> {
    (0..NSR).map(|k| by_ty!(k, K => w.try_fetch::<Sr<K>>().map(|g| g.0 as usize + 1).unwrap_or(0))).collect()
}
/// `plan[k]`: 0 leave alone, 1 remove, v + 2 set to v (inserting if absent); returns what was done
pub fn sr_mutate(w: &mut World, plan: &[usize]) {
    for (k, p) in plan.iter().enumerate().take(NSR) {
        match *p {
            0 => {}
            1 => {
                by_ty!(k, K => {
                    let _ = w.remove::<Sr<K>>();
                });
            }
            v => {
                by_ty!(k, K => w.insert(Sr::<K>((v - 2) as u64)));
            }
        }
    }
}

pub struct GSys {
    pub acc: Acc,
    pub time: RunningTime,
    pub gates: Arc<Gates>,
}
impl<'a> System<'a> for GSys {
    type SystemData = Data<'a>;
    fn run(&mut self, d: Data<'a>) {
        let sh = d.shared.clone();
        let b = &sh.behav[d.tag];
        let run = b.runs.fetch_add(1, SeqCst);
        let n = sh.inside.fetch_add(1, SeqCst) + 1;
        sh.max_inside.fetch_max(n, SeqCst);
        struct Leave<'s>(&'s Shared, bool);
        impl Drop for Leave<'_> {
            fn drop(&mut self) {
                if !self.1 {
                    self.0.inside.fetch_sub(1, SeqCst);
                }
            }
        }
        let mut leave = Leave(&sh, false);
        // held inside `run`, i.e. inside the logged F…D window, until the gate is open
        self.gates.pass(d.tag, run);
        let hold = b.hold_us.load(SeqCst);
        if hold > 0 {
            let t = Instant::now();
            while t.elapsed() < Duration::from_micros(hold) {
                std::thread::yield_now();
            }
        }
        if b.panic_mode.load(SeqCst) == 1 && b.panic_applies(run) {
            // unwinding drops `d`, which logs P
            panic!("harness panic (run) {} #{}", d.tag, run);
        }
        sh.inside.fetch_sub(1, SeqCst);
        leave.1 = true;
        let tag = d.tag;
        drop(d); // logs D
        if let Some(c) = self.gates.done.get(tag) {
            c.fetch_add(1, SeqCst);
        }
    }
    fn setup(&mut self, world: &mut World) {
        // the hook itself is the observable; then what the default `System::setup` does (the
        // system data's setup), then the library's own provider for a `Default` resource
        self.acc.shared.push('S', vec![self.acc.tag]);
        <Data as DynamicSystemData>::setup(&self.acc, world);
        by_ty!(self.acc.tag % NSR, K => <Read<'_, Sr<K>> as SystemData>::setup(world));
    }
    fn running_time(&self) -> RunningTime {
        self.time
    }
    fn accessor<'b>(&'b self) -> AccessorCow<'a, 'b, Self> {
        AccessorCow::Ref(&self.acc)
    }
}

/// a pool whose `panic_handler` counts the jobs that ended in a panic (without a handler rayon
/// aborts the process when a spawned job panics); the handler runs after the job's closure — and
/// with it the dispatcher's sender — has been dropped by the unwinding
#[cfg(feature = "parallel")]
pub fn make_counting_pool(n: usize, panics: Arc<AtomicU64>) -> Pool {
    Arc::new(
        rayon::ThreadPoolBuilder::new()
            .num_threads(n)
            .panic_handler(move |_| {
                panics.fetch_add(1, SeqCst);
            })
            .build()
            .unwrap(),
    )
}

/// registers the (flat) registration sequence with gated systems; batches are not supported by
/// this engine and are skipped. Registrations that the plan engine's run found to panic are
/// skipped as well (`skip`).
pub fn build_gated(ops: &[Op], shared: &Arc<Shared>, gates: &Arc<Gates>, pool: &Pool, skip: &[usize]) -> Builder {
    let mut b = new_builder(pool);
    for op in ops {
        match op {
            Op::Barrier => b.add_barrier(),
            Op::Tl { tag, r, w } => {
                let acc = Acc { tag: *tag, decl_r: r.clone(), decl_w: w.clone(), shared: shared.clone(), path: vec![], borrow: false };
                b.add_thread_local(GSys { acc, time: rt(3), gates: gates.clone() });
            }
            Op::Sys { tag, name, deps, r, w, t } => {
                if skip.contains(tag) {
                    continue;
                }
                let acc = Acc { tag: *tag, decl_r: r.clone(), decl_w: w.clone(), shared: shared.clone(), path: vec![], borrow: false };
                let dr: Vec<&str> = deps.iter().map(|s| s.as_str()).collect();
                b.add(GSys { acc, time: rt(*t), gates: gates.clone() }, name, &dr);
            }
            Op::Batch { .. } => {}
        }
    }
    b
}
