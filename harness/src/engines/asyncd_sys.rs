//! Gated harness systems for the `asyncd` engine: the same self-identifying accessor / data as
//! `sys.rs` (F logged in `fetch`, D when the data value drops), but `run` waits on a per-system
//! gate that only the test thread (or its helper) opens. Every wait is bounded by a watchdog so
//! that no thread is ever left blocked.
use crate::build::{new_builder, Builder, Pool};
use crate::gen::Op;
use crate::sys::*;
use shred::*;
use std::sync::atomic::{AtomicBool, AtomicU64, Ordering::SeqCst};
use std::collections::BTreeSet;
use std::sync::{Arc, Condvar, Mutex};
use std::time::{Duration, Instant};

/// one gate per system; it can be closed for a particular run number of that system (= the
/// dispatch number), so that holding a system of dispatch k+1 does not interfere with
/// releasing the same system of dispatch k
pub struct Gate {
    closed: Mutex<BTreeSet<u64>>,
    cv: Condvar,
}
pub struct Gates {
    gates: Vec<Gate>,
    /// set when a system gave up waiting for its gate (the harness, not the crate, is at fault)
    pub watchdog_fired: AtomicBool,
    pub watchdog_ms: AtomicU64,
    /// number of times a system really had to wait for its gate
    pub waited: AtomicU64,
    /// the systems' own completion signal: per system, the number of `run`s that have returned
    /// *and* logged their D (incremented after the D is in the log)
    pub done: Vec<AtomicU64>,
    /// number of systems that are waiting at their gate right now
    pub at_gate: AtomicU64,
}
impl Gates {
    pub fn new(ntags: usize, watchdog_ms: u64) -> Arc<Gates> {
        Arc::new(Gates {
            gates: (0..ntags).map(|_| Gate { closed: Mutex::new(BTreeSet::new()), cv: Condvar::new() }).collect(),
            watchdog_fired: AtomicBool::new(false),
            watchdog_ms: AtomicU64::new(watchdog_ms),
            waited: AtomicU64::new(0),
            done: (0..ntags).map(|_| AtomicU64::new(0)).collect(),
            at_gate: AtomicU64::new(0),
        })
    }
    pub fn close(&self, tag: usize, run: u64) {
        if let Some(g) = self.gates.get(tag) {
            g.closed.lock().unwrap().insert(run);
        }
    }
    pub fn open(&self, tag: usize, run: u64) {
        if let Some(g) = self.gates.get(tag) {
            g.closed.lock().unwrap().remove(&run);
            g.cv.notify_all();
        }
    }
    pub fn open_all(&self) {
        for g in &self.gates {
            g.closed.lock().unwrap().clear();
            g.cv.notify_all();
        }
    }
    /// called from inside `run`
    pub fn pass(&self, tag: usize, run: u64) {
        let g = match self.gates.get(tag) {
            Some(g) => g,
            None => return,
        };
        let t0 = Instant::now();
        let lim = Duration::from_millis(self.watchdog_ms.load(SeqCst));
        let mut closed = g.closed.lock().unwrap();
        let mut waited = false;
        while closed.contains(&run) {
            if !waited {
                self.at_gate.fetch_add(1, SeqCst);
            }
            waited = true;
            let left = match lim.checked_sub(t0.elapsed()) {
                Some(l) if !l.is_zero() => l,
                _ => {
                    self.watchdog_fired.store(true, SeqCst);
                    break;
                }
            };
            let (c, _) = g.cv.wait_timeout(closed, left).unwrap();
            closed = c;
        }
        if waited {
            self.at_gate.fetch_sub(1, SeqCst);
            self.waited.fetch_add(1, SeqCst);
        }
    }
}

/// a one-shot latch (bounded wait): keeps a pool thread occupied by a harness job so that a
/// dispatched job stays queued behind it
pub struct Latch {
    open: Mutex<bool>,
    cv: Condvar,
}
impl Latch {
    pub fn new() -> Arc<Latch> {
        Arc::new(Latch { open: Mutex::new(false), cv: Condvar::new() })
    }
    pub fn open(&self) {
        *self.open.lock().unwrap() = true;
        self.cv.notify_all();
    }
    /// false when the bound expired
    pub fn wait(&self, ms: u64) -> bool {
        let t0 = Instant::now();
        let lim = Duration::from_millis(ms);
        let mut o = self.open.lock().unwrap();
        while !*o {
            let left = match lim.checked_sub(t0.elapsed()) {
                Some(l) if !l.is_zero() => l,
                _ => return false,
            };
            let (g, _) = self.cv.wait_timeout(o, left).unwrap();
            o = g;
        }
        true
    }
}

/// the OS id of the calling thread (Linux: `/proc/thread-self` -> `<pid>/task/<tid>`); 0 = unknown
pub fn os_tid() -> u64 {
    std::fs::read_link("/proc/thread-self")
        .ok()
        .and_then(|p| p.file_name().map(|f| f.to_string_lossy().to_string()))
        .and_then(|s| s.parse().ok())
        .unwrap_or(0)
}

/// the scheduler state of a thread of this process: 'R' running / runnable, 'S' sleeping (parked
/// in a futex: a blocked `recv`, an idle pool worker), 'D' …; None when it cannot be read
pub fn thread_state(tid: u64) -> Option<char> {
    if tid == 0 {
        return None;
    }
    let s = std::fs::read_to_string(format!("/proc/self/task/{}/stat", tid)).ok()?;
    let i = s.rfind(')')?;
    s[i + 1..].trim_start().chars().next()
}

pub struct GSys {
    pub acc: Acc,
    pub time: RunningTime,
    pub gates: Arc<Gates>,
}
impl<'a> System<'a> for GSys {
    type SystemData = Data<'a>;
    fn run(&mut self, d: Data<'a>) {
        let sh = d.shared.clone();
        let b = &sh.behav[d.tag];
        let run = b.runs.fetch_add(1, SeqCst);
        let n = sh.inside.fetch_add(1, SeqCst) + 1;
        sh.max_inside.fetch_max(n, SeqCst);
        // held inside `run`, i.e. inside the logged F…D window, until the gate is open
        self.gates.pass(d.tag, run);
        let hold = b.hold_us.load(SeqCst);
        if hold > 0 {
            let t = Instant::now();
            while t.elapsed() < Duration::from_micros(hold) {
                std::thread::yield_now();
            }
        }
        sh.inside.fetch_sub(1, SeqCst);
        let tag = d.tag;
        drop(d); // logs D
        if let Some(c) = self.gates.done.get(tag) {
            c.fetch_add(1, SeqCst);
        }
    }
    fn running_time(&self) -> RunningTime {
        self.time
    }
    fn accessor<'b>(&'b self) -> AccessorCow<'a, 'b, Self> {
        AccessorCow::Ref(&self.acc)
    }
}

/// registers the (flat) registration sequence with gated systems; batches are not supported by
/// this engine and are skipped. Registrations that the plan engine's run found to panic are
/// skipped as well (`skip`).
pub fn build_gated(ops: &[Op], shared: &Arc<Shared>, gates: &Arc<Gates>, pool: &Pool, skip: &[usize]) -> Builder {
    let mut b = new_builder(pool);
    for op in ops {
        match op {
            Op::Barrier => b.add_barrier(),
            Op::Tl { tag, r, w } => {
                let acc = Acc { tag: *tag, decl_r: r.clone(), decl_w: w.clone(), shared: shared.clone(), path: vec![], borrow: false };
                b.add_thread_local(GSys { acc, time: rt(3), gates: gates.clone() });
            }
            Op::Sys { tag, name, deps, r, w, t } => {
                if skip.contains(tag) {
                    continue;
                }
                let acc = Acc { tag: *tag, decl_r: r.clone(), decl_w: w.clone(), shared: shared.clone(), path: vec![], borrow: false };
                let dr: Vec<&str> = deps.iter().map(|s| s.as_str()).collect();
                b.add(GSys { acc, time: rt(*t), gates: gates.clone() }, name, &dr);
            }
            Op::Batch { .. } => {}
        }
    }
    b
}
