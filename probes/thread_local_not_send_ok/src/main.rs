//! Must compile: the same system registered as a thread-local system (control for `staged_requires_send`).
use shred::{DispatcherBuilder, System};
struct NotSend(*const u8);
impl<'a> System<'a> for NotSend {
    type SystemData = ();
    fn run(&mut self, _: ()) {}
}
fn main() {
    let x = 0u8;
    let mut d = DispatcherBuilder::new().with_thread_local(NotSend(&x as *const u8)).build();
    let w = shred::World::empty();
    d.dispatch(&w);
}
