#[allow(dead_code)]
pub trait Obj {
    fn v(&self) -> u32;
    fn set(&mut self, x: u32);
}
#[derive(Default)]
pub struct A(pub u32);
impl Obj for A {
    fn v(&self) -> u32 {
        self.0
    }
    fn set(&mut self, x: u32) {
        self.0 = x
    }
}
unsafe impl<T: Obj + 'static> shred::CastFrom<T> for dyn Obj {
    fn cast(t: *mut T) -> *mut (dyn Obj + 'static) {
        t
    }
}
