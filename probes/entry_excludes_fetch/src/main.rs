//! Must NOT compile (C08 / C09): `entry` borrows the world exclusively, so no guard can be taken while
//! the entry (or the `FetchMut` it returns) is alive.
include!("../../common.rs");
fn main() {
    let mut w = shred::World::empty();
    let e = w.entry::<A>();
    let g = w.fetch::<A>(); // PROBE-LINE: error[E0502] expected here
    let m = e.or_insert(A(1));
    println!("{} {}", g.v(), m.v());
}
