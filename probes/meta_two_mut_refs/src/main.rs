//! Must NOT compile (C08): two `&mut dyn Obj` derived from one exclusive guard at the same time.
include!("../../common.rs");
fn main() {
    let mut w = shred::World::empty();
    w.insert(A(1));
    let mut table = shred::MetaTable::<dyn Obj>::new();
    table.register::<A>();
    let mut guard = w.fetch_mut::<A>();
    let a: &mut dyn Obj = table.get_mut(&mut *guard).unwrap();
    let b: &mut dyn Obj = table.get_mut(&mut *guard).unwrap(); // PROBE-LINE: error[E0499] expected here
    a.set(2);
    b.set(3);
}
