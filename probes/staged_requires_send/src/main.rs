//! Must NOT compile (C12): a system that is not `Send` cannot be registered as an ordinary (staged)
//! system — staged systems run on pool workers.
use shred::{DispatcherBuilder, System};
struct NotSend(*const u8);
impl<'a> System<'a> for NotSend {
    type SystemData = ();
    fn run(&mut self, _: ()) {}
}
fn main() {
    let x = 0u8;
    let _ = DispatcherBuilder::new().with(NotSend(&x as *const u8), "n", &[]); // PROBE-LINE: error[E0277] expected here
}
