//! Must compile: the same calls as the must-not-compile probes of C08, in a legal order (so that those
//! probes fail for the reason they name and not because the API moved).
include!("../../common.rs");
fn main() {
    let mut w = shred::World::empty();
    w.insert(A(1));
    let mut table = shred::MetaTable::<dyn Obj>::new();
    table.register::<A>();
    {
        let guard = w.fetch::<A>();
        let r: &dyn Obj = table.get(&*guard).unwrap();
        println!("{}", r.v());
        drop(guard);
    }
    {
        let mut guard = w.fetch_mut::<A>();
        let a: &mut dyn Obj = table.get_mut(&mut *guard).unwrap();
        a.set(2);
        let b: &mut dyn Obj = table.get_mut(&mut *guard).unwrap();
        b.set(3);
    }
    {
        let m = w.entry::<A>().or_insert(A(1));
        println!("{}", m.v());
    }
    let guard = w.fetch::<A>();
    println!("{}", guard.v());
    drop(guard);
    drop(w);
}
