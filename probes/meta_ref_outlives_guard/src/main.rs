//! Must NOT compile (C08): the trait object `MetaTable::get` hands out borrows from the guard it was
//! derived from — keeping it after the guard is dropped would be an unguarded shared borrow.
include!("../../common.rs");
fn main() {
    let mut w = shred::World::empty();
    w.insert(A(1));
    let mut table = shred::MetaTable::<dyn Obj>::new();
    table.register::<A>();
    let guard = w.fetch::<A>();
    let r: &dyn Obj = table.get(&*guard).unwrap();
    drop(guard); // PROBE-LINE: error[E0505] expected here
    println!("{}", r.v());
}
