//! Must NOT compile: a `Dispatcher` (which may hold thread-local systems) is not `Send` (C12).
fn needs_send<T: Send>() {}
fn main() {
    needs_send::<shred::Dispatcher<'static, 'static>>();
}
