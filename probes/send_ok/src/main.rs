//! Must compile: the sendable form of a dispatcher is `Send` (C12).
fn needs_send<T: Send>() {}
fn main() {
    needs_send::<shred::SendDispatcher<'static>>();
}
