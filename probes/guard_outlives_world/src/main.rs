//! Must NOT compile (C08): a guard cannot outlive the world it borrows from.
include!("../../common.rs");
fn main() {
    let mut w = shred::World::empty();
    w.insert(A(1));
    let guard = w.fetch::<A>();
    drop(w); // PROBE-LINE: error[E0505] expected here
    println!("{}", guard.v());
}
