/-!
# `SystemData` as provided and derived by shred (C06)

Mirrors
* `src/world/data.rs` l.44-179: the `SystemData` impls of `Read<T, F>`, `Write<T, F>`,
  `Option<Read<T, F>>`, `Option<Write<T, F>>`;
* `src/world/setup.rs`: `DefaultProvider` (`world.entry().or_insert_with(T::default)`),
  `PanicHandler` (nothing), user `SetupHandler`s (a parameter of the model);
* `src/system.rs` l.303-315 `()`, l.373-387 `PhantomData<T>`, l.389-469 `impl_data!`
  (tuples of 1..26 members: `setup`/`fetch` run the members left to right, `reads`/`writes`
  `append` the members' vectors left to right);
* `shred-derive/src/lib.rs` `impl_system_data` / `gen_from_body`: the derived impl does the same
  over the fields in declaration order (named and tuple structs alike);
* `src/world/mod.rs` `fetch` / `try_fetch` / `fetch_mut` / `try_fetch_mut` (l.406-491): lookup,
  `try_borrow[_mut]`, panic `"{type}: already [mutably|immutably] borrowed"` on a conflict,
  `fetch_panic!()` on absence; and the part of `atomic_refcell` they use.

Only statically typed resources occur (`ResourceId::new::<T>()`, dynamic id 0), so a resource
is identified by a tag `Nat`. The borrow flag of a cell is the one of `Model/World.lean`
(`free | shared n | excl`, here with `shared n` standing for `n + 1` readers); this file is self-contained (core Lean only) so
that the driver links it without the rest of the world model.

A fetched value is represented by the list of borrow guards it owns, in field order (that is
the order in which Rust drops them). Unwinding is explicit: when a member's `fetch` panics
the members fetched before it are temporaries of the enclosing tuple/struct expression and are
dropped — the model releases their guards (`fetchL`, the `.error` branch after a success).
-/
namespace Shred.SysData

abbrev Tag := Nat

/-- state of one `AtomicRefCell` borrow counter; `shared n` = `n + 1` live shared borrows (so every
value of the type is a state the real counter can be in) -/
inductive Borrow | free | shared (n : Nat) | excl
deriving DecidableEq, Repr

/-- `try_borrow` (`excl = false`) / `try_borrow_mut` (`excl = true`) -/
def tryBorrow (b : Borrow) (excl : Bool) : Option Borrow :=
  match b, excl with
  | .free, false => some (.shared 0)
  | .shared n, false => some (.shared (n + 1))
  | .free, true => some .excl
  | _, _ => none

/-- dropping one guard (`AtomicBorrowRef::drop`: decrement; `AtomicBorrowRefMut::drop`: store 0) -/
def dec : Borrow → Borrow
  | .shared (n + 1) => .shared n
  | _ => .free

/-- the borrow flag of every cell (only meaningful for present resources) -/
abbrev Flags := Tag → Borrow

/-- resource values: `none` = not in the world -/
abbrev Vals := Tag → Option Nat

def upd {α} (f : Tag → α) (t : Tag) (a : α) : Tag → α := fun x => if x = t then a else f x

/-- change the entry of `t` by `g`. (Written pointwise — the old entry is looked up at the queried
key only — so that the compiled driver evaluates a chain of updates in linear time.) -/
def modify {α} (f : Tag → α) (t : Tag) (g : α → α) : Tag → α := fun x => if x = t then g (f x) else f x

structure Guard where
  tag : Tag
  excl : Bool
deriving DecidableEq, Repr

inductive Panic
  | absent (t : Tag)      -- `fetch_panic!()`
  | borrowed (t : Tag)    -- `panic!("{}: {e}", type_name::<T>())`
deriving DecidableEq, Repr

/-- the `F` parameter of `Read<T, F>` / `Write<T, F>` -/
inductive Handler
  | dflt                  -- `DefaultProvider`
  | expect                -- `PanicHandler` (`ReadExpect`, `WriteExpect`)
  | custom (h : Nat)      -- a user-defined `SetupHandler<T>`; its effect is `henv h`
deriving DecidableEq, Repr

/-- the system-data types shred provides or derives -/
inductive SD
  | leaf (excl : Bool) (h : Handler) (t : Tag)   -- `Read<T, F>` / `Write<T, F>`
  | opt (excl : Bool) (h : Handler) (t : Tag)    -- `Option<Read<T, F>>` / `Option<Write<T, F>>`
  | unit                                         -- `()`
  | phantom                                      -- `PhantomData<T>`
  | tuple (ms : List SD)                         -- `(A, B, ..)`, arity 1..26 in Rust
  | struct (ms : List SD)                        -- `#[derive(SystemData)] struct`, fields in order
deriving Repr

/-! ## `reads()` / `writes()` -/

mutual
/-- `T::reads()` -/
def reads : SD → List Tag
  | .leaf e _ t => if e then [] else [t]
  | .opt e _ t => if e then [] else [t]
  | .unit => []
  | .phantom => []
  | .tuple ms => readsL ms
  | .struct ms => readsL ms
/-- `r.append(&mut <$ty>::reads())` for every member, left to right -/
def readsL : List SD → List Tag
  | [] => []
  | m :: ms => reads m ++ readsL ms
end

mutual
/-- `T::writes()` -/
def writes : SD → List Tag
  | .leaf e _ t => if e then [t] else []
  | .opt e _ t => if e then [t] else []
  | .unit => []
  | .phantom => []
  | .tuple ms => writesL ms
  | .struct ms => writesL ms
def writesL : List SD → List Tag
  | [] => []
  | m :: ms => writes m ++ writesL ms
end

/-! ## `setup` -/

/-- effect of user setup handler number `h` instantiated at resource `t` -/
abbrev HEnv := Nat → Tag → Vals → Vals

/-- `F::setup(world)`; `dv t` is `T::default()` -/
def setupLeaf (henv : HEnv) (dv : Tag → Nat) (h : Handler) (t : Tag) (w : Vals) : Vals :=
  match h with
  | .dflt => modify w t fun o => match o with   -- `world.entry().or_insert_with(T::default)`
    | some v => some v
    | none => some (dv t)
  | .expect => w
  | .custom k => henv k t w

mutual
/-- `T::setup(world)` -/
def setup (henv : HEnv) (dv : Tag → Nat) : SD → Vals → Vals
  | .leaf _ h t, w => setupLeaf henv dv h t w
  | .opt _ _ _, w => w                 -- `fn setup(_: &mut World) {}` whatever `F` is
  | .unit, w => w
  | .phantom, w => w
  | .tuple ms, w => setupL henv dv ms w
  | .struct ms, w => setupL henv dv ms w
/-- `$( <$ty>::setup(&mut *world); )*` -/
def setupL (henv : HEnv) (dv : Tag → Nat) : List SD → Vals → Vals
  | [], w => w
  | m :: ms, w => setupL henv dv ms (setup henv dv m w)
end

/-! ## `fetch` and `drop` -/

/-- dropping one guard -/
def release1 (fl : Flags) (g : Guard) : Flags := modify fl g.tag dec

/-- dropping a value = dropping its guards in field order -/
def drop (fl : Flags) (gs : List Guard) : Flags := gs.foldl release1 fl

/-- `try_fetch` / `try_fetch_mut` on a present resource -/
def borrow1 (fl : Flags) (t : Tag) (excl : Bool) : Flags × Except Panic (List Guard) :=
  match tryBorrow (fl t) excl with
  | some b => (upd fl t b, .ok [⟨t, excl⟩])
  | none => (fl, .error (.borrowed t))

mutual
/-- `T::fetch(world)`; `present t` = the world has resource `t`. Returns the flags after the
call and either the guards of the value or the panic (with which the call unwinds). -/
def fetch (present : Tag → Bool) : SD → Flags → Flags × Except Panic (List Guard)
  | .leaf e _ t, fl => if present t then borrow1 fl t e else (fl, .error (.absent t))
  | .opt e _ t, fl => if present t then borrow1 fl t e else (fl, .ok [])
  | .unit, fl => (fl, .ok [])
  | .phantom, fl => (fl, .ok [])
  | .tuple ms, fl => fetchL present ms fl
  | .struct ms, fl => fetchL present ms fl
/-- `( $( <$ty>::fetch(world), )* )` — left to right; a panic drops what was fetched so far -/
def fetchL (present : Tag → Bool) : List SD → Flags → Flags × Except Panic (List Guard)
  | [], fl => (fl, .ok [])
  | m :: ms, fl =>
    match fetch present m fl with
    | (fl1, .error p) => (fl1, .error p)
    | (fl1, .ok g1) =>
      match fetchL present ms fl1 with
      | (fl2, .error p) => (drop fl2 g1, .error p)
      | (fl2, .ok g2) => (fl2, .ok (g1 ++ g2))
end

/-! ## flat view: the sequence of leaf accesses -/

/-- one leaf access: resource, exclusive?, optional? -/
structure Acc where
  tag : Tag
  excl : Bool
  optional : Bool
deriving DecidableEq, Repr

mutual
def leaves : SD → List Acc
  | .leaf e _ t => [⟨t, e, false⟩]
  | .opt e _ t => [⟨t, e, true⟩]
  | .unit => []
  | .phantom => []
  | .tuple ms => leavesL ms
  | .struct ms => leavesL ms
def leavesL : List SD → List Acc
  | [] => []
  | m :: ms => leaves m ++ leavesL ms
end

/-- resources whose absence makes `fetch` panic -/
def required (sd : SD) : List Tag := ((leaves sd).filter fun a => !a.optional).map (·.tag)

mutual
/-- leaf setup actions in order: (handler, resource) of every non-optional leaf -/
def handlers : SD → List (Handler × Tag)
  | .leaf _ h t => [(h, t)]
  | .opt _ _ _ => []
  | .unit => []
  | .phantom => []
  | .tuple ms => handlersL ms
  | .struct ms => handlersL ms
def handlersL : List SD → List (Handler × Tag)
  | [] => []
  | m :: ms => handlers m ++ handlersL ms
end

/-- resources a `DefaultProvider` leaf asks for -/
def defaults (sd : SD) : List Tag := ((handlers sd).filter fun p => p.1 == .dflt).map (·.2)

/-- the concrete user handlers the harness instantiates (`HIns`, `HSet`, `HNop`, `HDel` in
`harness/src/engines/sysdata.rs`) -/
def stdEnv : HEnv := fun k t w =>
  match k with
  | 0 => modify w t fun o => (match o with | some v => some v | none => some (700 + t))  -- `entry().or_insert(..)`
  | 1 => upd w t (some (900 + t))                                            -- `insert(..)`: overwrites
  | 3 => upd w t none                                                        -- `remove::<T>()`
  | _ => w                                                                   -- does nothing

/-- `T::default()` of the harness resource `Res<t>` -/
def stdDefault (t : Tag) : Nat := 500 + t

end Shred.SysData
