/-!
# Resource ids, declared access, intersection test

Mirrors `src/world/mod.rs` (`ResourceId`), `src/dispatch/util.rs` (`check_intersection`).
Core Lean only: this file is linked into the driver executable.
-/
namespace Shred

/-- `ResourceId { type_id, dynamic_id }`; the type id is an opaque tag. -/
structure ResId where
  ty : Nat
  dyn : Nat
deriving DecidableEq, Repr, Hashable

instance : ToString ResId := ⟨fun r => s!"{r.ty}.{r.dyn}"⟩

/-- `SystemId(usize)` -/
abbrev SysId := Nat

/-- `check_intersection(i, j)`: `i.any(|a| j.clone().any(|b| *b == *a))` -/
def inter {α} [DecidableEq α] (i j : List α) : Bool := i.any fun a => j.any fun b => b == a

/-- What a system declares through its accessor, plus its running-time hint (1..5). -/
structure Decl where
  reads : List ResId
  writes : List ResId
  time : Nat
deriving Repr, DecidableEq

/-- The test `find_conflict` applies to a new system `(nr, nw)` against accumulated `(gr, gw)`:
`new_writes ∩ (writes ++ reads) ≠ ∅ || new_reads ∩ writes ≠ ∅` (stage.rs l.348-353). -/
def hit (nr nw gr gw : List ResId) : Bool := inter nw (gw ++ gr) || inter nr gw


/-- de-duplication (keeps the last occurrence); stands for Rust's `sort(); dedup()` where only
membership and absence of repetitions matter -/
def dedup {α} [DecidableEq α] : List α → List α
  | [] => []
  | x :: xs => if x ∈ xs then dedup xs else x :: dedup xs

def ResId.le (a b : ResId) : Bool := a.ty < b.ty || (a.ty == b.ty && a.dyn ≤ b.dyn)

def insertSorted (x : ResId) : List ResId → List ResId
  | [] => [x]
  | y :: ys => if ResId.le x y then x :: y :: ys else y :: insertSorted x ys

/-- `v.sort(); v.dedup()` on resource ids -/
def sortDedup (l : List ResId) : List ResId := dedup (l.foldr insertSorted [])

end Shred
