/-!
# Execution semantics of dispatch plans

`Task ι` — what one dispatch does, as a tree of `seq` / `par` / leaf / batch `scope` over
system instances `ι`. `Traces t l`: `l` is a possible sequence of fetch (`F`) and drop (`D`)
events of `t`; `par` contributes **all shuffles**, i.e. every interleaving any thread pool
can produce. `RTask` adds the two residual forms the derivative-based acceptor needs.
Core Lean only (linked into the driver).
-/
namespace Shred

inductive Ev (ι : Type) | F (s : ι) | D (s : ι)
deriving DecidableEq, Repr

def Ev.sys {ι} : Ev ι → ι
  | .F s => s
  | .D s => s

inductive Task (ι : Type)
  | nil
  | leaf (s : ι)
  | seq (a b : Task ι)
  | par (a b : Task ι)
  | scope (s : ι) (body : Task ι)
deriving Repr

inductive Shuffle {α} : List α → List α → List α → Prop
  | nil : Shuffle [] [] []
  | left {x a b l} : Shuffle a b l → Shuffle (x :: a) b (x :: l)
  | right {y a b l} : Shuffle a b l → Shuffle a (y :: b) (y :: l)

inductive Traces {ι} : Task ι → List (Ev ι) → Prop
  | nil : Traces .nil []
  | leaf s : Traces (.leaf s) [.F s, .D s]
  | seq {a b la lb} : Traces a la → Traces b lb → Traces (.seq a b) (la ++ lb)
  | par {a b la lb l} : Traces a la → Traces b lb → Shuffle la lb l → Traces (.par a b) l
  | scope {s body l} : Traces body l → Traces (.scope s body) (.F s :: l ++ [.D s])

namespace Task
variable {ι : Type}

def sys : Task ι → List ι
  | .nil => []
  | .leaf s => [s]
  | .seq a b => sys a ++ sys b
  | .par a b => sys a ++ sys b
  | .scope s body => s :: sys body

/-- the order `dispatch_seq` uses -/
def seqTrace : Task ι → List (Ev ι)
  | .nil => []
  | .leaf s => [.F s, .D s]
  | .seq a b => seqTrace a ++ seqTrace b
  | .par a b => seqTrace a ++ seqTrace b
  | .scope s body => .F s :: seqTrace body ++ [.D s]

def seqN : List (Task ι) → Task ι
  | [] => .nil
  | t :: ts => .seq t (seqN ts)

def parN : List (Task ι) → Task ι
  | [] => .nil
  | t :: ts => .par t (parN ts)

end Task

/-! ### residual tasks and the acceptor -/

inductive RTask (ι : Type)
  | nil | leaf (s : ι) | closing (s : ι) | seq (a b : RTask ι) | par (a b : RTask ι)
  | scope (s : ι) (body : RTask ι) | scopeOpen (s : ι) (body : RTask ι)
deriving Repr

inductive RTraces {ι} : RTask ι → List (Ev ι) → Prop
  | nil : RTraces .nil []
  | leaf s : RTraces (.leaf s) [.F s, .D s]
  | closing s : RTraces (.closing s) [.D s]
  | seq {a b la lb} : RTraces a la → RTraces b lb → RTraces (.seq a b) (la ++ lb)
  | par {a b la lb l} : RTraces a la → RTraces b lb → Shuffle la lb l → RTraces (.par a b) l
  | scope {s body l} : RTraces body l → RTraces (.scope s body) (.F s :: l ++ [.D s])
  | scopeOpen {s body l} : RTraces body l → RTraces (.scopeOpen s body) (l ++ [.D s])

namespace RTask
variable {ι : Type}

def sys : RTask ι → List ι
  | .nil => []
  | .leaf s => [s]
  | .closing s => [s]
  | .seq a b => sys a ++ sys b
  | .par a b => sys a ++ sys b
  | .scope s body => s :: sys body
  | .scopeOpen s body => s :: sys body

def nullable : RTask ι → Bool
  | .nil => true | .seq a b => nullable a && nullable b | .par a b => nullable a && nullable b | _ => false

variable [DecidableEq ι]

def deriv : RTask ι → Ev ι → Option (RTask ι)
  | .nil, _ => none
  | .leaf s, e => if e = .F s then some (.closing s) else none
  | .closing s, e => if e = .D s then some .nil else none
  | .seq a b, e => match deriv a e with
    | some a' => some (.seq a' b) | none => if nullable a then deriv b e else none
  | .par a b, e => match deriv a e with
    | some a' => some (.par a' b) | none => (deriv b e).map (.par a ·)
  | .scope s body, e => if e = .F s then some (.scopeOpen s body) else none
  | .scopeOpen s body, e => match deriv body e with
    | some body' => some (.scopeOpen s body')
    | none => if nullable body && e = .D s then some .nil else none

def accepts : RTask ι → List (Ev ι) → Bool
  | t, [] => nullable t
  | t, e :: l => match deriv t e with | some t' => accepts t' l | none => false

end RTask

def Task.toR {ι} : Task ι → RTask ι
  | .nil => .nil
  | .leaf s => .leaf s
  | .seq a b => .seq a.toR b.toR
  | .par a b => .par a.toR b.toR
  | .scope s body => .scope s body.toR

end Shred
