import ShredModel.Model.Task
/-!
# Executions with panics: events and the executable acceptor

`PEv`: fetch (`F`), data dropped normally (`D`), unwound by a panic (`P`). `PR` is the residual
task of the panic-aware acceptor: `dead` marks a part that ended in a panic. A `seq` whose first
part ended in a panic never starts its continuation (`for stage in stages`, the loop over a
group and the thread-local loop all stop at the first panic); at a `par` the sibling still
runs (rayon's `join` waits for it before re-raising).
-/
namespace Shred

inductive PEv (ι : Type) | F (s : ι) | D (s : ι) | P (s : ι)
deriving DecidableEq, Repr

def PEv.sys {ι} : PEv ι → ι
  | .F s => s
  | .D s => s
  | .P s => s

inductive PR (ι : Type)
  | nil | fin | dead | leaf (s : ι) | closing (s : ι) | seq (a b : PR ι) | par (a b : PR ι)
  | scope (s : ι) (body : PR ι) | scopeOpen (s : ι) (body : PR ι)
deriving Repr

inductive Status | running | ok | panicked
deriving DecidableEq, Repr

namespace PR
variable {ι : Type}

def status : PR ι → Status
  | .nil => .ok
  | .fin => .ok
  | .dead => .panicked
  | .leaf _ => .running
  | .closing _ => .running
  | .scope _ _ => .running
  | .scopeOpen _ _ => .running
  | .seq a b =>
    match status a with
    | .panicked => .panicked
    | .ok => status b
    | .running => .running
  | .par a b =>
    match status a, status b with
    | .running, _ => .running
    | _, .running => .running
    | .ok, .ok => .ok
    | _, _ => .panicked

/-- no system is between its fetch and its drop -/
def quiescent : PR ι → Bool
  | .nil => true
  | .fin => true
  | .dead => true
  | .leaf _ => true
  | .closing _ => false
  | .scope _ _ => true
  | .scopeOpen _ _ => false
  | .seq a b => quiescent a && quiescent b
  | .par a b => quiescent a && quiescent b

variable [DecidableEq ι]

def deriv : PR ι → PEv ι → Option (PR ι)
  | .nil, _ => none
  | .fin, _ => none
  | .dead, _ => none
  | .leaf s, e => if e = .F s then some (.closing s) else none
  | .closing s, e => if e = .D s then some .fin else if e = .P s then some .dead else none
  | .seq a b, e =>
    match status a with
    | .panicked => none
    | .ok => (deriv b e).map (.seq a ·)
    | .running => (deriv a e).map (.seq · b)
  | .par a b, e =>
    match deriv a e with
    | some a' => some (.par a' b)
    | none => (deriv b e).map (.par a ·)
  | .scope s body, e => if e = .F s then some (.scopeOpen s body) else none
  | .scopeOpen s body, e =>
    match deriv body e with
    | some body' => some (.scopeOpen s body')
    | none =>
      match status body with
      -- the controller itself may panic whenever no inner system is open
      | .ok => if e = .D s then some .fin else if e = .P s then some .dead else none
      | .panicked => if e = .P s then some .dead else none
      | .running => if e = .P s && quiescent body then some .dead else none

/-- some part ended in a panic -/
def hasPanic : PR ι → Bool
  | .dead => true
  | .seq a b => hasPanic a || hasPanic b
  | .par a b => hasPanic a || hasPanic b
  | .scope _ body => hasPanic body
  | .scopeOpen _ body => hasPanic body
  | _ => false

/-- May the execution stop here? Everything finished — or, once a sibling under some `par` has
panicked, groups that were *never started* may be left out (rayon runs several groups of a
stage in one sequential chunk when it does not split further; a panic ends the chunk). A
part that was started always runs to its own end. -/
def finalOk : PR ι → Bool → Bool
  | .nil, _ => true
  | .fin, _ => true
  | .dead, _ => true
  | .leaf _, abandon => abandon
  | .scope _ _, abandon => abandon
  | .closing _, _ => false
  | .scopeOpen _ _, _ => false
  | .seq a b, abandon =>
    match status a with
    | .panicked => true
    | .ok => finalOk b abandon
    | .running => finalOk a abandon
  | .par a b, abandon =>
    let ab := abandon || hasPanic a || hasPanic b
    finalOk a ab && finalOk b ab

/-- `some true`: complete, a panic leaves the task; `some false`: complete, no panic -/
def run : PR ι → List (PEv ι) → Option Bool
  | t, [] => if finalOk t false then some (hasPanic t) else none
  | t, e :: l => match deriv t e with | some t' => run t' l | none => none

end PR

def Task.toPR {ι} : Task ι → PR ι
  | .nil => .nil
  | .leaf s => .leaf s
  | .seq a b => .seq a.toPR b.toPR
  | .par a b => .par a.toPR b.toPR
  | .scope s body => .scope s body.toPR

end Shred
