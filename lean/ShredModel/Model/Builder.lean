import ShredModel.Model.Stage
/-!
# `DispatcherBuilder` — mirror of `src/dispatch/builder.rs` and of `write_par_seq`

The name map is an association list; the Rust code only ever calls `get`, `contains_key`
and insert-if-vacant on its `AHashMap`, so no iteration order can leak (the one iteration,
in `write_par_seq`, builds the inverse map and ids are unique).
-/
namespace Shred

inductive BuildPanic
  | unknownDep (name : String)      -- "No such system registered (\"{}\")"
  | duplicateName (name : String)   -- "Cannot insert multiple systems with the same name (\"{}\")"
deriving DecidableEq, Repr

structure DispatcherBuilder where
  currentId : Nat := 0
  map : List (String × SysId) := []
  stagesBuilder : StagesBuilder := {}
  threadLocal : List SysTag := []
deriving Repr

namespace DispatcherBuilder

def lookup (m : List (String × SysId)) (name : String) : Option SysId :=
  (m.find? fun p => p.1 == name).map (·.2)

/-- `dep.iter().map(|x| *map.get(x).unwrap_or_else(|| panic!(..))).collect()`:
the first unknown name panics -/
def resolve (m : List (String × SysId)) : List String → Except String (List SysId)
  | [] => .ok []
  | x :: xs =>
    match lookup m x with
    | none => .error x
    | some id =>
      match resolve m xs with
      | .error e => .error e
      | .ok ids => .ok (id :: ids)

/-- `add` (l.169-197). Returns the builder as it is left behind, and the panic if there was one
(`next_id` has run in either case). -/
def add (b : DispatcherBuilder) (tag : SysTag) (name : String) (dep : List String) (d : Decl) :
    DispatcherBuilder × Option BuildPanic :=
  let id := b.currentId
  let b := { b with currentId := b.currentId + 1 }
  match resolve b.map dep with
  | .error x => (b, some (.unknownDep x))
  | .ok dependencies =>
    if name ≠ "" then
      if (lookup b.map name).isSome then (b, some (.duplicateName name))
      else
        let b := { b with map := (name, id) :: b.map }
        ({ b with stagesBuilder := b.stagesBuilder.insert dependencies id tag d }, none)
    else
      ({ b with stagesBuilder := b.stagesBuilder.insert dependencies id tag d }, none)

/-- `add` when a callback of the *user's* system panics inside `stages_builder.insert` —
`accessor()` and `running_time()` are called there before anything is mutated (stage.rs
l.262-275): the id is consumed and a non-empty name is recorded, but no stage table changes.
`none`: the registration got as far as the callback; `some p`: it was rejected before. -/
def addCallbackPanics (b : DispatcherBuilder) (name : String) (dep : List String) :
    DispatcherBuilder × Option BuildPanic :=
  let id := b.currentId
  let b := { b with currentId := b.currentId + 1 }
  match resolve b.map dep with
  | .error x => (b, some (.unknownDep x))
  | .ok _ =>
    if name ≠ "" then
      if (lookup b.map name).isSome then (b, some (.duplicateName name))
      else ({ b with map := (name, id) :: b.map }, none)
    else (b, none)

/-- `has_system` (l.129) and `contains` (l.201): `map.contains_key(name)` -/
def hasSystem (b : DispatcherBuilder) (name : String) : Bool := (lookup b.map name).isSome

/- `num_systems` (l.121) and `is_empty` (l.116) are `map.len()` / `map.is_empty()`: they count the
*named* systems only. No property speaks about them, so they are not modelled; code that
relies on them as "number of systems" is wrong for builders whose systems are unnamed (the
generator produces such builders). -/

/-- the accessor `add_batch` computes (l.272-282): everything the inner builder accumulated plus
the controller's declared data, sorted and de-duplicated -/
def batchDecl (inner : DispatcherBuilder) (ctl : Decl) : Decl :=
  { reads := sortDedup (inner.stagesBuilder.fetchAllReads ++ ctl.reads),
    writes := sortDedup (inner.stagesBuilder.fetchAllWrites ++ ctl.writes),
    time := ctl.time }

def addBatch (b : DispatcherBuilder) (tag : SysTag) (name : String) (dep : List String)
    (ctl : Decl) (inner : DispatcherBuilder) : DispatcherBuilder × Option BuildPanic :=
  b.add tag name dep (batchDecl inner ctl)

def addThreadLocal (b : DispatcherBuilder) (tag : SysTag) : DispatcherBuilder :=
  { b with threadLocal := b.threadLocal ++ [tag] }

def addBarrier (b : DispatcherBuilder) : DispatcherBuilder :=
  { b with stagesBuilder := b.stagesBuilder.addBarrier }

/-- `name.replace([' ', '-', '/'], "_")` -/
def sanitise (name : String) : String :=
  name.map fun c => if c == ' ' || c == '-' || c == '/' then '_' else c

/-- the name `write_par_seq` prints for an id (with the placeholder of repair D1) -/
def printedName (m : List (String × SysId)) (id : SysId) : String :=
  match m.find? fun p => p.2 == id with
  | some p => sanitise p.1
  | none => sanitise s!"unnamed_system_{id}"

/-- the names `write_par_seq` walks over: stage ↦ group ↦ position ↦ printed name of the id there -/
def printTree (b : DispatcherBuilder) : List (List (List String)) :=
  b.stagesBuilder.ids.map fun st => st.map fun g => g.map (printedName b.map)

/-- the text `write_par_seq` emits for that walk, `writeln!` by `writeln!` (stage.rs l.220-248) -/
def render (t : List (List (List String))) : String :=
  let group (g : List String) : String :=
    "\t\tseq![\n" ++ String.join (g.map fun n => "\t\t\t" ++ n ++ ",\n") ++ "\t\t],\n"
  let stage (st : List (List String)) : String :=
    "\tpar![\n" ++ String.join (st.map group) ++ "\t],\n"
  "seq![\n" ++ String.join (t.map stage) ++ "]\n"

/-- `write_par_seq` -/
def writeParSeq (b : DispatcherBuilder) : String := render b.printTree

/-- `max_threads` of the built dispatcher -/
def maxThreads (b : DispatcherBuilder) : Nat :=
  (b.stagesBuilder.stages.map List.length).foldl Nat.max 0

end DispatcherBuilder
end Shred
