import ShredModel.Model.Plan
/-!
# Setup and dispose fan-out (C13)

`Dispatcher::setup` = `SendDispatcher::setup` (stages in order → `Stage::setup`: groups in order,
systems in order) then the thread-local systems in order. For a batch wrapper
(`BatchControllerSystem::setup`): first `world.setup::<C::BatchSystemData>()`, then the inner
dispatcher's `setup`. `dispose` walks the same way; the wrapper forwards to the inner
dispatcher (repair D2) and has no hook of its own.

A batch contributes the event lists of its inner dispatcher (bottom-up, as `add_batch` consumes
a finished inner builder).
-/
namespace Shred

inductive LEv
  | S (t : SysTag)                 -- `setup` of system `t`
  | C (t : SysTag) (kind : Nat)    -- setup of the declared data of batch `t`'s controller (kind = which data type)
  | X (t : SysTag)                 -- `dispose` of system `t`
deriving DecidableEq, Repr

def findL (bs : List (SysTag × Nat × List LEv)) (t : SysTag) : Option (Nat × List LEv) :=
  match bs with
  | [] => none
  | (t', k, l) :: rest => if t' = t then some (k, l) else findL rest t

def setupOrder (stages : Table (List SysTag)) (tl : List SysTag) (bs : List (SysTag × Nat × List LEv)) : List LEv :=
  (stages.flatten.flatten.flatMap fun t =>
    match findL bs t with
    | some (k, inner) => .C t k :: inner
    | none => [.S t]) ++ tl.map .S

def disposeOrder (stages : Table (List SysTag)) (tl : List SysTag) (bs : List (SysTag × Nat × List LEv)) : List LEv :=
  (stages.flatten.flatten.flatMap fun t =>
    match findL bs t with
    | some (_, inner) => inner
    | none => [.X t]) ++ tl.map .X

/-! ### what setup does to the world

The harness's controller data types (`gen.rs::CTL`): 0 `()`, 1 `Read<R0>`, 2 `Write<R1>`,
3 `(Read<R2>, Write<R0>)` — all with `DefaultProvider` —, 4 `Option<Read<R3>>`,
5 `WriteExpect<R4>` (`PanicHandler`), 6 `(Write<R4>, Write<R5>)`, 7 `(Write<R5>, Write<R4>)`,
8 `(Read<R3>, Read<R2>, Write<R1>)`; 9 and 10 are the library's `MultiDispatcher` around a
`MultiDispatchController` whose `SystemData` is `()` resp. `(Write<R5>, Read<R3>)`
(`BatchSystemData = C::SystemData`, batch.rs l.206). `DefaultProvider::setup` is `entry().or_insert_with(default)`:
it inserts the default (0) only into a vacant slot. Harness systems' own `setup` creates nothing. -/

def ctlCreates : Nat → List ResId
  | 1 => [⟨0, 0⟩]
  | 2 => [⟨1, 0⟩]
  | 3 => [⟨2, 0⟩, ⟨0, 0⟩]
  | 6 => [⟨4, 0⟩, ⟨5, 0⟩]
  | 7 => [⟨5, 0⟩, ⟨4, 0⟩]
  | 8 => [⟨3, 0⟩, ⟨2, 0⟩, ⟨1, 0⟩]
  | 10 => [⟨5, 0⟩, ⟨3, 0⟩]
  | _ => []

abbrev LWorld := List (ResId × Nat)

def LWorld.has (w : LWorld) (r : ResId) : Bool := w.any fun p => p.1 == r
def LWorld.get? (w : LWorld) (r : ResId) : Option Nat := (w.find? fun p => p.1 == r).map (·.2)

/-- `world.entry().or_insert_with(Default::default)` -/
def orInsertDefault (w : LWorld) (r : ResId) : LWorld := if w.has r then w else w ++ [(r, 0)]

def setupEv (w : LWorld) : LEv → LWorld
  | .C _ k => (ctlCreates k).foldl orInsertDefault w
  | _ => w

def setupWorld (evs : List LEv) (w : LWorld) : LWorld := evs.foldl setupEv w

end Shred
