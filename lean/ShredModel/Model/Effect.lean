import ShredModel.Model.Access
/-!
# What the harness systems do to the world (hypothesis of C05, made executable)

Every harness system sums what it reads and replaces each value it writes by an
order-sensitive mix of (old value, its tag, that sum, its own run counter); it also keeps a
running digest of the sums it has seen. `harness/src/sys.rs::HSys::run` is the same code on
`u64`. World contents and per-system state are total functions (absent keys hold the initial
value); the driver prints them on the finite key set it knows.
-/
namespace Shred

def mix (v tag sum c : UInt64) : UInt64 :=
  ((v * 6364136223846793005 + 1442695040888963407) ^^^ ((tag + 1) * 0x9E3779B97F4A7C15)) + sum * 31 + c

structure EffState where
  world : ResId → UInt64
  locals : Nat → UInt64 × UInt64

def initVal (r : ResId) : UInt64 := (1000 + r.ty * 10 + r.dyn).toUInt64

def EffState.init : EffState := { world := initVal, locals := fun _ => (0, 0) }

def updF {α β} [DecidableEq α] (f : α → β) (k : α) (v : β) : α → β := fun x => if x = k then v else f x

def uniq {α} [DecidableEq α] : List α → List α → List α
  | [], acc => acc.reverse
  | x :: xs, acc => if x ∈ acc then uniq xs acc else uniq xs (x :: acc)

/-- what is really borrowed: every written id once; every read id that is not written, once -/
def fetchedWrites (d : Decl) : List ResId := uniq d.writes []
def fetchedReads (d : Decl) : List ResId := uniq (d.reads.filter fun x => x ∉ d.writes) []

def sumReads (rs : List ResId) (w : ResId → UInt64) : UInt64 := rs.foldl (fun s r => s + w r) 0

def writeAll (ws : List ResId) (tag sum c : UInt64) (w : ResId → UInt64) : ResId → UInt64 :=
  ws.foldl (fun w r => updF w r (mix (w r) tag sum c)) w

def runSys (tag : Nat) (d : Decl) (st : EffState) : EffState :=
  let sum := sumReads (fetchedReads d) st.world
  let c := (st.locals tag).1
  let seen := (st.locals tag).2
  { world := writeAll (fetchedWrites d) tag.toUInt64 sum c st.world,
    locals := updF st.locals tag (c + 1, mix seen tag.toUInt64 sum c) }

end Shred
