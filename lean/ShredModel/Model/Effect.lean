import ShredModel.Model.Access
/-!
# What the harness systems do to the world (hypothesis of C05, made executable)

Every harness system sums what it reads and replaces each value it writes by an
order-sensitive mix of (old value, its tag, that sum, its own run counter); it also keeps a
running digest of the sums it has seen. `harness/src/sys.rs::HSys::run` is the same code on
`u64`. World and per-system state are association lists.
-/
namespace Shred

def mix (v tag sum c : UInt64) : UInt64 :=
  ((v * 6364136223846793005 + 1442695040888963407) ^^^ ((tag + 1) * 0x9E3779B97F4A7C15)) + sum * 31 + c

structure EffState where
  world : List (ResId × UInt64)
  locals : List (Nat × UInt64 × UInt64)

def initVal (r : ResId) : UInt64 := (1000 + r.ty * 10 + r.dyn).toUInt64

def initWorld (nty ndy : Nat) : List (ResId × UInt64) :=
  (List.range nty).flatMap fun ty => (List.range ndy).map fun dy => (⟨ty, dy⟩, initVal ⟨ty, dy⟩)

def getW (w : List (ResId × UInt64)) (r : ResId) : UInt64 :=
  match w.find? fun p => p.1 == r with
  | some p => p.2
  | none => 0

def setW (w : List (ResId × UInt64)) (r : ResId) (v : UInt64) : List (ResId × UInt64) :=
  w.map fun p => if p.1 == r then (p.1, v) else p

def getL (l : List (Nat × UInt64 × UInt64)) (t : Nat) : UInt64 × UInt64 :=
  match l.find? fun p => p.1 == t with
  | some p => p.2
  | none => (0, 0)

def setL (l : List (Nat × UInt64 × UInt64)) (t : Nat) (v : UInt64 × UInt64) : List (Nat × UInt64 × UInt64) :=
  if l.any fun p => p.1 == t then l.map fun p => if p.1 == t then (t, v) else p else l ++ [(t, v)]

def uniq {α} [DecidableEq α] : List α → List α → List α
  | [], acc => acc.reverse
  | x :: xs, acc => if x ∈ acc then uniq xs acc else uniq xs (x :: acc)

/-- what is really borrowed: every written id once; every read id that is not written, once -/
def fetchedWrites (d : Decl) : List ResId := uniq d.writes []
def fetchedReads (d : Decl) : List ResId := uniq (d.reads.filter fun x => x ∉ d.writes) []

def runSys (tag : Nat) (d : Decl) (st : EffState) : EffState :=
  let sum := (fetchedReads d).foldl (fun s r => s + getW st.world r) (0 : UInt64)
  let (c, seen) := getL st.locals tag
  let world := (fetchedWrites d).foldl (fun w r => setW w r (mix (getW w r) tag.toUInt64 sum c)) st.world
  { world := world, locals := setL st.locals tag (c + 1, mix seen tag.toUInt64 sum c) }

end Shred
