import ShredModel.Model.Access
import ShredModel.Model.Task
/-!
# `Par` / `Seq` trees (`src/dispatch/par_seq.rs`)

`PS` is the *value* a user builds out of `Par { head, tail }`, `Seq { head, tail }`, `Nil`
and arbitrary systems (l.11-12, 80-83, 341-344). The only public constructors are
`Par::new` / `Par::with` (l.85-128) and `Seq::new` / `Seq::with` (l.346-363), which is what
`par![..]` / `seq![..]` expand to (l.35-69); they are mirrored by `parNew`/`parWith`/`parOf`
and `seqNew`/`seqWith`/`seqOf`. The four methods of `RunWithPool` (l.250-276) for leaves
(l.278-301), `Par` (l.303-336) and `Seq` (l.365-389) are `setupAcc`, `toTask`, `readsAcc`,
`writesAcc`: the Rust methods push into a caller-supplied `Vec` / run hooks one after the
other, so the model threads an accumulator in exactly that order (head first, then tail).

`Nil` is a system with `()` data whose `run` is empty: it does run, but it neither borrows nor
can be observed, so it contributes no event, no resource and no (observable) `setup`.

Core Lean only: linked into the driver.
-/
namespace Shred

/-- `Nil` | any leaf `System` (identified by the tag the harness gives it) |
`Par { head, tail }` | `Seq { head, tail }` -/
inductive PS
  | nil
  | leaf (s : Nat)
  | par (h t : PS)
  | seq (h t : PS)
deriving Repr, DecidableEq

namespace PS

/-- the leaf systems of a tree, head before tail -/
def leaves : PS → List Nat
  | .nil => []
  | .leaf s => [s]
  | .par h t => leaves h ++ leaves t
  | .seq h t => leaves h ++ leaves t

/-- `RunWithPool::run`: a leaf is `run_now` (l.287-289); `Seq` runs head, then tail
(l.375-378); `Par` hands head and tail to `pool.join` when called from outside the pool and to
`rayon::join` when already on one of its workers (l.313-325) — both are a `join` of the same
two closures, so the task does not depend on where `dispatch` was called from. -/
def toTask : PS → Task Nat
  | .nil => .nil
  | .leaf s => .leaf s
  | .par h t => .par (toTask h) (toTask t)
  | .seq h t => .seq (toTask h) (toTask t)

/-- `RunWithPool::reads(&self, reads: &mut Vec<ResourceId>)`: a leaf does
`reads.extend(self.accessor().reads())` (l.291-295), `Par`/`Seq` call head then tail on the
same vector (l.327-330, 380-383). `acc` is the vector on entry, the result the vector on exit. -/
def readsAcc (decl : Nat → Decl) : PS → List ResId → List ResId
  | .nil, acc => acc
  | .leaf s, acc => acc ++ (decl s).reads
  | .par h t, acc => readsAcc decl t (readsAcc decl h acc)
  | .seq h t, acc => readsAcc decl t (readsAcc decl h acc)

/-- `RunWithPool::writes` (l.297-301, 332-335, 385-388) -/
def writesAcc (decl : Nat → Decl) : PS → List ResId → List ResId
  | .nil, acc => acc
  | .leaf s, acc => acc ++ (decl s).writes
  | .par h t, acc => writesAcc decl t (writesAcc decl h acc)
  | .seq h t, acc => writesAcc decl t (writesAcc decl h acc)

/-- what a node reports when asked with a fresh vector (as `Par::with` does, l.99-107) -/
def reads (decl : Nat → Decl) (t : PS) : List ResId := readsAcc decl t []
def writes (decl : Nat → Decl) (t : PS) : List ResId := writesAcc decl t []

/-- `RunWithPool::setup`: the log of leaf `setup` hooks, in call order (l.283-285, 308-311,
370-373); `ParSeq::setup` and `RunNow::setup` for `ParSeq` just forward (l.226-228, 248-250). -/
def setupAcc : PS → List Nat → List Nat
  | .nil, acc => acc
  | .leaf s, acc => acc ++ [s]
  | .par h t, acc => setupAcc t (setupAcc h acc)
  | .seq h t, acc => setupAcc t (setupAcc h acc)

def setupOrder (t : PS) : List Nat := setupAcc t []

/-- the debug-only test of `Par::with` (l.98-117): `self.head` against the new child `sys`;
`true` = `read_write_intersections_safe`, `false` = the `debug_assert!` fires -/
def withCheck (decl : Nat → Decl) (h sys : PS) : Bool :=
  !(inter (writes decl h) (reads decl sys)
    || inter (writes decl h) (writes decl sys)
    || inter (reads decl h) (writes decl sys))

/-- `Par::new(head)` (l.87-89); a `Par<H, Nil>` is determined by its head -/
def parNew (h : PS) : PS := .par h .nil

/-- `Par::with` applied to `Par { head: h, tail: Nil }` in a build with debug assertions:
`none` = panic "Tried to add system with conflicting reads / writes", otherwise
`Par { head: Par { head: h, tail: sys }, tail: Nil }` (l.120-126). The argument and the result
are the *heads* (the outer `Par { .., tail: Nil }` is put back by `parOf`). -/
def parWith (decl : Nat → Decl) (h sys : PS) : Option PS :=
  if withCheck decl h sys then some (.par h sys) else none

/-- the same without debug assertions -/
def parWithRelease (h sys : PS) : PS := .par h sys

/-- fold of `.with(..)` over the remaining children; returns the head of the final
`Par<_, Nil>` or the index (counted from `k`) of the child whose `with` panicked -/
def parFold (decl : Nat → Decl) : PS → List PS → Nat → Except Nat PS
  | h, [], _ => .ok h
  | h, c :: cs, k =>
    match parWith decl h c with
    | some h' => parFold decl h' cs (k + 1)
    | none => .error k

/-- `par![c0, c1, ..]` = `Par::new(c0).with(c1)..` (l.35-43), debug assertions on -/
def parOf (decl : Nat → Decl) (c0 : PS) (cs : List PS) : Except Nat PS :=
  match parFold decl c0 cs 1 with
  | .ok h => .ok (parNew h)
  | .error k => .error k

/-- `Seq::new` / `Seq::with` (l.348-362): no check -/
def seqNew (h : PS) : PS := .seq h .nil
def seqWith (h sys : PS) : PS := .seq h sys

/-- `seq![c0, c1, ..]` = `Seq::new(c0).with(c1)..` (l.61-69) -/
def seqOf (c0 : PS) (cs : List PS) : PS := seqNew (cs.foldl seqWith c0)

/-! ### run-time assembly, as the correspondence harness does it

A shape is sent as a token list `P[ .. ]`, `S[ .. ]`, `<leaf tag>` (`Nil` is not exported by the
crate, so a user can only get it as the tail `Par::new` / `Seq::new` put there); children are built left
to right, depth first, and a node is folded with `parOf` / `seqOf` once all its children exist —
the order in which the harness calls the real constructors, so the *first* panicking `with`
is the same on both sides. Nodes are numbered by the position of their opening token. -/

inductive Tok
  | openPar | openSeq | close | leaf (s : Nat)
deriving Repr, DecidableEq

structure Frame where
  isPar : Bool
  id : Nat
  /-- children built so far, most recent first -/
  kids : List PS

inductive BuildResult
  | built (t : PS)
  /-- the `with` adding child `k` (0-based) of par node `node` panicked -/
  | panic (node k : Nat)
  | malformed
deriving Repr

inductive Step
  | cont (st : List Frame) (done : Option PS)
  | stop (r : BuildResult)

/-- a finished child goes to the innermost open node, or is the result -/
def push (v : PS) : List Frame → Step
  | [] => .cont [] (some v)
  | f :: fs => .cont ({ f with kids := v :: f.kids } :: fs) none

/-- one token at position `pos` against the stack of open nodes -/
def stepTok (decl : Nat → Decl) (tok : Tok) (pos : Nat) (st : List Frame) : Step :=
  match tok with
  | .openPar => .cont (⟨true, pos, []⟩ :: st) none
  | .openSeq => .cont (⟨false, pos, []⟩ :: st) none
  | .leaf s => push (.leaf s) st
  | .close =>
    match st with
    | [] => .stop .malformed
    | f :: fs =>
      match f.kids.reverse with
      | [] => .stop .malformed                     -- `par![]` does not exist
      | c0 :: cs =>
        if f.isPar then
          match parOf decl c0 cs with
          | .error k => .stop (.panic f.id k)
          | .ok v => push v fs
        else push (seqOf c0 cs) fs

def buildGo (decl : Nat → Decl) : List Tok → Nat → List Frame → Option PS → BuildResult
  | [], _, [], some t => .built t
  | [], _, _, _ => .malformed
  | _ :: _, _, _, some _ => .malformed            -- tokens after the root closed
  | tok :: toks, pos, st, none =>
    match stepTok decl tok pos st with
    | .stop r => r
    | .cont st' d => buildGo decl toks (pos + 1) st' d

def build (decl : Nat → Decl) (toks : List Tok) : BuildResult := buildGo decl toks 0 [] none


/-! ### leaves: which accessor the tree consults

`reads` / `writes` of a leaf are `self.accessor().reads()` / `.writes()` (par_seq.rs l.290-300)
— the accessor the *system* hands out. `System::accessor` (system.rs l.190-194) is, unless the
system overrides it, `AccessorTy::try_new().expect("Missing implementation for `accessor`")`;
`try_new` (l.12-15) "returns `Some` in case there is a default": always for static system data
(`StaticAccessor<T>`, l.320-342, whose lists are `T::reads()` / `T::writes()`), never for `()` /
`PhantomData` accessors, and whatever the author chose for a dynamic accessor type. The tree
never calls `try_new` itself. -/

/-- what the crate can learn about a leaf system -/
structure LeafSpec where
  /-- `<Accessor>::try_new()`: the default accessor of the system data's accessor type -/
  tryNew : Option Decl
  /-- `System::accessor` overridden: the accessor this instance hands out -/
  own : Option Decl
  /-- resources the leaf's `setup` inserts when they are absent, in order (user code:
  `DefaultProvider` of `Read` / `Write`, or whatever a dynamic system data's `setup` does) -/
  creates : List ResId

/-- `self.accessor()`; `none` = panic "Missing implementation for `accessor`" -/
def LeafSpec.accessor (l : LeafSpec) : Option Decl :=
  match l.own with
  | some d => some d
  | none => l.tryNew

/-- the declaration the tree sees for leaf `s`. For a leaf without any accessor every method of
the tree panics in `System::accessor`; such leaves are excluded (`Usable`), the empty
declaration here is never consulted for them. -/
def declOf (spec : Nat → LeafSpec) (s : Nat) : Decl :=
  match (spec s).accessor with
  | some d => d
  | none => ⟨[], [], 0⟩

def Usable (spec : Nat → LeafSpec) (t : PS) : Prop := ∀ x, x ∈ t.leaves → (spec x).accessor ≠ none

/-! ### `ParSeq` and repeated `setup`

`ParSeq { run, pool }` (l.205-208) has no field besides the tree and the pool handle
(`P: Borrow<ThreadPool>`: `&ThreadPool`, `Arc<ThreadPool>`, ..): `ParSeq::setup` (l.224-226) is
`self.run.setup(world)` and `RunNow::setup for ParSeq` (l.247-249) is
`RunWithPool::setup(&mut self.run, world)` — the same walk, on every call, whatever happened
before and whichever world is handed in. A leaf's `setup` is `T::setup(self, world)` (l.282-284),
the system's own (possibly overridden) `System::setup`. -/

/-- a leaf's setup on a world given as the list of present ids: insert what is absent -/
def createAbsent : List ResId → List ResId → List ResId
  | w, [] => w
  | w, r :: rs => createAbsent (if w.contains r then w else w ++ [r]) rs

/-- `RunWithPool::setup` on the world: head, then tail (l.308-311, 370-373) -/
def setupWorldAcc (creates : Nat → List ResId) : PS → List ResId → List ResId
  | .nil, w => w
  | .leaf s, w => createAbsent w (creates s)
  | .par h t, w => setupWorldAcc creates t (setupWorldAcc creates h w)
  | .seq h t, w => setupWorldAcc creates t (setupWorldAcc creates h w)

/-- the two entry points -/
inductive Via
  | inherent   -- `ParSeq::setup`
  | runNow     -- `<ParSeq as RunNow>::setup`
deriving Repr, DecidableEq

/-- `ParSeq<P, T>` as far as `setup` / `dispatch` can tell: the tree -/
structure Disp where
  run : PS
deriving Repr

/-- what one `setup` call does: the dispatcher afterwards (unchanged), the leaf hooks in call
order, the world afterwards -/
def Disp.setup (d : Disp) (_via : Via) (creates : Nat → List ResId) (w : List ResId) :
    Disp × List Nat × List ResId :=
  (d, setupOrder d.run, setupWorldAcc creates d.run w)

/-- a history of setup calls, each with its entry point and the world it is handed; the
observation (hooks, world afterwards) of every call -/
def Disp.setups (d : Disp) (creates : Nat → List ResId) :
    List (Via × List ResId) → List (List Nat × List ResId)
  | [] => []
  | (v, w) :: rest =>
    let r := d.setup v creates w
    (r.2.1, r.2.2) :: Disp.setups r.1 creates rest

end PS
end Shred
