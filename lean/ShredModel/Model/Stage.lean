import ShredModel.Model.Access
/-!
# `StagesBuilder` — line-by-line mirror of `src/dispatch/stage.rs`

The builder keeps **five** parallel nested vectors (`ids`, `reads`, `running_time`,
`stages`, `writes`), indexed `[stage][group]`. They are five `Table`s here as well; that
they stay in lock-step is a theorem (`LockStep`), not a modelling convenience.
-/
namespace Shred

/-- `Vec<GroupVec<T>>`: stage ↦ group ↦ cell -/
abbrev Table (α : Type) := List (List α)

namespace Table
variable {α : Type}

def get? (t : Table α) (s g : Nat) : Option α :=
  match t[s]? with
  | some st => st[g]?
  | none => none

/-- `self.x.push(GroupVec::new())` -/
def addStage (t : Table α) : Table α := t ++ [[]]

/-- `self.x[stage].push(e)` -/
def addGroup (t : Table α) (s : Nat) (e : α) : Table α := t.modify s (· ++ [e])

/-- `f(&mut self.x[stage][group])` -/
def update (t : Table α) (s g : Nat) (f : α → α) : Table α := t.modify s (·.modify g f)

def shape (t : Table α) : List Nat := t.map List.length
end Table

/-- `MAX_SYSTEMS_PER_GROUP` -/
def maxSystemsPerGroup : Nat := 5

inductive Conflict | none | single (g : Nat) | multiple
deriving DecidableEq, Repr

/-- `Conflict::add` -/
def Conflict.add : Conflict → Nat → Conflict
  | .none, g => .single g
  | .single _, _ => .multiple
  | .multiple, _ => .multiple

inductive InsertionTarget | stage (s : Nat) | group (s g : Nat) | newStage
deriving DecidableEq, Repr

/-- The boxed system stored in `Stage.groups`; identified by a tag chosen by the caller
(the harness uses the registration index). -/
abbrev SysTag := Nat

structure StagesBuilder where
  barrier : Nat := 0
  ids : Table (List SysId) := []
  reads : Table (List ResId) := []
  runningTime : Table Nat := []
  stages : Table (List SysTag) := []
  writes : Table (List ResId) := []
deriving Repr

namespace StagesBuilder

/-- `find_conflict` (l.325-376) as a function of the three columns of the stage it reads:
`ids[stage]`, `reads[stage]`, `writes[stage]`. `hits` is the `filter`, `depConflict` the flag
the closure sets, the last line the override of l.371. -/
def findConflictCols (idsS : List (List SysId)) (readsS writesS : List (List ResId))
    (nr nw : List ResId) (dep : List SysId) : Conflict :=
  let numGroups := idsS.length
  let resHit := fun g => hit nr nw (readsS.getD g []) (writesS.getD g [])
  let depHit := fun g => inter dep (idsS.getD g [])
  let hits := (List.range numGroups).filter fun g => resHit g || depHit g
  let depConflict := (List.range numGroups).any fun g => !resHit g && depHit g
  let conflict := hits.foldl Conflict.add .none
  if (depConflict && dep.length > 1) || (!depConflict && !dep.isEmpty) then .multiple else conflict

def findConflict (b : StagesBuilder) (stage : Nat) (nr nw : List ResId) (dep : List SysId) : Conflict :=
  findConflictCols (b.ids.getD stage []) (b.reads.getD stage []) (b.writes.getD stage []) nr nw dep

/-- `remove_ids` (l.379-387): for every id of the stage, remove its first occurrence. -/
def removeIdsCol (idsS : List (List SysId)) (dep : List SysId) : List SysId :=
  if dep.isEmpty then dep
  else idsS.flatten.foldl (fun d id => d.erase id) dep

def removeIds (b : StagesBuilder) (stage : Nat) (dep : List SysId) : List SysId :=
  removeIdsCol (b.ids.getD stage []) dep

/-- `improves_balance` (l.312-321) on the `running_time[stage]` column. Arithmetic is on
integers; `running_time_le_20` shows the `u8`/`i8` operations of the original cannot wrap. -/
def improvesBalanceCol (rt : List Nat) (group newTime : Nat) : Bool :=
  let mx : Int := (rt.foldl Nat.max 0 : Nat)
  let old : Int := (rt.getD group 0 : Nat)
  let new : Int := old + (newTime : Nat)
  (mx - new).natAbs < (mx - old).natAbs

/-- the `find` predicate for `Conflict::Single(group)` (l.298-301) on the two columns it reads -/
def joinOkCols (sysS : List (List SysTag)) (rt : List Nat) (group newTime : Nat) : Bool :=
  (sysS.getD group []).length < maxSystemsPerGroup - 1 && improvesBalanceCol rt group newTime

def joinOk (b : StagesBuilder) (stage group newTime : Nat) : Bool :=
  joinOkCols (b.stages.getD stage []) (b.runningTime.getD stage []) group newTime

/-- the lazy `(barrier..len).map(..).find(..)` of `insertion_target`, threading `new_dep` -/
def scan (b : StagesBuilder) (nr nw : List ResId) (t : Nat) : List Nat → List SysId → InsertionTarget
  | [], _ => .newStage
  | stage :: rest, dep =>
    let conflict := b.findConflict stage nr nw dep
    let dep' := b.removeIds stage dep
    match conflict with
    | .none => .stage stage
    | .single g => if b.joinOk stage g t then .group stage g else scan b nr nw t rest dep'
    | .multiple => scan b nr nw t rest dep'

def insertionTarget (b : StagesBuilder) (nr nw : List ResId) (dep : List SysId) (t : Nat) :
    InsertionTarget :=
  b.scan nr nw t (List.range' b.barrier (b.stages.length - b.barrier)) dep

def addStage (b : StagesBuilder) : StagesBuilder :=
  { b with ids := b.ids.addStage, reads := b.reads.addStage, runningTime := b.runningTime.addStage,
           stages := b.stages.addStage, writes := b.writes.addStage }

def addGroup (b : StagesBuilder) (stage : Nat) : StagesBuilder :=
  { b with ids := b.ids.addGroup stage [], reads := b.reads.addGroup stage [],
           runningTime := b.runningTime.addGroup stage 0,
           stages := b.stages.addGroup stage [], writes := b.writes.addGroup stage [] }

/-- the repair of defect D3: `dep.sort(); dep.dedup(); for stage in 0..barrier { remove_ids }` -/
def prepDep (b : StagesBuilder) (dep : List SysId) : List SysId :=
  (List.range b.barrier).foldl (fun d stage => b.removeIds stage d) (dedup dep)

/-- `insert` (l.175-214) -/
def insert (b : StagesBuilder) (dep : List SysId) (id : SysId) (sys : SysTag) (d : Decl) :
    StagesBuilder :=
  let reads := sortDedup d.reads
  let writes := d.writes
  let newTime := d.time
  let dep := b.prepDep dep
  let target := b.insertionTarget reads writes dep newTime
  let (b, stage, group) :=
    match target with
    | .stage stage => (b.addGroup stage, stage, (b.ids.getD stage []).length)
    | .group stage group => (b, stage, group)
    | .newStage => let stage := b.stages.length; ((b.addStage).addGroup stage, stage, 0)
  { b with ids := b.ids.update stage group (· ++ [id]),
           reads := b.reads.update stage group (· ++ reads),
           runningTime := b.runningTime.update stage group (· + newTime),
           stages := b.stages.update stage group (· ++ [sys]),
           writes := b.writes.update stage group (· ++ writes) }

/-- `add_barrier` -/
def addBarrier (b : StagesBuilder) : StagesBuilder := { b with barrier := b.stages.length }

/-- `fetch_all_reads` / `fetch_all_writes` (sorted, de-duplicated) -/
def fetchAllReads (b : StagesBuilder) : List ResId := sortDedup b.reads.flatten.flatten
def fetchAllWrites (b : StagesBuilder) : List ResId := sortDedup b.writes.flatten.flatten

end StagesBuilder
end Shred
