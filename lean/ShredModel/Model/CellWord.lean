import ShredModel.Model.World
/-!
# The borrow word of `AtomicRefCell` (atomic_refcell 0.1.14, `src/lib.rs` l.196-319)

`World` keeps every resource in an `AtomicRefCell`; all borrow bookkeeping of a cell is one
`AtomicUsize`. Each of the four operations is **one** atomic read-modify-write (or store) on
that word, decided on the value the operation itself returns:

* `AtomicBorrowRef::try_new`: `new = fetch_add(1) + 1`; granted iff `new & HIGH_BIT == 0`
  (a refused attempt leaves its increment behind — "a benign side-effect");
* `AtomicBorrowRef::drop`: `fetch_sub(1)`;
* `AtomicBorrowRefMut::try_new`: `compare_exchange(0, HIGH_BIT)`; granted iff the old value was 0;
* `AtomicBorrowRefMut::drop`: `store(0)` (which also wipes the refused attempts' increments).

Operations on one atomic location are totally ordered (its modification order) and every
read-modify-write reads the value written just before it in that order. Hence what any number
of threads do to one cell **is** a sequence of these steps, and the statements of
`Lemmas/CellWord.lean` about *all sequences* cover all interleavings. `H` stands for `HIGH_BIT`
(2^63); words are unbounded naturals, i.e. the two overflow paths of `check_overflow` (2^63 live
shared guards; 2^62 refused attempts during one exclusive borrow, which aborts the process)
are outside the model.
-/
namespace Shred
namespace CellWord

inductive COp | tryShared | tryExcl | dropShared | dropExcl
deriving DecidableEq, Repr

/-- one atomic step on the word: new word, and whether a guard was granted (`true` for drops) -/
def wordStep (H : Nat) (w : Nat) : COp → Nat × Bool
  | .tryShared => (w + 1, decide (w + 1 < H))
  | .tryExcl => if w = 0 then (H, true) else (w, false)
  | .dropShared => (w - 1, true)
  | .dropExcl => (0, true)

/-- the same step on the abstract borrow state the `World` model uses -/
def absStep (b : Borrow) : COp → Borrow × Bool
  | .tryShared => match tryBorrow b false with
    | some b' => (b', true)
    | none => (b, false)
  | .tryExcl => match tryBorrow b true with
    | some b' => (b', true)
    | none => (b, false)
  | .dropShared => (releaseBorrow b false, true)
  | .dropExcl => (releaseBorrow b true, true)

/-- a guard can only be dropped while it exists -/
def legal : Borrow → COp → Prop
  | .shared n, .dropShared => 0 < n
  | _, .dropShared => False
  | .excl, .dropExcl => True
  | _, .dropExcl => False
  | _, _ => True

def runWord (H : Nat) : Nat → List COp → Nat × List Bool
  | w, [] => (w, [])
  | w, op :: ops =>
    let (w', o) := wordStep H w op
    let (w'', os) := runWord H w' ops
    (w'', o :: os)

def runAbs : Borrow → List COp → Borrow × List Bool
  | b, [] => (b, [])
  | b, op :: ops =>
    let (b', o) := absStep b op
    let (b'', os) := runAbs b' ops
    (b'', o :: os)

/-- every step of the history is legal, and the number of live shared guards stays below `H - 1` -/
def LegalRun (H : Nat) : Borrow → List COp → Prop
  | _, [] => True
  | b, op :: ops => legal b op ∧ (∀ n, b = .shared n → n + 1 < H) ∧ LegalRun H (absStep b op).1 ops

/-- what the word says about the abstract state -/
def Rel (H : Nat) (w : Nat) : Borrow → Prop
  | .free => w = 0
  | .shared n => w = n ∧ 0 < n ∧ n < H
  | .excl => H ≤ w

end CellWord
end Shred
