import ShredModel.Model.Stage
import ShredModel.Model.Task
/-!
# From the executed layout to the task it denotes

`Stage::execute`: groups of a stage via `par_iter_mut` (→ `par`), the systems of a group in a
`for` loop (→ `seq`); `SendDispatcher::dispatch_par`: stages in a `for` loop (→ `seq`);
`Dispatcher::dispatch`: then the thread-local systems in order. `dispatch_seq` replaces the
`par` by a `for` loop over the groups.
-/
namespace Shred

def groupTask (g : List SysTag) : Task SysTag := Task.seqN (g.map .leaf)
def stageTask (st : List (List SysTag)) : Task SysTag := Task.parN (st.map groupTask)
def stageTaskSeq (st : List (List SysTag)) : Task SysTag := Task.seqN (st.map groupTask)
def stagesTask (stages : Table (List SysTag)) : Task SysTag := Task.seqN (stages.map stageTask)
def stagesTaskSeq (stages : Table (List SysTag)) : Task SysTag := Task.seqN (stages.map stageTaskSeq)

/-- `Dispatcher::dispatch` (parallel feature on) -/
def dispatchTask (stages : Table (List SysTag)) (tl : List SysTag) : Task SysTag :=
  .seq (stagesTask stages) (Task.seqN (tl.map .leaf))

/-- `dispatch_seq` followed by `dispatch_thread_local` -/
def dispatchSeqTask (stages : Table (List SysTag)) (tl : List SysTag) : Task SysTag :=
  .seq (stagesTaskSeq stages) (Task.seqN (tl.map .leaf))

/-- registrations as `StagesBuilder` sees them: dependencies already resolved to ids; the
`n`-th registered system gets id `n` and is its own tag -/
inductive SOp
  | insert (dep : List SysId) (d : Decl)
  | barrier
deriving Repr

def SOp.step (st : StagesBuilder × Nat) : SOp → StagesBuilder × Nat
  | .insert dep d => (st.1.insert dep st.2 st.2 d, st.2 + 1)
  | .barrier => (st.1.addBarrier, st.2)

def runOps (ops : List SOp) : StagesBuilder × Nat := ops.foldl SOp.step ({}, 0)

end Shred
