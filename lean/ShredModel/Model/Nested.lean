import ShredModel.Model.Plan
/-!
# Dispatchers with batches

`Dispatcher { inner: SendDispatcher { stages }, thread_local }`, where a staged system may be a
`BatchControllerSystem` holding another `Dispatcher` (batch.rs). System **instances** are paths:
a top-level system with tag `t` is `[t]`; inside batch instance `p`, during the `i`-th inner
dispatch of its controller, system `u` is `p ++ [i, u]`.

Built dispatchers are composed bottom-up, exactly as `add_batch` consumes an already built inner
dispatcher: a batch contributes the function from its instance to the task of its body.
-/
namespace Shred

abbrev Inst := List Nat

/-- what a batch contributes: instance of the batch ↦ what its controller runs (the inner
dispatcher, `n` times) -/
abbrev Body := Inst → Task Inst

def findBody (bs : List (SysTag × Body)) (t : SysTag) : Option Body :=
  match bs with
  | [] => none
  | (t', b) :: rest => if t' = t then some b else findBody rest t

/-- a staged system: a plain leaf, or the scope of a batch around its body -/
def leafOf (bs : List (SysTag × Body)) (pfx : Inst) (t : SysTag) : Task Inst :=
  match findBody bs t with
  | some body => .scope (pfx ++ [t]) (body (pfx ++ [t]))
  | none => .leaf (pfx ++ [t])

def nGroupTask (bs : List (SysTag × Body)) (pfx : Inst) (g : List SysTag) : Task Inst :=
  Task.seqN (g.map (leafOf bs pfx))

def nStageTask (par : Bool) (bs : List (SysTag × Body)) (pfx : Inst) (st : List (List SysTag)) : Task Inst :=
  if par then Task.parN (st.map (nGroupTask bs pfx)) else Task.seqN (st.map (nGroupTask bs pfx))

/-- one `dispatch` (`par`) or `dispatch_seq; dispatch_thread_local` of a dispatcher whose
instances are prefixed by `pfx` -/
def nDispatchTask (par : Bool) (stages : Table (List SysTag)) (tl : List SysTag)
    (bs : List (SysTag × Body)) (pfx : Inst) : Task Inst :=
  .seq (Task.seqN (stages.map (nStageTask par bs pfx))) (Task.seqN (tl.map fun t => .leaf (pfx ++ [t])))

/-- the body of a batch whose controller calls `dispatch` on the inner dispatcher `n` times:
iterations `i, i+1, …`. (`par`: the crate's `parallel` feature — without it `dispatch` is
`dispatch_seq`.) -/
def iterBody (inner : Inst → Task Inst) (inst : Inst) : Nat → Nat → Task Inst
  | 0, _ => .nil
  | k + 1, i => .seq (inner (inst ++ [i])) (iterBody inner inst k (i + 1))

def batchBody (par : Bool) (stages : Table (List SysTag)) (tl : List SysTag) (bs : List (SysTag × Body)) (n : Nat) : Body :=
  fun inst => iterBody (nDispatchTask par stages tl bs) inst n 0

/-! ### which thread runs what

`'c'` = the thread that called `dispatch`, `'w'` = a worker of the pool. `dispatch_par` installs
into the pool, so every staged system runs on a worker; `dispatch_seq` and the thread-local loop
run on the calling thread. A nested dispatcher is called from the thread that runs its batch. -/

abbrev Threads := Char → Inst → List (Inst × Char)

def findThreads (bs : List (SysTag × Threads)) (t : SysTag) : Option Threads :=
  match bs with
  | [] => none
  | (t', b) :: rest => if t' = t then some b else findThreads rest t

def nThreads (par : Bool) (stages : Table (List SysTag)) (tl : List SysTag)
    (bs : List (SysTag × Threads)) : Threads := fun caller pfx =>
  let staged : Char := if par then 'w' else caller
  (stages.flatten.flatten.flatMap fun t =>
    (pfx ++ [t], staged) :: (match findThreads bs t with
      | some inner => inner staged (pfx ++ [t])
      | none => [])) ++
  tl.map fun t => (pfx ++ [t], caller)

def iterThreads (inner : Threads) (caller : Char) (inst : Inst) : Nat → Nat → List (Inst × Char)
  | 0, _ => []
  | k + 1, i => inner caller (inst ++ [i]) ++ iterThreads inner caller inst k (i + 1)

def batchThreads (par : Bool) (stages : Table (List SysTag)) (tl : List SysTag) (bs : List (SysTag × Threads)) (n : Nat) : Threads :=
  fun caller inst => iterThreads (nThreads par stages tl bs) caller inst n 0

end Shred
