import ShredModel.Model.World
/-!
# `MetaTable` — mirror of `src/meta.rs` (stable variant, `#[cfg(not(feature = "nightly"))]`)

Types are natural-number tags (`TypeId`). A resource reference `&dyn Resource` is the pair
(concrete type of the value, address of the value). A pointer to the trait object is the pair
(address, vtable), a vtable being identified by the concrete type it belongs to.

The function pointer `attach_vtable::<T, R>` stored by `register::<R>` is identified by the
tag of `R`, the type it was instantiated with: it calls `<T as CastFrom<R>>::cast`, which is
user code. That user code is the parameter `cast : CastFn` of everything below: `cast r a` is the
trait-object pointer `<T as CastFrom<R>>::cast` returns for `R = r` and a pointer with address `a`:
an address **and a vtable**, both chosen by the user's code. (The return type is `*mut T` for the
unsized `T`; nothing forces the vtable to be `R`'s: a safe implementation can return a pointer to a
field of `*t`, to a static, to a leaked object of any type implementing the trait, …) A lawful
implementation — the `# Safety` contract of `CastFrom` (l.25-28) — has `cast r a = ⟨a, r⟩`.

`register` never calls `cast` in the stable variant (l.367-390: it only stores the function
pointer), so nothing is checked at registration; the address assert (l.270-273) runs inside every
call of the stored function, i.e. at every `get` / `get_mut` / `next` — and it compares addresses
only. A cast that keeps the address but attaches another type's vtable (first field of a
`repr(C)` struct, another zero-sized type at the same dangling address) is therefore accepted:
the model returns exactly what the code returns, the pointer `cast` produced.

The world is reduced to what the iterators use: which types are present under dynamic id 0
(`ResourceId::from_type_id`), where the boxed value lives, and the borrow flag of its
`AtomicRefCell` (`Shred.Borrow` / `Shred.tryBorrow` of `Model/World.lean`).
-/
namespace Shred
namespace Meta

/-- `HashMap<TypeId, usize>::get`; the association list stands for the hash map (only lookups
and insertion into a vacant entry are ever used on it) -/
def lookup : List (Nat × Nat) → Nat → Option Nat
  | [], _ => none
  | (k, v) :: m, x => if k = x then some v else lookup m x

/-- `struct MetaTable<T>` (l.344-353): three parallel containers -/
structure MetaTable where
  /-- `vtable_fns: Vec<fn(*mut ()) -> *mut T>`: `attach_vtable::<T, R>` is written `R` -/
  vtableFns : List Nat := []
  /-- `indices: HashMap<TypeId, usize>` -/
  indices : List (Nat × Nat) := []
  /-- `tys: Vec<TypeId>` -/
  tys : List Nat := []
deriving Repr, DecidableEq

/-- `*mut T` for the unsized `T`: address and vtable (named by the concrete type it is for) -/
structure TraitPtr where
  addr : Nat
  vtable : Nat
deriving Repr, DecidableEq

/-- user code: the pointer (address, vtable) returned by `<T as CastFrom<R>>::cast` for `R` and
an input address -/
abbrev CastFn := Nat → Nat → TraitPtr

/-- the lawful `CastFrom` implementation (`fn cast(t: *mut R) -> *mut T { t }`): same address,
vtable of `R` -/
def lawfulCast : CastFn := fun ty a => ⟨a, ty⟩

/-- `&dyn Resource`: concrete type of the value (`res.type_id()`) and its address -/
structure ResRef where
  ty : Nat
  addr : Nat
deriving Repr, DecidableEq

inductive MPanic
  | badCast      -- "Bug: `CastFrom` did not cast `self`"
  | borrowed     -- "already borrowed" / "already mutably borrowed" of the cell
  | index        -- `self.vtable_fns[index]` out of bounds
deriving Repr, DecidableEq

namespace MetaTable

/-- `register::<R>()` (l.367-390), `R = ty`. `self.vtable_fns[ind] = vtable_fn` would panic
when `ind` is out of bounds; `List.set` does nothing then — `Meta.register_index_in_bounds`
shows the case does not arise. -/
def register (t : MetaTable) (ty : Nat) : MetaTable :=
  let vtableFn := ty
  let len := t.indices.length
  match lookup t.indices ty with
  | some ind => { t with vtableFns := t.vtableFns.set ind vtableFn }
  | none =>
    { vtableFns := t.vtableFns ++ [vtableFn]
      indices := t.indices ++ [(ty, len)]
      tys := t.tys ++ [ty] }

/-- a history of `register` calls on a table -/
def registerAll (t : MetaTable) (regs : List Nat) : MetaTable := regs.foldl register t

end MetaTable

/-- result of `get` / `get_mut`: `Option<&T>`, or the call panicked -/
inductive GetOut
  | none
  | some (p : TraitPtr)
  | panic (e : MPanic)
deriving Repr, DecidableEq

/-- `attach_vtable::<T, R>(value)` (l.259-275) for `R = fnTy`: cast, then the address assert
(`core::ptr::eq(value, trait_ptr.cast::<()>())`: the address only — the vtable is not and cannot
be compared). The check does not depend on the size, alignment or drop glue of `R`. -/
def attachVtable (cast : CastFn) (fnTy : Nat) (value : Nat) : Option TraitPtr :=
  let traitPtr : TraitPtr := cast fnTy value
  if traitPtr.addr = value then some traitPtr else none   -- `none`: the assert fired

namespace MetaTable

/-- `get(&self, res: &dyn Resource)` (l.433-447) -/
def get (cast : CastFn) (t : MetaTable) (res : ResRef) : GetOut :=
  match lookup t.indices res.ty with
  | none => .none
  | some ind =>
    match t.vtableFns[ind]? with
    | none => .panic .index
    | some vtableFn =>
      match attachVtable cast vtableFn res.addr with
      | none => .panic .badCast
      | some p => .some p

/-- `get_mut(&self, res: &mut dyn Resource)` (l.471-485): the same pointer computation (one
function pointer serves `&T` and `&mut T`, see the comment at l.257) -/
def getMut (cast : CastFn) (t : MetaTable) (res : ResRef) : GetOut :=
  match lookup t.indices res.ty with
  | none => .none
  | some ind =>
    match t.vtableFns[ind]? with
    | none => .panic .index
    | some vtableFn =>
      match attachVtable cast vtableFn res.addr with
      | none => .panic .badCast
      | some p => .some p

end MetaTable

/-! ## The world as the iterators see it -/

structure MCell where
  addr : Nat                 -- where the boxed value lives
  borrow : Borrow := .free   -- flag of the `AtomicRefCell`
deriving Repr, DecidableEq

/-- `world.try_fetch_internal(ResourceId::from_type_id(ty))` for every `ty` -/
structure MWorld where
  cell : Nat → Option MCell

namespace MWorld

def empty : MWorld := ⟨fun _ => none⟩

def set (w : MWorld) (ty : Nat) (c : Option MCell) : MWorld :=
  ⟨fun k => if k = ty then c else w.cell k⟩

def present (w : MWorld) (ty : Nat) : Bool := (w.cell ty).isSome

/-- `world.insert(r)` (needs `&mut World`: no guard is alive); the new box has address `addr` -/
def insert (w : MWorld) (ty addr : Nat) : MWorld := w.set ty (some ⟨addr, .free⟩)

/-- `world.remove::<R>()` -/
def remove (w : MWorld) (ty : Nat) : MWorld := w.set ty none

inductive AcqOut
  | none           -- resource absent
  | guard          -- borrowed
  | panic          -- "already (mutably) borrowed"
deriving Repr, DecidableEq

/-- `world.try_fetch::<R>()` (`excl = false`) / `world.try_fetch_mut::<R>()` (`excl = true`) -/
def acquire (w : MWorld) (ty : Nat) (excl : Bool) : MWorld × AcqOut :=
  match w.cell ty with
  | none => (w, .none)
  | some c =>
    match Shred.tryBorrow c.borrow excl with
    | none => (w, .panic)
    | some b' => (w.set ty (some { c with borrow := b' }), .guard)

/-- the flag after a guard is dropped -/
def releaseBorrow : Borrow → Borrow
  | .shared (n + 2) => .shared (n + 1)
  | _ => .free

/-- dropping a `Fetch`/`FetchMut`/`AtomicRef`/`AtomicRefMut` of the cell of `ty` -/
def release (w : MWorld) (ty : Nat) : MWorld :=
  match w.cell ty with
  | none => w
  | some c => w.set ty (some { c with borrow := releaseBorrow c.borrow })

end MWorld

/-- address of the resource of type `ty` (0 if absent) -/
def addrOf (w : MWorld) (ty : Nat) : Nat :=
  match w.cell ty with
  | some c => c.addr
  | none => 0

/-! ## `MetaIter` / `MetaIterMut` -/

/-- what one call of `next` returns -/
inductive NextOut
  | none
  | item (p : TraitPtr)      -- `AtomicRef<T>` (`iter`) / `AtomicRefMut<T>` (`iter_mut`)
  | panic (e : MPanic)
deriving Repr, DecidableEq

/-- world, `self.index` and the result after one call of `next` -/
structure Step where
  world : MWorld
  index : Nat
  out : NextOut

/-- The `loop` of `MetaIter::next` (l.68-105, `excl = false`) and `MetaIterMut::next`
(l.162-202, `excl = true`). `rest` is `tys[index..]`, so `self.tys.get(self.index)` is its head;
`vt` is `vtable_fns`.

Order as in the source: read the type, `self.index += 1`, look the cell up (absent: next round),
index `vtable_fns` (may panic), borrow the cell (may panic), call the stored function inside
`AtomicRef(Mut)::map` (the assert may panic — the borrow taken a moment ago is released by the
unwinding, the index stays incremented). -/
def nextFrom (cast : CastFn) (vt : List Nat) (excl : Bool) : List Nat → Nat → MWorld → Step
  | [], index, w => ⟨w, index, .none⟩
  | ty :: rest, index, w =>
    match w.cell ty with
    | none => nextFrom cast vt excl rest (index + 1) w
    | some c =>
      match vt[index]? with
      | none => ⟨w, index + 1, .panic .index⟩
      | some vtableFn =>
        match Shred.tryBorrow c.borrow excl with
        | none => ⟨w, index + 1, .panic .borrowed⟩
        | some b' =>
          match attachVtable cast vtableFn c.addr with
          | none => ⟨w, index + 1, .panic .badCast⟩
          | some p => ⟨w.set ty (some { c with borrow := b' }), index + 1, .item p⟩

/-- `MetaIter` (`excl = false`) / `MetaIterMut` (`excl = true`); the slices and the world it
refers to are passed to `next` -/
structure MIter where
  index : Nat := 0
  excl : Bool
deriving Repr, DecidableEq

namespace MetaTable

/-- `iter(&self, &World)` (l.503-514) / `iter_mut` (l.517-528) -/
def iter (_t : MetaTable) (excl : Bool) : MIter := { index := 0, excl := excl }

/-- one call of `Iterator::next` -/
def next (cast : CastFn) (t : MetaTable) (w : MWorld) (it : MIter) : MWorld × MIter × NextOut :=
  let s := nextFrom cast t.vtableFns it.excl (t.tys.drop it.index) it.index w
  (s.world, { it with index := s.index }, s.out)

/-- what a `for` loop over the iterator sees when it keeps every item alive -/
structure Collected where
  world : MWorld
  index : Nat
  items : List TraitPtr
  panic : Option MPanic       -- the loop ended by this panic instead of by `None`

/-- `next` until `None` or a panic; `fuel` bounds the number of calls (`tys.len() + 1` is always
enough: `Meta.collect_fuel`) -/
def collectN (cast : CastFn) (t : MetaTable) (excl : Bool) :
    Nat → MWorld → Nat → List TraitPtr → Collected
  | 0, w, index, acc => ⟨w, index, acc, none⟩
  | fuel + 1, w, index, acc =>
    match t.next cast w ⟨index, excl⟩ with
    | (w', it', .none) => ⟨w', it'.index, acc, none⟩
    | (w', it', .panic e) => ⟨w', it'.index, acc, some e⟩
    | (w', it', .item p) => collectN cast t excl fuel w' it'.index (acc ++ [p])

def collect (cast : CastFn) (t : MetaTable) (w : MWorld) (it : MIter) : Collected :=
  collectN cast t it.excl (t.tys.length + 1) w it.index []

end MetaTable

/-! ## The provided `Iterator` methods

`MetaIter` / `MetaIterMut` implement `next` only (l.68-105, l.162-202), so every other method of
`Iterator` is the default of `core::iter::Iterator`, written in terms of `next`: `nth` is
`advance_by(n)` (call `next` `n` times, dropping each item at once) followed by `next`; `skip`,
`step_by` and `take` are adapters whose `next` calls the inner `nth` / `next`; `collect`, `fold`,
`for_each`, `last` and `count` are loops over `next` until `None`. An item that is dropped gives
its borrow back (`MWorld.release`). These definitions are what the engine's answers for the same
calls on the real iterators are compared with. -/

namespace MetaTable

/-- the type whose cell an item borrows, given `self.index` after the `next` call that yielded it:
the call stopped at slot `index - 1` -/
def slotTy (t : MetaTable) (index : Nat) : Nat := (t.tys[index - 1]?).getD 0

/-- how `advance_by` ended: all `n` steps done, `None` met earlier, or a panic of `next` -/
inductive AdvOut
  | ok
  | short
  | panic (e : MPanic)
deriving Repr, DecidableEq

/-- `Iterator::advance_by(n)` (default): `for _ in 0..n { self.next()?; }` — every item is dropped
as soon as it was yielded -/
def advanceBy (cast : CastFn) (t : MetaTable) (excl : Bool) : Nat → MWorld → Nat → MWorld × Nat × AdvOut
  | 0, w, i => (w, i, .ok)
  | n + 1, w, i =>
    match t.next cast w ⟨i, excl⟩ with
    | (w', it', .item _) => advanceBy cast t excl n (w'.release (t.slotTy it'.index)) it'.index
    | (w', it', .none) => (w', it'.index, .short)
    | (w', it', .panic e) => (w', it'.index, .panic e)

/-- `Iterator::nth(n)` (default): `self.advance_by(n).ok()?; self.next()` -/
def nth (cast : CastFn) (t : MetaTable) (w : MWorld) (it : MIter) (n : Nat) : MWorld × MIter × NextOut :=
  match advanceBy cast t it.excl n w it.index with
  | (w', i', .ok) => t.next cast w' ⟨i', it.excl⟩
  | (w', i', .short) => (w', ⟨i', it.excl⟩, .none)
  | (w', i', .panic e) => (w', ⟨i', it.excl⟩, .panic e)

/-- `Iterator::size_hint` (default): `(0, None)` -/
def sizeHint (_t : MetaTable) (_it : MIter) : Nat × Option Nat := (0, none)

/-- the adapters of `core::iter` around the iterator (or around `by_ref()` of it) -/
inductive Adapter
  /-- the iterator itself -/
  | plain
  /-- `Skip { iter, n }` -/
  | skip (n : Nat)
  /-- `StepBy { iter, step, first_take }`; the field `step` holds the argument of `step_by` minus
  one, as in `core` -/
  | stepBy (step : Nat) (first : Bool)
  /-- `Take { iter, n }` -/
  | take (n : Nat)
deriving Repr, DecidableEq

/-- `next` of the adapter: `Skip::next` is `iter.nth(take(&mut n))` while `n > 0`, then
`iter.next()`; `StepBy::next` is `iter.nth(if first_take { 0 } else { step })`; `Take::next` is
`iter.next()` while `n != 0` (then `None` without calling the iterator). -/
def adNext (cast : CastFn) (t : MetaTable) (excl : Bool) :
    Adapter → MWorld → Nat → Adapter × MWorld × Nat × NextOut
  | .plain, w, i =>
    let r := t.next cast w ⟨i, excl⟩
    (.plain, r.1, r.2.1.index, r.2.2)
  | .skip n, w, i =>
    let r := t.nth cast w ⟨i, excl⟩ n
    (.skip 0, r.1, r.2.1.index, r.2.2)
  | .stepBy s first, w, i =>
    let r := t.nth cast w ⟨i, excl⟩ (if first then 0 else s)
    (.stepBy s false, r.1, r.2.1.index, r.2.2)
  | .take 0, w, i => (.take 0, w, i, .none)
  | .take (n + 1), w, i =>
    let r := t.next cast w ⟨i, excl⟩
    (.take n, r.1, r.2.1.index, r.2.2)

/-- what a consuming call leaves behind -/
structure Ran where
  world : MWorld
  index : Nat
  /-- the items alive at the end, each with the type whose cell it borrows -/
  kept : List (Nat × TraitPtr)
  /-- number of items the adapter yielded -/
  seen : Nat
  /-- the call ended by this panic -/
  panic : Option MPanic

/-- `collect::<Vec<_>>()` / `for_each(|x| v.push(x))` / `fold(Vec::new(), push)`: `next` of the
adapter until `None` or a panic, every item kept. `fuel` bounds the number of calls. -/
def collectVia (cast : CastFn) (t : MetaTable) (excl : Bool) :
    Nat → Adapter → MWorld → Nat → List (Nat × TraitPtr) → Ran
  | 0, _, w, i, kept => ⟨w, i, kept, kept.length, none⟩
  | fuel + 1, ad, w, i, kept =>
    match adNext cast t excl ad w i with
    | (_, w', i', .none) => ⟨w', i', kept, kept.length, none⟩
    | (_, w', i', .panic e) => ⟨w', i', kept, kept.length, some e⟩
    | (ad', w', i', .item p) => collectVia cast t excl fuel ad' w' i' (kept ++ [(t.slotTy i', p)])

/-- the accumulator of `last` is overwritten: the item it held is dropped -/
def dropPrev (w : MWorld) : Option (Nat × TraitPtr) → MWorld
  | some (pty, _) => w.release pty
  | none => w

/-- `last()` = `fold(None, |_, x| Some(x))`: the previous item is dropped when the next one has
arrived -/
def lastVia (cast : CastFn) (t : MetaTable) (excl : Bool) :
    Nat → Adapter → MWorld → Nat → Option (Nat × TraitPtr) → Nat → Ran
  | 0, _, w, i, prev, seen => ⟨w, i, prev.toList, seen, none⟩
  | fuel + 1, ad, w, i, prev, seen =>
    match adNext cast t excl ad w i with
    | (_, w', i', .none) => ⟨w', i', prev.toList, seen, none⟩
    | (_, w', i', .panic e) => ⟨w', i', prev.toList, seen, some e⟩
    | (ad', w', i', .item p) =>
      lastVia cast t excl fuel ad' (dropPrev w' prev) i' (some (t.slotTy i', p)) (seen + 1)

/-- `count()` = `fold(0, |n, _| n + 1)`: every item is dropped at once -/
def countVia (cast : CastFn) (t : MetaTable) (excl : Bool) :
    Nat → Adapter → MWorld → Nat → Nat → Ran
  | 0, _, w, i, seen => ⟨w, i, [], seen, none⟩
  | fuel + 1, ad, w, i, seen =>
    match adNext cast t excl ad w i with
    | (_, w', i', .none) => ⟨w', i', [], seen, none⟩
    | (_, w', i', .panic e) => ⟨w', i', [], seen, some e⟩
    | (ad', w', i', .item _) => countVia cast t excl fuel ad' (w'.release (t.slotTy i')) i' (seen + 1)

/-- unwinding out of `collect` / `fold` / `last`: the partial `Vec` / accumulator is dropped -/
def Ran.unwind (r : Ran) : Ran :=
  { r with world := r.kept.foldl (fun w e => w.release e.1) r.world, kept := [] }

/-- what `a.zip(b).collect::<Vec<_>>()` leaves behind (`Zip::next`: `let x = a.next()?;
let y = b.next()?; Some((x, y))`) -/
structure Zipped where
  world : MWorld
  indexA : Nat
  indexB : Nat
  pairs : List ((Nat × TraitPtr) × (Nat × TraitPtr))
  panic : Option MPanic

def zipN (cast : CastFn) (t : MetaTable) (exclA exclB : Bool) :
    Nat → MWorld → Nat → Nat → List ((Nat × TraitPtr) × (Nat × TraitPtr)) → Zipped
  | 0, w, ia, ib, acc => ⟨w, ia, ib, acc, none⟩
  | fuel + 1, w, ia, ib, acc =>
    match t.next cast w ⟨ia, exclA⟩ with
    | (w1, a', .none) => ⟨w1, a'.index, ib, acc, none⟩
    | (w1, a', .panic e) => ⟨w1, a'.index, ib, acc, some e⟩
    | (w1, a', .item x) =>
      let tx := t.slotTy a'.index
      match t.next cast w1 ⟨ib, exclB⟩ with
      | (w2, b', .none) => ⟨w2.release tx, a'.index, b'.index, acc, none⟩          -- `x` dropped by `?`
      | (w2, b', .panic e) => ⟨w2.release tx, a'.index, b'.index, acc, some e⟩      -- `x` dropped by unwinding
      | (w2, b', .item y) => zipN cast t exclA exclB fuel w2 a'.index b'.index (acc ++ [((tx, x), (t.slotTy b'.index, y))])

end MetaTable

end Meta
end Shred
