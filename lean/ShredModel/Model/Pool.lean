/-!
# A stage on a thread pool, with systems that wait for their siblings (C11)

**This is a model of what shred relies on rayon for, not of rayon's source.** `Stage::execute`
hands the `n` groups of a stage to the pool as `n` independent jobs (`par_iter_mut().for_each`).
A pool has `w` workers; an idle worker may take any job that has not started. In the
rendezvous experiment every system, once inside `run`, blocks (keeping its worker) until all
`n` siblings have entered `run`; then it may leave.

What the model leaves out on purpose: a rayon worker that *waits for nested work* (the worker
running a batch controller waits for the batch's inner stage) is neither idle nor blocked — it
runs other pending jobs on top of its stack. A system that follows a batch in the same group can
therefore be kept from starting by a sibling that waits for it (the sibling's group was taken
by the very worker whose stack holds the continuation). The rendezvous engine never lets a
waiting system sit behind a batch of its own group; see `notes/C11.md`.
-/
namespace Shred

structure PoolSt where
  idle : Nat      -- workers without a job
  pending : Nat   -- groups not yet started
  inside : Nat    -- systems inside `run`
  done : Nat      -- systems that have left `run`
deriving DecidableEq, Repr

def PoolSt.init (w n : Nat) : PoolSt := ⟨w, n, 0, 0⟩

/-- an idle worker picks up a group that has not started -/
def PoolSt.canStart (s : PoolSt) : Bool := 0 < s.idle && 0 < s.pending
def PoolSt.start (s : PoolSt) : PoolSt :=
  { s with idle := s.idle - 1, pending := s.pending - 1, inside := s.inside + 1 }

/-- a system inside `run` may leave once all `n` have entered -/
def PoolSt.canFinish (n : Nat) (s : PoolSt) : Bool := s.inside + s.done == n && 0 < s.inside
def PoolSt.finish (s : PoolSt) : PoolSt :=
  { s with idle := s.idle + 1, inside := s.inside - 1, done := s.done + 1 }

inductive PoolStep (n : Nat) : PoolSt → PoolSt → Prop
  | start {s} : s.canStart = true → PoolStep n s s.start
  | finish {s} : s.canFinish n = true → PoolStep n s s.finish

inductive PoolReach (w n : Nat) : PoolSt → Prop
  | init : PoolReach w n (PoolSt.init w n)
  | step {s s'} : PoolReach w n s → PoolStep n s s' → PoolReach w n s'

/-- run to quiescence (any enabled step; `2n` steps always suffice) -/
def PoolSt.run (n : Nat) : Nat → PoolSt → PoolSt
  | 0, s => s
  | fuel + 1, s =>
    if s.canStart then PoolSt.run n fuel s.start
    else if s.canFinish n then PoolSt.run n fuel s.finish
    else s

/-- what the model predicts for a stage of `n` rendezvous systems on `w` workers -/
def poolCompletes (w n : Nat) : Bool := ((PoolSt.init w n).run n (2 * n + 1)).done == n

/-- `busy` of the `w` workers are held by something that does not take part in the stage (a
system of an enclosing stage that is itself blocked): only the others are idle -/
def poolCompletesBusy (w busy n : Nat) : Bool := poolCompletes (w - busy) n

/-!
## Which pool a dispatcher runs its stages on

`DispatcherBuilder` (`builder.rs`) owns a *slot* `thread_pool: Arc<RwLock<Option<Arc<ThreadPool>>>>`
(created empty by `new()`); everything a dispatcher does with rayon goes through the slot it was
built with, read at **dispatch** time (`send_dispatcher.rs::dispatch_par`:
`self.thread_pool.read().unwrap().as_ref().unwrap().install(..)`; `async_dispatcher.rs::dispatch`:
`...spawn(..)`). The calls that touch slots:

* `add_pool` / `with_pool`: `*self.thread_pool.write() = Some(pool)` — replaces the content of
  the builder's own slot (also for dispatchers that were built with that slot earlier);
* `add_batch` / `with_batch`: `dispatcher_builder.thread_pool = self.thread_pool.clone()` — the
  builder of the batch *forgets its own slot* and uses the parent's — and then
  `dispatcher_builder.build()`;
* `build` / `build_async`: `get_or_insert_with(Self::create_thread_pool)` on the slot, where
  `create_thread_pool` is `ThreadPoolBuilder::new().build()`: rayon's default size (`dflt` below:
  `RAYON_NUM_THREADS` if set, else the number of cores). **It does not look at the stages.**

So the dispatcher of a batch uses the slot its *parent builder was created with*; the batches
registered on the batch's builder before it was added (depth ≥ 2) were built with — and keep —
the slot the batch's builder was created with, which `add_batch` later detaches from that
builder. Only the *size* of the pool in a slot is tracked.
-/

/-- the pool-relevant calls made on one `DispatcherBuilder`, in call order (all other calls —
`add`, `add_barrier`, `add_thread_local` — do not touch a slot) -/
inductive PB where
  | nil : PB
  /-- `add_pool(pool of p threads)`, then the rest -/
  | pool (p : Nat) (rest : PB) : PB
  /-- `add_batch(controller, inner, ..)` where the calls `inner` were made on the batch's builder
  and the batch's own plan has stages of these widths (numbers of groups); then the rest -/
  | batch (tag : Nat) (widths : List Nat) (inner : PB) (rest : PB) : PB
deriving Repr

/-- content of the builder's own slot after the calls, starting from content `s`
(`add_batch` builds the inner dispatcher on this slot: `get_or_insert_with`) -/
def PB.slot (dflt : Nat) : PB → Option Nat → Option Nat
  | .nil, s => s
  | .pool p r, _ => r.slot dflt (some p)
  | .batch _ _ _ r, s => r.slot dflt (some (s.getD dflt))

/-- a dispatcher: which batch it belongs to (`none` = the one `build` returns), the size of the
pool it dispatches on, the widths of its stages -/
structure Disp where
  tag : Option Nat
  pool : Nat
  widths : List Nat
deriving Repr, DecidableEq

/-- the dispatchers of the batches registered by the calls `b` on a builder whose own slot
finally holds a pool of `f` threads, nested ones included (pre-order) -/
def PB.batches (dflt : Nat) (f : Nat) : PB → List Disp
  | .nil => []
  | .pool _ r => r.batches dflt f
  | .batch tag ws inner r =>
    ⟨some tag, f, ws⟩ :: (inner.batches dflt ((inner.slot dflt none).getD dflt) ++ r.batches dflt f)

/-- `build()` / `build_async()` after the calls `b`, the top-level plan having stages of `widths` -/
def PB.build (dflt : Nat) (b : PB) (widths : List Nat) : List Disp :=
  let f := (b.slot dflt none).getD dflt
  ⟨none, f, widths⟩ :: b.batches dflt f

/-- no `add_pool` anywhere, at any depth: everything runs on default pools -/
def PB.noPool : PB → Bool
  | .nil => true
  | .pool _ _ => false
  | .batch _ _ inner r => inner.noPool && r.noPool

/-- the last `add_pool` made on the builder itself -/
def PB.lastPool : PB → Option Nat
  | .nil => none
  | .pool p r => match r.lastPool with | some q => some q | none => some p
  | .batch _ _ _ r => r.lastPool

/-- the batches registered on the builder itself (depth 1) -/
def PB.direct : PB → List (Nat × List Nat)
  | .nil => []
  | .pool _ r => r.direct
  | .batch tag ws _ r => (tag, ws) :: r.direct

/-- every stage of the dispatcher can rendezvous on the dispatcher's pool -/
def Disp.completes (d : Disp) : Bool := d.widths.all (poolCompletes d.pool)

/-!
## The async dispatcher over a *sequence* of calls (`async_dispatcher.rs`)

`AsyncDispatcher` keeps `data: Data<R>`, which is either `Data::Inner` (the stages and the world are
here) or `Data::Rx(rx)` (a job spawned on the pool owns them and will `snd.send(inner)` as its last
statement). The only blocking operation of the type is `Data::inner`: `rx.recv()` — and every call
of it is made **on the thread that calls the `AsyncDispatcher` method**:

* `dispatch` = `let (snd, inner) = self.data.sender(); pool.spawn(move || { for stage in
  &mut inner.stages { stage.execute(world) }; snd.send(inner) })`, and `Data::sender` starts with
  `self.inner()`: if a previous dispatch is in flight the **caller** waits for it, and only then a
  fresh channel is stored and the new job spawned. The spawned closure owns `inner` from the start;
  it contains no `recv`.
* `wait`, `wait_without_tl`, `world` / `world_mut` / `res` / `mut_res` / `setup`: `self.data.inner()`.
* `running`: `inner_noblock` = `try_recv` — takes the systems back if the job has already sent them,
  never blocks.

The worker that runs the spawned closure calls `stage.execute` itself, i.e. it takes part in the
stage's groups: a job does not cost its own stages a worker. What would cost them a worker is
*another* unfinished job of the same dispatcher on the same pool: the one that is executing stages
uses workers, and one that is not executing stages could only be blocked. The model therefore
counts, for every dispatch, the largest number of other unfinished jobs that existed while it was
unfinished (`others`); `C11_async_whole_pool` shows that it is `0` for every dispatch of every call
sequence, whatever `running` observes.
-/

/-- the calls on an `AsyncDispatcher` that touch `data` (`world` stands for everything that is just
`self.data.inner()`; `running sent`: `sent` = the job had already executed `snd.send(inner)`) -/
inductive ACall where
  | dispatch
  | wait
  | waitWithoutTl
  | world
  | running (sent : Bool)
deriving Repr, DecidableEq

structure ASt where
  /-- `self.data` is `Data::Rx(_)` -/
  rx : Bool
  /-- jobs spawned on the pool that have not been taken back (`snd.send(inner)` not yet received) -/
  flying : Nat
  /-- per `dispatch()` so far, **newest first**: the largest number of other unfinished jobs of this
  dispatcher while its own job was unfinished -/
  others : List Nat
deriving Repr, DecidableEq

def ASt.init : ASt := ⟨false, 0, []⟩

/-- `Data::inner`, executed by the calling thread: `rx.recv()` returns when the job in flight has
sent the systems back (its last statement), `Data::Inner` returns at once -/
def ASt.inner (s : ASt) : ASt :=
  if s.rx then { s with rx := false, flying := s.flying - 1 } else s

/-- the `k` unfinished jobs are those of the `k` most recent dispatches: each of them now has `k`
others next to it (itself replaced by the new one in the count) -/
def bumpNewest (k : Nat) (l : List Nat) : List Nat :=
  (l.take k).map (fun b => max b k) ++ l.drop k

/-- `replace(self, Data::Rx(rx))` and `pool.spawn(job)` -/
def ASt.spawn (s : ASt) : ASt :=
  { rx := true, flying := s.flying + 1, others := s.flying :: bumpNewest s.flying s.others }

def ASt.call (s : ASt) : ACall → ASt
  | .dispatch => s.inner.spawn
  | .wait => s.inner
  | .waitWithoutTl => s.inner
  | .world => s.inner
  | .running sent => if sent then s.inner else s

def ASt.run (s : ASt) : List ACall → ASt
  | [] => s
  | c :: cs => (s.call c).run cs

def nDispatch : List ACall → Nat
  | [] => 0
  | .dispatch :: cs => nDispatch cs + 1
  | _ :: cs => nDispatch cs

/-- per dispatch of the call sequence, oldest first: how many workers of the pool other jobs of the
dispatcher hold while this dispatch's stages run -/
def asyncOthers (calls : List ACall) : List Nat := (ASt.init.run calls).others.reverse

/-- per dispatch, oldest first: can a stage of `n` groups rendezvous on a pool of `p` threads -/
def asyncVerdicts (p n : Nat) (calls : List ACall) : List Bool :=
  (asyncOthers calls).map fun b => poolCompletesBusy p b n

/-- per dispatch of the call sequence, per stage of the dispatcher: the verdict. The queued jobs of
an async dispatcher would sit on the pool of the top-level slot, which the batches of depth 1 share;
no distinction is made for deeper batches (default pool) because `others` is `0` throughout. -/
def Disp.completesAsync (calls : List ACall) (d : Disp) : List (List Bool) :=
  (asyncOthers calls).map fun b => d.widths.map (poolCompletesBusy d.pool b)

end Shred
