/-!
# A stage on a thread pool, with systems that wait for their siblings (C11)

**This is a model of what shred relies on rayon for, not of rayon's source.** `Stage::execute`
hands the `n` groups of a stage to the pool as `n` independent jobs (`par_iter_mut().for_each`).
A pool has `w` workers; an idle worker may take any job that has not started. In the
rendezvous experiment every system, once inside `run`, blocks (keeping its worker) until all
`n` siblings have entered `run`; then it may leave.
-/
namespace Shred

structure PoolSt where
  idle : Nat      -- workers without a job
  pending : Nat   -- groups not yet started
  inside : Nat    -- systems inside `run`
  done : Nat      -- systems that have left `run`
deriving DecidableEq, Repr

def PoolSt.init (w n : Nat) : PoolSt := ⟨w, n, 0, 0⟩

/-- an idle worker picks up a group that has not started -/
def PoolSt.canStart (s : PoolSt) : Bool := 0 < s.idle && 0 < s.pending
def PoolSt.start (s : PoolSt) : PoolSt :=
  { s with idle := s.idle - 1, pending := s.pending - 1, inside := s.inside + 1 }

/-- a system inside `run` may leave once all `n` have entered -/
def PoolSt.canFinish (n : Nat) (s : PoolSt) : Bool := s.inside + s.done == n && 0 < s.inside
def PoolSt.finish (s : PoolSt) : PoolSt :=
  { s with idle := s.idle + 1, inside := s.inside - 1, done := s.done + 1 }

inductive PoolStep (n : Nat) : PoolSt → PoolSt → Prop
  | start {s} : s.canStart = true → PoolStep n s s.start
  | finish {s} : s.canFinish n = true → PoolStep n s s.finish

inductive PoolReach (w n : Nat) : PoolSt → Prop
  | init : PoolReach w n (PoolSt.init w n)
  | step {s s'} : PoolReach w n s → PoolStep n s s' → PoolReach w n s'

/-- run to quiescence (any enabled step; `2n` steps always suffice) -/
def PoolSt.run (n : Nat) : Nat → PoolSt → PoolSt
  | 0, s => s
  | fuel + 1, s =>
    if s.canStart then PoolSt.run n fuel s.start
    else if s.canFinish n then PoolSt.run n fuel s.finish
    else s

/-- what the model predicts for a stage of `n` rendezvous systems on `w` workers -/
def poolCompletes (w n : Nat) : Bool := ((PoolSt.init w n).run n (2 * n + 1)).done == n

end Shred
