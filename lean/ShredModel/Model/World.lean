import ShredModel.Model.Access
/-!
# `World` — mirror of `src/world/mod.rs`, `entry.rs`, `setup.rs`, the borrowing part of
`src/world/data.rs` / `src/meta.rs` (iterators) and of the part of `atomic_refcell` that shred uses

A world is an association list `ResourceId ↦ Cell`. A cell carries the *type tag of the boxed
value* (what `Any::type_id` would answer), a token identifying the value (for drop accounting),
and the borrow counter of its `AtomicRefCell` (`0` = `free`, `n` = `shared n`, high bit = `excl`).
Guards are handles into a table; a handle records the cell it borrows and whether exclusively.
`&mut World` operations are only legal with an empty guard table (Rust's borrow checker
guarantees that); this is a hypothesis of the theorems, not built into the functions.

Three ghost lists do the drop accounting of C09: `created` (every value that ever came into
existence through a call: arguments passed by value, results of the `or_insert_with` closure /
`Default::default`), `returned` (values handed back to the caller by `remove`), `dropped`
(values whose destructor ran inside a call).

Faults raised by *user code* while a `World` call (or a closure holding guards) is on the stack are
part of the model: a closure that panics while it holds guards (`scope`, `entryFault .guardHeld`),
a closure handed to `or_insert_with` that panics (`entryFault .closure`), and a value whose `Drop`
panics at the place where the world drops it (`insertFused`, `entryFault .valueDrop`,
`dropReturned`, `dropWorldPanic`). Such a call answers `Out.unwound` (the panic came from user
code) as opposed to `Out.panic` (the world itself refused). A value whose `Drop::drop` ran counts as
dropped, also when that `drop` panicked.

Each function treats one cell operation (`try_borrow`, `borrow_mut`, the guard's `drop`) as one
atomic step; the atomics of `atomic_refcell` are not modelled (see notes/C08.md).
Core Lean only: this file is linked into the driver executable.
-/
namespace Shred

/-- `AtomicRefCell.borrow`: `0`, `n` (n shared borrows), `HIGH_BIT` (+ benign failed-borrow
increments, which `AtomicBorrowRefMut::drop` wipes with `store(0)`) -/
inductive Borrow | free | shared (n : Nat) | excl
deriving DecidableEq, Repr

structure Cell where
  ty : Nat            -- concrete type of the boxed value
  token : Nat         -- identity of the value
  borrow : Borrow := .free
deriving DecidableEq, Repr

structure Guard where
  key : ResId
  excl : Bool
deriving DecidableEq, Repr

/-- panic payloads, classified by message text -/
inductive WPanic
  | wrongType                  -- "Passed a `ResourceId` with a wrong type ID" (assert_same_type_id, mod.rs l.161)
  | absent                     -- fetch_panic!() (setup.rs l.3)
  | alreadyBorrowed            -- "<T>: already borrowed"  (`try_fetch_mut`: Display of `BorrowMutError`)
  | alreadyMutablyBorrowed     -- "already mutably borrowed" (`try_fetch`; `borrow()`; `borrow_mut()` on an exclusive cell)
  | alreadyImmutablyBorrowed   -- "already immutably borrowed" (`borrow_mut()` on a shared cell)
deriving DecidableEq, Repr

/-- which flavour of cell access a fetch uses: `try_borrow(_mut)` + shred's own `panic!` (typed
forms, mod.rs l.431/487) or the panicking `borrow()` / `borrow_mut()` of the cell (by-id forms
l.457/512, `Entry::or_insert_with`, meta iterators) -/
inductive Form | typed | byId
deriving DecidableEq, Repr

structure World where
  cells : List (ResId × Cell) := []
  guards : List (Nat × Guard) := []      -- live guards by handle
  nextHandle : Nat := 0
  created : List Nat := []               -- tokens of values that came into existence
  returned : List Nat := []              -- tokens handed back to the caller (`remove`)
  dropped : List Nat := []               -- tokens of values dropped so far
deriving Repr

/-! ## the resource table (a `HashMap`: only lookups, replacement and removal are used) -/

def lookupCell (k : ResId) : List (ResId × Cell) → Option Cell
  | [] => none
  | p :: rest => if p.1 = k then some p.2 else lookupCell k rest

/-- `HashMap::insert`: replace the entry of `k`, or add one -/
def setCell (k : ResId) (c : Cell) : List (ResId × Cell) → List (ResId × Cell)
  | [] => [(k, c)]
  | p :: rest => if p.1 = k then (k, c) :: rest else p :: setCell k c rest

/-- `HashMap::remove` -/
def eraseCell (k : ResId) : List (ResId × Cell) → List (ResId × Cell)
  | [] => []
  | p :: rest => if p.1 = k then eraseCell k rest else p :: eraseCell k rest

/-! ## the guard table -/

def findGuard (h : Nat) : List (Nat × Guard) → Option Guard
  | [] => none
  | p :: rest => if p.1 = h then some p.2 else findGuard h rest

def dropGuard (h : Nat) : List (Nat × Guard) → List (Nat × Guard)
  | [] => []
  | p :: rest => if p.1 = h then rest else p :: dropGuard h rest

/-- a panic raised by user code that runs inside a call: a closure (`or_insert_with`'s argument, the
body of a scope) or the `Drop` of a value the world drops -/
inductive Fault | closure | drop
deriving DecidableEq, Repr

/-- how a closure that holds guards ended: it returned, it panicked by itself while holding them,
or one of its fetches was refused by the world (which is a panic, too) -/
inductive ScopeEnd
  | returned
  | panicked
  | refused (p : WPanic)
deriving DecidableEq, Repr

/-- result of one operation -/
inductive Out
  | unit
  | bool (b : Bool)
  | guard (h : Nat) (token : Nat)     -- a guard with handle `h`; dereferencing it shows `token`
  | none
  | value (token : Nat)               -- `remove` returned the stored value
  | seen (token : Nat)                -- `get_mut` / a scoped `entry` guard showed this value
  | data (fields : List (Option (Nat × Nat)))   -- composite system data: (handle, token) per field, `none` = `Option` field is `None`
  | panic (p : WPanic)
  | scopeDone (seen : List (Option Nat)) (fin : ScopeEnd)   -- a closure that took guards: what they showed, how it ended
  | unwound (f : Fault)               -- the call was unwound by a panic raised by user code
deriving DecidableEq, Repr

/-- `AtomicBorrowRef::try_new` (fetch_add 1, fails if the high bit is set) /
`AtomicBorrowRefMut::try_new` (compare_exchange 0 → HIGH_BIT) -/
def tryBorrow (b : Borrow) (excl : Bool) : Option Borrow :=
  match b, excl with
  | .free, false => some (.shared 1)
  | .shared n, false => some (.shared (n + 1))
  | .free, true => some .excl
  | _, _ => none

/-- the text of the panic when the borrow fails -/
def borrowPanic (f : Form) (b : Borrow) (excl : Bool) : WPanic :=
  match f, excl, b with
  | .typed, true, _ => .alreadyBorrowed                 -- Display of BorrowMutError
  | .byId, true, .shared _ => .alreadyImmutablyBorrowed  -- borrow_mut(): old & HIGH_BIT == 0
  | _, _, _ => .alreadyMutablyBorrowed

/-- `AtomicBorrowRef::drop` (fetch_sub 1) / `AtomicBorrowRefMut::drop` (store 0) -/
def releaseBorrow (b : Borrow) (excl : Bool) : Borrow :=
  match excl, b with
  | true, _ => .free
  | false, .shared (n + 2) => .shared (n + 1)
  | false, .shared _ => .free
  | false, b => b

namespace World

def get (w : World) (k : ResId) : Option Cell := lookupCell k w.cells

/-- the common core of all fetches: look the cell up, borrow it, wrap the borrow in a guard.
`orPanic` distinguishes `fetch` (`unwrap_or_else(fetch_panic!)`) from `try_fetch`. -/
def fetchCore (w : World) (k : ResId) (excl : Bool) (f : Form) (orPanic : Bool) : World × Out :=
  match w.get k with
  | none => (w, if orPanic then .panic .absent else .none)
  | some c =>
    match tryBorrow c.borrow excl with
    | none => (w, .panic (borrowPanic f c.borrow excl))
    | some b' =>
      ({ w with cells := setCell k { c with borrow := b' } w.cells,
                guards := w.guards ++ [(w.nextHandle, ⟨k, excl⟩)],
                nextHandle := w.nextHandle + 1 }, .guard w.nextHandle c.token)

/-- `try_fetch::<T>()` (l.424) -/
def tryFetch (w : World) (ty : Nat) := fetchCore w ⟨ty, 0⟩ false .typed false
/-- `try_fetch_mut::<T>()` (l.480) -/
def tryFetchMut (w : World) (ty : Nat) := fetchCore w ⟨ty, 0⟩ true .typed false
/-- `fetch::<T>()` (l.406) -/
def fetch (w : World) (ty : Nat) := fetchCore w ⟨ty, 0⟩ false .typed true
/-- `fetch_mut::<T>()` (l.472) -/
def fetchMut (w : World) (ty : Nat) := fetchCore w ⟨ty, 0⟩ true .typed true
/-- `try_fetch_by_id::<T>(id)` (l.451): type assertion first -/
def tryFetchById (w : World) (tyArg : Nat) (k : ResId) : World × Out :=
  if tyArg ≠ k.ty then (w, .panic .wrongType) else fetchCore w k false .byId false
/-- `try_fetch_mut_by_id::<T>(id)` (l.506) -/
def tryFetchMutById (w : World) (tyArg : Nat) (k : ResId) : World × Out :=
  if tyArg ≠ k.ty then (w, .panic .wrongType) else fetchCore w k true .byId false

/-- dropping a guard (`AtomicBorrowRef::drop` / `AtomicBorrowRefMut::drop`) -/
def release (w : World) (h : Nat) : World :=
  match findGuard h w.guards with
  | none => w
  | some g =>
    match w.get g.key with
    | none => { w with guards := dropGuard h w.guards }
    | some c =>
      { w with guards := dropGuard h w.guards,
               cells := setCell g.key { c with borrow := releaseBorrow c.borrow g.excl } w.cells }

/-- `Fetch::clone` (l.51) = `AtomicRef::clone` = a second shared borrow of the same cell
(`try_new(..).unwrap()`). Only a live shared guard can be cloned (there is no `Clone` for
`FetchMut`, and a dead handle is not a value in Rust): anything else answers `none`. -/
def cloneGuard (w : World) (h : Nat) : World × Out :=
  match findGuard h w.guards with
  | some g => if g.excl then (w, .none) else fetchCore w g.key false .byId false
  | none => (w, .none)

/-- `MetaIter::next` / `MetaIterMut::next` (meta.rs l.75/168) from position `idx` of the type
list: skip the types whose resource is absent, borrow the first present one with the panicking
`borrow()` / `borrow_mut()`; the index is advanced *before* borrowing. Third component = new index. -/
def metaScan (w : World) (excl : Bool) : List Nat → Nat → World × Out × Nat
  | [], idx => (w, .none, idx)
  | ty :: rest, idx =>
    match w.get ⟨ty, 0⟩ with
    | none => metaScan w excl rest (idx + 1)
    | some _ =>
      let r := fetchCore w ⟨ty, 0⟩ excl .byId false
      (r.1, r.2, idx + 1)

def metaNext (w : World) (tys : List Nat) (idx : Nat) (excl : Bool) : World × Out × Nat :=
  metaScan w excl (tys.drop idx) idx

/-! ## `&mut World` operations (legal only with no live guards) -/

/-- `insert_by_id::<R>(id, r)` (l.526); `R = tyArg`, the new value `r` has that type. On the type
assertion failing `r` is dropped by the unwinding; a replaced value is dropped. -/
def insertById (w : World) (tyArg : Nat) (k : ResId) (token : Nat) : World × Out :=
  if tyArg ≠ k.ty then
    ({ w with created := w.created ++ [token], dropped := w.dropped ++ [token] }, .panic .wrongType)
  else
    ({ w with cells := setCell k ⟨tyArg, token, .free⟩ w.cells,
              created := w.created ++ [token],
              dropped := w.dropped ++ ((w.get k).map (·.token)).toList }, .unit)

/-- `insert::<R>(r)` (l.233) -/
def insert (w : World) (ty : Nat) (token : Nat) := insertById w ty ⟨ty, 0⟩ token

/-- `remove_by_id::<R>(id)` (l.543) -/
def removeById (w : World) (tyArg : Nat) (k : ResId) : World × Out :=
  if tyArg ≠ k.ty then (w, .panic .wrongType)
  else match w.get k with
    | none => (w, .none)
    | some c => ({ w with cells := eraseCell k w.cells, returned := w.returned ++ [c.token] }, .value c.token)

/-- `remove::<R>()` (l.249) -/
def remove (w : World) (ty : Nat) := removeById w ty ⟨ty, 0⟩

/-- `has_value_raw(id)` (l.265) -/
def hasValueRaw (w : World) (k : ResId) : World × Out := (w, .bool (w.get k).isSome)
/-- `has_value::<R>()` (l.257) -/
def hasValue (w : World) (ty : Nat) := hasValueRaw w ⟨ty, 0⟩

/-- `get_mut_raw(id)` (l.583) -/
def getMutRaw (w : World) (k : ResId) : World × Out :=
  (w, match w.get k with | some c => .seen c.token | none => .none)
/-- `get_mut::<T>()` (l.576) -/
def getMut (w : World) (ty : Nat) := getMutRaw w ⟨ty, 0⟩

/-- `entry::<R>().or_insert_with(f)` (entry.rs l.45): the closure runs — a value with token
`token` comes into existence — only if the slot is vacant; then `borrow_mut()` on the cell.
`byValue = true` is `or_insert(v)`: `v` exists before the call and is dropped if unused. -/
def entryOrInsert (w : World) (ty : Nat) (token : Nat) (byValue : Bool) : World × Out :=
  let k : ResId := ⟨ty, 0⟩
  match w.get k with
  | some _ =>
    fetchCore (if byValue then { w with created := w.created ++ [token], dropped := w.dropped ++ [token] } else w)
      k true .byId false
  | none =>
    fetchCore { w with cells := setCell k ⟨ty, token, .free⟩ w.cells, created := w.created ++ [token] }
      k true .byId false

/-- an `entry` call whose `FetchMut<'a, R>` (it keeps the `&'a mut World` borrow alive, so no
other call can happen while it lives) is looked at and dropped -/
def entryScoped (w : World) (ty : Nat) (token : Nat) (byValue : Bool) : World × Out :=
  match entryOrInsert w ty token byValue with
  | (w', .guard h t) => (release w' h, .seen t)
  | r => r

/-! ## composite system data (`system_data`, `setup`, `exec`) -/

/-- one leaf of a `SystemData` tuple: `Read<T, F>` / `Write<T, F>` / `Option<Read<T>>` /
`Option<Write<T>>`; `dflt` = the setup handler is `DefaultProvider` (else `PanicHandler`) -/
structure SdItem where
  ty : Nat
  write : Bool
  opt : Bool
  dflt : Bool
deriving DecidableEq, Repr

/-- `SystemData::fetch` of a tuple (system.rs `impl_data!`): the fields are fetched left to
right (`fetch` / `fetch_mut` for `Read` / `Write`, `try_fetch(_mut)` for the `Option` forms,
data.rs l.64/130/155/175); when a later field panics the earlier guards are dropped by the
unwinding. -/
def sysData (w : World) : List SdItem → World × Out
  | [] => (w, .data [])
  | it :: rest =>
    match fetchCore w ⟨it.ty, 0⟩ it.write .typed (!it.opt) with
    | (w1, .guard h t) =>
      match sysData w1 rest with
      | (w2, .data fs) => (w2, .data (some (h, t) :: fs))
      | (w2, o) => (release w2 h, o)
    | (w1, .none) =>
      match sysData w1 rest with
      | (w2, .data fs) => (w2, .data (none :: fs))
      | r => r
    | r => r

/-- `SystemData::setup` of a tuple: `DefaultProvider::setup` = `entry().or_insert_with(T::default)`
(setup.rs l.35) for `Read`/`Write` with the default handler, nothing otherwise. Each created
default takes the next token of `toks`; returns the unused tokens. -/
def setup (w : World) : List SdItem → List Nat → World × List Nat
  | [], toks => (w, toks)
  | it :: rest, toks =>
    if it.dflt && !it.opt then
      match (w.get ⟨it.ty, 0⟩), toks with
      | some _, _ => setup (entryScoped w it.ty 0 false).1 rest toks   -- occupied: the closure does not run
      | none, t :: toks' => setup (entryScoped w it.ty t false).1 rest toks'
      | none, [] => setup w rest []   -- no token supplied for the default (the harness always supplies one per item)
    else setup w rest toks

/-- dropping a whole system-data value -/
def releaseData (w : World) : List (Option (Nat × Nat)) → World
  | [] => w
  | some (h, _) :: rest => releaseData (release w h) rest
  | none :: rest => releaseData w rest

/-- `exec(f)` (l.391): `setup`, `system_data`, run `f` on it (the data is dropped inside) -/
def exec (w : World) (items : List SdItem) (toks : List Nat) : World × Out :=
  match sysData (setup w items toks).1 items with
  | (w2, .data fs) => (releaseData w2 fs, .data fs)
  | r => r

/-- dropping the world drops every stored value -/
def dropWorld (w : World) : World :=
  { w with cells := [], dropped := w.dropped ++ w.cells.map (·.2.token) }

/-! ## closures that hold guards, and unwinding through them

`catch_unwind(|| { let a = world.fetch::<A>(); let b = world.try_fetch_mut_by_id::<B>(id); …; panic!() })`:
the body takes guards one after the other — each by one of the `&self` entry points, by cloning a
guard, or by stepping an iterator over a `MetaTable` created inside the closure — and then returns or
panics; a refused fetch in the middle is a panic at that point. Either way every guard the closure
owns is dropped (locals are dropped in reverse order of their creation, on return and on unwinding
alike), i.e. released exactly as by `release`; guards that live outside the closure are not touched. -/

/-- one acquisition inside the closure -/
inductive Take
  | fetch (ty : Nat) (excl orPanic : Bool)        -- `fetch` / `fetch_mut` / `try_fetch` / `try_fetch_mut`
  | byId (tyArg : Nat) (k : ResId) (excl : Bool)  -- `try_fetch_by_id` / `try_fetch_mut_by_id`
  | data (items : List SdItem)                    -- `system_data::<(…)>()`
  | iter (excl : Bool)                            -- `next()` of the closure's own `MetaIter` / `MetaIterMut`
  | cloneLocal (i : Nat)                          -- `Fetch::clone` of the `i`-th guard the closure has taken
  | cloneOuter (h : Nat)                          -- `Fetch::clone` of a guard that lives outside the closure
deriving DecidableEq, Repr

/-- the guards an answer carries -/
def handlesOf : Out → List Nat
  | .guard h _ => [h]
  | .data fs => fs.filterMap fun f => f.map (·.1)
  | _ => []

/-- what the closure sees through them (`none` = a `try_` form / an `Option` field answered `None`) -/
def seenOf : Out → List (Option Nat)
  | .guard _ t => [some t]
  | .data fs => fs.map fun f => f.map (·.2)
  | .none => [none]
  | _ => []

/-- one acquisition: `ri` / `wi` are the positions of the closure's shared / exclusive meta
iterator, `prior` the handles of the guards it has taken so far -/
def Take.run (w : World) (tys : List Nat) (ri wi : Nat) (prior : List Nat) : Take → World × Out
  | .fetch ty excl orPanic => w.fetchCore ⟨ty, 0⟩ excl .typed orPanic
  | .byId a k excl => if excl then w.tryFetchMutById a k else w.tryFetchById a k
  | .data items => w.sysData items
  | .iter excl => let r := w.metaNext tys (if excl then wi else ri) excl; (r.1, r.2.1)
  | .cloneLocal i => match prior[i]? with
    | some h => w.cloneGuard h
    | none => (w, .none)
  | .cloneOuter h => w.cloneGuard h

/-- the iterator positions after the acquisition (`MetaIter::next` advances before it borrows) -/
def Take.advance (w : World) (tys : List Nat) (ri wi : Nat) : Take → Nat × Nat
  | .iter false => ((w.metaNext tys ri false).2.2, wi)
  | .iter true => (ri, (w.metaNext tys wi true).2.2)
  | _ => (ri, wi)

/-- dropping guards one after the other -/
def releaseAll (w : World) : List Nat → World
  | [] => w
  | h :: hs => releaseAll (w.release h) hs

/-- the body of the closure up to its end or to the first refused fetch: the world at that point,
the handles of the guards it then owns (in the order taken), what they showed, and the refusal -/
def scopeBody (tys : List Nat) : List Take → World → Nat → Nat → List Nat →
    World × List Nat × List (Option Nat) × Option WPanic
  | [], w, _, _, _ => (w, [], [], none)
  | t :: rest, w, ri, wi, prior =>
    match t.run w tys ri wi prior with
    | (w1, .panic p) => (w1, [], [], some p)
    | (w1, o) =>
      let b := scopeBody tys rest w1 (t.advance w tys ri wi).1 (t.advance w tys ri wi).2 (prior ++ handlesOf o)
      (b.1, handlesOf o ++ b.2.1, seenOf o ++ b.2.2.1, b.2.2.2)

/-- the whole closure under `catch_unwind`: body, then — on return, on its own `panic!()` and on a
refused fetch alike — the guards it owns are dropped, last taken first -/
def scope (w : World) (tys : List Nat) (takes : List Take) (endPanic : Bool) : World × Out :=
  let b := scopeBody tys takes w 0 0 []
  (releaseAll b.1 b.2.1.reverse,
   .scopeDone b.2.2.1 (match b.2.2.2 with
     | some p => .refused p
     | none => if endPanic then .panicked else .returned))

/-! ## faults inside `&mut World` calls -/

/-- `insert_by_id::<R>(id, r)` where the `Drop` of the value that is replaced panics:
`self.resources.insert(id, …)` (mod.rs l.532) has stored the new cell before the old one — the
`Option` it returns, a temporary — is dropped, so the state is the one of `insertById`; the old
value's `drop` ran (once), the call is unwound. A vacant slot or a failing type assertion drops
nothing that is armed: exactly `insertById`. -/
def insertFused (w : World) (tyArg : Nat) (k : ResId) (token : Nat) : World × Out :=
  match w.insertById tyArg k token, w.get k with
  | (w', .unit), some _ => (w', .unwound .drop)
  | r, _ => r

/-- which fault an `entry` call meets -/
inductive EntryFault
  | guardHeld (byValue : Bool)   -- the caller panics while it holds the returned `FetchMut`
  | valueDrop                    -- `or_insert(v)`: the `Drop` of `v` panics (it is dropped iff the slot is occupied)
  | closure                      -- `or_insert_with(f)`: `f` panics (it runs iff the slot is vacant)
deriving DecidableEq, Repr

/-- `entry::<R>()…` with a fault (entry.rs l.40/45, `hash_map::Entry::or_insert_with`):
* `guardHeld`: the call itself is `entryOrInsert`; unwinding drops the guard;
* `valueDrop`: occupied — std's `or_insert_with` returns the slot and drops the unused closure
  (which owns `v`) on its way out, before shred's `borrow_mut()`: no guard, nothing stored, `v`
  dropped; vacant — `v` is stored, nothing is dropped: the plain call;
* `closure`: vacant — `default()` panics before `VacantEntry::insert`: nothing happens at all;
  occupied — `f` is not called: the plain call. -/
def entryFault (w : World) (ty : Nat) (token : Nat) : EntryFault → World × Out
  | .guardHeld byValue =>
    match w.entryOrInsert ty token byValue with
    | (w', .guard h _) => (release w' h, .unwound .closure)
    | r => r
  | .valueDrop =>
    match w.get ⟨ty, 0⟩ with
    | some _ => ({ w with created := w.created ++ [token], dropped := w.dropped ++ [token] }, .unwound .drop)
    | none => w.entryScoped ty token true
  | .closure =>
    match w.get ⟨ty, 0⟩ with
    | some _ => w.entryScoped ty token false
    | none => (w, .unwound .closure)

/-- `exec(f)` where `f` panics while it holds the system data: `setup` and the fetch as in `exec`;
unwinding drops the data -/
def execFault (w : World) (items : List SdItem) (toks : List Nat) : World × Out :=
  match sysData (setup w items toks).1 items with
  | (w2, .data fs) => (releaseData w2 fs, .unwound .closure)
  | r => r

/-! ## what the caller does with a value `remove` handed back, and the end of the world -/

/-- the caller drops a value it got from `remove` (its `Drop` may panic: it still ran) -/
def dropReturned (w : World) (token : Nat) : World :=
  if token ∈ w.returned then { w with returned := w.returned.erase token, dropped := w.dropped ++ [token] } else w

/-- dropping the world when the `Drop` of the stored value `token` panics: the table drops its
elements in its own iteration order; `hashbrown::RawTable::drop` stops at the panic and leaks the
elements it had not reached — never dropped, not dropped twice either. Which other values were
dropped (`before`: in hashbrown's case the ones it reached before `token`) is the table's private
business, so it is an input. `none` if `before` is not a duplicate-free selection of the other stored
values. Second component: the leaked values. -/
def dropWorldPanic (w : World) (token : Nat) (before : List Nat) : Option (World × List Nat) :=
  let stored := w.cells.map (·.2.token)
  if token ∈ stored ∧ token ∉ before ∧ before.Nodup ∧ (∀ t ∈ before, t ∈ stored) then
    some ({ w with cells := [], dropped := w.dropped ++ before ++ [token] },
          stored.filter fun t => t ≠ token ∧ t ∉ before)
  else none

/-! ## histories -/

inductive Op
  | insert (ty tok : Nat)
  | insertById (tyArg : Nat) (k : ResId) (tok : Nat)
  | remove (ty : Nat)
  | removeById (tyArg : Nat) (k : ResId)
  | entry (ty tok : Nat) (byValue : Bool)
  | hasValue (ty : Nat)
  | hasValueRaw (k : ResId)
  | getMut (ty : Nat)
  | getMutRaw (k : ResId)
  | setup (items : List SdItem) (toks : List Nat)
  | exec (items : List SdItem) (toks : List Nat)
  | fetch (ty : Nat)
  | fetchMut (ty : Nat)
  | tryFetch (ty : Nat)
  | tryFetchMut (ty : Nat)
  | tryFetchById (tyArg : Nat) (k : ResId)
  | tryFetchMutById (tyArg : Nat) (k : ResId)
  | systemData (items : List SdItem)
  | metaNext (tys : List Nat) (idx : Nat) (excl : Bool)
  | clone (h : Nat)
  | drop (h : Nat)
  | scope (tys : List Nat) (takes : List Take) (endPanic : Bool)
  | insertFused (tyArg : Nat) (k : ResId) (tok : Nat)
  | entryFault (ty tok : Nat) (f : EntryFault)
  | execFault (items : List SdItem) (toks : List Nat)
deriving DecidableEq, Repr

/-- takes `&mut self` -/
def Op.isMut : Op → Bool
  | .insert .. | .insertById .. | .remove .. | .removeById .. | .entry .. | .getMut .. | .getMutRaw ..
  | .setup .. | .exec .. | .insertFused .. | .entryFault .. | .execFault .. => true
  | _ => false

/-- the tokens an operation may turn into values -/
def Op.tokens : Op → List Nat
  | .insert _ t | .insertById _ _ t | .entry _ t _ | .insertFused _ _ t => [t]
  | .entryFault _ t (.guardHeld _) | .entryFault _ t .valueDrop => [t]
  | .setup _ ts | .exec _ ts | .execFault _ ts => ts
  | _ => []

def step (w : World) : Op → World × Out
  | .insert ty tok => w.insert ty tok
  | .insertById a k tok => w.insertById a k tok
  | .remove ty => w.remove ty
  | .removeById a k => w.removeById a k
  | .entry ty tok bv => w.entryScoped ty tok bv
  | .hasValue ty => w.hasValue ty
  | .hasValueRaw k => w.hasValueRaw k
  | .getMut ty => w.getMut ty
  | .getMutRaw k => w.getMutRaw k
  | .setup items toks => ((w.setup items toks).1, .unit)
  | .exec items toks => w.exec items toks
  | .fetch ty => w.fetch ty
  | .fetchMut ty => w.fetchMut ty
  | .tryFetch ty => w.tryFetch ty
  | .tryFetchMut ty => w.tryFetchMut ty
  | .tryFetchById a k => w.tryFetchById a k
  | .tryFetchMutById a k => w.tryFetchMutById a k
  | .systemData items => w.sysData items
  | .metaNext tys idx x => let r := w.metaNext tys idx x; (r.1, r.2.1)
  | .clone h => w.cloneGuard h
  | .drop h => (w.release h, .unit)
  | .scope tys takes e => w.scope tys takes e
  | .insertFused a k tok => w.insertFused a k tok
  | .entryFault ty tok f => w.entryFault ty tok f
  | .execFault items toks => w.execFault items toks

/-- the existing operation a `Take` is -/
def Take.toOp (tys : List Nat) (ri wi : Nat) (prior : List Nat) : Take → Op
  | .fetch ty false true => .fetch ty
  | .fetch ty true true => .fetchMut ty
  | .fetch ty false false => .tryFetch ty
  | .fetch ty true false => .tryFetchMut ty
  | .byId a k false => .tryFetchById a k
  | .byId a k true => .tryFetchMutById a k
  | .data items => .systemData items
  | .iter excl => .metaNext tys (if excl then wi else ri) excl
  | .cloneLocal i => match prior[i]? with
    | some h => .clone h
    | none => .hasValueRaw ⟨0, 0⟩      -- never generated: a closure cannot name a guard it has not taken
  | .cloneOuter h => .clone h

/-- the world after a history -/
def run (w : World) : List Op → World
  | [] => w
  | op :: ops => run (w.step op).1 ops

/-- a history Rust's borrow checker admits: every `&mut self` call happens with no live guard -/
def Legal (w : World) : List Op → Prop
  | [] => True
  | op :: ops => (op.isMut = true → w.guards = []) ∧ Legal (w.step op).1 ops

end World
end Shred
