import ShredModel.Model.Access
/-!
# `World` — mirror of `src/world/mod.rs`, `entry.rs`, `setup.rs`, the borrowing part of
`src/world/data.rs` / `src/meta.rs` (iterators) and of the part of `atomic_refcell` that shred uses

A world is an association list `ResourceId ↦ Cell`. A cell carries the *type tag of the boxed
value* (what `Any::type_id` would answer), a token identifying the value (for drop accounting),
and the borrow counter of its `AtomicRefCell` (`0` = `free`, `n` = `shared n`, high bit = `excl`).
Guards are handles into a table; a handle records the cell it borrows and whether exclusively.
`&mut World` operations are only legal with an empty guard table (Rust's borrow checker
guarantees that); this is a hypothesis of the theorems, not built into the functions.

Three ghost lists do the drop accounting of C09: `created` (every value that ever came into
existence through a call: arguments passed by value, results of the `or_insert_with` closure /
`Default::default`), `returned` (values handed back to the caller by `remove`), `dropped`
(values whose destructor ran inside a call).

Each function treats one cell operation (`try_borrow`, `borrow_mut`, the guard's `drop`) as one
atomic step; the atomics of `atomic_refcell` are not modelled (see notes/C08.md).
Core Lean only: this file is linked into the driver executable.
-/
namespace Shred

/-- `AtomicRefCell.borrow`: `0`, `n` (n shared borrows), `HIGH_BIT` (+ benign failed-borrow
increments, which `AtomicBorrowRefMut::drop` wipes with `store(0)`) -/
inductive Borrow | free | shared (n : Nat) | excl
deriving DecidableEq, Repr

structure Cell where
  ty : Nat            -- concrete type of the boxed value
  token : Nat         -- identity of the value
  borrow : Borrow := .free
deriving DecidableEq, Repr

structure Guard where
  key : ResId
  excl : Bool
deriving DecidableEq, Repr

/-- panic payloads, classified by message text -/
inductive WPanic
  | wrongType                  -- "Passed a `ResourceId` with a wrong type ID" (assert_same_type_id, mod.rs l.161)
  | absent                     -- fetch_panic!() (setup.rs l.3)
  | alreadyBorrowed            -- "<T>: already borrowed"  (`try_fetch_mut`: Display of `BorrowMutError`)
  | alreadyMutablyBorrowed     -- "already mutably borrowed" (`try_fetch`; `borrow()`; `borrow_mut()` on an exclusive cell)
  | alreadyImmutablyBorrowed   -- "already immutably borrowed" (`borrow_mut()` on a shared cell)
deriving DecidableEq, Repr

/-- which flavour of cell access a fetch uses: `try_borrow(_mut)` + shred's own `panic!` (typed
forms, mod.rs l.431/487) or the panicking `borrow()` / `borrow_mut()` of the cell (by-id forms
l.457/512, `Entry::or_insert_with`, meta iterators) -/
inductive Form | typed | byId
deriving DecidableEq, Repr

structure World where
  cells : List (ResId × Cell) := []
  guards : List (Nat × Guard) := []      -- live guards by handle
  nextHandle : Nat := 0
  created : List Nat := []               -- tokens of values that came into existence
  returned : List Nat := []              -- tokens handed back to the caller (`remove`)
  dropped : List Nat := []               -- tokens of values dropped so far
deriving Repr

/-! ## the resource table (a `HashMap`: only lookups, replacement and removal are used) -/

def lookupCell (k : ResId) : List (ResId × Cell) → Option Cell
  | [] => none
  | p :: rest => if p.1 = k then some p.2 else lookupCell k rest

/-- `HashMap::insert`: replace the entry of `k`, or add one -/
def setCell (k : ResId) (c : Cell) : List (ResId × Cell) → List (ResId × Cell)
  | [] => [(k, c)]
  | p :: rest => if p.1 = k then (k, c) :: rest else p :: setCell k c rest

/-- `HashMap::remove` -/
def eraseCell (k : ResId) : List (ResId × Cell) → List (ResId × Cell)
  | [] => []
  | p :: rest => if p.1 = k then eraseCell k rest else p :: eraseCell k rest

/-! ## the guard table -/

def findGuard (h : Nat) : List (Nat × Guard) → Option Guard
  | [] => none
  | p :: rest => if p.1 = h then some p.2 else findGuard h rest

def dropGuard (h : Nat) : List (Nat × Guard) → List (Nat × Guard)
  | [] => []
  | p :: rest => if p.1 = h then rest else p :: dropGuard h rest

/-- result of one operation -/
inductive Out
  | unit
  | bool (b : Bool)
  | guard (h : Nat) (token : Nat)     -- a guard with handle `h`; dereferencing it shows `token`
  | none
  | value (token : Nat)               -- `remove` returned the stored value
  | seen (token : Nat)                -- `get_mut` / a scoped `entry` guard showed this value
  | data (fields : List (Option (Nat × Nat)))   -- composite system data: (handle, token) per field, `none` = `Option` field is `None`
  | panic (p : WPanic)
deriving DecidableEq, Repr

/-- `AtomicBorrowRef::try_new` (fetch_add 1, fails if the high bit is set) /
`AtomicBorrowRefMut::try_new` (compare_exchange 0 → HIGH_BIT) -/
def tryBorrow (b : Borrow) (excl : Bool) : Option Borrow :=
  match b, excl with
  | .free, false => some (.shared 1)
  | .shared n, false => some (.shared (n + 1))
  | .free, true => some .excl
  | _, _ => none

/-- the text of the panic when the borrow fails -/
def borrowPanic (f : Form) (b : Borrow) (excl : Bool) : WPanic :=
  match f, excl, b with
  | .typed, true, _ => .alreadyBorrowed                 -- Display of BorrowMutError
  | .byId, true, .shared _ => .alreadyImmutablyBorrowed  -- borrow_mut(): old & HIGH_BIT == 0
  | _, _, _ => .alreadyMutablyBorrowed

/-- `AtomicBorrowRef::drop` (fetch_sub 1) / `AtomicBorrowRefMut::drop` (store 0) -/
def releaseBorrow (b : Borrow) (excl : Bool) : Borrow :=
  match excl, b with
  | true, _ => .free
  | false, .shared (n + 2) => .shared (n + 1)
  | false, .shared _ => .free
  | false, b => b

namespace World

def get (w : World) (k : ResId) : Option Cell := lookupCell k w.cells

/-- the common core of all fetches: look the cell up, borrow it, wrap the borrow in a guard.
`orPanic` distinguishes `fetch` (`unwrap_or_else(fetch_panic!)`) from `try_fetch`. -/
def fetchCore (w : World) (k : ResId) (excl : Bool) (f : Form) (orPanic : Bool) : World × Out :=
  match w.get k with
  | none => (w, if orPanic then .panic .absent else .none)
  | some c =>
    match tryBorrow c.borrow excl with
    | none => (w, .panic (borrowPanic f c.borrow excl))
    | some b' =>
      ({ w with cells := setCell k { c with borrow := b' } w.cells,
                guards := w.guards ++ [(w.nextHandle, ⟨k, excl⟩)],
                nextHandle := w.nextHandle + 1 }, .guard w.nextHandle c.token)

/-- `try_fetch::<T>()` (l.424) -/
def tryFetch (w : World) (ty : Nat) := fetchCore w ⟨ty, 0⟩ false .typed false
/-- `try_fetch_mut::<T>()` (l.480) -/
def tryFetchMut (w : World) (ty : Nat) := fetchCore w ⟨ty, 0⟩ true .typed false
/-- `fetch::<T>()` (l.406) -/
def fetch (w : World) (ty : Nat) := fetchCore w ⟨ty, 0⟩ false .typed true
/-- `fetch_mut::<T>()` (l.472) -/
def fetchMut (w : World) (ty : Nat) := fetchCore w ⟨ty, 0⟩ true .typed true
/-- `try_fetch_by_id::<T>(id)` (l.451): type assertion first -/
def tryFetchById (w : World) (tyArg : Nat) (k : ResId) : World × Out :=
  if tyArg ≠ k.ty then (w, .panic .wrongType) else fetchCore w k false .byId false
/-- `try_fetch_mut_by_id::<T>(id)` (l.506) -/
def tryFetchMutById (w : World) (tyArg : Nat) (k : ResId) : World × Out :=
  if tyArg ≠ k.ty then (w, .panic .wrongType) else fetchCore w k true .byId false

/-- dropping a guard (`AtomicBorrowRef::drop` / `AtomicBorrowRefMut::drop`) -/
def release (w : World) (h : Nat) : World :=
  match findGuard h w.guards with
  | none => w
  | some g =>
    match w.get g.key with
    | none => { w with guards := dropGuard h w.guards }
    | some c =>
      { w with guards := dropGuard h w.guards,
               cells := setCell g.key { c with borrow := releaseBorrow c.borrow g.excl } w.cells }

/-- `Fetch::clone` (l.51) = `AtomicRef::clone` = a second shared borrow of the same cell
(`try_new(..).unwrap()`). Only a live shared guard can be cloned (there is no `Clone` for
`FetchMut`, and a dead handle is not a value in Rust): anything else answers `none`. -/
def cloneGuard (w : World) (h : Nat) : World × Out :=
  match findGuard h w.guards with
  | some g => if g.excl then (w, .none) else fetchCore w g.key false .byId false
  | none => (w, .none)

/-- `MetaIter::next` / `MetaIterMut::next` (meta.rs l.75/168) from position `idx` of the type
list: skip the types whose resource is absent, borrow the first present one with the panicking
`borrow()` / `borrow_mut()`; the index is advanced *before* borrowing. Third component = new index. -/
def metaScan (w : World) (excl : Bool) : List Nat → Nat → World × Out × Nat
  | [], idx => (w, .none, idx)
  | ty :: rest, idx =>
    match w.get ⟨ty, 0⟩ with
    | none => metaScan w excl rest (idx + 1)
    | some _ =>
      let r := fetchCore w ⟨ty, 0⟩ excl .byId false
      (r.1, r.2, idx + 1)

def metaNext (w : World) (tys : List Nat) (idx : Nat) (excl : Bool) : World × Out × Nat :=
  metaScan w excl (tys.drop idx) idx

/-! ## `&mut World` operations (legal only with no live guards) -/

/-- `insert_by_id::<R>(id, r)` (l.526); `R = tyArg`, the new value `r` has that type. On the type
assertion failing `r` is dropped by the unwinding; a replaced value is dropped. -/
def insertById (w : World) (tyArg : Nat) (k : ResId) (token : Nat) : World × Out :=
  if tyArg ≠ k.ty then
    ({ w with created := w.created ++ [token], dropped := w.dropped ++ [token] }, .panic .wrongType)
  else
    ({ w with cells := setCell k ⟨tyArg, token, .free⟩ w.cells,
              created := w.created ++ [token],
              dropped := w.dropped ++ ((w.get k).map (·.token)).toList }, .unit)

/-- `insert::<R>(r)` (l.233) -/
def insert (w : World) (ty : Nat) (token : Nat) := insertById w ty ⟨ty, 0⟩ token

/-- `remove_by_id::<R>(id)` (l.543) -/
def removeById (w : World) (tyArg : Nat) (k : ResId) : World × Out :=
  if tyArg ≠ k.ty then (w, .panic .wrongType)
  else match w.get k with
    | none => (w, .none)
    | some c => ({ w with cells := eraseCell k w.cells, returned := w.returned ++ [c.token] }, .value c.token)

/-- `remove::<R>()` (l.249) -/
def remove (w : World) (ty : Nat) := removeById w ty ⟨ty, 0⟩

/-- `has_value_raw(id)` (l.265) -/
def hasValueRaw (w : World) (k : ResId) : World × Out := (w, .bool (w.get k).isSome)
/-- `has_value::<R>()` (l.257) -/
def hasValue (w : World) (ty : Nat) := hasValueRaw w ⟨ty, 0⟩

/-- `get_mut_raw(id)` (l.583) -/
def getMutRaw (w : World) (k : ResId) : World × Out :=
  (w, match w.get k with | some c => .seen c.token | none => .none)
/-- `get_mut::<T>()` (l.576) -/
def getMut (w : World) (ty : Nat) := getMutRaw w ⟨ty, 0⟩

/-- `entry::<R>().or_insert_with(f)` (entry.rs l.45): the closure runs — a value with token
`token` comes into existence — only if the slot is vacant; then `borrow_mut()` on the cell.
`byValue = true` is `or_insert(v)`: `v` exists before the call and is dropped if unused. -/
def entryOrInsert (w : World) (ty : Nat) (token : Nat) (byValue : Bool) : World × Out :=
  let k : ResId := ⟨ty, 0⟩
  match w.get k with
  | some _ =>
    fetchCore (if byValue then { w with created := w.created ++ [token], dropped := w.dropped ++ [token] } else w)
      k true .byId false
  | none =>
    fetchCore { w with cells := setCell k ⟨ty, token, .free⟩ w.cells, created := w.created ++ [token] }
      k true .byId false

/-- an `entry` call whose `FetchMut<'a, R>` (it keeps the `&'a mut World` borrow alive, so no
other call can happen while it lives) is looked at and dropped -/
def entryScoped (w : World) (ty : Nat) (token : Nat) (byValue : Bool) : World × Out :=
  match entryOrInsert w ty token byValue with
  | (w', .guard h t) => (release w' h, .seen t)
  | r => r

/-! ## composite system data (`system_data`, `setup`, `exec`) -/

/-- one leaf of a `SystemData` tuple: `Read<T, F>` / `Write<T, F>` / `Option<Read<T>>` /
`Option<Write<T>>`; `dflt` = the setup handler is `DefaultProvider` (else `PanicHandler`) -/
structure SdItem where
  ty : Nat
  write : Bool
  opt : Bool
  dflt : Bool
deriving DecidableEq, Repr

/-- `SystemData::fetch` of a tuple (system.rs `impl_data!`): the fields are fetched left to
right (`fetch` / `fetch_mut` for `Read` / `Write`, `try_fetch(_mut)` for the `Option` forms,
data.rs l.64/130/155/175); when a later field panics the earlier guards are dropped by the
unwinding. -/
def sysData (w : World) : List SdItem → World × Out
  | [] => (w, .data [])
  | it :: rest =>
    match fetchCore w ⟨it.ty, 0⟩ it.write .typed (!it.opt) with
    | (w1, .guard h t) =>
      match sysData w1 rest with
      | (w2, .data fs) => (w2, .data (some (h, t) :: fs))
      | (w2, o) => (release w2 h, o)
    | (w1, .none) =>
      match sysData w1 rest with
      | (w2, .data fs) => (w2, .data (none :: fs))
      | r => r
    | r => r

/-- `SystemData::setup` of a tuple: `DefaultProvider::setup` = `entry().or_insert_with(T::default)`
(setup.rs l.35) for `Read`/`Write` with the default handler, nothing otherwise. Each created
default takes the next token of `toks`; returns the unused tokens. -/
def setup (w : World) : List SdItem → List Nat → World × List Nat
  | [], toks => (w, toks)
  | it :: rest, toks =>
    if it.dflt && !it.opt then
      match (w.get ⟨it.ty, 0⟩), toks with
      | some _, _ => setup (entryScoped w it.ty 0 false).1 rest toks   -- occupied: the closure does not run
      | none, t :: toks' => setup (entryScoped w it.ty t false).1 rest toks'
      | none, [] => setup w rest []   -- no token supplied for the default (the harness always supplies one per item)
    else setup w rest toks

/-- dropping a whole system-data value -/
def releaseData (w : World) : List (Option (Nat × Nat)) → World
  | [] => w
  | some (h, _) :: rest => releaseData (release w h) rest
  | none :: rest => releaseData w rest

/-- `exec(f)` (l.391): `setup`, `system_data`, run `f` on it (the data is dropped inside) -/
def exec (w : World) (items : List SdItem) (toks : List Nat) : World × Out :=
  match sysData (setup w items toks).1 items with
  | (w2, .data fs) => (releaseData w2 fs, .data fs)
  | r => r

/-- dropping the world drops every stored value -/
def dropWorld (w : World) : World :=
  { w with cells := [], dropped := w.dropped ++ w.cells.map (·.2.token) }

/-! ## histories -/

inductive Op
  | insert (ty tok : Nat)
  | insertById (tyArg : Nat) (k : ResId) (tok : Nat)
  | remove (ty : Nat)
  | removeById (tyArg : Nat) (k : ResId)
  | entry (ty tok : Nat) (byValue : Bool)
  | hasValue (ty : Nat)
  | hasValueRaw (k : ResId)
  | getMut (ty : Nat)
  | getMutRaw (k : ResId)
  | setup (items : List SdItem) (toks : List Nat)
  | exec (items : List SdItem) (toks : List Nat)
  | fetch (ty : Nat)
  | fetchMut (ty : Nat)
  | tryFetch (ty : Nat)
  | tryFetchMut (ty : Nat)
  | tryFetchById (tyArg : Nat) (k : ResId)
  | tryFetchMutById (tyArg : Nat) (k : ResId)
  | systemData (items : List SdItem)
  | metaNext (tys : List Nat) (idx : Nat) (excl : Bool)
  | clone (h : Nat)
  | drop (h : Nat)
deriving DecidableEq, Repr

/-- takes `&mut self` -/
def Op.isMut : Op → Bool
  | .insert .. | .insertById .. | .remove .. | .removeById .. | .entry .. | .getMut .. | .getMutRaw ..
  | .setup .. | .exec .. => true
  | _ => false

/-- the tokens an operation may turn into values -/
def Op.tokens : Op → List Nat
  | .insert _ t | .insertById _ _ t | .entry _ t _ => [t]
  | .setup _ ts | .exec _ ts => ts
  | _ => []

def step (w : World) : Op → World × Out
  | .insert ty tok => w.insert ty tok
  | .insertById a k tok => w.insertById a k tok
  | .remove ty => w.remove ty
  | .removeById a k => w.removeById a k
  | .entry ty tok bv => w.entryScoped ty tok bv
  | .hasValue ty => w.hasValue ty
  | .hasValueRaw k => w.hasValueRaw k
  | .getMut ty => w.getMut ty
  | .getMutRaw k => w.getMutRaw k
  | .setup items toks => ((w.setup items toks).1, .unit)
  | .exec items toks => w.exec items toks
  | .fetch ty => w.fetch ty
  | .fetchMut ty => w.fetchMut ty
  | .tryFetch ty => w.tryFetch ty
  | .tryFetchMut ty => w.tryFetchMut ty
  | .tryFetchById a k => w.tryFetchById a k
  | .tryFetchMutById a k => w.tryFetchMutById a k
  | .systemData items => w.sysData items
  | .metaNext tys idx x => let r := w.metaNext tys idx x; (r.1, r.2.1)
  | .clone h => w.cloneGuard h
  | .drop h => (w.release h, .unit)

/-- the world after a history -/
def run (w : World) : List Op → World
  | [] => w
  | op :: ops => run (w.step op).1 ops

/-- a history Rust's borrow checker admits: every `&mut self` call happens with no live guard -/
def Legal (w : World) : List Op → Prop
  | [] => True
  | op :: ops => (op.isMut = true → w.guards = []) ∧ Legal (w.step op).1 ops

end World
end Shred
