import ShredModel.Model.Access
/-!
# `World` — mirror of `src/world/mod.rs`, `entry.rs`, `setup.rs` and of the part of
`atomic_refcell` that shred uses

A world is an association list `ResourceId ↦ Cell`. A cell carries the *type tag of the
boxed value* (what `Any::type_id` would answer), a token identifying the value (for drop
accounting), and the borrow counter of its `AtomicRefCell`. Guards are handles into a
table; a handle records the cell it borrows and whether exclusively. `&mut World`
operations require an empty guard table (Rust's borrow checker guarantees that).
-/
namespace Shred

inductive Borrow | free | shared (n : Nat) | excl
deriving DecidableEq, Repr

structure Cell where
  ty : Nat            -- concrete type of the boxed value
  token : Nat         -- identity of the value
  borrow : Borrow := .free
deriving DecidableEq, Repr

structure Guard where
  key : ResId
  excl : Bool
deriving DecidableEq, Repr

inductive WPanic
  | wrongType         -- "Passed a `ResourceId` with a wrong type ID"
  | borrowed          -- "already borrowed" / "already mutably borrowed"
  | absent            -- fetch_panic!()
deriving DecidableEq, Repr

structure World where
  cells : List (ResId × Cell) := []
  guards : List (Nat × Guard) := []      -- live guards by handle
  nextHandle : Nat := 0
  dropped : List Nat := []               -- tokens of values dropped so far
deriving Repr

namespace World

def get (w : World) (k : ResId) : Option Cell := (w.cells.find? fun p => p.1 == k).map (·.2)

def setCell (cells : List (ResId × Cell)) (k : ResId) (c : Cell) : List (ResId × Cell) :=
  if cells.any (fun p => p.1 == k) then cells.map fun p => if p.1 == k then (k, c) else p
  else cells ++ [(k, c)]

def eraseCell (cells : List (ResId × Cell)) (k : ResId) : List (ResId × Cell) :=
  cells.filter fun p => !(p.1 == k)

/-- result of one operation -/
inductive Out
  | unit
  | bool (b : Bool)
  | guard (h : Nat)
  | none
  | value (token : Nat)          -- `remove` returned the stored value
  | panic (p : WPanic)
deriving DecidableEq, Repr

/-- `try_borrow` / `try_borrow_mut` on the cell -/
def tryBorrow (b : Borrow) (excl : Bool) : Option Borrow :=
  match b, excl with
  | .free, false => some (.shared 1)
  | .shared n, false => some (.shared (n + 1))
  | .free, true => some .excl
  | _, _ => none

/-- the common core of all fetches: `tyArg` is `Some T` for the `_by_id` forms (type assertion
first), `orPanic` distinguishes `fetch` from `try_fetch` when the resource is absent -/
def acquire (w : World) (tyArg : Option Nat) (k : ResId) (excl orPanic : Bool) : World × Out :=
  match tyArg with
  | some t => if t ≠ k.ty then (w, .panic .wrongType) else go
  | none => go
where
  go : World × Out :=
    match w.get k with
    | none => (w, if orPanic then .panic .absent else .none)
    | some c =>
      match tryBorrow c.borrow excl with
      | none => (w, .panic .borrowed)
      | some b' =>
        let h := w.nextHandle
        ({ w with cells := setCell w.cells k { c with borrow := b' },
                  guards := w.guards ++ [(h, ⟨k, excl⟩)], nextHandle := h + 1 }, .guard h)

/-- dropping a guard (`AtomicBorrowRef::drop` / `AtomicBorrowRefMut::drop`) -/
def release (w : World) (h : Nat) : World :=
  match w.guards.find? fun p => p.1 == h with
  | none => w
  | some (_, g) =>
    let guards := w.guards.filter fun p => !(p.1 == h)
    match w.get g.key with
    | none => { w with guards := guards }
    | some c =>
      let b' := match c.borrow with
        | .shared (n + 2) => Borrow.shared (n + 1)
        | _ => Borrow.free
      { w with guards := guards, cells := setCell w.cells g.key { c with borrow := b' } }

/-- `Fetch::clone` -/
def cloneGuard (w : World) (h : Nat) : World × Out :=
  match w.guards.find? fun p => p.1 == h with
  | some (_, g) => if g.excl then (w, .none) else acquire w none g.key false true
  | none => (w, .none)

/-! `&mut World` operations (no live guards) -/

/-- `insert_by_id::<R>(id, r)`; `R = tyArg`, the new value has that type -/
def insertById (w : World) (tyArg : Nat) (k : ResId) (token : Nat) : World × Out :=
  if tyArg ≠ k.ty then ({ w with dropped := w.dropped ++ [token] }, .panic .wrongType)
  else
    let old := (w.get k).map (·.token)
    ({ w with cells := setCell w.cells k ⟨tyArg, token, .free⟩,
              dropped := w.dropped ++ old.toList }, .unit)

/-- `remove_by_id::<R>(id)` -/
def removeById (w : World) (tyArg : Nat) (k : ResId) : World × Out :=
  if tyArg ≠ k.ty then (w, .panic .wrongType)
  else match w.get k with
    | none => (w, .none)
    | some c => ({ w with cells := eraseCell w.cells k }, .value c.token)

def hasValue (w : World) (k : ResId) : Bool := (w.get k).isSome

/-- `entry::<R>().or_insert_with(f)`: inserts only into a vacant slot -/
def entryOrInsert (w : World) (ty : Nat) (token : Nat) : World × Out :=
  let k : ResId := ⟨ty, 0⟩
  match w.get k with
  | some _ => ({ w with dropped := w.dropped ++ [token] }, .unit)   -- `or_insert(v)`: `v` dropped unused
  | none => ({ w with cells := setCell w.cells k ⟨ty, token, .free⟩ }, .unit)

end World
end Shred
