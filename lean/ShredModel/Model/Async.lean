import ShredModel.Model.Task
/-!
# The asynchronous dispatcher (`src/dispatch/async_dispatcher.rs`)

The dispatcher owns `Data = Inner{world, stages} | Rx(receiver)` (l.140-143). `dispatch`
(l.63-80) takes the `Inner` out (`sender()`, l.183-196: `self.inner()` = blocking receive if
`Rx`, then a fresh channel is swapped in) and hands it to a job spawned on the pool; the job
runs `stage.execute(world)` for every stage in order and finally `snd.send(inner)`. Every
accessor starts with `self.data.inner()` (l.146-153: returns at once if `Inner`, otherwise
`rx.recv()` — blocks until the job has sent); `running()` is `inner_noblock().is_none()`
(l.155-181: `try_recv`, switching to `Inner` when the message is there).

The model is a labelled transition system. The *control state* `Ctl` is `Data`, the state of
the background job (`idle | running residual | sent`: the job executes the task of the stages
event by event — the residual-task derivative of `Model/Task.lean`, so that every timing of
the background systems is a sequence of `jobEv` steps — and then performs the silent `send`
step, enabled once the residual is nullable; the one-slot mailbox of the channel is full
exactly in job state `sent`), the program counter of the calling thread, and the number of
dispatches so far. `step` is the (partial, deterministic per label) transition function;
a *blocking* operation is an `acquire` step that is enabled only when `Data` is `inner`
already or the job has sent. `Run` is the set of reachable (control state, log) pairs: all
interleavings of caller steps and job steps. Visible events (`AEv`): `call op`, `ret op v`
on the caller, F/D events of ordinary systems (`sys`, tagged with thread and dispatch
number) and of thread-local systems (`tl`), and `quiet`: the environment, between two
operations and without calling the dispatcher, has seen the systems' own completion signal
(label `observe`; it leaves the control state alone — a job that finishes unobserved keeps
its message in the mailbox, and whichever operation comes next, blocking or not, finds it).

**Panics.** (a) A system that panics inside the job (on a pool with a `panic_handler`; without
one rayon's `spawn` aborts the process): the panic unwinds `stage.execute` — rayon's `for_each`
first lets the groups that have started come to their end —, leaves the stage loop and drops
the closure's captures, `snd` among them, without `send`. The job is then `failed … gone`; `Data`
stays `Rx` for ever, and every method that looks at the channel — all nine: `inner()` in
`dispatch` (via `sender()`), `wait`, `wait_without_tl`, `world`, `res`, `world_mut`, `mut_res`,
`setup`, and `inner_noblock()` in `running` — panics with "Sender dropped" (l.149, l.170): label
`raise`, event `unwound op`. While the job is still unwinding `try_recv` is `Empty`
(`running()` = true) and `recv` blocks. (b) A thread-local system that panics inside `wait`
(l.87-89) unwinds through `wait`: the remaining thread-local systems of that `wait` do not run;
`Data` is `Inner` and the list `self.thread_local` is untouched, so the dispatcher stays usable
and the next `wait` runs all of them again. (c) `setup` (l.41-56): `inner()` (joins the running
dispatch), then the setup hook of every system of every stage in stage / group order, then of
every thread-local system (events `hook`).

**The calling context.** The model has no parameter for *which* thread drives the dispatcher, and
needs none. `Th.caller` is whichever thread calls the methods — the `AsyncDispatcher` is not
`Send` (it owns the thread-local systems), so one thread builds it and issues every call — and
that thread may be (i) an ordinary thread, (ii) a worker of the dispatcher's own pool (the
dispatcher is driven inside `pool.install(..)` or from a job of a pool shared through
`with_pool`), or (iii) a worker of some other pool. The code is the same in all three: the only
thing `dispatch` does with the pool is `ThreadPool::spawn` (l.66-79), which queues the closure —
in context (ii) on the calling worker's own deque, otherwise in the pool's injector — and
returns; `inner()` / `inner_noblock()` are `std::sync::mpsc` `recv` / `try_recv` (l.146-181),
about which rayon knows nothing: a blocking call parks the calling thread in `recv` whether or not
it is a pool worker, and it never executes pool jobs while it waits. Hence, in every context,
(a) the job's systems run on a pool thread *other than* the calling thread (`jobEv` emits
`sys .worker`; `Th.worker` = "a pool thread that is not the caller"), (b) a blocking call returns
only through the message of the job's `send` (`acquire` needs `available`), however idle the
pool's queues look from the calling thread, and (c) thread-local systems and setup hooks run on
the calling thread, whichever that is (`tlEv`, `hookEv` emit `.caller`). The test harness tags
the thread that drives the dispatcher `c` in every context and every other pool thread `w`.
What does depend on the context is a *fairness* assumption, not a state of the model: `Run`
contains every interleaving but says nothing about which enabled step is eventually taken; the
job's steps are taken by the pool's other workers, so in context (ii) the pool needs at least two
threads — with exactly one, the only thread that could run the queued closure is the one parked
in `recv`, and no `jobEv` is ever scheduled although it is enabled (`blocked_only_while_running`
is about enabledness; the harness does not generate that configuration).

**Long plans.** `APlan.job` is an arbitrary task; the job's closure is one loop over all stages
(l.74-76), modelled by the derivative of the whole `stagesTask`, so the number of stages is not
a parameter either: a plan of twenty stages is a `seqN` of twenty stage tasks.

Not modelled: `Option::unwrap` of the pool (always `Some` after `build_async`, builder.rs
l.437-440); what a setup hook does to the world (C13 / C06).

Core Lean only (linked into the driver).
-/
namespace Shred
namespace Async

/-- the public operations of `AsyncDispatcher` (l.41-137). `res` (l.111-113, `self.world()`) and
`mut_res` (l.128-130, `&mut self.data.inner().world`) are the deprecated aliases of `world` /
`world_mut`: like every accessor they are one `Data::inner()` followed by the return. -/
inductive AOp | dispatch | wait | waitWithoutTl | running | world | worldMut | setup | res | mutRes
deriving DecidableEq, Repr

/-- `caller` = the thread that calls the dispatcher's methods (an ordinary thread, a worker of the
dispatcher's own pool, or a worker of another pool — see "The calling context" above), `worker` =
a pool thread that is not that thread -/
inductive Th | caller | worker
deriving DecidableEq, Repr

/-- visible events, one totally ordered log -/
inductive AEv
  | call (op : AOp)
  | ret (op : AOp) (v : Bool)
  /-- F/D of an ordinary (staged) system, executed by the job of dispatch number `d` -/
  | sys (th : Th) (d : Nat) (e : Ev Nat)
  /-- F/D of a thread-local system -/
  | tl (th : Th) (e : Ev Nat)
  /-- an observation made by the environment between two operations, without calling any
  method of the dispatcher: every system that has been started has finished (the systems' own
  completion signal: the test harness counts the `run`s that have returned) -/
  | quiet
  /-- ordinary system `x` of dispatch `d` was unwound by a panic (in `fetch` or in `run`) -/
  | sysP (th : Th) (d : Nat) (x : Nat)
  /-- thread-local system `x` was unwound by a panic -/
  | tlP (th : Th) (x : Nat)
  /-- the call of `op` ended by unwinding instead of returning -/
  | unwound (op : AOp)
  /-- `setup` called the setup hook of system `x` -/
  | hook (th : Th) (x : Nat)
  /-- an observation made by the environment between two operations: the pool's panic handler
  has been called for the job (the closure has been unwound, its sender is dropped) -/
  | gone
deriving DecidableEq, Repr

/-- what a dispatcher built by `build_async` holds: the task of its stages (`for stage in
stages { stage.execute(world) }`) and its thread-local systems in registration order -/
structure APlan where
  job : Task Nat
  tl : List Nat

/-- `for sys in &mut self.thread_local { sys.run_now(world) }` -/
def APlan.tlTask (P : APlan) : Task Nat := Task.seqN (P.tl.map .leaf)

/-- `enum Data` (l.140) -/
inductive Data | inner | rx
deriving DecidableEq, Repr

/-- the spawned closure of `dispatch` (l.71-79) -/
inductive Job
  | idle
  | running (res : RTask Nat)
  | sent
  /-- the systems `ps` have panicked; `gone = false`: the closure is still being unwound (systems
  that had started may still finish), `gone = true`: the sender is dropped, nothing was sent -/
  | failed (res : RTask Nat) (ps : List Nat) (gone : Bool)
deriving Repr

/-- where the calling thread is -/
inductive Caller
  /-- between two operations -/
  | ready
  /-- inside `op`, before its `inner()` / `inner_noblock()` has returned -/
  | called (op : AOp)
  /-- inside `op`, `inner()` has returned (`dispatch`: before the swap and the spawn) -/
  | holding (op : AOp)
  /-- inside `dispatch`, the job has been handed to the pool -/
  | spawned
  /-- inside `wait`, `inner()` has returned; thread-local systems still to run -/
  | inTl (res : RTask Nat)
  /-- inside `running`, `inner_noblock().is_none()` evaluated to `v` -/
  | polled (v : Bool)
  /-- inside `setup`, `inner()` has returned; the setup hooks of `rest` are still to be called -/
  | inSetup (rest : List Nat)
  /-- inside `wait`, a thread-local system has panicked: the frame is being unwound -/
  | tlFailed
deriving Repr

structure Ctl where
  data : Data := .inner
  job : Job := .idle
  caller : Caller := .ready
  /-- number of jobs spawned so far; the running job is dispatch number `nDisp - 1` -/
  nDisp : Nat := 0
deriving Repr

inductive Lbl
  | call (op : AOp)
  /-- `Data::inner()`: no-op if `Inner`, else `rx.recv()` -/
  | acquire
  /-- `Data::inner_noblock()`: `try_recv` -/
  | poll
  /-- `sender()` after its `inner()`: fresh channel, `Data::Rx`, closure spawned -/
  | spawn
  | ret
  | tlEv (e : Ev Nat)
  | jobEv (e : Ev Nat)
  /-- `snd.send(inner)` at the end of the closure -/
  | send
  /-- the environment looks at the systems' own completion signal (no dispatcher method) -/
  | observe
  /-- a system of the job panics (it is inside its F…D window) -/
  | jobPanic (x : Nat)
  /-- the unwinding of the closure is complete: `snd` is dropped -/
  | die
  /-- a thread-local system panics inside `wait` -/
  | tlPanic (x : Nat)
  /-- the current call unwinds: `expect("Sender dropped")`, or the thread-local panic leaves `wait` -/
  | raise
  /-- `setup` calls the next setup hook -/
  | hookEv (x : Nat)
  /-- the environment sees that the pool's panic handler has run -/
  | observeGone
deriving Repr

/-- `Data::inner()` can return: `Data` is `Inner` already, or the job's message is in the mailbox -/
def available : Data → Job → Bool
  | .inner, _ => true
  | .rx, .sent => true
  | .rx, _ => false

/-- no system of the job is inside `run` and none is still to be started: the job has not been
spawned, has sent, or has only its `send` left -/
def Job.quiet : Job → Bool
  | .running r => r.nullable
  | .failed _ _ _ => false
  | _ => true

/-- the systems that are inside their F…D window -/
def opens : RTask Nat → List Nat
  | .closing s => [s]
  | .seq a b => opens a ++ opens b
  | .par a b => opens a ++ opens b
  | .scopeOpen s body => s :: opens body
  | _ => []

/-- where the caller is once `inner()` has returned -/
def afterAcquire (P : APlan) : AOp → Caller
  | .wait => .inTl P.tlTask.toR
  | .setup => .inSetup (P.job.sys ++ P.tl)
  | op => .holding op

/-- one transition: the new control state and the event it appends to the log, if any -/
def step (P : APlan) (c : Ctl) : Lbl → Option (Ctl × Option AEv)
  | .call op =>
    match c.caller with
    | .ready => some ({ c with caller := .called op }, some (.call op))
    | _ => none
  | .acquire =>
    match c.caller with
    | .called op =>
      if op = .running then none else
      -- `inner()` returns only when `Data` is `Inner`: at once, or after `recv` got the message
      if available c.data c.job then
        some ({ c with data := .inner, job := .idle, caller := afterAcquire P op }, none)
      else none
    | _ => none
  | .poll =>
    match c.caller with
    | .called .running =>
      match c.data, c.job with
      | .inner, _ => some ({ c with caller := .polled false }, none)
      | .rx, .sent => some ({ c with data := .inner, job := .idle, caller := .polled false }, none)
      -- `TryRecvError::Disconnected`: the call panics (label `raise`)
      | .rx, .failed _ _ true => none
      | .rx, _ => some ({ c with caller := .polled true }, none)
    | _ => none
  | .spawn =>
    match c.caller with
    | .holding .dispatch =>
      some ({ data := .rx, job := .running P.job.toR, caller := .spawned, nDisp := c.nDisp + 1 }, none)
    | _ => none
  | .ret =>
    match c.caller with
    | .holding .dispatch => none
    | .holding op => some ({ c with caller := .ready }, some (.ret op false))
    | .spawned => some ({ c with caller := .ready }, some (.ret .dispatch false))
    | .inTl r => if r.nullable then some ({ c with caller := .ready }, some (.ret .wait false)) else none
    | .polled v => some ({ c with caller := .ready }, some (.ret .running v))
    | .inSetup [] => some ({ c with caller := .ready }, some (.ret .setup false))
    | _ => none
  | .tlEv e =>
    match c.caller with
    | .inTl r =>
      match r.deriv e with
      | some r' => some ({ c with caller := .inTl r' }, some (.tl .caller e))
      | none => none
    | _ => none
  | .jobEv e =>
    match c.job with
    | .running r =>
      match r.deriv e with
      | some r' => some ({ c with job := .running r' }, some (.sys .worker (c.nDisp - 1) e))
      | none => none
    -- what has started comes to its end; a panicked system has no D
    | .failed r ps false =>
      if ps.any (fun x => e = .D x) then none else
      match r.deriv e with
      | some r' => some ({ c with job := .failed r' ps false }, some (.sys .worker (c.nDisp - 1) e))
      | none => none
    | _ => none
  | .send =>
    match c.job with
    | .running r => if r.nullable then some ({ c with job := .sent }, none) else none
    | _ => none
  | .observe =>
    -- changes nothing: neither `Data` nor the mailbox is touched (in particular the message of
    -- a job that finished unobserved stays where it is until the next `inner()` / `inner_noblock()`)
    match c.caller with
    | .ready => if c.job.quiet then some (c, some .quiet) else none
    | _ => none
  | .jobPanic x =>
    match c.job with
    | .running r =>
      if (opens r).contains x then
        some ({ c with job := .failed r [x] false }, some (.sysP .worker (c.nDisp - 1) x))
      else none
    | .failed r ps false =>
      if (opens r).contains x && !ps.contains x then
        some ({ c with job := .failed r (x :: ps) false }, some (.sysP .worker (c.nDisp - 1) x))
      else none
    | _ => none
  | .die =>
    match c.job with
    -- `for_each` returns (re-raises) only when every group that started has ended
    | .failed r ps false => if (opens r).all ps.contains then some ({ c with job := .failed r ps true }, none) else none
    | _ => none
  | .tlPanic x =>
    match c.caller with
    | .inTl r => if (opens r).contains x then some ({ c with caller := .tlFailed }, some (.tlP .caller x)) else none
    | _ => none
  | .raise =>
    match c.caller with
    | .tlFailed => some ({ c with caller := .ready }, some (.unwound .wait))
    | .called op =>
      match c.data, c.job with
      | .rx, .failed _ _ true => some ({ c with caller := .ready }, some (.unwound op))
      | _, _ => none
    | _ => none
  | .hookEv x =>
    match c.caller with
    | .inSetup (y :: rest) => if x = y then some ({ c with caller := .inSetup rest }, some (.hook .caller x)) else none
    | _ => none
  | .observeGone =>
    match c.caller with
    | .ready =>
      match c.job with
      | .failed _ _ true => some (c, some .gone)
      | _ => none
    | _ => none

def optList {α} : Option α → List α
  | none => []
  | some a => [a]

/-- the reachable (control state, log) pairs: every interleaving of caller and job steps -/
inductive Run (P : APlan) : Ctl → List AEv → Prop
  | init : Run P {} []
  | step {c l lb c' o} : Run P c l → step P c lb = some (c', o) → Run P c' (l ++ optList o)

/-! ### the executable acceptor for merged logs -/

/-- take the step if it is enabled -/
def tryStep (P : APlan) (c : Ctl) (lb : Lbl) : Ctl :=
  match step P c lb with
  | some (c', none) => c'
  | _ => c

/-- take the step if it is enabled and emits exactly `o` -/
def visStep (P : APlan) (c : Ctl) (lb : Lbl) (o : AEv) : Option Ctl :=
  match step P c lb with
  | some (c', some o') => if o' = o then some c' else none
  | _ => none

/-- consume one observed event: the silent steps it presupposes (`send`, `acquire` / `poll`,
`spawn`) are taken as late as possible, i.e. just in front of it -/
def feed (P : APlan) (c : Ctl) (o : AEv) : Option Ctl :=
  match o with
  | .call op => visStep P c (.call op) o
  | .ret .running true => visStep P (tryStep P c .poll) .ret o
  | .ret _ _ =>
    let c := match c.caller with
      | .called _ => tryStep P (tryStep P (tryStep P c .send) .acquire) .poll
      | _ => c
    let c := tryStep P c .spawn
    visStep P c .ret o
  | .tl _ e =>
    let c := match c.caller with
      | .called .wait => tryStep P (tryStep P c .send) .acquire
      | _ => c
    visStep P c (.tlEv e) o
  | .quiet => visStep P c .observe o
  | .sysP _ _ x => visStep P c (.jobPanic x) o
  | .tlP _ x => visStep P c (.tlPanic x) o
  | .unwound _ =>
    let c := match c.caller with
      | .called _ => tryStep P c .die
      | _ => c
    visStep P c .raise o
  | .hook _ x =>
    let c := match c.caller with
      | .called .setup => tryStep P (tryStep P c .send) .acquire
      | _ => c
    visStep P c (.hookEv x) o
  | .gone => visStep P (tryStep P c .die) .observeGone o
  | .sys _ _ e =>
    match visStep P c (.jobEv e) o with
    | some c' => some c'
    | none =>
      -- first event of the next dispatch
      let c := match c.caller with
        | .called .dispatch => tryStep P (tryStep P c .send) .acquire
        | _ => c
      let c := tryStep P c .spawn
      visStep P c (.jobEv e) o

def feedAll (P : APlan) : Ctl → List AEv → Option Ctl
  | c, [] => some c
  | c, o :: l => match feed P c o with
    | some c' => feedAll P c' l
    | none => none

/-- a finished log: the caller is between operations and no system is inside `run` -/
def Ctl.final (c : Ctl) : Bool :=
  (match c.caller with | .ready => true | _ => false) &&
  (match c.job with
    | .running r => r.nullable
    | .failed r ps g => g || (opens r).all ps.contains
    | _ => true)

def acceptsLog (P : APlan) (l : List AEv) : Bool :=
  match feedAll P {} l with
  | some c => c.final
  | none => false

/-! ### what the theorems talk about -/

/-- the F/D events of dispatch number `d`, in log order -/
def projD (d : Nat) : List AEv → List (Ev Nat)
  | [] => []
  | .sys _ d' e :: l => if d' = d then e :: projD d l else projD d l
  | _ :: l => projD d l

/-- number of `dispatch` calls that have returned -/
def dispatches : List AEv → Nat
  | [] => 0
  | .ret .dispatch _ :: l => dispatches l + 1
  | _ :: l => dispatches l

/-- the operation the caller is inside of at the end of the log -/
def pending : List AEv → Option AOp → Option AOp
  | [], p => p
  | .call op :: l, _ => pending l (some op)
  | .ret _ _ :: l, _ => pending l none
  | .unwound _ :: l, _ => pending l none
  | _ :: l, p => pending l p

/-- system `x` of dispatch `d` is inside its F…D window at the end of `l` -/
def OpenAt (l : List AEv) (d : Nat) (x : Nat) : Prop := Ev.F x ∈ projD d l ∧ Ev.D x ∉ projD d l

/-- dispatches `0 … k-1` have run to completion (their events form a complete trace of the
stages task) and nothing else has produced an event -/
def Quiescent (P : APlan) (l : List AEv) (k : Nat) : Prop :=
  (∀ d, d < k → Traces P.job (projD d l)) ∧ (∀ d, k ≤ d → projD d l = [])

end Async
end Shred
