import ShredModel.Model.Task
/-!
# The asynchronous dispatcher (`src/dispatch/async_dispatcher.rs`)

The dispatcher owns `Data = Inner{world, stages} | Rx(receiver)` (l.140-143). `dispatch`
(l.63-80) takes the `Inner` out (`sender()`, l.183-196: `self.inner()` = blocking receive if
`Rx`, then a fresh channel is swapped in) and hands it to a job spawned on the pool; the job
runs `stage.execute(world)` for every stage in order and finally `snd.send(inner)`. Every
accessor starts with `self.data.inner()` (l.146-153: returns at once if `Inner`, otherwise
`rx.recv()` — blocks until the job has sent); `running()` is `inner_noblock().is_none()`
(l.155-181: `try_recv`, switching to `Inner` when the message is there).

The model is a labelled transition system. The *control state* `Ctl` is `Data`, the state of
the background job (`idle | running residual | sent`: the job executes the task of the stages
event by event — the residual-task derivative of `Model/Task.lean`, so that every timing of
the background systems is a sequence of `jobEv` steps — and then performs the silent `send`
step, enabled once the residual is nullable; the one-slot mailbox of the channel is full
exactly in job state `sent`), the program counter of the calling thread, and the number of
dispatches so far. `step` is the (partial, deterministic per label) transition function;
a *blocking* operation is an `acquire` step that is enabled only when `Data` is `inner`
already or the job has sent. `Run` is the set of reachable (control state, log) pairs: all
interleavings of caller steps and job steps. Visible events (`AEv`): `call op`, `ret op v`
on the caller, F/D events of ordinary systems (`sys`, tagged with thread and dispatch
number) and of thread-local systems (`tl`), and `quiet`: the environment, between two
operations and without calling the dispatcher, has seen the systems' own completion signal
(label `observe`; it leaves the control state alone — a job that finishes unobserved keeps
its message in the mailbox, and whichever operation comes next, blocking or not, finds it).

Not modelled: a panic inside the job (rayon's `spawn` aborts the process; then `recv`
would report "Sender dropped"), `Option::unwrap` of the pool (always `Some` after
`build_async`, builder.rs l.437-440).

Core Lean only (linked into the driver).
-/
namespace Shred
namespace Async

/-- the public operations of `AsyncDispatcher` (l.41-137). `res` (l.111-113, `self.world()`) and
`mut_res` (l.128-130, `&mut self.data.inner().world`) are the deprecated aliases of `world` /
`world_mut`: like every accessor they are one `Data::inner()` followed by the return. -/
inductive AOp | dispatch | wait | waitWithoutTl | running | world | worldMut | setup | res | mutRes
deriving DecidableEq, Repr

/-- `c` = the thread that calls the dispatcher's methods, `w` = a pool thread -/
inductive Th | caller | worker
deriving DecidableEq, Repr

/-- visible events, one totally ordered log -/
inductive AEv
  | call (op : AOp)
  | ret (op : AOp) (v : Bool)
  /-- F/D of an ordinary (staged) system, executed by the job of dispatch number `d` -/
  | sys (th : Th) (d : Nat) (e : Ev Nat)
  /-- F/D of a thread-local system -/
  | tl (th : Th) (e : Ev Nat)
  /-- an observation made by the environment between two operations, without calling any
  method of the dispatcher: every system that has been started has finished (the systems' own
  completion signal: the test harness counts the `run`s that have returned) -/
  | quiet
deriving DecidableEq, Repr

/-- what a dispatcher built by `build_async` holds: the task of its stages (`for stage in
stages { stage.execute(world) }`) and its thread-local systems in registration order -/
structure APlan where
  job : Task Nat
  tl : List Nat

/-- `for sys in &mut self.thread_local { sys.run_now(world) }` -/
def APlan.tlTask (P : APlan) : Task Nat := Task.seqN (P.tl.map .leaf)

/-- `enum Data` (l.140) -/
inductive Data | inner | rx
deriving DecidableEq, Repr

/-- the spawned closure of `dispatch` (l.71-79) -/
inductive Job
  | idle
  | running (res : RTask Nat)
  | sent
deriving Repr

/-- where the calling thread is -/
inductive Caller
  /-- between two operations -/
  | ready
  /-- inside `op`, before its `inner()` / `inner_noblock()` has returned -/
  | called (op : AOp)
  /-- inside `op`, `inner()` has returned (`dispatch`: before the swap and the spawn) -/
  | holding (op : AOp)
  /-- inside `dispatch`, the job has been handed to the pool -/
  | spawned
  /-- inside `wait`, `inner()` has returned; thread-local systems still to run -/
  | inTl (res : RTask Nat)
  /-- inside `running`, `inner_noblock().is_none()` evaluated to `v` -/
  | polled (v : Bool)
deriving Repr

structure Ctl where
  data : Data := .inner
  job : Job := .idle
  caller : Caller := .ready
  /-- number of jobs spawned so far; the running job is dispatch number `nDisp - 1` -/
  nDisp : Nat := 0
deriving Repr

inductive Lbl
  | call (op : AOp)
  /-- `Data::inner()`: no-op if `Inner`, else `rx.recv()` -/
  | acquire
  /-- `Data::inner_noblock()`: `try_recv` -/
  | poll
  /-- `sender()` after its `inner()`: fresh channel, `Data::Rx`, closure spawned -/
  | spawn
  | ret
  | tlEv (e : Ev Nat)
  | jobEv (e : Ev Nat)
  /-- `snd.send(inner)` at the end of the closure -/
  | send
  /-- the environment looks at the systems' own completion signal (no dispatcher method) -/
  | observe
deriving Repr

/-- `Data::inner()` can return: `Data` is `Inner` already, or the job's message is in the mailbox -/
def available : Data → Job → Bool
  | .inner, _ => true
  | .rx, .sent => true
  | .rx, _ => false

/-- no system of the job is inside `run` and none is still to be started: the job has not been
spawned, has sent, or has only its `send` left -/
def Job.quiet : Job → Bool
  | .running r => r.nullable
  | _ => true

/-- one transition: the new control state and the event it appends to the log, if any -/
def step (P : APlan) (c : Ctl) : Lbl → Option (Ctl × Option AEv)
  | .call op =>
    match c.caller with
    | .ready => some ({ c with caller := .called op }, some (.call op))
    | _ => none
  | .acquire =>
    match c.caller with
    | .called op =>
      if op = .running then none else
      -- `inner()` returns only when `Data` is `Inner`: at once, or after `recv` got the message
      if available c.data c.job then
        some ({ c with data := .inner, job := .idle,
                       caller := if op = .wait then .inTl P.tlTask.toR else .holding op }, none)
      else none
    | _ => none
  | .poll =>
    match c.caller with
    | .called .running =>
      match c.data, c.job with
      | .inner, _ => some ({ c with caller := .polled false }, none)
      | .rx, .sent => some ({ c with data := .inner, job := .idle, caller := .polled false }, none)
      | .rx, _ => some ({ c with caller := .polled true }, none)
    | _ => none
  | .spawn =>
    match c.caller with
    | .holding .dispatch =>
      some ({ data := .rx, job := .running P.job.toR, caller := .spawned, nDisp := c.nDisp + 1 }, none)
    | _ => none
  | .ret =>
    match c.caller with
    | .holding .dispatch => none
    | .holding op => some ({ c with caller := .ready }, some (.ret op false))
    | .spawned => some ({ c with caller := .ready }, some (.ret .dispatch false))
    | .inTl r => if r.nullable then some ({ c with caller := .ready }, some (.ret .wait false)) else none
    | .polled v => some ({ c with caller := .ready }, some (.ret .running v))
    | _ => none
  | .tlEv e =>
    match c.caller with
    | .inTl r =>
      match r.deriv e with
      | some r' => some ({ c with caller := .inTl r' }, some (.tl .caller e))
      | none => none
    | _ => none
  | .jobEv e =>
    match c.job with
    | .running r =>
      match r.deriv e with
      | some r' => some ({ c with job := .running r' }, some (.sys .worker (c.nDisp - 1) e))
      | none => none
    | _ => none
  | .send =>
    match c.job with
    | .running r => if r.nullable then some ({ c with job := .sent }, none) else none
    | _ => none
  | .observe =>
    -- changes nothing: neither `Data` nor the mailbox is touched (in particular the message of
    -- a job that finished unobserved stays where it is until the next `inner()` / `inner_noblock()`)
    match c.caller with
    | .ready => if c.job.quiet then some (c, some .quiet) else none
    | _ => none

def optList {α} : Option α → List α
  | none => []
  | some a => [a]

/-- the reachable (control state, log) pairs: every interleaving of caller and job steps -/
inductive Run (P : APlan) : Ctl → List AEv → Prop
  | init : Run P {} []
  | step {c l lb c' o} : Run P c l → step P c lb = some (c', o) → Run P c' (l ++ optList o)

/-! ### the executable acceptor for merged logs -/

/-- take the step if it is enabled -/
def tryStep (P : APlan) (c : Ctl) (lb : Lbl) : Ctl :=
  match step P c lb with
  | some (c', none) => c'
  | _ => c

/-- take the step if it is enabled and emits exactly `o` -/
def visStep (P : APlan) (c : Ctl) (lb : Lbl) (o : AEv) : Option Ctl :=
  match step P c lb with
  | some (c', some o') => if o' = o then some c' else none
  | _ => none

/-- consume one observed event: the silent steps it presupposes (`send`, `acquire` / `poll`,
`spawn`) are taken as late as possible, i.e. just in front of it -/
def feed (P : APlan) (c : Ctl) (o : AEv) : Option Ctl :=
  match o with
  | .call op => visStep P c (.call op) o
  | .ret .running true => visStep P (tryStep P c .poll) .ret o
  | .ret _ _ =>
    let c := match c.caller with
      | .called _ => tryStep P (tryStep P (tryStep P c .send) .acquire) .poll
      | _ => c
    let c := tryStep P c .spawn
    visStep P c .ret o
  | .tl _ e =>
    let c := match c.caller with
      | .called .wait => tryStep P (tryStep P c .send) .acquire
      | _ => c
    visStep P c (.tlEv e) o
  | .quiet => visStep P c .observe o
  | .sys _ _ e =>
    match visStep P c (.jobEv e) o with
    | some c' => some c'
    | none =>
      -- first event of the next dispatch
      let c := match c.caller with
        | .called .dispatch => tryStep P (tryStep P c .send) .acquire
        | _ => c
      let c := tryStep P c .spawn
      visStep P c (.jobEv e) o

def feedAll (P : APlan) : Ctl → List AEv → Option Ctl
  | c, [] => some c
  | c, o :: l => match feed P c o with
    | some c' => feedAll P c' l
    | none => none

/-- a finished log: the caller is between operations and no system is inside `run` -/
def Ctl.final (c : Ctl) : Bool :=
  (match c.caller with | .ready => true | _ => false) &&
  (match c.job with | .running r => r.nullable | _ => true)

def acceptsLog (P : APlan) (l : List AEv) : Bool :=
  match feedAll P {} l with
  | some c => c.final
  | none => false

/-! ### what the theorems talk about -/

/-- the F/D events of dispatch number `d`, in log order -/
def projD (d : Nat) : List AEv → List (Ev Nat)
  | [] => []
  | .sys _ d' e :: l => if d' = d then e :: projD d l else projD d l
  | _ :: l => projD d l

/-- number of `dispatch` calls that have returned -/
def dispatches : List AEv → Nat
  | [] => 0
  | .ret .dispatch _ :: l => dispatches l + 1
  | _ :: l => dispatches l

/-- the operation the caller is inside of at the end of the log -/
def pending : List AEv → Option AOp → Option AOp
  | [], p => p
  | .call op :: l, _ => pending l (some op)
  | .ret _ _ :: l, _ => pending l none
  | _ :: l, p => pending l p

/-- system `x` of dispatch `d` is inside its F…D window at the end of `l` -/
def OpenAt (l : List AEv) (d : Nat) (x : Nat) : Prop := Ev.F x ∈ projD d l ∧ Ev.D x ∉ projD d l

/-- dispatches `0 … k-1` have run to completion (their events form a complete trace of the
stages task) and nothing else has produced an event -/
def Quiescent (P : APlan) (l : List AEv) (k : Nat) : Prop :=
  (∀ d, d < k → Traces P.job (projD d l)) ∧ (∀ d, k ≤ d → projD d l = [])

end Async
end Shred
