import ShredModel.Lemmas.Meta
/-!
# C17 — Meta table: exactly the registered types, once each, with the right vtable

Model: `Model/Meta.lean` (mirror of `src/meta.rs`, stable variant). `cast : CastFn` is the user's
`CastFrom` implementation (`cast r a` = the pointer — address *and* vtable — it returns for concrete
type `r` and address `a`) and is universally quantified everywhere: it covers implementors of every
size (zero-sized ones included: the model's check never looks at the size), alignment and drop glue,
generic ones, and wrong casts of every shape (an offset, another object of the same type, a static, a
field, an object of another type). The lawful implementation is `lawfulCast r a = ⟨a, r⟩`. `regs` is an arbitrary history of `register` calls
(repeats allowed); `firstOccs regs` is `regs` with only the first occurrence of each type kept.
"Present" means present in the world under dynamic id 0, the only key the iterators look up.
-/
namespace Shred
namespace Meta
open MetaTable

/-! ## The parallel tables stay aligned and duplicate-free -/

/-- **MetaInv is invariant**: after any sequence of `register` calls (with repeats) on a fresh
table, `tys` is duplicate-free, `vtable_fns[i]` is the attach function of `tys[i]` (equal
lengths), `indices.len() = tys.len()` and `indices[ty] = i ↔ tys[i] = ty`. -/
theorem C17_inv (regs : List Nat) : MetaInv (({} : MetaTable).registerAll regs) :=
  MetaInv.empty.registerAll regs

/-- one more `register` (new type or repeat) on any table satisfying the invariant -/
theorem C17_inv_step {t : MetaTable} (h : MetaInv t) (ty : Nat) : MetaInv (t.register ty) :=
  h.register ty

/-- the indexing `self.vtable_fns[ind] = vtable_fn` in `register` cannot panic -/
theorem C17_register_in_bounds (regs : List Nat) (ty ind : Nat)
    (hl : lookup (({} : MetaTable).registerAll regs).indices ty = some ind) :
    ind < (({} : MetaTable).registerAll regs).vtableFns.length :=
  register_index_in_bounds (C17_inv regs) hl

/-- **First-registration order, once each**: the stored types are the registered ones, each at
the position of its first registration, however often it was registered. -/
theorem C17_tys_first_registration (regs : List Nat) :
    (({} : MetaTable).registerAll regs).tys = firstOccs regs := by
  have := registerAll_tys MetaInv.empty regs
  rw [this]
  simp

theorem C17_registered_iff (regs : List Nat) (ty : Nat) :
    ty ∈ (({} : MetaTable).registerAll regs).tys ↔ ty ∈ regs := by
  rw [C17_tys_first_registration, mem_firstOccs]

/-- registering again changes nothing at all -/
theorem C17_register_idem (regs : List Nat) (ty : Nat) (h : ty ∈ regs) :
    (({} : MetaTable).registerAll regs).register ty = ({} : MetaTable).registerAll regs :=
  register_of_mem (C17_inv regs) ((C17_registered_iff regs ty).mpr h)

example : (({} : MetaTable).registerAll [3, 1, 3, 2, 1, 3]).tys = [3, 1, 2] := by decide
example : (({} : MetaTable).registerAll [3, 1, 3, 2, 1, 3]).vtableFns = [3, 1, 2] := by decide
example : (({} : MetaTable).registerAll [3, 1, 3, 2, 1, 3]).indices = [(3, 0), (1, 1), (2, 2)] := by
  decide

/-! ## `get` / `get_mut` -/

/-- **get, completely**: on a resource of concrete type `r.ty` at address `r.addr`, `get` returns
`None` iff the type was never registered; otherwise it calls the `CastFrom` implementation of that
very type (no other) on that very address, returns what it produced if the address is unchanged,
and panics (before a reference is formed) if it is not. -/
theorem C17_get_spec (cast : CastFn) (regs : List Nat) (r : ResRef) :
    (({} : MetaTable).registerAll regs).get cast r =
      if r.ty ∈ regs then
        if (cast r.ty r.addr).addr = r.addr then .some (cast r.ty r.addr) else .panic .badCast
      else .none := by
  by_cases hm : r.ty ∈ regs
  · rw [if_pos hm]
    exact get_of_mem (C17_inv regs) cast ((C17_registered_iff regs r.ty).mpr hm)
  · rw [if_neg hm]
    exact get_of_not_mem (C17_inv regs) cast (fun h => hm ((C17_registered_iff regs r.ty).mp h))

/-- **get_some_iff**: `get` is `Some` exactly when the concrete type was registered (given a lawful
cast for it: the pointer it was given, with the vtable of the type it is the implementation for),
and then the result denotes that very resource: same address, vtable of the concrete type. -/
theorem C17_get_some_iff (cast : CastFn) (regs : List Nat) (r : ResRef)
    (hcast : cast r.ty r.addr = ⟨r.addr, r.ty⟩) (p : TraitPtr) :
    (({} : MetaTable).registerAll regs).get cast r = .some p ↔
      r.ty ∈ regs ∧ p = ⟨r.addr, r.ty⟩ := by
  rw [C17_get_spec]
  by_cases hm : r.ty ∈ regs
  · rw [if_pos hm, hcast, if_pos rfl]
    constructor
    · intro h; cases h; exact ⟨hm, rfl⟩
    · rintro ⟨_, rfl⟩; rfl
  · simp [hm]

/-- **same address, whatever the cast**: for *every* `CastFrom` implementation — lawful or not,
for an implementor of any size — a reference that `get` / `get_mut` returns has the address of the
resource it was asked about, was produced by the cast of the resource's own type, and that type was
registered. (The vtable is the one the cast attached: the address check cannot see it. It is the
concrete type's own under the `# Safety` contract of `CastFrom`, see `C17_get_some_iff`.) -/
theorem C17_get_some_same_address (cast : CastFn) (regs : List Nat) (r : ResRef) (p : TraitPtr)
    (h : (({} : MetaTable).registerAll regs).get cast r = .some p ∨
         (({} : MetaTable).registerAll regs).getMut cast r = .some p) :
    r.ty ∈ regs ∧ p.addr = r.addr ∧ p = cast r.ty r.addr := by
  have h' : (({} : MetaTable).registerAll regs).get cast r = .some p := by
    rcases h with h | h
    · exact h
    · rw [getMut_eq_get] at h; exact h
  rw [C17_get_spec] at h'
  by_cases hm : r.ty ∈ regs
  · rw [if_pos hm] at h'
    by_cases hc : (cast r.ty r.addr).addr = r.addr
    · rw [if_pos hc] at h'
      cases h'
      exact ⟨hm, hc, rfl⟩
    · rw [if_neg hc] at h'; cases h'
  · rw [if_neg hm] at h'; cases h'

theorem C17_get_none_iff (cast : CastFn) (regs : List Nat) (r : ResRef) :
    (({} : MetaTable).registerAll regs).get cast r = .none ↔ r.ty ∉ regs := by
  rw [C17_get_spec]
  by_cases hm : r.ty ∈ regs
  · by_cases hc : (cast r.ty r.addr).addr = r.addr <;> simp [hm, hc]
  · simp [hm]

/-- `get_mut` computes the same pointer -/
theorem C17_getMut_spec (cast : CastFn) (regs : List Nat) (r : ResRef) :
    (({} : MetaTable).registerAll regs).getMut cast r =
      if r.ty ∈ regs then
        if (cast r.ty r.addr).addr = r.addr then .some (cast r.ty r.addr) else .panic .badCast
      else .none := by
  rw [getMut_eq_get]; exact C17_get_spec cast regs r

/-- **bad_cast_panics (get)**: a `CastFrom` that changes the address of a registered type —
whatever it points at instead and whatever vtable it carries — makes `get` / `get_mut` panic; no
reference is produced. -/
theorem C17_bad_cast_panics_get (cast : CastFn) (regs : List Nat) (r : ResRef)
    (hreg : r.ty ∈ regs) (hbad : (cast r.ty r.addr).addr ≠ r.addr) :
    (({} : MetaTable).registerAll regs).get cast r = .panic .badCast ∧
    (({} : MetaTable).registerAll regs).getMut cast r = .panic .badCast := by
  rw [C17_getMut_spec, C17_get_spec]
  simp [hreg, hbad]

/-- **The check happens at every use, never at registration.** `register` does not take the cast
(the stable `register`, l.367-390, only stores the function pointer), so a table is built the same
way whatever the `CastFrom` implementations are and registration cannot reject one; and the table
keeps no memory of earlier checks: on the same table, the same resource is converted while its
cast behaves (`castA`) and rejected by a panic as soon as it does not (`castB`), in either order. -/
theorem C17_check_at_every_use (castA castB : CastFn) (regs : List Nat) (r : ResRef)
    (hreg : r.ty ∈ regs) (hA : castA r.ty r.addr = ⟨r.addr, r.ty⟩)
    (hB : (castB r.ty r.addr).addr ≠ r.addr) :
    let t := ({} : MetaTable).registerAll regs
    t.get castA r = .some ⟨r.addr, r.ty⟩ ∧ t.getMut castA r = .some ⟨r.addr, r.ty⟩ ∧
    t.get castB r = .panic .badCast ∧ t.getMut castB r = .panic .badCast := by
  intro t
  have h1 := (C17_get_some_iff castA regs r hA ⟨r.addr, r.ty⟩).mpr ⟨hreg, rfl⟩
  have h2 := C17_bad_cast_panics_get castB regs r hreg hB
  refine ⟨h1, ?_, h2.1, h2.2⟩
  show t.getMut castA r = _
  rw [getMut_eq_get]; exact h1

/-- an address-preserving cast that attaches another type's vtable (a pointer to the first field,
another zero-sized type at the same dangling address) passes the check: the code returns it -/
theorem C17_get_same_address_other_vtable (cast : CastFn) (regs : List Nat) (r : ResRef) (v : Nat)
    (hreg : r.ty ∈ regs) (hc : cast r.ty r.addr = ⟨r.addr, v⟩) :
    (({} : MetaTable).registerAll regs).get cast r = .some ⟨r.addr, v⟩ := by
  rw [C17_get_spec, if_pos hreg, hc, if_pos rfl]

-- registered, good cast: found, same address, own vtable
example : (({} : MetaTable).registerAll [3, 1, 3]).get lawfulCast ⟨1, 4096⟩ = .some ⟨4096, 1⟩ := by
  decide
-- never registered
example : (({} : MetaTable).registerAll [3, 1, 3]).get lawfulCast ⟨2, 4096⟩ = .none := by decide
-- the cast of type 3 moves the pointer (by an offset; to a decoy of type 9 somewhere else)
example : (({} : MetaTable).registerAll [3, 1, 3]).get (fun ty a => if ty = 3 then ⟨a + 8, ty⟩ else ⟨a, ty⟩)
    ⟨3, 4096⟩ = .panic .badCast := by decide
example : (({} : MetaTable).registerAll [3, 1, 3]).get (fun ty a => if ty = 3 then ⟨777, 9⟩ else ⟨a, ty⟩)
    ⟨3, 4096⟩ = .panic .badCast := by decide
-- a zero-sized implementor lives at the dangling address `align_of` (here 1): nothing special
example : (({} : MetaTable).registerAll [3, 1, 3]).get (fun ty a => if ty = 3 then ⟨777, 9⟩ else ⟨a, ty⟩)
    ⟨3, 1⟩ = .panic .badCast := by decide
-- the hypotheses of `C17_check_at_every_use` / `C17_get_same_address_other_vtable` are satisfiable
example : (3 ∈ [3, 1, 3]) ∧ lawfulCast 3 4096 = ⟨4096, 3⟩ ∧
    ((fun _ _ => ⟨777, 9⟩ : CastFn) 3 4096).addr ≠ 4096 := by decide
example : (({} : MetaTable).registerAll [3, 1, 3]).get (fun _ a => ⟨a, 9⟩) ⟨3, 4096⟩ = .some ⟨4096, 9⟩ := by
  decide

/-! ## One call of `next` -/

/-- **next, completely** (any table reachable by `register`s, any world, any position, `iter`
(`excl = false`) and `iter_mut` (`excl = true`)): either no registered type from the current
position on is present — the call returns `None` and changes nothing — or `ty` is the first one
present (`pre` = the absent ones skipped), `c` its cell, and the call

* panics with the cell's borrow error and changes nothing if the cell cannot be borrowed in the
  requested way (C08 rules: shared needs "not exclusively borrowed", exclusive needs "free"),
* panics with the `CastFrom` bug message, the cell left as it was, if the cast of `ty` (no other
  type's) moves the address,
* otherwise yields the pointer that cast produced (address of the resource; the vtable of `ty` for a
  lawful cast) and the cell is borrowed once more — shared for `iter`, exclusively for `iter_mut`;

in all three cases the position moves just past `ty`. -/
theorem C17_next_spec (cast : CastFn) (regs : List Nat) (w : MWorld) (i : Nat) (excl : Bool) :
    let t := ({} : MetaTable).registerAll regs
    ((∀ x ∈ t.tys.drop i, w.cell x = none) ∧
      t.next cast w ⟨i, excl⟩ = (w, ⟨i + (t.tys.drop i).length, excl⟩, .none)) ∨
    ∃ pre ty rest c, t.tys.drop i = pre ++ ty :: rest ∧ (∀ x ∈ pre, w.cell x = none) ∧
      w.cell ty = some c ∧
      t.next cast w ⟨i, excl⟩ =
        match Shred.tryBorrow c.borrow excl with
        | none => (w, ⟨i + pre.length + 1, excl⟩, .panic .borrowed)
        | some b' =>
          if (cast ty c.addr).addr = c.addr then
            (w.set ty (some { c with borrow := b' }), ⟨i + pre.length + 1, excl⟩, .item (cast ty c.addr))
          else (w, ⟨i + pre.length + 1, excl⟩, .panic .badCast) := by
  intro t
  have hinv : MetaInv t := C17_inv regs
  rcases split_first w.present (t.tys.drop i) with hall | ⟨pre, ty, rest, hd, hpre, hty⟩
  · left
    have hall' : ∀ x ∈ t.tys.drop i, w.cell x = none := by
      intro x hx; simpa [MWorld.present] using hall x hx
    refine ⟨hall', ?_⟩
    rw [next_eq, nextFrom_miss cast t.vtableFns excl _ i w hall']
  · right
    have hpre' : ∀ x ∈ pre, w.cell x = none := by
      intro x hx; simpa [MWorld.present] using hpre x hx
    obtain ⟨c, hc⟩ := Option.isSome_iff_exists.mp (by simpa [MWorld.present] using hty)
    refine ⟨pre, ty, rest, c, hd, hpre', hc, ?_⟩
    rw [next_eq, hinv.vt, nextFrom_hit cast t.tys excl i w pre ty rest c hd hpre' hc]
    cases Shred.tryBorrow c.borrow excl with
    | none => rfl
    | some b' =>
      simp only []
      by_cases hcast : (cast ty c.addr).addr = c.addr <;> simp [hcast]

/-- the indexing `self.vtable_fns[index]` in `next` cannot panic -/
theorem C17_next_in_bounds (cast : CastFn) (regs : List Nat) (w : MWorld) (i : Nat) (excl : Bool) :
    ((({} : MetaTable).registerAll regs).next cast w ⟨i, excl⟩).2.2 ≠ .panic .index := by
  rcases C17_next_spec cast regs w i excl with ⟨_, h⟩ | ⟨pre, ty, rest, c, _, _, _, h⟩
  · rw [h]; simp
  · rw [h]
    cases Shred.tryBorrow c.borrow excl with
    | none => simp
    | some b' =>
      simp only []
      by_cases hcast : (cast ty c.addr).addr = c.addr <;> simp [hcast]

/-- **same address, whatever the cast (next)**: for *every* `CastFrom` implementation, an item that
`next` yields has the address of a present resource of a registered type, was produced by the
cast of that resource's own type, and it is that resource's cell — no other — that got borrowed. -/
theorem C17_next_item_same_address (cast : CastFn) (regs : List Nat) (w : MWorld) (i : Nat)
    (excl : Bool) (w' : MWorld) (it' : MIter) (p : TraitPtr)
    (h : (({} : MetaTable).registerAll regs).next cast w ⟨i, excl⟩ = (w', it', .item p)) :
    ∃ ty c b', ty ∈ regs ∧ w.cell ty = some c ∧ p = cast ty c.addr ∧ p.addr = c.addr ∧
      Shred.tryBorrow c.borrow excl = some b' ∧ w' = w.set ty (some { c with borrow := b' }) := by
  rcases C17_next_spec cast regs w i excl with ⟨_, hn⟩ | ⟨pre, ty, rest, c, hd, _, hc, hn⟩
  · rw [hn] at h; simp at h
  · have hmem : ty ∈ regs := by
      apply (C17_registered_iff regs ty).mp
      have : ty ∈ (({} : MetaTable).registerAll regs).tys.drop i := by rw [hd]; simp
      exact List.mem_of_mem_drop this
    rw [hn] at h
    cases hb : Shred.tryBorrow c.borrow excl with
    | none => rw [hb] at h; simp at h
    | some b' =>
      rw [hb] at h
      simp only [] at h
      by_cases hcast : (cast ty c.addr).addr = c.addr
      · rw [if_pos hcast] at h
        simp only [Prod.mk.injEq, NextOut.item.injEq] at h
        obtain ⟨hw, _, hp⟩ := h
        exact ⟨ty, c, b', hmem, hc, hp.symm, hp ▸ hcast, hb, hw.symm⟩
      · rw [if_neg hcast] at h; simp at h

/-- **bad_cast_panics (next)**: if the first present registered type from the current position
has a cast that moves the address (and its cell could be borrowed), `next` panics with the
`CastFrom` message and the world — in particular the borrow flag of that cell — is unchanged. -/
theorem C17_bad_cast_panics_next (cast : CastFn) (regs : List Nat) (w : MWorld) (i : Nat)
    (excl : Bool) (pre : List Nat) (ty : Nat) (rest : List Nat) (c : MCell)
    (hd : (({} : MetaTable).registerAll regs).tys.drop i = pre ++ ty :: rest)
    (hpre : ∀ x ∈ pre, w.cell x = none) (hc : w.cell ty = some c)
    (hb : (Shred.tryBorrow c.borrow excl).isSome) (hbad : (cast ty c.addr).addr ≠ c.addr) :
    (({} : MetaTable).registerAll regs).next cast w ⟨i, excl⟩ =
      (w, ⟨i + pre.length + 1, excl⟩, .panic .badCast) := by
  have hinv := C17_inv regs
  rw [next_eq, hinv.vt, nextFrom_hit cast _ excl i w pre ty rest c hd hpre hc]
  obtain ⟨b', hb'⟩ := Option.isSome_iff_exists.mp hb
  simp [hb', hbad]

/-- **Borrow rules**: `next` on a cell that is exclusively borrowed (`iter`), or borrowed in any
way (`iter_mut`), panics and leaves the world as it was. -/
theorem C17_next_conflict_panics (cast : CastFn) (regs : List Nat) (w : MWorld) (i : Nat)
    (excl : Bool) (pre : List Nat) (ty : Nat) (rest : List Nat) (c : MCell)
    (hd : (({} : MetaTable).registerAll regs).tys.drop i = pre ++ ty :: rest)
    (hpre : ∀ x ∈ pre, w.cell x = none) (hc : w.cell ty = some c)
    (hconf : c.borrow = .excl ∨ (excl = true ∧ c.borrow ≠ .free)) :
    (({} : MetaTable).registerAll regs).next cast w ⟨i, excl⟩ =
      (w, ⟨i + pre.length + 1, excl⟩, .panic .borrowed) := by
  have hinv := C17_inv regs
  rw [next_eq, hinv.vt, nextFrom_hit cast _ excl i w pre ty rest c hd hpre hc]
  have : Shred.tryBorrow c.borrow excl = none := by
    rcases hconf with h | ⟨h1, h2⟩
    · rw [h]; cases excl <;> rfl
    · subst h1
      cases hb : c.borrow with
      | free => exact absurd hb h2
      | shared n => rfl
      | excl => rfl
  simp [this]

/-- the kind of borrow: `iter` takes one more shared borrow, `iter_mut` the exclusive one -/
theorem C17_borrow_kind (b b' : Borrow) :
    (Shred.tryBorrow b false = some b' ↔
      (b = .free ∧ b' = .shared 1) ∨ ∃ n, b = .shared n ∧ b' = .shared (n + 1)) ∧
    (Shred.tryBorrow b true = some b' ↔ b = .free ∧ b' = .excl) := by
  cases b <;> simp [Shred.tryBorrow, eq_comm]

/-- dropping the item gives the borrow back: the cell returns to its previous state -/
theorem C17_release_item (w : MWorld) (ty : Nat) (c : MCell) (excl : Bool) (b' : Borrow)
    (hc : w.cell ty = some c) (hwf : c.borrow ≠ .shared 0)
    (hb : Shred.tryBorrow c.borrow excl = some b') (k : Nat) :
    ((w.set ty (some { c with borrow := b' })).release ty).cell k = w.cell k := by
  have hrel : MWorld.releaseBorrow b' = c.borrow := by
    cases hcb : c.borrow with
    | free => rw [hcb] at hb; cases excl <;> (cases hb; rfl)
    | excl => rw [hcb] at hb; cases excl <;> cases hb
    | shared n =>
      rw [hcb] at hb
      cases excl
      · cases hb
        cases n with
        | zero => exact absurd hcb hwf
        | succ m => rfl
      · cases hb
  unfold MWorld.release
  simp only [MWorld.set_cell, if_true]
  by_cases hk : k = ty
  · subst hk; simp [hrel, hc]
  · simp [hk]

/-! ## The whole iteration -/

/-- **iter_spec, any address-preserving cast.** Let any history of `register` calls build the
table, and let the world be such that every registered resource that is present can be borrowed in
the iterator's way (e.g. no guard alive) and has an address-preserving cast (whatever vtable it
attaches). Then running the iterator to the end ends with `None` — no panic — and

* the items are, in this order, what the casts of the first occurrences in `regs` of the types that
  are present produce on the addresses of their resources: each registered present type exactly once,
  none else, in first-registration order;
* every item has the address of the resource it was made from;
* afterwards exactly the cells of the registered present types carry one more borrow of the
  iterator's kind (shared for `iter`, exclusive for `iter_mut`), every other cell is untouched. -/
theorem C17_iter_spec_any_vtable (cast : CastFn) (regs : List Nat) (w : MWorld) (excl : Bool)
    (hok : ∀ ty ∈ regs, ∀ c, w.cell ty = some c →
      (Shred.tryBorrow c.borrow excl).isSome ∧ (cast ty c.addr).addr = c.addr) :
    let t := ({} : MetaTable).registerAll regs
    let r := t.collect cast w (t.iter excl)
    r.panic = none ∧
    r.items = ((firstOccs regs).filter w.present).map (fun ty => cast ty (addrOf w ty)) ∧
    r.items.map (·.addr) = ((firstOccs regs).filter w.present).map (addrOf w) ∧
    (∀ k, r.world.cell k =
      if k ∈ regs then (w.cell k).map (borrowCell excl) else w.cell k) := by
  intro t r
  have hinv : MetaInv t := C17_inv regs
  have htys : t.tys = firstOccs regs := C17_tys_first_registration regs
  have := collectN_spec cast t excl hinv.vt t.tys 0 w [] (t.tys.length + 1) (by simp) (by omega)
    hinv.nodup (fun ty hty => hok ty ((C17_registered_iff regs ty).mp hty))
  obtain ⟨h1, _, h3, h4⟩ := this
  have hr : r = collectN cast t excl (t.tys.length + 1) w 0 [] := rfl
  rw [hr]
  refine ⟨h1, ?_, ?_, ?_⟩
  · rw [h3, ← htys]; simp
  · rw [h3, ← htys]
    simp only [List.nil_append, List.map_map]
    apply List.map_congr_left
    intro ty hty
    obtain ⟨hmem, hpres⟩ := List.mem_filter.mp hty
    obtain ⟨c, hc⟩ := Option.isSome_iff_exists.mp (by simpa [MWorld.present] using hpres)
    have := (hok ty ((C17_registered_iff regs ty).mp hmem) c hc).2
    simp [addrOf, hc, this]
  · intro k
    rw [h4 k]
    have : k ∈ t.tys ↔ k ∈ regs := C17_registered_iff regs k
    by_cases hk : k ∈ regs
    · rw [if_pos hk, if_pos (this.mpr hk)]
    · rw [if_neg hk, if_neg (fun h => hk (this.mp h))]

/-- **iter_spec.** Let any history of `register` calls build the table, and let the world be such
that every registered resource that is present can be borrowed in the iterator's way (e.g. no
guard alive) and has a lawful cast (same address, vtable of the type it is the implementation
for). Then running the iterator to the end
(`for x in table.iter(&world)` keeping the items) ends with `None` — no panic — and

* the items are, in this order, the first occurrences in `regs` of the types that are present:
  each registered present type exactly once, none else, in first-registration order;
* every item has the address of the resource of its type and the vtable of that type;
* afterwards exactly the cells of the registered present types carry one more borrow of the
  iterator's kind (shared for `iter`, exclusive for `iter_mut`), every other cell is untouched. -/
theorem C17_iter_spec (cast : CastFn) (regs : List Nat) (w : MWorld) (excl : Bool)
    (hok : ∀ ty ∈ regs, ∀ c, w.cell ty = some c →
      (Shred.tryBorrow c.borrow excl).isSome ∧ cast ty c.addr = ⟨c.addr, ty⟩) :
    let t := ({} : MetaTable).registerAll regs
    let r := t.collect cast w (t.iter excl)
    r.panic = none ∧
    r.items.map (·.vtable) = (firstOccs regs).filter w.present ∧
    (∀ p ∈ r.items, p.addr = addrOf w p.vtable) ∧
    (∀ k, r.world.cell k =
      if k ∈ regs then (w.cell k).map (borrowCell excl) else w.cell k) := by
  intro t r
  have hok' : ∀ ty ∈ regs, ∀ c, w.cell ty = some c →
      (Shred.tryBorrow c.borrow excl).isSome ∧ (cast ty c.addr).addr = c.addr := by
    intro ty hty c hc
    obtain ⟨h1, h2⟩ := hok ty hty c hc
    exact ⟨h1, by rw [h2]⟩
  obtain ⟨h1, h2, _, h4⟩ := C17_iter_spec_any_vtable cast regs w excl hok'
  have hitem : ∀ ty ∈ (firstOccs regs).filter w.present, cast ty (addrOf w ty) = ⟨addrOf w ty, ty⟩ := by
    intro ty hty
    obtain ⟨hmem, hpres⟩ := List.mem_filter.mp hty
    obtain ⟨c, hc⟩ := Option.isSome_iff_exists.mp (by simpa [MWorld.present] using hpres)
    have := (hok ty ((mem_firstOccs regs ty).mp hmem) c hc).2
    simp [addrOf, hc, this]
  have hitems : r.items = ((firstOccs regs).filter w.present).map (fun ty => ⟨addrOf w ty, ty⟩) := by
    rw [h2]
    exact List.map_congr_left hitem
  refine ⟨h1, ?_, ?_, h4⟩
  · rw [hitems]; simp [List.map_map, Function.comp_def]
  · intro p hp
    rw [hitems] at hp
    simp only [List.mem_map] at hp
    obtain ⟨ty, _, rfl⟩ := hp
    rfl

/-- once each, whatever the number of registrations -/
theorem C17_iter_once_each (cast : CastFn) (regs : List Nat) (w : MWorld) (excl : Bool)
    (hok : ∀ ty ∈ regs, ∀ c, w.cell ty = some c →
      (Shred.tryBorrow c.borrow excl).isSome ∧ cast ty c.addr = ⟨c.addr, ty⟩) :
    let t := ({} : MetaTable).registerAll regs
    ((t.collect cast w (t.iter excl)).items.map (·.vtable)).Nodup ∧
    ∀ ty, ty ∈ (t.collect cast w (t.iter excl)).items.map (·.vtable) ↔
      ty ∈ regs ∧ w.present ty = true := by
  intro t
  have := (C17_iter_spec cast regs w excl hok).2.1
  rw [this]
  refine ⟨(nodup_firstOccs regs).filter _, ?_⟩
  intro ty
  simp [List.mem_filter, mem_firstOccs]

/-- the special case of the statement: a world without live guards, a correct `CastFrom` -/
theorem C17_iter_free_world (regs : List Nat) (w : MWorld) (excl : Bool)
    (hfree : ∀ ty c, w.cell ty = some c → c.borrow = .free) :
    let t := ({} : MetaTable).registerAll regs
    let r := t.collect lawfulCast w (t.iter excl)
    r.panic = none ∧ r.items.map (·.vtable) = (firstOccs regs).filter w.present ∧
    (∀ p ∈ r.items, p.addr = addrOf w p.vtable) ∧
    ∀ k c, w.cell k = some c → r.world.cell k =
      some { c with borrow := if k ∈ regs then (if excl then .excl else .shared 1) else .free } := by
  intro t r
  have hok : ∀ ty ∈ regs, ∀ c, w.cell ty = some c →
      (Shred.tryBorrow c.borrow excl).isSome ∧ lawfulCast ty c.addr = ⟨c.addr, ty⟩ := by
    intro ty _ c hc
    rw [hfree ty c hc]
    cases excl <;> exact ⟨rfl, rfl⟩
  obtain ⟨h1, h2, h3, h4⟩ := C17_iter_spec lawfulCast regs w excl hok
  refine ⟨h1, h2, h3, ?_⟩
  intro k c hc
  have hcb := hfree k c hc
  have hc' : c = { addr := c.addr, borrow := .free } := by cases c; simp_all
  rw [h4 k, hc]
  by_cases hk : k ∈ regs
  · rw [if_pos hk, if_pos hk, hc']
    cases excl <;> rfl
  · rw [if_neg hk, if_neg hk, hc']

/-- the number of `next` calls the model's `collect` allows is never the reason it stops -/
theorem C17_collect_fuel (cast : CastFn) (t : MetaTable) (w : MWorld) (excl : Bool) (i : Nat) :
    collectN cast t excl (t.tys.length + 2) w i [] = t.collect cast w ⟨i, excl⟩ :=
  collectN_fuel cast t excl (t.tys.length + 1) w i [] (by omega)

/-! ### Non-vacuity: a concrete history, world and both iterators -/

/-- types 3, 1, 2 registered (3 three times, 1 twice); 1, 2 and the unregistered 7 present -/
def exWorld : MWorld := ((MWorld.empty.insert 1 100).insert 2 200).insert 7 700

example : ∀ ty ∈ [3, 1, 3, 2, 1, 3], ∀ c, exWorld.cell ty = some c →
    (Shred.tryBorrow c.borrow false).isSome ∧ lawfulCast ty c.addr = ⟨c.addr, ty⟩ := by
  intro ty hty c hc
  simp only [List.mem_cons, List.not_mem_nil, or_false] at hty
  rcases hty with rfl | rfl | rfl | rfl | rfl | rfl <;>
    simp_all [exWorld, MWorld.insert, MWorld.set, MWorld.empty] <;> (subst hc; exact ⟨rfl, rfl⟩)

example :
    let t := ({} : MetaTable).registerAll [3, 1, 3, 2, 1, 3]
    (t.collect lawfulCast exWorld (t.iter false)).items = [⟨100, 1⟩, ⟨200, 2⟩] ∧
    (t.collect lawfulCast exWorld (t.iter false)).panic = none ∧
    ((t.collect lawfulCast exWorld (t.iter true)).world.cell 2) = some ⟨200, .excl⟩ ∧
    ((t.collect lawfulCast exWorld (t.iter true)).world.cell 7) = some ⟨700, .free⟩ := by
  decide

-- a fetched (shared) resource: `iter` passes, `iter_mut` panics at it, a wrong cast panics
example :
    let t := ({} : MetaTable).registerAll [3, 1, 3, 2, 1, 3]
    let w := (exWorld.acquire 2 false).1
    (t.collect lawfulCast w (t.iter false)).items = [⟨100, 1⟩, ⟨200, 2⟩] ∧
    (t.collect lawfulCast w (t.iter true)).items = [⟨100, 1⟩] ∧
    (t.collect lawfulCast w (t.iter true)).panic = some .borrowed ∧
    (t.collect (fun ty a => if ty = 1 then ⟨a + 8, ty⟩ else ⟨a, ty⟩) w (t.iter false)).panic = some .badCast ∧
    (t.collect (fun ty a => if ty = 1 then ⟨a + 8, ty⟩ else ⟨a, ty⟩) w (t.iter false)).items = [] := by
  decide

/-! ## The provided `Iterator` methods (`nth`, `skip`, `step_by`, `take`, `last`, `count`, `fold`, `for_each`, `collect`, `size_hint`)

`MetaIter` / `MetaIterMut` implement `next` only, so every other method is the default of
`core::iter::Iterator`, defined from `next` (`Model/Meta.lean`: `advanceBy`, `nth`, `adNext`,
`collectVia`, `lastVia`, `countVia`). Below, `L = ((firstOccs regs).drop i).filter w.present` is
the list of registered types from the cursor `i` on that are present, in first-registration order,
once each; `Usable` says that every registered present resource can be borrowed in the iterator's
way (e.g. no conflicting guard alive), has an address-preserving cast and a well-formed flag. -/

/-- hypothesis of the theorems about whole calls -/
def Usable (cast : CastFn) (regs : List Nat) (w : MWorld) (excl : Bool) : Prop :=
  ∀ ty ∈ regs, ∀ c, w.cell ty = some c →
    (Shred.tryBorrow c.borrow excl).isSome ∧ (cast ty c.addr).addr = c.addr ∧ c.borrow ≠ .shared 0

theorem C17_usable_drivable {cast : CastFn} {regs : List Nat} {w : MWorld} {excl : Bool}
    (h : Usable cast regs w excl) : Drivable cast (({} : MetaTable).registerAll regs) excl w :=
  fun ty hty c hc => h ty ((C17_registered_iff regs ty).mp hty) c hc

/-- a world without live guards is usable by both iterators under every address-preserving cast -/
theorem C17_usable_free (cast : CastFn) (regs : List Nat) (w : MWorld) (excl : Bool)
    (hfree : ∀ ty c, w.cell ty = some c → c.borrow = .free)
    (hcast : ∀ ty c, w.cell ty = some c → (cast ty c.addr).addr = c.addr) :
    Usable cast regs w excl := by
  intro ty _ c hc
  rw [hfree ty c hc]
  exact ⟨by cases excl <;> rfl, hcast ty c hc, by simp⟩

/-- **`nth(0)` is `next`** -/
theorem C17_nth_zero (cast : CastFn) (t : MetaTable) (w : MWorld) (it : MIter) :
    t.nth cast w it 0 = t.next cast w it := rfl

/-- **`nth(n)` is the `n`-th registered-and-present type from the cursor** (counting from 0), for
`iter` and `iter_mut`, from any cursor position `i`, after any history of registrations: it yields
the resource of `L[n]` (the pointer its own cast produced: the resource's address), only that cell
is borrowed afterwards — the `n` items dropped on the way gave their borrows back — and the
iterator goes on with `L[n+1..]`; if fewer than `n + 1` such types are left the answer is `None`,
no cell is changed and nothing is left. -/
theorem C17_nth_spec (cast : CastFn) (regs : List Nat) (w : MWorld) (i : Nat) (excl : Bool) (n : Nat)
    (hok : Usable cast regs w excl) :
    let t := ({} : MetaTable).registerAll regs
    let L := ((firstOccs regs).drop i).filter w.present
    match L[n]? with
    | some ty =>
      ∃ w' i', t.nth cast w ⟨i, excl⟩ n = (w', ⟨i', excl⟩, .item (cast ty (addrOf w ty))) ∧
        (cast ty (addrOf w ty)).addr = addrOf w ty ∧ ty ∈ regs ∧ w.present ty = true ∧
        ((firstOccs regs).drop i').filter w.present = L.drop (n + 1) ∧
        ∀ k, w'.cell k = if k = ty then (w.cell k).map (borrowCell excl) else w.cell k
    | none =>
      ∃ w' i', t.nth cast w ⟨i, excl⟩ n = (w', ⟨i', excl⟩, .none) ∧
        ((firstOccs regs).drop i').filter w.present = [] ∧ ∀ k, w'.cell k = w.cell k := by
  intro t L
  have hinv : MetaInv t := C17_inv regs
  have htys : t.tys = firstOccs regs := C17_tys_first_registration regs
  have hrem : ∀ j, remaining t w j = ((firstOccs regs).drop j).filter w.present := by
    intro j; unfold remaining; rw [htys]
  have hp := nth_pulled (cast := cast) hinv (C17_usable_drivable hok) (DInv.start t excl w i) n
  unfold Pulled at hp
  rw [hrem i] at hp
  cases hd : L.drop n with
  | nil =>
    have hnone : L[n]? = none := List.getElem?_eq_none_iff.mpr (List.drop_eq_nil_iff.mp hd)
    rw [hnone]
    change (match L.drop n with | ty :: L' => _ | [] => _) at hp
    rw [hd] at hp
    obtain ⟨w', i', h1, h2, h3⟩ := hp
    exact ⟨w', i', h1, by rw [← hrem i', h2], fun k => by rw [h3.cells k]; simp⟩
  | cons ty L' =>
    have hsome : L[n]? = some ty := by
      have : (L.drop n)[0]? = some ty := by rw [hd]; rfl
      rw [List.getElem?_drop] at this
      simpa using this
    have hL' : L.drop (n + 1) = L' := by
      have : L.drop (n + 1) = (L.drop n).drop 1 := by rw [List.drop_drop]
      rw [this, hd]; rfl
    rw [hsome]
    change (match L.drop n with | ty :: L' => _ | [] => _) at hp
    rw [hd] at hp
    obtain ⟨w', i', h1, _, h3, h4, _, h6⟩ := hp
    have hmemL : ty ∈ L := List.mem_of_getElem? hsome
    have hpres : w.present ty = true := (List.mem_filter.mp hmemL).2
    have hreg : ty ∈ regs := (C17_registered_iff regs ty).mp h6
    obtain ⟨c, hc⟩ := Option.isSome_iff_exists.mp (by simpa [MWorld.present] using hpres)
    refine ⟨w', i', h1, ?_, hreg, hpres, by rw [← hrem i', h3, hL'], ?_⟩
    · have := (hok ty hreg c hc).2.1
      simp [addrOf, hc, this]
    · intro k
      rw [h4.cells k]
      simp

/-- the same for lawful casts on a world without live guards (the statement's setting): the item
`nth(n)` yields has the address of the resource of the `n`-th registered-and-present type and the
methods of that type -/
theorem C17_nth_kth_present (regs : List Nat) (w : MWorld) (excl : Bool) (n : Nat)
    (hfree : ∀ ty c, w.cell ty = some c → c.borrow = .free) :
    let t := ({} : MetaTable).registerAll regs
    (t.nth lawfulCast w (t.iter excl) n).2.2 =
      match ((firstOccs regs).filter w.present)[n]? with
      | some ty => .item ⟨addrOf w ty, ty⟩
      | none => .none := by
  intro t
  have hok := C17_usable_free lawfulCast regs w excl hfree (fun _ _ _ => rfl)
  have := C17_nth_spec lawfulCast regs w 0 excl n hok
  simp only [List.drop_zero] at this
  cases h : ((firstOccs regs).filter w.present)[n]? with
  | none =>
    rw [h] at this
    obtain ⟨w', i', h1, _⟩ := this
    show (t.nth lawfulCast w ⟨0, excl⟩ n).2.2 = _
    rw [h1]
  | some ty =>
    rw [h] at this
    obtain ⟨w', i', h1, _⟩ := this
    show (t.nth lawfulCast w ⟨0, excl⟩ n).2.2 = _
    rw [h1]; rfl

/-- the default `nth` calls `next` for the elements it drops too: if the first registered present
type from the cursor cannot be borrowed in the iterator's way, `nth(n)` panics there for every `n`
and leaves the world as it was -/
theorem C17_nth_conflict_panics (cast : CastFn) (regs : List Nat) (w : MWorld) (i : Nat)
    (excl : Bool) (pre : List Nat) (ty : Nat) (rest : List Nat) (c : MCell) (n : Nat)
    (hd : (({} : MetaTable).registerAll regs).tys.drop i = pre ++ ty :: rest)
    (hpre : ∀ x ∈ pre, w.cell x = none) (hc : w.cell ty = some c)
    (hconf : c.borrow = .excl ∨ (excl = true ∧ c.borrow ≠ .free)) :
    (({} : MetaTable).registerAll regs).nth cast w ⟨i, excl⟩ n =
      (w, ⟨i + pre.length + 1, excl⟩, .panic .borrowed) := by
  have h := C17_next_conflict_panics cast regs w i excl pre ty rest c hd hpre hc hconf
  cases n with
  | zero => exact h
  | succ n => simp only [MetaTable.nth, advanceBy, h]

/-- **Whole iterations through an adapter** (`ad` = the iterator itself / `skip(n)` / `step_by(s)`
/ `take(n)`, on the iterator or on `by_ref()` of it), consumed by `collect` / `for_each` / `fold`
keeping every item: no panic; the items are, in order, the resources of `sel ad L` — all of `L`,
`L` without its first `n`, the first and then every `s`-th of `L`, the first `n` of `L` —, each the
pointer its own cast produced on the resource's address; exactly their cells carry one more borrow
of the iterator's kind (the items dropped on the way gave theirs back); and the iterator is left
with `adRest ad L` (nothing, or `L` without its first `n` after `take(n)`). -/
theorem C17_collect_via_spec (cast : CastFn) (regs : List Nat) (w : MWorld) (i : Nat) (excl : Bool)
    (ad : Adapter) (hok : Usable cast regs w excl) :
    let t := ({} : MetaTable).registerAll regs
    let L := ((firstOccs regs).drop i).filter w.present
    let r := collectVia cast t excl (t.tys.length + 1) ad w i []
    r.panic = none ∧
    r.kept = (sel ad L).map (fun ty => (ty, cast ty (addrOf w ty))) ∧
    (∀ e ∈ r.kept, e.2.addr = addrOf w e.1) ∧
    r.seen = (sel ad L).length ∧
    (∀ k, r.world.cell k = if k ∈ sel ad L then (w.cell k).map (borrowCell excl) else w.cell k) ∧
    ((firstOccs regs).drop r.index).filter w.present = adRest ad L := by
  intro t L r
  have hinv : MetaInv t := C17_inv regs
  have htys : t.tys = firstOccs regs := C17_tys_first_registration regs
  have hrem : ∀ j, remaining t w j = ((firstOccs regs).drop j).filter w.present := by
    intro j; unfold remaining; rw [htys]
  have hlen : (remaining t w i).length < t.tys.length + 1 := by
    unfold remaining
    have h1 := List.length_filter_le w.present (t.tys.drop i)
    have h2 : (t.tys.drop i).length ≤ t.tys.length := by simp
    omega
  obtain ⟨h1, h2, h3, h4, h5⟩ := collectVia_drive (cast := cast) hinv (C17_usable_drivable hok)
    (t.tys.length + 1) ad w i [] (by simpa using DInv.start t excl w i) hlen
  rw [hrem i] at h2 h5
  have hkept : r.kept = (sel ad L).map (fun ty => (ty, cast ty (addrOf w ty))) := by
    rw [show r.kept = _ from h2]; rfl
  have hsub : ∀ ty ∈ sel ad L, ty ∈ L := by
    intro ty hty
    cases ad with
    | plain => exact hty
    | skip n => exact List.mem_of_mem_drop hty
    | take n => exact List.mem_of_mem_take hty
    | stepBy s first =>
      have key : ∀ (c : Nat) (M : List Nat), ty ∈ stepSel s c M → ty ∈ M := by
        intro c M
        induction M generalizing c with
        | nil => simp [stepSel]
        | cons x xs ih =>
          cases c with
          | zero =>
            simp only [stepSel, List.mem_cons]
            rintro (h | h)
            · exact Or.inl h
            · exact Or.inr (ih s h)
          | succ c =>
            simp only [stepSel, List.mem_cons]
            intro h; exact Or.inr (ih c h)
      exact key _ L hty
  refine ⟨h1, hkept, ?_, ?_, ?_, by rw [← hrem r.index]; exact h5⟩
  · intro e he
    rw [hkept] at he
    obtain ⟨ty, hty, rfl⟩ := List.mem_map.mp he
    have hmem := List.mem_filter.mp (hsub ty hty)
    have hreg : ty ∈ regs := (mem_firstOccs regs ty).mp (List.mem_of_mem_drop hmem.1)
    obtain ⟨c, hc⟩ := Option.isSome_iff_exists.mp (by simpa [MWorld.present] using hmem.2)
    have := (hok ty hreg c hc).2.1
    simp [addrOf, hc, this]
  · rw [h3, hkept]; simp
  · intro k
    rw [h4.cells k, hkept]
    simp [List.map_map, Function.comp_def]

/-- `skip(n)`: `L` without its first `n` -/
theorem C17_skip_spec (L : List Nat) (n : Nat) : sel (.skip n) L = L.drop n := rfl
/-- `take(n)`: the first `n` of `L`; the iterator is left with the others -/
theorem C17_take_spec (L : List Nat) (n : Nat) :
    sel (.take n) L = L.take n ∧ adRest (.take n) L = L.drop n := ⟨rfl, rfl⟩
/-- `step_by(s + 1)`: the first of `L`, then every `(s + 1)`-th -/
theorem C17_step_by_spec (L : List Nat) (s : Nat) :
    sel (.stepBy s true) L = stepSel s 0 L ∧
    (∀ x xs, stepSel s 0 (x :: xs) = x :: stepSel s 0 (xs.drop s)) ∧ stepSel s 0 [] = [] := by
  refine ⟨rfl, ?_, rfl⟩
  intro x xs
  show x :: stepSel s s xs = _
  rw [stepSel_drop]

/-- **`last()`** through an adapter: no panic; the item alive afterwards is the resource of the
last type of `sel ad L` (`None` if there is none); only its cell is borrowed — every other item
was dropped on the way. -/
theorem C17_last_spec (cast : CastFn) (regs : List Nat) (w : MWorld) (i : Nat) (excl : Bool)
    (ad : Adapter) (hok : Usable cast regs w excl) :
    let t := ({} : MetaTable).registerAll regs
    let L := ((firstOccs regs).drop i).filter w.present
    let r := lastVia cast t excl (t.tys.length + 1) ad w i none 0
    r.panic = none ∧
    r.kept = ((sel ad L).getLast?.map (fun ty => (ty, cast ty (addrOf w ty)))).toList ∧
    r.seen = (sel ad L).length ∧
    (∀ k, r.world.cell k =
      if (sel ad L).getLast? = some k then (w.cell k).map (borrowCell excl) else w.cell k) := by
  intro t L r
  have hinv : MetaInv t := C17_inv regs
  have htys : t.tys = firstOccs regs := C17_tys_first_registration regs
  have hrem : ∀ j, remaining t w j = ((firstOccs regs).drop j).filter w.present := by
    intro j; unfold remaining; rw [htys]
  have hlen : (remaining t w i).length < t.tys.length + 1 := by
    unfold remaining
    have h1 := List.length_filter_le w.present (t.tys.drop i)
    have h2 : (t.tys.drop i).length ≤ t.tys.length := by simp
    omega
  obtain ⟨h1, h2, h3, h4, _⟩ := lastVia_drive (cast := cast) hinv (C17_usable_drivable hok)
    (t.tys.length + 1) ad w i none 0 (by simpa using DInv.start t excl w i) hlen
  rw [hrem i] at h2 h3
  have hkept : r.kept = ((sel ad L).getLast?.map (fun ty => (ty, cast ty (addrOf w ty)))).toList := by
    rw [show r.kept = _ from h2]
    cases (sel ad L).getLast? <;> simp [itemOf]
  refine ⟨h1, hkept, by simpa using h3, ?_⟩
  intro k
  rw [h4.cells k, hkept]
  cases hl : (sel ad L).getLast? with
  | none => simp
  | some ty =>
    by_cases hk : ty = k
    · simp [hk]
    · have hk' : k ≠ ty := fun e => hk e.symm
      simp [hk, hk']

/-- **`count()`** through an adapter: no panic; the number of types in `sel ad L`; no item is
alive and every cell is as before. -/
theorem C17_count_spec (cast : CastFn) (regs : List Nat) (w : MWorld) (i : Nat) (excl : Bool)
    (ad : Adapter) (hok : Usable cast regs w excl) :
    let t := ({} : MetaTable).registerAll regs
    let L := ((firstOccs regs).drop i).filter w.present
    let r := countVia cast t excl (t.tys.length + 1) ad w i 0
    r.panic = none ∧ r.kept = [] ∧ r.seen = (sel ad L).length ∧ ∀ k, r.world.cell k = w.cell k := by
  intro t L r
  have hinv : MetaInv t := C17_inv regs
  have htys : t.tys = firstOccs regs := C17_tys_first_registration regs
  have hrem : ∀ j, remaining t w j = ((firstOccs regs).drop j).filter w.present := by
    intro j; unfold remaining; rw [htys]
  have hlen : (remaining t w i).length < t.tys.length + 1 := by
    unfold remaining
    have h1 := List.length_filter_le w.present (t.tys.drop i)
    have h2 : (t.tys.drop i).length ≤ t.tys.length := by simp
    omega
  obtain ⟨h1, h2, h3, h4, _⟩ := countVia_drive (cast := cast) hinv (C17_usable_drivable hok)
    (t.tys.length + 1) ad w i 0 (DInv.start t excl w i) hlen
  rw [hrem i] at h3
  exact ⟨h1, h2, by simpa using h3, fun k => by rw [h4.cells k]; simp⟩

/-- **`size_hint`** (the default, `(0, None)`) is a valid bound for any number of items that
follow -/
theorem C17_size_hint_valid (t : MetaTable) (it : MIter) (n : Nat) :
    (t.sizeHint it).1 ≤ n ∧ ∀ h, (t.sizeHint it).2 = some h → n ≤ h := by
  refine ⟨Nat.zero_le n, ?_⟩
  intro h hh
  cases hh

/-! ### Non-vacuity: the provided methods on the concrete history and world above -/

-- `exWorld` is usable by both iterators under the lawful cast
example : Usable lawfulCast [3, 1, 3, 2, 1, 3] exWorld false ∧ Usable lawfulCast [3, 1, 3, 2, 1, 3] exWorld true := by
  constructor <;>
  · apply C17_usable_free
    · intro ty c hc
      simp only [exWorld, MWorld.insert, MWorld.set, MWorld.empty] at hc
      split at hc
      · cases hc; rfl
      · split at hc
        · cases hc; rfl
        · split at hc
          · cases hc; rfl
          · cases hc
    · intro _ _ _; rfl

-- types 3, 1, 2, 5, 7 registered (first-registration order), 1, 2 and 7 present: L = [1, 2, 7]
example :
    let t := ({} : MetaTable).registerAll [3, 1, 3, 2, 5, 1, 7]
    -- nth(1) is the second registered-and-present type, not the second registered one; only its
    -- cell is borrowed; then the iterator goes on behind it
    (t.nth lawfulCast exWorld (t.iter false) 1).2.2 = .item ⟨200, 2⟩ ∧
    (t.nth lawfulCast exWorld (t.iter true) 1).1.cell 1 = some ⟨100, .free⟩ ∧
    (t.nth lawfulCast exWorld (t.iter true) 1).1.cell 2 = some ⟨200, .excl⟩ ∧
    (t.nth lawfulCast exWorld (t.iter false) 2).2.2 = .item ⟨700, 7⟩ ∧
    (t.nth lawfulCast exWorld (t.iter false) 3).2.2 = .none ∧
    (t.next lawfulCast exWorld (t.nth lawfulCast exWorld (t.iter false) 1).2.1).2.2 = .item ⟨700, 7⟩ ∧
    -- skip(1), step_by(2), take(2), last, count
    (collectVia lawfulCast t false 6 (.skip 1) exWorld 0 []).kept.map (·.1) = [2, 7] ∧
    (collectVia lawfulCast t false 6 (.stepBy 1 true) exWorld 0 []).kept.map (·.1) = [1, 7] ∧
    (collectVia lawfulCast t true 6 (.take 2) exWorld 0 []).kept.map (·.1) = [1, 2] ∧
    (collectVia lawfulCast t true 6 (.take 2) exWorld 0 []).index = 3 ∧
    (lastVia lawfulCast t true 6 .plain exWorld 0 none 0).kept = [(7, ⟨700, 7⟩)] ∧
    (lastVia lawfulCast t true 6 .plain exWorld 0 none 0).world.cell 2 = some ⟨200, .free⟩ ∧
    (countVia lawfulCast t true 6 (.skip 1) exWorld 0 0).seen = 2 := by
  decide

-- `iter().zip(iter())`: legal, every cell shared twice; `iter_mut().zip(iter())` panics at once
-- and leaves nothing behind (`x` is dropped by the unwinding)
example :
    let t := ({} : MetaTable).registerAll [3, 1, 3, 2, 5, 1, 7]
    (zipN lawfulCast t false false 6 exWorld 0 0 []).pairs.map (fun p => (p.1.1, p.2.1)) = [(1, 1), (2, 2), (7, 7)] ∧
    (zipN lawfulCast t false false 6 exWorld 0 0 []).world.cell 2 = some ⟨200, .shared 2⟩ ∧
    (zipN lawfulCast t true false 6 exWorld 0 0 []).panic = some .borrowed ∧
    (zipN lawfulCast t true false 6 exWorld 0 0 []).pairs = [] ∧
    (zipN lawfulCast t true false 6 exWorld 0 0 []).world.cell 1 = some ⟨100, .free⟩ := by
  decide

-- a conflicting guard in the skipped range: the default `nth` panics there
example :
    let t := ({} : MetaTable).registerAll [3, 1, 3, 2, 5, 1, 7]
    (t.nth lawfulCast (exWorld.acquire 1 true).1 (t.iter false) 1).2.2 = .panic .borrowed := by
  decide

#print axioms C17_inv
#print axioms C17_inv_step
#print axioms C17_register_in_bounds
#print axioms C17_tys_first_registration
#print axioms C17_registered_iff
#print axioms C17_register_idem
#print axioms C17_get_spec
#print axioms C17_get_some_iff
#print axioms C17_get_some_same_address
#print axioms C17_get_none_iff
#print axioms C17_getMut_spec
#print axioms C17_bad_cast_panics_get
#print axioms C17_check_at_every_use
#print axioms C17_get_same_address_other_vtable
#print axioms C17_next_spec
#print axioms C17_next_in_bounds
#print axioms C17_next_item_same_address
#print axioms C17_bad_cast_panics_next
#print axioms C17_next_conflict_panics
#print axioms C17_borrow_kind
#print axioms C17_release_item
#print axioms C17_iter_spec_any_vtable
#print axioms C17_iter_spec
#print axioms C17_iter_once_each
#print axioms C17_iter_free_world
#print axioms C17_collect_fuel
#print axioms C17_usable_drivable
#print axioms C17_usable_free
#print axioms C17_nth_zero
#print axioms C17_nth_spec
#print axioms C17_nth_kth_present
#print axioms C17_nth_conflict_panics
#print axioms C17_collect_via_spec
#print axioms C17_skip_spec
#print axioms C17_take_spec
#print axioms C17_step_by_spec
#print axioms C17_last_spec
#print axioms C17_count_spec
#print axioms C17_size_hint_valid
end Meta
end Shred
