import ShredModel.Lemmas.WorldSpec
import ShredModel.Lemmas.CellWord
/-!
# C08 — World borrows: shared xor exclusive, violations panic, drops release

Statements are about `World.step` / `World.run` of `Model/World.lean` — the functions the
driver executes. `&mut World` operations are quantified over under the hypothesis Rust's borrow
checker enforces: no guard is alive (`World.Legal`).

*The clause "from many threads concurrently".* Every cell operation of `atomic_refcell` 0.1.14
(`try_borrow`, `try_borrow_mut`, a guard's `drop`) is one atomic read-modify-write (or store) on
the cell's borrow word, decided on the value that operation itself returns
(`Model/CellWord.lean` transcribes the four of them). Operations on one atomic location are
totally ordered, so whatever any number of threads do to a cell is *a sequence* of these steps;
`any_interleaving` (below) shows that every sequence answers exactly what the abstract borrow
state of `Model/World.lean` answers and leaves a word that stands for that state. The theorems
of this file about all legal histories therefore cover all interleavings. The transcription is
compared with the real cell — answer *and raw borrow word* after every step of random
sequential histories (engine `cellword`). Assumed, not proved:
single-location coherence of atomics, and that
the two overflow paths of `check_overflow` (2^63 live shared guards, 2^62 refused attempts
during one exclusive borrow) are not reached.
-/
namespace Shred
namespace C08
open World

/-- the invariant in the words of the property: each resource is exclusively borrowed by exactly
one live guard, or shared by exactly its `n > 0` live shared guards, or unborrowed with none. -/
theorem inv_iff (w : World) :
    Inv w ↔ ∀ r,
      (∃ c, w.get r = some c ∧ c.borrow = .excl ∧ w.nLive r true = 1 ∧ w.nLive r false = 0) ∨
      (∃ c n, w.get r = some c ∧ c.borrow = .shared n ∧ 0 < n ∧ w.nLive r false = n ∧ w.nLive r true = 0) ∨
      ((w.get r = none ∨ ∃ c, w.get r = some c ∧ c.borrow = .free) ∧ w.nLive r false = 0 ∧ w.nLive r true = 0) := by
  constructor
  · intro hw r
    have := hw r
    cases hc : w.get r with
    | none =>
      rw [hc] at this; simp only [Option.map_none, BorrowOk] at this
      exact Or.inr (Or.inr ⟨Or.inl rfl, this.1, this.2⟩)
    | some c =>
      rw [hc] at this; simp only [Option.map_some] at this
      cases hb : c.borrow with
      | free =>
        rw [hb] at this; simp only [BorrowOk] at this
        exact Or.inr (Or.inr ⟨Or.inr ⟨c, rfl, hb⟩, this.1, this.2⟩)
      | shared n =>
        rw [hb] at this; simp only [BorrowOk] at this
        exact Or.inr (Or.inl ⟨c, n, rfl, hb, this.1, this.2.1, this.2.2⟩)
      | excl =>
        rw [hb] at this; simp only [BorrowOk] at this
        exact Or.inl ⟨c, rfl, hb, this.2, this.1⟩
  · intro h r
    rcases h r with ⟨c, hc, hb, h1, h2⟩ | ⟨c, n, hc, hb, hn, h1, h2⟩ | ⟨hc | ⟨c, hc, hb⟩, h1, h2⟩
    · rw [hc]; simp only [Option.map_some, hb, BorrowOk]; exact ⟨h2, h1⟩
    · rw [hc]; simp only [Option.map_some, hb, BorrowOk]; exact ⟨hn, h1, h2⟩
    · rw [hc]; simp only [Option.map_none, BorrowOk]; exact ⟨h1, h2⟩
    · rw [hc]; simp only [Option.map_some, hb, BorrowOk]; exact ⟨h1, h2⟩

/-- under the invariant no two incompatible guards are alive: at most one exclusive guard per
resource, and never together with a shared one -/
theorem no_aliasing {w : World} (hw : Inv w) (r : ResId) :
    w.nLive r true ≤ 1 ∧ (0 < w.nLive r true → w.nLive r false = 0) := by
  rcases (inv_iff w).mp hw r with ⟨_, _, _, h1, h2⟩ | ⟨_, _, _, _, _, _, h2⟩ | ⟨_, _, h2⟩ <;> omega

/-- **`step_preserves_inv`**: every operation — the six fetches, `system_data`, a step of either
meta-table iterator, guard clone, guard drop, and every `&mut` operation issued with no live
guard — preserves the invariant (and the freshness of handles). -/
theorem step_preserves_inv {w : World} (hw : Inv w) (hh : HandlesOk w) (op : Op)
    (hl : op.isMut = true → w.guards = []) : Inv (w.step op).1 ∧ HandlesOk (w.step op).1 :=
  ⟨step_inv hw op hl, step_handles hh hw op hl⟩

/-- lifted to every history, from any good world … -/
theorem history_preserves_inv {w : World} (hw : Inv w) (hh : HandlesOk w) (ops : List Op) (hl : Legal w ops) :
    Inv (w.run ops) ∧ HandlesOk (w.run ops) := run_inv hw hh ops hl

/-- … in particular from the empty world: **at every instant** of every history each resource is
unborrowed, shared by `n` guards, or borrowed by exactly one exclusive guard. -/
theorem every_history (ops : List Op) (hl : Legal {} ops) : Inv (run {} ops) ∧ HandlesOk (run {} ops) :=
  run_inv inv_empty handles_empty ops hl

/-- how the public fetches use the common core (type assertion first for the by-id forms) -/
theorem entry_points (w : World) (ty a : Nat) (k : ResId) :
    w.step (.fetch ty) = w.fetchCore ⟨ty, 0⟩ false .typed true ∧
    w.step (.fetchMut ty) = w.fetchCore ⟨ty, 0⟩ true .typed true ∧
    w.step (.tryFetch ty) = w.fetchCore ⟨ty, 0⟩ false .typed false ∧
    w.step (.tryFetchMut ty) = w.fetchCore ⟨ty, 0⟩ true .typed false ∧
    w.step (.tryFetchById a k) = (if a ≠ k.ty then (w, .panic .wrongType) else w.fetchCore k false .byId false) ∧
    w.step (.tryFetchMutById a k) = (if a ≠ k.ty then (w, .panic .wrongType) else w.fetchCore k true .byId false) :=
  ⟨rfl, rfl, rfl, rfl, rfl, rfl⟩

/-- **`outcome_spec`** for every fetch (`orPanic` = the non-`try_` forms): the answer is `None`
iff the resource is absent (and the form is a `try_` one); the "does not exist" panic iff it is
absent and the form is not; a borrow panic iff it is present and an incompatible guard is alive
(an exclusive one, or — for an exclusive request — any); a fresh guard showing the stored value
in every other case. In particular an aliasing guard is never returned. -/
theorem outcome_spec {w : World} (hw : Inv w) (k : ResId) (excl : Bool) (f : Form) (orPanic : Bool) :
    let o := (w.fetchCore k excl f orPanic).2
    (o = .none ↔ w.get k = none ∧ orPanic = false) ∧
    (o = .panic .absent ↔ w.get k = none ∧ orPanic = true) ∧
    ((∃ p, o = .panic p ∧ p ≠ .absent) ↔
        (w.get k).isSome ∧ (0 < w.nLive k true ∨ (excl = true ∧ 0 < w.nLive k false))) ∧
    ((∃ h t, o = .guard h t) ↔
        (w.get k).isSome ∧ w.nLive k true = 0 ∧ (excl = true → w.nLive k false = 0)) ∧
    (∀ h t, o = .guard h t → h = w.nextHandle ∧ (w.get k).map (·.token) = some t) := by
  intro o
  have ho : o = _ := fetchCore_out w k excl f orPanic
  cases hk : w.get k with
  | none =>
    rw [hk] at ho
    cases orPanic <;> simp at ho <;> simp [ho]
  | some c =>
    rw [hk] at ho
    have hcg := compatible_iff_guards hw hk excl
    by_cases hb : tryBorrow c.borrow excl = none
    · have hnc := (tryBorrow_none_iff _ _).mp hb
      rw [hcg] at hnc
      simp only [hb, if_true] at ho
      have hne := borrowPanic_ne_absent f c.borrow excl
      refine ⟨by simp [ho], by simp [ho, hne], ?_, ?_, by simp [ho]⟩
      · simp only [ho, Option.isSome_some, true_and]
        constructor
        · intro _
          cases excl <;> simp at hnc ⊢ <;> omega
        · intro _; exact ⟨_, rfl, hne⟩
      · simp only [ho, Option.isSome_some, true_and]
        constructor
        · rintro ⟨_, _, h⟩; cases h
        · intro h; exact absurd h hnc
    · have hc := Classical.not_not.mp (mt (tryBorrow_none_iff _ _).mpr hb)
      rw [hcg] at hc
      simp only [hb, if_false] at ho
      refine ⟨by simp [ho], by simp [ho], ?_, ?_, ?_⟩
      · simp only [ho, Option.isSome_some, true_and]
        constructor
        · rintro ⟨_, h, _⟩; cases h
        · intro h
          cases excl <;> simp at hc h <;> omega
      · simp only [ho, Option.isSome_some, true_and]
        exact ⟨fun _ => hc, fun _ => ⟨_, _, rfl⟩⟩
      · intro h t e
        rw [ho] at e; cases e
        exact ⟨rfl, rfl⟩

/-- a step of a meta-table iterator skips the registered types whose resource is absent and
fetches the first present one by `borrow()` / `borrow_mut()`; `None` iff none is left -/
theorem meta_next_spec (w : World) (tys : List Nat) (idx : Nat) (excl : Bool) :
    ((w.metaNext tys idx excl).1 = w ∧ (w.metaNext tys idx excl).2.1 = .none ∧
        ∀ ty ∈ tys.drop idx, w.get ⟨ty, 0⟩ = none) ∨
    (∃ pre ty post, tys.drop idx = pre ++ ty :: post ∧ (∀ t ∈ pre, w.get ⟨t, 0⟩ = none) ∧
      (w.get ⟨ty, 0⟩).isSome ∧
      (w.metaNext tys idx excl).1 = (w.fetchCore ⟨ty, 0⟩ excl .byId false).1 ∧
      (w.metaNext tys idx excl).2.1 = (w.fetchCore ⟨ty, 0⟩ excl .byId false).2 ∧
      (w.metaNext tys idx excl).2.2 = idx + pre.length + 1) :=
  metaScan_cases w excl (tys.drop idx) idx

/-- cloning a live shared guard always succeeds and is one more shared borrow of the same cell -/
theorem clone_spec {w : World} (hw : Inv w) {h : Nat} {g : Guard} (hf : findGuard h w.guards = some g)
    (hs : g.excl = false) :
    w.step (.clone h) = w.fetchCore g.key false .byId false ∧
    ∃ t, (w.step (.clone h)).2 = .guard w.nextHandle t := by
  have he : w.step (.clone h) = w.fetchCore g.key false .byId false := by
    simp [step, cloneGuard, hf, hs]
  refine ⟨he, ?_⟩
  rw [he]
  have hmem : g ∈ w.guards.map (·.2) := List.mem_map.mpr ⟨(h, g), findGuard_mem hf, rfl⟩
  have hpos : 0 < w.nLive g.key false := by
    have : g = ⟨g.key, false⟩ := by cases g; simp_all
    unfold World.nLive; rw [← this]; exact List.count_pos_iff.mpr hmem
  have hna := no_aliasing hw g.key
  have hx : w.nLive g.key true = 0 := by
    cases hn : w.nLive g.key true with
    | zero => rfl
    | succ n => have := hna.2 (by omega); omega
  have hpres : (w.get g.key).isSome := by
    cases hk : w.get g.key with
    | some c => rfl
    | none =>
      have := hw g.key
      rw [hk] at this; simp only [Option.map_none, BorrowOk] at this; omega
  obtain ⟨h', t, e⟩ := ((outcome_spec hw g.key false .byId false).2.2.2.1).mpr ⟨hpres, hx, by simp⟩
  have := ((outcome_spec hw g.key false .byId false).2.2.2.2) h' t e
  exact ⟨t, by rw [e, this.1]⟩

/-- **`panic_frame`**: an operation that panics leaves every cell and every existing guard
exactly as it was; for the composite `system_data` this is *after unwinding* — the guards taken
for earlier fields have been released again. -/
theorem panic_frame {w : World} (hw : Inv w) (hh : HandlesOk w) (op : Op) (p : WPanic)
    (hne : ∀ items toks, op ≠ .exec items toks ∧ op ≠ .execFault items toks) (hp : (w.step op).2 = .panic p) :
    (w.step op).1.cells = w.cells ∧ (w.step op).1.guards = w.guards :=
  step_panic_frame hw hh op p hne hp

/-- `exec` is `setup` then fetch: a panic of the fetch leaves the world as `setup` made it (the
same for `exec` with a closure that would panic: `exec_closure_panics`) -/
theorem panic_frame_exec {w : World} (hw : Inv w) (hg : w.guards = []) (items : List SdItem) (toks : List Nat)
    (p : WPanic) (hp : (w.step (.exec items toks)).2 = .panic p) :
    (w.step (.exec items toks)).1.cells = (w.setup items toks).1.cells ∧
    (w.step (.exec items toks)).1.guards = [] :=
  exec_panic_frame hw hg items toks p hp

/-- **`drop_exact`**: dropping the live guard `h` on `(k, kind)` removes `h` from the guard table,
leaves every other cell alone, keeps the type and value of `k`'s cell, and lowers `k`'s counter
by exactly that guard's contribution: exclusive → free; shared `n+1` → shared `n` (free for
`n = 0`). The numbers of live guards change for `(k, kind)` only, by one. -/
theorem drop_exact {w : World} (hw : Inv w) {h : Nat} {g : Guard} (hf : findGuard h w.guards = some g) :
    (w.step (.drop h)).1.guards = dropGuard h w.guards ∧
    (∀ r, r ≠ g.key → (w.step (.drop h)).1.get r = w.get r) ∧
    (∃ c, w.get g.key = some c ∧
        (w.step (.drop h)).1.get g.key = some { c with borrow := releaseBorrow c.borrow g.excl } ∧
        (g.excl = true → c.borrow = .excl ∧ releaseBorrow c.borrow g.excl = .free) ∧
        (g.excl = false → ∃ n, c.borrow = .shared (n + 1) ∧
            releaseBorrow c.borrow g.excl = if n = 0 then .free else .shared n)) ∧
    (w.step (.drop h)).1.nLive g.key g.excl + 1 = w.nLive g.key g.excl ∧
    (∀ r x, (r, x) ≠ (g.key, g.excl) → (w.step (.drop h)).1.nLive r x = w.nLive r x) :=
  release_exact hw hf

/-- dropping a handle that is not alive does nothing -/
theorem drop_dead {w : World} {h : Nat} (hf : findGuard h w.guards = none) : (w.step (.drop h)).1 = w :=
  release_dead hf

/-! ## unwinding through guards

A closure run under `catch_unwind` takes guards of any kind in any order (`Take`: the four typed
fetches, the two by-id fetches, a system-data tuple with `Read` / `Write` / `Option` fields, steps of
its own meta-table iterators, clones of its own or of outer guards) and ends by returning, by its own
`panic!()`, or because one of its fetches was refused after others had succeeded. -/

/-- **`scope_frame`** — *unwinding through a guard releases exactly that borrow*: however the
closure ends, afterwards every cell has the borrow state it had before, and the guards alive outside
the closure are exactly the ones that were alive before — nothing the closure took is still
borrowed, nothing it did not take was released. -/
theorem scope_frame {w : World} (hw : Inv w) (hh : HandlesOk w) (tys : List Nat) (takes : List Take) (e : Bool) :
    (w.step (.scope tys takes e)).1.cells = w.cells ∧ (w.step (.scope tys takes e)).1.guards = w.guards :=
  Shred.scope_frame hw hh tys takes e

/-- in particular every resource is borrowed exactly as before, by exactly the same guards -/
theorem scope_restores {w : World} (hw : Inv w) (hh : HandlesOk w) (tys : List Nat) (takes : List Take) (e : Bool)
    (r : ResId) (x : Bool) :
    (w.step (.scope tys takes e)).1.get r = w.get r ∧ (w.step (.scope tys takes e)).1.nLive r x = w.nLive r x := by
  obtain ⟨h1, h2⟩ := scope_frame hw hh tys takes e
  exact ⟨by rw [get_def, h1, ← get_def], by unfold World.nLive; rw [h2]⟩

/-- unwinding releases what a normal return releases: the world after the closure does not depend
on whether it panicked at its end or returned -/
theorem unwind_eq_return (w : World) (tys : List Nat) (takes : List Take) :
    (w.step (.scope tys takes true)).1 = (w.step (.scope tys takes false)).1 := rfl

/-- the closure's answer: what its guards showed, and `refused p` iff one of its fetches panicked
with `p` (then the remaining ones were not attempted), else `panicked` / `returned` as it chose -/
theorem scope_out (w : World) (tys : List Nat) (takes : List Take) (e : Bool) :
    (w.step (.scope tys takes e)).2 =
      .scopeDone (scopeBody tys takes w 0 0 []).2.2.1
        (match (scopeBody tys takes w 0 0 []).2.2.2 with
          | some p => .refused p
          | none => if e then .panicked else .returned) := rfl

/-- every acquisition inside a closure is one of the `&self` operations of `outcome_spec` /
`meta_next_spec` / `clone_spec` (so a refusal inside a closure is a refusal by those rules) -/
theorem take_is_step (w : World) (tys : List Nat) (ri wi : Nat) (prior : List Nat) (t : Take)
    (hc : ∀ i, t = .cloneLocal i → i < prior.length) :
    t.run w tys ri wi prior = w.step (t.toOp tys ri wi prior) ∧ (t.toOp tys ri wi prior).isMut = false := by
  cases t with
  | fetch ty excl orPanic => cases excl <;> cases orPanic <;> exact ⟨rfl, rfl⟩
  | byId a k excl => cases excl <;> exact ⟨rfl, rfl⟩
  | data items => exact ⟨rfl, rfl⟩
  | iter excl => exact ⟨rfl, rfl⟩
  | cloneLocal i =>
    have hi := hc i rfl
    simp only [Take.run, Take.toOp]
    rw [List.getElem?_eq_getElem hi]
    exact ⟨rfl, rfl⟩
  | cloneOuter h => exact ⟨rfl, rfl⟩

/-- the guard `entry()…` returns keeps `&mut World` borrowed; if the caller panics while holding
it, unwinding releases it: the world is the one after the plain `entry` call, no guard is alive -/
theorem entry_guard_unwinds {w : World} (hw : Inv w) (hg : w.guards = []) (ty t : Nat) (bv : Bool) :
    (w.step (.entryFault ty t (.guardHeld bv))).1 = (w.step (.entry ty t bv)).1 ∧
    (w.step (.entryFault ty t (.guardHeld bv))).1.guards = [] ∧
    (w.step (.entryFault ty t (.guardHeld bv))).2 = .unwound .closure :=
  ⟨entryFault_guardHeld_fst w ty t bv, (entryFault_inv hw hg ty t (.guardHeld bv)).2,
   entryFault_guardHeld_out hw hg ty t bv⟩

/-- `exec(f)` with an `f` that panics while it holds the data: the world is the one after the plain
`exec`; the answer is the refusal of the fetch if there was one, else the closure's panic -/
theorem exec_closure_panics (w : World) (items : List SdItem) (toks : List Nat) :
    (w.step (.execFault items toks)).1 = (w.step (.exec items toks)).1 ∧
    (((w.step (.execFault items toks)).2 = .unwound .closure ∧ ∃ fs, (w.step (.exec items toks)).2 = .data fs) ∨
     (∃ p, (w.step (.execFault items toks)).2 = .panic p ∧ (w.step (.exec items toks)).2 = .panic p)) :=
  execFault_spec w items toks

/-! ## non-vacuity: concrete legal histories, conflicts, unwinding -/

/-- a legal history with shared, exclusive, by-id, composite and iterator borrows -/
def sample : List Op :=
  [.insert 1 10, .insertById 2 ⟨2, 7⟩ 11, .fetch 1, .tryFetch 1, .clone 0, .tryFetchMutById 2 ⟨2, 7⟩,
   .fetchMut 1, .drop 0, .drop 1, .drop 2, .fetchMut 1, .metaNext [3, 1, 2] 0 false, .drop 4,
   .systemData [⟨1, false, false, true⟩, ⟨3, true, true, true⟩, ⟨1, true, false, true⟩], .drop 3, .remove 1]

example : Legal {} sample := by
  simp [sample, Legal, Op.isMut, step, World.insert, insertById, World.fetch, World.tryFetch, fetchCore,
    World.get, lookupCell, setCell, tryBorrow, cloneGuard, findGuard, tryFetchMutById, World.fetchMut, release,
    dropGuard, releaseBorrow, metaNext, metaScan, sysData, borrowPanic]

/-- the exclusive fetch while two shared guards and a clone are alive panics (step 7 of `sample`) -/
example : ((run {} (sample.take 6)).step (.fetchMut 1)).2 = .panic .alreadyBorrowed := by decide

/-- the composite fetch of step 14 panics at its third field and has released the first -/
example : ((run {} (sample.take 13)).step
      (.systemData [⟨1, false, false, true⟩, ⟨3, true, true, true⟩, ⟨1, true, false, true⟩])).2 = .panic .alreadyBorrowed ∧
    ((run {} (sample.take 14)).guards.map (·.1)) = [3] := by decide

/-- the hypotheses of `drop_exact` / `clone_spec` are satisfiable -/
example : findGuard 1 (run {} (sample.take 5)).guards = some ⟨⟨1, 0⟩, false⟩ := by decide

/-- a closure that, while two shared guards on resource 1 live outside it, takes a `Write` on 2 by
id, a tuple `(Read<1>, Option<Write<3>>)`, a clone of its first tuple field, a step of its own
iterator — and is then refused `fetch_mut::<1>()`: five guards are unwound, the outer two stay -/
def unwound : Op :=
  .scope [3, 2, 1] [.byId 2 ⟨2, 7⟩ true, .data [⟨1, false, false, true⟩, ⟨3, true, true, true⟩], .cloneLocal 1,
    .iter false, .fetch 1 true true, .fetch 2 false false] false

example : ((run {} (sample.take 4)).step unwound).2 =
      .scopeDone [some 11, some 10, none, some 10, some 10] (.refused .alreadyBorrowed) ∧
    (scopeBody [3, 2, 1] [.byId 2 ⟨2, 7⟩ true, .data [⟨1, false, false, true⟩, ⟨3, true, true, true⟩], .cloneLocal 1,
      .iter false, .fetch 1 true true, .fetch 2 false false] (run {} (sample.take 4)) 0 0 []).2.1 = [2, 3, 4, 5] ∧
    ((run {} (sample.take 4)).step unwound).1.cells = (run {} (sample.take 4)).cells ∧
    ((run {} (sample.take 4)).step unwound).1.guards.map (·.1) = [0, 1] := by decide

/-- the same closure ending in its own panic instead (no refusal): everything is released as well -/
example : ((run {} (sample.take 4)).step (.scope [1] [.fetch 1 false true, .iter false, .iter false] true)).2 =
      .scopeDone [some 10, some 10, none] .panicked ∧
    ((run {} (sample.take 4)).step (.scope [1] [.fetch 1 false true, .iter false, .iter false] true)).1.cells =
      (run {} (sample.take 4)).cells := by decide

/-! ### many threads -/

/-- **C08 (any number of threads, any interleaving).** Tag every atomic step on a cell's borrow word
with the thread that performs it: whatever the interleaving, granted / refused answers are those of
the abstract borrow state (free / `n` shared / exclusive) run over the same steps, and the word
left behind stands for that state. (`H` is `HIGH_BIT`; legality: a guard is dropped only while it
exists, fewer than `H - 1` shared guards are alive.) -/
theorem any_interleaving {H : Nat} (hH : 1 < H) (steps : List (Nat × CellWord.COp))
    (hl : CellWord.LegalRun H .free (steps.map (·.2))) :
    CellWord.Rel H (CellWord.runWord H 0 (steps.map (·.2))).1 (CellWord.runAbs .free (steps.map (·.2))).1 ∧
    (CellWord.runWord H 0 (steps.map (·.2))).2 = (CellWord.runAbs .free (steps.map (·.2))).2 :=
  CellWord.run_refines hH (steps.map (·.2)) (by simp [CellWord.Rel]) hl

/-- while an exclusive guard exists (the word has the high bit) no attempt of any thread is granted;
while shared guards exist no exclusive attempt is -/
theorem no_aliasing_grant {H : Nat} (hH : 0 < H) (w : Nat) :
    (H ≤ w → (CellWord.wordStep H w .tryShared).2 = false ∧ (CellWord.wordStep H w .tryExcl).2 = false) ∧
    (0 < w → (CellWord.wordStep H w .tryExcl).2 = false) :=
  ⟨fun h => CellWord.no_grant_while_exclusive h hH, fun h => CellWord.no_exclusive_while_shared h⟩

/-- not vacuous: two threads, reader granted, writer refused, reader drops, writer granted,
reader refused (and leaves its increment behind), writer drops: the word is 0 again -/
example : (CellWord.runWord 8 0 [.tryShared, .tryExcl, .dropShared, .tryExcl, .tryShared, .dropExcl]) =
    (0, [true, false, true, true, false, true]) := by decide

end C08
end Shred

#print axioms Shred.C08.inv_iff
#print axioms Shred.C08.no_aliasing
#print axioms Shred.C08.step_preserves_inv
#print axioms Shred.C08.history_preserves_inv
#print axioms Shred.C08.every_history
#print axioms Shred.C08.entry_points
#print axioms Shred.C08.outcome_spec
#print axioms Shred.C08.meta_next_spec
#print axioms Shred.C08.clone_spec
#print axioms Shred.C08.panic_frame
#print axioms Shred.C08.panic_frame_exec
#print axioms Shred.C08.drop_exact
#print axioms Shred.C08.drop_dead
#print axioms Shred.C08.scope_frame
#print axioms Shred.C08.scope_restores
#print axioms Shred.C08.unwind_eq_return
#print axioms Shred.C08.scope_out
#print axioms Shred.C08.take_is_step
#print axioms Shred.C08.entry_guard_unwinds
#print axioms Shred.C08.exec_closure_panics
#print axioms Shred.C08.any_interleaving
#print axioms Shred.C08.no_aliasing_grant
