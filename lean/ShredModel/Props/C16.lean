import ShredModel.Lemmas.ParSeqShape
import ShredModel.Lemmas.ParSeqSetup
/-!
# C16 — Par/Seq trees: structure is honoured, conflicts are rejected in debug builds

Quantifiers: **every** tree `t : PS` (any depth, any fan-out, `par` and `seq` nested in any way,
`Nil` anywhere), every declaration `decl` of the leaves, and **every trace** of `toTask t`, i.e.
every interleaving a pool of any size can produce (`Traces` of a `par` = all shuffles), which is
also why it does not matter whether `dispatch` is called from inside or outside the pool. Leaf
systems are told apart by their tag, so the trace theorems assume the tags pairwise distinct
(`t.leaves.Nodup`; the harness numbers its leaves 0, 1, ..).

The model functions are the ones the driver executes (`Model/ParSeq.lean`).
-/
namespace Shred
namespace PS

/-- the tree used by the non-vacuity examples: `seq![par![0, 1], 2]` as the macros nest it -/
def ex : PS := seqOf (.par (.par (.leaf 0) (.leaf 1)) .nil) [.leaf 2]
def exDecl : Nat → Decl
  | 0 => ⟨[⟨0, 0⟩], [⟨1, 0⟩], 1⟩
  | 1 => ⟨[⟨0, 0⟩], [⟨2, 0⟩], 1⟩
  | _ => ⟨[⟨2, 0⟩], [⟨0, 0⟩], 1⟩

/-! ### every leaf runs exactly once, nothing else runs -/

/-- **C16 (exactly once).** In every trace of the tree every leaf fetches once and drops once,
and every event belongs to a leaf of the tree. -/
theorem run_once (t : PS) (hnd : t.leaves.Nodup) (l : List (Ev Nat)) (hl : Traces (toTask t) l) :
    (∀ x, x ∈ t.leaves → l.count (Ev.F x) = 1 ∧ l.count (Ev.D x) = 1)
      ∧ ∀ e, e ∈ l → e.sys ∈ t.leaves := by
  constructor
  · intro x hx
    exact traces_once hl (by rw [sys_toTask]; exact hnd) x (by rw [sys_toTask]; exact hx)
  · intro e he
    have := traces_ev_sys hl e he
    rwa [sys_toTask] at this

example : ex.leaves.Nodup := by decide
/-- an overlapping trace of the example tree (0 and 1 open together, 2 after both) -/
example : Traces (toTask ex) [.F 0, .F 1, .D 0, .D 1, .F 2, .D 2] := by
  have h01 : Traces (toTask (.par (.par (.leaf 0) (.leaf 1)) .nil)) [.F 0, .F 1, .D 0, .D 1] :=
    .par (.par (.leaf 0) (.leaf 1) (.left (.right (.left (.right .nil))))) .nil (shuffle_nil_right _)
  have := Traces.seq (Traces.seq h01 (.leaf 2)) Traces.nil
  simpa [ex, seqOf, seqNew, seqWith, toTask] using this

/-! ### `seq`: earlier children finish before later children start -/

/-- **C16 (seq order).** For `Seq { head: a, tail: b }`: whenever a leaf of `b` starts fetching,
every leaf of `a` has already dropped its data — in every trace. -/
theorem seq_order (a b : PS) (hnd : (PS.seq a b).leaves.Nodup) (l : List (Ev Nat))
    (hl : Traces (toTask (.seq a b)) l) (x y : Nat) (hx : x ∈ a.leaves) (hy : y ∈ b.leaves)
    (l1 l2 : List (Ev Nat)) (h : l = l1 ++ Ev.F y :: l2) : Ev.D x ∈ l1 :=
  traces_before hl (by rw [sys_toTask]; exact hnd) x y (before_of_sub .refl hx hy) l1 l2 h

/-- the same for a `Seq` node at any position of any tree -/
theorem seq_order_nested (t a b : PS) (hsub : Sub (.seq a b) t) (hnd : t.leaves.Nodup)
    (l : List (Ev Nat)) (hl : Traces (toTask t) l) (x y : Nat) (hx : x ∈ a.leaves) (hy : y ∈ b.leaves)
    (l1 l2 : List (Ev Nat)) (h : l = l1 ++ Ev.F y :: l2) : Ev.D x ∈ l1 :=
  traces_before hl (by rw [sys_toTask]; exact hnd) x y (before_of_sub hsub hx hy) l1 l2 h

/-- the same for the children of `seq![c0, c1, ..]` (`Seq::new(c0).with(c1)..`): child `a` listed
before child `b`, at any position of any tree -/
theorem seqOf_order (t c0 : PS) (cs p mid q : List PS) (a b : PS) (hsub : Sub (seqOf c0 cs) t)
    (hcs : c0 :: cs = p ++ a :: mid ++ b :: q) (hnd : t.leaves.Nodup)
    (l : List (Ev Nat)) (hl : Traces (toTask t) l) (x y : Nat) (hx : x ∈ a.leaves) (hy : y ∈ b.leaves)
    (l1 l2 : List (Ev Nat)) (h : l = l1 ++ Ev.F y :: l2) : Ev.D x ∈ l1 := by
  -- `a` sits in the head of some `Seq` node of `seqOf c0 cs` whose tail holds `b`
  have hb : Before (toTask (seqOf c0 cs)) x y := before_seqOf hcs hx hy
  have lift : ∀ {s t : PS}, Sub s t → Before (toTask s) x y → Before (toTask t) x y := by
    intro s t hs
    induction hs with
    | refl => exact id
    | parL _ ih => exact fun hb => .parL (ih hb)
    | parR _ ih => exact fun hb => .parR (ih hb)
    | seqL _ ih => exact fun hb => .seqL (ih hb)
    | seqR _ ih => exact fun hb => .seqR (ih hb)
  exact traces_before hl (by rw [sys_toTask]; exact hnd) x y (lift hsub hb) l1 l2 h

example : Sub (.seq (.par (.par (.leaf 0) (.leaf 1)) .nil) (.leaf 2)) ex := .seqL .refl

/-! ### `par`: children may overlap (the model does not serialise them) -/

/-- **C16 (par may overlap).** `Par { head: a, tail: b }` with a leaf on either side has a
trace in which a leaf of `a` and a leaf of `b` are inside their fetch–drop window at once. -/
theorem par_may_overlap (a b : PS) (ha : a.leaves ≠ []) (hb : b.leaves ≠ []) :
    ∃ l, Traces (toTask (.par a b)) l ∧
      ∃ x, x ∈ a.leaves ∧ ∃ y, y ∈ b.leaves ∧ ∃ p, p <+: l ∧ OpenIn x p ∧ OpenIn y p := by
  obtain ⟨x, la, hx, hla⟩ := exists_trace_head a ha
  obtain ⟨y, lb, hy, hlb⟩ := exists_trace_head b hb
  refine ⟨Ev.F x :: Ev.F y :: (la ++ lb), .par hla hlb (.left (.right (shuffle_append la lb))),
    x, hx, y, hy, [Ev.F x, Ev.F y], ⟨la ++ lb, rfl⟩, ?_, ?_⟩
  · exact ⟨by simp, by simp⟩
  · exact ⟨by simp, by simp⟩

/-- and both orders of the two sides are possible: neither child is forced to go first -/
theorem par_either_first (a b : PS) (la lb : List (Ev Nat)) (ha : Traces (toTask a) la)
    (hb : Traces (toTask b) lb) :
    Traces (toTask (.par a b)) (la ++ lb) ∧ Traces (toTask (.par a b)) (lb ++ la) :=
  ⟨.par ha hb (shuffle_append la lb), .par ha hb (shuffle_append lb la).symm⟩

/-! ### reads / writes / setup -/

/-- **C16 (reads = union of the leaves').** What a node reports is exactly the concatenation
of its leaves' declared reads, leaves taken head first; in particular (second part) a resource
is reported iff some leaf declares it. -/
theorem reads_union (decl : Nat → Decl) (t : PS) :
    reads decl t = t.leaves.flatMap (fun x => (decl x).reads)
      ∧ ∀ r, r ∈ reads decl t ↔ ∃ x, x ∈ t.leaves ∧ r ∈ (decl x).reads :=
  ⟨reads_eq decl t, mem_reads decl t⟩

theorem writes_union (decl : Nat → Decl) (t : PS) :
    writes decl t = t.leaves.flatMap (fun x => (decl x).writes)
      ∧ ∀ r, r ∈ writes decl t ↔ ∃ x, x ∈ t.leaves ∧ r ∈ (decl x).writes :=
  ⟨writes_eq decl t, mem_writes decl t⟩

/-- the vector handed to `reads` / `writes` is only ever extended -/
theorem reads_extends (decl : Nat → Decl) (t : PS) (acc : List ResId) :
    readsAcc decl t acc = acc ++ reads decl t ∧ writesAcc decl t acc = acc ++ writes decl t := by
  simp [reads_eq, writes_eq, readsAcc_eq, writesAcc_eq]

/-- **C16 (setup reaches every leaf).** `setup` calls the hook of every leaf exactly once, in
leaf order. -/
theorem setup_reaches (t : PS) : setupOrder t = t.leaves := by
  simp [setupOrder, setupAcc_eq]

/-! ### whose accessor: the leaf's own

The `decl` of the theorems above is, for the real crate, `declOf spec`: what `self.accessor()`
of the leaf system returns — the accessor the system hands out when it overrides
`System::accessor`, and only otherwise the default of its accessor type (`try_new()`; that is
the `StaticAccessor` of static system data). -/

/-- leaves used by the examples: 0 dynamic without default, 1 dynamic whose accessor type has
an (empty) default, 2 static data (`Read<A>`-like: nothing overridden) -/
def exSpec : Nat → LeafSpec
  | 0 => ⟨none, some ⟨[⟨0, 0⟩], [⟨1, 0⟩], 0⟩, [⟨0, 0⟩, ⟨1, 0⟩]⟩
  | 1 => ⟨some ⟨[], [], 0⟩, some ⟨[⟨0, 0⟩], [⟨1, 0⟩], 0⟩, [⟨0, 0⟩, ⟨1, 0⟩]⟩
  | _ => ⟨some ⟨[⟨2, 0⟩], [], 0⟩, none, [⟨2, 0⟩]⟩

/-- **C16 (a leaf reports its own accessor).** A leaf that overrides `System::accessor` reports
exactly that accessor's reads and writes — whatever `try_new()` of its accessor type would
return (nothing, an empty default, anything else). -/
theorem leaf_reports_own_accessor (spec : Nat → LeafSpec) (s : Nat) (d : Decl)
    (h : (spec s).own = some d) :
    reads (declOf spec) (.leaf s) = d.reads ∧ writes (declOf spec) (.leaf s) = d.writes := by
  simp [reads, writes, readsAcc, writesAcc, declOf_own h]

/-- a leaf that does not override it reports the default accessor (static system data) -/
theorem leaf_reports_default_accessor (spec : Nat → LeafSpec) (s : Nat) (d : Decl)
    (ho : (spec s).own = none) (h : (spec s).tryNew = some d) :
    reads (declOf spec) (.leaf s) = d.reads ∧ writes (declOf spec) (.leaf s) = d.writes := by
  simp [reads, writes, readsAcc, writesAcc, declOf_default ho h]

/-- the leaf with an empty default still reports what it was configured with; the static leaf
reports its type's list -/
example : reads (declOf exSpec) (.leaf 1) = [⟨0, 0⟩] ∧ writes (declOf exSpec) (.leaf 1) = [⟨1, 0⟩] :=
  leaf_reports_own_accessor exSpec 1 _ rfl
example : reads (declOf exSpec) (.leaf 2) = [⟨2, 0⟩] := (leaf_reports_default_accessor exSpec 2 _ rfl rfl).1

/-- **C16 (reads = union of the leaves' own accessors).** For every node of every tree whose
leaves override `System::accessor` (`own x` is what leaf `x` hands out): the node reports the
concatenation of those accessors' lists, defaults of the accessor types play no role. -/
theorem node_reports_own_accessors (spec : Nat → LeafSpec) (t : PS) (own : Nat → Decl)
    (h : ∀ x, x ∈ t.leaves → (spec x).own = some (own x)) :
    reads (declOf spec) t = t.leaves.flatMap (fun x => (own x).reads)
      ∧ writes (declOf spec) t = t.leaves.flatMap (fun x => (own x).writes) := by
  rw [reads_eq, writes_eq]
  exact ⟨flatMap_congr_mem _ _ _ (fun x hx => by rw [declOf_own (h x hx)]),
    flatMap_congr_mem _ _ _ (fun x hx => by rw [declOf_own (h x hx)])⟩

/-- … and so the debug check of `Par::with` fires exactly on a conflict between those own
accessors: two leaves whose accessor type defaults to "nothing" are still told apart -/
theorem with_check_own_accessors (spec : Nat → LeafSpec) (h sys : PS) (own : Nat → Decl)
    (hh : ∀ x, x ∈ h.leaves → (spec x).own = some (own x))
    (hs : ∀ x, x ∈ sys.leaves → (spec x).own = some (own x)) :
    withCheck (declOf spec) h sys = false ↔
      ∃ x, x ∈ h.leaves ∧ ∃ y, y ∈ sys.leaves ∧ conflictsD (own x) (own y) := by
  rw [withCheck_false_iff]
  constructor
  · rintro ⟨x, hx, y, hy, hc⟩
    rw [declOf_own (hh x hx), declOf_own (hs y hy)] at hc
    exact ⟨x, hx, y, hy, hc⟩
  · rintro ⟨x, hx, y, hy, hc⟩
    refine ⟨x, hx, y, hy, ?_⟩
    rw [declOf_own (hh x hx), declOf_own (hs y hy)]
    exact hc

/-- both write 1.0: rejected although leaf 1's accessor type has an empty default -/
example : withCheck (declOf exSpec) (.leaf 0) (.leaf 1) = false := by decide
example : withCheck (declOf exSpec) (.leaf 1) (.leaf 2) = true := by decide

/-! ### every `setup` call reaches every leaf -/

/-- **C16 (every setup call reaches every leaf).** Whatever sequence of `setup` calls is made
on one `ParSeq` — through `ParSeq::setup` or `RunNow::setup`, on whatever worlds, in whatever
order — every single call runs the setup of every leaf exactly once, in leaf order, and the
world it was handed afterwards holds exactly what it held before plus what the leaves create
(nothing removed, nothing reordered). -/
theorem every_setup_reaches (d : Disp) (creates : Nat → List ResId)
    (calls : List (Via × List ResId)) :
    (d.setups creates calls).length = calls.length ∧
    ∀ i (hi : i < calls.length) (ho : i < (d.setups creates calls).length),
      ((d.setups creates calls)[i]).1 = d.run.leaves
      ∧ (∀ r, r ∈ ((d.setups creates calls)[i]).2 ↔
            r ∈ (calls[i]).2 ∨ ∃ x, x ∈ d.run.leaves ∧ r ∈ creates x)
      ∧ ∃ ext, ((d.setups creates calls)[i]).2 = (calls[i]).2 ++ ext := by
  refine ⟨by simp [setups_eq], ?_⟩
  intro i hi ho
  have hg : (d.setups creates calls)[i] = (d.run.leaves, setupWorldAcc creates d.run (calls[i]).2) := by
    simp [setups_eq]
  rw [hg]
  exact ⟨rfl, fun r => mem_setupWorldAcc creates d.run _ r, setupWorldAcc_extends creates d.run _⟩

/-- one call: the dispatcher is the same afterwards (there is nothing to remember) -/
theorem setup_is_stateless (d : Disp) (v : Via) (creates : Nat → List ResId) (w : List ResId) :
    (d.setup v creates w).1 = d ∧ (d.setup v creates w).2.1 = d.run.leaves := by
  simp [Disp.setup, setupOrder, setupAcc_eq]

/-- second call on a fresh (empty) world through the other entry point: same hooks, and the
resources of all three leaves are created again -/
example : (Disp.mk ex).setups (fun x => (exSpec x).creates) [(.inherent, [⟨0, 0⟩, ⟨1, 0⟩, ⟨2, 0⟩]), (.runNow, [])]
    = [([0, 1, 2], [⟨0, 0⟩, ⟨1, 0⟩, ⟨2, 0⟩]), ([0, 1, 2], [⟨0, 0⟩, ⟨1, 0⟩, ⟨2, 0⟩])] := by decide

/-! ### the debug check of `Par::with` -/

/-- **C16 (`with` panics exactly on a conflict).** The `debug_assert!` of
`Par { head: h, tail: Nil }.with(sys)` fires iff some leaf under `h` and some leaf of `sys`
conflict: W/W or W/R (first disjunct of `conflictsD`) or R/W (second). -/
theorem with_check_iff (decl : Nat → Decl) (h sys : PS) :
    withCheck decl h sys = false ↔
      ∃ x, x ∈ h.leaves ∧ ∃ y, y ∈ sys.leaves ∧ conflictsD (decl x) (decl y) :=
  withCheck_false_iff decl h sys

theorem parWith_panics_iff (decl : Nat → Decl) (h sys : PS) :
    parWith decl h sys = none ↔
      ∃ x, x ∈ h.leaves ∧ ∃ y, y ∈ sys.leaves ∧ conflictsD (decl x) (decl y) := by
  rw [← with_check_iff]
  unfold parWith
  cases withCheck decl h sys <;> simp

/-- both outcomes occur: leaf 2 writes what 0 and 1 read; 0 and 1 only share a read -/
example : withCheck exDecl (.par (.leaf 0) (.leaf 1)) (.leaf 2) = false := by decide
example : withCheck exDecl (.leaf 0) (.leaf 1) = true := by decide

/-- **C16 (`par![c0, c1, ..]`).** Complete description of `Par::new(c0).with(c1)..` in a
build with debug assertions: it succeeds with the left-nested tree when no child conflicts with
a child listed before it, and otherwise panics at the *first* child `k` that does. -/
theorem parOf_spec (decl : Nat → Decl) (c0 : PS) (cs : List PS) :
    match parOf decl c0 cs with
    | .ok t => t = parNew (cs.foldl PS.par c0)
        ∧ ∀ p c q, c0 :: cs = p ++ c :: q → ¬ ∃ a, a ∈ p ∧ ConflictL decl a.leaves c.leaves
    | .error k => ∃ p c q, c0 :: cs = p ++ c :: q ∧ p.length = k
        ∧ (∃ a, a ∈ p ∧ ConflictL decl a.leaves c.leaves)
        ∧ ∀ p' c' q', p = p' ++ c' :: q' → ¬ ∃ a, a ∈ p' ∧ ConflictL decl a.leaves c'.leaves := by
  have key : ∀ (p : List PS) (ys : List Nat),
      ConflictL decl (c0.leaves ++ p.flatMap leaves) ys ↔ ∃ a, a ∈ c0 :: p ∧ ConflictL decl a.leaves ys := by
    intro p ys
    have := conflictL_flatMap_left decl (c0 :: p) ys
    simpa using this
  have spec := parFold_spec decl cs c0 1
  unfold parOf
  cases hf : parFold decl c0 cs 1 with
  | ok h =>
    rw [hf] at spec
    obtain ⟨_, hno⟩ := spec
    refine ⟨by rw [parFold_ok_eq decl cs c0 1 h hf], ?_⟩
    intro p c q hpq
    cases p with
    | nil => simp
    | cons p0 p =>
      simp at hpq
      obtain ⟨rfl, rfl⟩ := hpq
      rw [← key]
      exact hno p c q rfl
  | error j =>
    rw [hf] at spec
    obtain ⟨p, c, q, rfl, rfl, hc, hmin⟩ := spec
    refine ⟨c0 :: p, c, q, rfl, by simp; omega, (key p _).mp hc, ?_⟩
    intro p' c' q' hp
    cases p' with
    | nil => simp
    | cons p0 p' =>
      simp at hp
      obtain ⟨rfl, rfl⟩ := hp
      rw [← key]
      exact hmin p' c' q' rfl

/-- `par![..]` panics iff some child conflicts with a child listed before it -/
theorem parOf_panics_iff (decl : Nat → Decl) (c0 : PS) (cs : List PS) :
    (∃ k, parOf decl c0 cs = .error k) ↔
      ∃ p c q, c0 :: cs = p ++ c :: q ∧ ∃ a, a ∈ p ∧ ConflictL decl a.leaves c.leaves := by
  have spec := parOf_spec decl c0 cs
  constructor
  · rintro ⟨k, hk⟩
    rw [hk] at spec
    obtain ⟨p, c, q, h1, _, h2, _⟩ := spec
    exact ⟨p, c, q, h1, h2⟩
  · rintro ⟨p, c, q, h1, h2⟩
    cases hr : parOf decl c0 cs with
    | error k => exact ⟨k, rfl⟩
    | ok t =>
      rw [hr] at spec
      exact absurd h2 (spec.2 p c q h1)

example : parOf exDecl (.leaf 0) [.leaf 1, .leaf 2] = .error 2 := by rfl
example : parOf exDecl (.leaf 0) [.leaf 1] = .ok (.par (.par (.leaf 0) (.leaf 1)) .nil) := by rfl

/-! ### consequence: a tree that could be built never runs two conflicting leaves together -/

/-- In a tree all of whose `Par` nodes passed the check, two distinct leaves that are inside
their fetch–drop windows at the same time never conflict — for every interleaving. -/
theorem checked_isolated (decl : Nat → Decl) (t : PS) (hc : Checked decl t) (hnd : t.leaves.Nodup)
    (l : List (Ev Nat)) (hl : Traces (toTask t) l) (p : List (Ev Nat)) (hp : p <+: l)
    (x y : Nat) (hne : x ≠ y) (hx : OpenIn x p) (hy : OpenIn y p) :
    ¬ conflictsD (decl x) (decl y) := by
  have := traces_isolated (Compat := fun x y => ¬ conflictsD (decl x) (decl y))
    (fun x y h hc => h (conflictsD_symm hc)) hl (wf_of_checked decl t hc)
    (by rw [sys_toTask]; exact hnd) p hp x y hne hx hy
  rcases this with h | h | h
  · exact absurd h (not_anc_of_noScope (noScope_toTask t) x y)
  · exact absurd h (not_anc_of_noScope (noScope_toTask t) y x)
  · exact h

/-- every tree the run-time assembly (`build`, what the driver and the harness do) returns in a
debug build is such a tree -/
theorem built_isolated (decl : Nat → Decl) (toks : List Tok) (t : PS) (hb : build decl toks = .built t)
    (hnd : t.leaves.Nodup) (l : List (Ev Nat)) (hl : Traces (toTask t) l) (p : List (Ev Nat))
    (hp : p <+: l) (x y : Nat) (hne : x ≠ y) (hx : OpenIn x p) (hy : OpenIn y p) :
    ¬ conflictsD (decl x) (decl y) :=
  checked_isolated decl t (build_checked decl toks t hb) hnd l hl p hp x y hne hx hy

example : build exDecl [.openSeq, .openPar, .leaf 0, .leaf 1, .close, .leaf 2, .close] = .built ex := by rfl
example : build exDecl [.openPar, .leaf 0, .openSeq, .leaf 1, .close, .leaf 2, .close] = .panic 0 2 := by rfl

/-- **The driver's token machine is the recursive construction.** For an n-ary shape `s` (leaf, or
`par![..]` / `seq![..]` with at least one child, nested at will), running `build` on its token
list is the bottom-up construction with `parOf` / `seqOf` (`Sh.eval`): children left to right,
then the node; the first panicking `with` is reported as (position of the node's `P[`, child).
So `parOf_spec` and `seqOf_order` describe every node of every tree the driver builds. -/
theorem build_is_recursive (decl : Nat → Decl) (s : Sh) :
    build decl s.toks =
      match s.eval decl 0 with
      | .ok t => .built t
      | .error (n, k) => .panic n k :=
  build_shape decl s

example : (Sh.node false (.cons (.node true (.cons (.leaf 0) (.one (.leaf 1)))) (.one (.leaf 2)))).toks
    = [.openSeq, .openPar, .leaf 0, .leaf 1, .close, .leaf 2, .close] := by rfl

/-- the acceptor the driver runs is exact for these tasks: an event list is accepted iff it is a
trace (so every theorem above applies to every accepted real trace, and no real trace that is
a trace is ever rejected) -/
theorem acceptor_exact (t : PS) (hnd : t.leaves.Nodup) (l : List (Ev Nat)) :
    (toTask t).toR.accepts l = true ↔ Traces (toTask t) l :=
  accepts_toR_iff (toTask t) (by rw [sys_toTask]; exact hnd) l

end PS
end Shred

#print axioms Shred.PS.run_once
#print axioms Shred.PS.seq_order
#print axioms Shred.PS.seq_order_nested
#print axioms Shred.PS.seqOf_order
#print axioms Shred.PS.par_may_overlap
#print axioms Shred.PS.par_either_first
#print axioms Shred.PS.reads_union
#print axioms Shred.PS.writes_union
#print axioms Shred.PS.reads_extends
#print axioms Shred.PS.setup_reaches
#print axioms Shred.PS.leaf_reports_own_accessor
#print axioms Shred.PS.leaf_reports_default_accessor
#print axioms Shred.PS.node_reports_own_accessors
#print axioms Shred.PS.with_check_own_accessors
#print axioms Shred.PS.every_setup_reaches
#print axioms Shred.PS.setup_is_stateless
#print axioms Shred.PS.with_check_iff
#print axioms Shred.PS.parWith_panics_iff
#print axioms Shred.PS.parOf_spec
#print axioms Shred.PS.parOf_panics_iff
#print axioms Shred.PS.checked_isolated
#print axioms Shred.PS.built_isolated
#print axioms Shred.PS.build_is_recursive
#print axioms Shred.PS.acceptor_exact
