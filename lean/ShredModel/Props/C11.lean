import ShredModel.Model.Pool
/-!
# C11 — side-by-side systems really run in parallel (the part a theorem can carry)

About the **pool model** of `Model/Pool.lean` (an assumption about rayon, see DESIGN.md §5 C11;
the tie to the real crate is the complete enumeration of stage widths × pool sizes × modes by
the `rendezvous` engine): with at least as many workers as the stage has groups, systems that
wait for all their siblings to be inside `run` never deadlock and do meet; with fewer workers
they do deadlock — so the hypothesis is exactly what is needed.
-/
namespace Shred

theorem pool_inv {w n : Nat} {s : PoolSt} (h : PoolReach w n s) :
    s.idle + s.inside = w ∧ s.pending + s.inside + s.done = n ∧ (0 < s.done → s.pending = 0) := by
  induction h with
  | init => simp [PoolSt.init]
  | step _ hs ih =>
    obtain ⟨h1, h2, h3⟩ := ih
    cases hs with
    | start hc =>
      simp only [PoolSt.canStart, Bool.and_eq_true, decide_eq_true_eq] at hc
      simp only [PoolSt.start]
      refine ⟨by omega, by omega, fun hd => ?_⟩
      have := h3 hd; omega
    | finish hc =>
      simp only [PoolSt.canFinish, Bool.and_eq_true, beq_iff_eq, decide_eq_true_eq] at hc
      simp only [PoolSt.finish]
      refine ⟨by omega, by omega, fun _ => by omega⟩

/-- **C11 (progress).** With `n ≤ w` workers, every reachable state in which some system has
not finished has an enabled step: the dispatch cannot deadlock. -/
theorem C11_rendezvous_progress {w n : Nat} (hw : n ≤ w) {s : PoolSt} (h : PoolReach w n s)
    (hnd : s.done < n) : ∃ s', PoolStep n s s' := by
  obtain ⟨h1, h2, _⟩ := pool_inv h
  by_cases hp : 0 < s.pending
  · exact ⟨_, .start (by simp only [PoolSt.canStart, Bool.and_eq_true, decide_eq_true_eq]; omega)⟩
  · exact ⟨_, .finish (by simp only [PoolSt.canFinish, Bool.and_eq_true, beq_iff_eq, decide_eq_true_eq]; omega)⟩

/-- **C11 (every run is finite).** Each step decreases `2·pending + inside`. -/
theorem C11_steps_decrease {n : Nat} {s s' : PoolSt} (h : PoolStep n s s') :
    2 * s'.pending + s'.inside < 2 * s.pending + s.inside := by
  cases h with
  | start hc =>
    simp only [PoolSt.canStart, Bool.and_eq_true, decide_eq_true_eq] at hc
    simp only [PoolSt.start]; omega
  | finish hc =>
    simp only [PoolSt.canFinish, Bool.and_eq_true, beq_iff_eq, decide_eq_true_eq] at hc
    simp only [PoolSt.finish]; omega

/-- **C11 (they meet).** No system leaves `run` before all `n` are inside at the same time:
at the moment the last group has been started and nobody has left yet, all `n` are inside. -/
theorem C11_all_inside_together {w n : Nat} {s : PoolSt} (h : PoolReach w n s)
    (hp : s.pending = 0) (hd : s.done = 0) : s.inside = n := by
  obtain ⟨_, h2, _⟩ := pool_inv h
  omega

/-- … and nobody can leave from any other kind of state -/
theorem C11_finish_needs_all {w n : Nat} {s : PoolSt} (h : PoolReach w n s)
    (hc : s.canFinish n = true) : s.pending = 0 := by
  obtain ⟨_, h2, _⟩ := pool_inv h
  simp only [PoolSt.canFinish, Bool.and_eq_true, beq_iff_eq, decide_eq_true_eq] at hc
  omega

theorem reach_starts (w n k : Nat) (hk : k ≤ w) (hkn : k ≤ n) : PoolReach w n ⟨w - k, n - k, k, 0⟩ := by
  induction k with
  | zero => exact .init
  | succ k ih =>
    have := PoolReach.step (ih (by omega) (by omega))
      (.start (by simp only [PoolSt.canStart, Bool.and_eq_true, decide_eq_true_eq]; omega))
    have e : (⟨w - k, n - k, k, 0⟩ : PoolSt).start = ⟨w - (k + 1), n - (k + 1), k + 1, 0⟩ := by
      simp only [PoolSt.start]
      congr 1
    rw [e] at this
    exact this

/-- **C11 (the hypothesis is needed).** With fewer workers than groups there is a reachable
deadlock: all workers hold a waiting system, a group cannot start, nobody may leave. -/
theorem C11_rendezvous_needs_n {w n : Nat} (hw : w < n) :
    ∃ s, PoolReach w n s ∧ s.done < n ∧ ¬ ∃ s', PoolStep n s s' := by
  refine ⟨⟨0, n - w, w, 0⟩, ?_, by simp; omega, ?_⟩
  · have := reach_starts w n w (Nat.le_refl _) (by omega)
    simpa using this
  · rintro ⟨s', hs⟩
    cases hs with
    | start hc => simp [PoolSt.canStart] at hc
    | finish hc =>
      simp only [PoolSt.canFinish, Bool.and_eq_true, beq_iff_eq, decide_eq_true_eq] at hc
      omega

/-- the executable prediction used by the correspondence run, on a few sizes (these are tests) -/
example : poolCompletes 16 16 = true ∧ poolCompletes 19 16 = true ∧ poolCompletes 3 4 = false ∧
    poolCompletes 2 2 = true := by decide

end Shred

#print axioms Shred.pool_inv
#print axioms Shred.C11_rendezvous_progress
#print axioms Shred.C11_steps_decrease
#print axioms Shred.C11_all_inside_together
#print axioms Shred.C11_finish_needs_all
#print axioms Shred.reach_starts
#print axioms Shred.C11_rendezvous_needs_n
