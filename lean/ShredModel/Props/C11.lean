import ShredModel.Model.Pool
/-!
# C11 — side-by-side systems really run in parallel (the part a theorem can carry)

About the **pool model** of `Model/Pool.lean` (an assumption about rayon, see DESIGN.md §5 C11;
the tie to the real crate is the complete enumeration of stage widths × pool sizes × modes by
the `rendezvous` engine): with at least as many workers as the stage has groups, systems that
wait for all their siblings to be inside `run` never deadlock and do meet; with fewer workers
they do deadlock — so the hypothesis is exactly what is needed. Then: which pool every dispatcher
of a builder runs on (model of the pool slots of `builder.rs`), and the async dispatcher over
*sequences* of calls (model of `Data` in `async_dispatcher.rs`): the calling thread, never a pool
thread, waits for the previous dispatch, so every dispatch of every sequence has the whole pool.
-/
namespace Shred

theorem pool_inv {w n : Nat} {s : PoolSt} (h : PoolReach w n s) :
    s.idle + s.inside = w ∧ s.pending + s.inside + s.done = n ∧ (0 < s.done → s.pending = 0) := by
  induction h with
  | init => simp [PoolSt.init]
  | step _ hs ih =>
    obtain ⟨h1, h2, h3⟩ := ih
    cases hs with
    | start hc =>
      simp only [PoolSt.canStart, Bool.and_eq_true, decide_eq_true_eq] at hc
      simp only [PoolSt.start]
      refine ⟨by omega, by omega, fun hd => ?_⟩
      have := h3 hd; omega
    | finish hc =>
      simp only [PoolSt.canFinish, Bool.and_eq_true, beq_iff_eq, decide_eq_true_eq] at hc
      simp only [PoolSt.finish]
      refine ⟨by omega, by omega, fun _ => by omega⟩

/-- **C11 (progress).** With `n ≤ w` workers, every reachable state in which some system has
not finished has an enabled step: the dispatch cannot deadlock. -/
theorem C11_rendezvous_progress {w n : Nat} (hw : n ≤ w) {s : PoolSt} (h : PoolReach w n s)
    (hnd : s.done < n) : ∃ s', PoolStep n s s' := by
  obtain ⟨h1, h2, _⟩ := pool_inv h
  by_cases hp : 0 < s.pending
  · exact ⟨_, .start (by simp only [PoolSt.canStart, Bool.and_eq_true, decide_eq_true_eq]; omega)⟩
  · exact ⟨_, .finish (by simp only [PoolSt.canFinish, Bool.and_eq_true, beq_iff_eq, decide_eq_true_eq]; omega)⟩

/-- **C11 (every run is finite).** Each step decreases `2·pending + inside`. -/
theorem C11_steps_decrease {n : Nat} {s s' : PoolSt} (h : PoolStep n s s') :
    2 * s'.pending + s'.inside < 2 * s.pending + s.inside := by
  cases h with
  | start hc =>
    simp only [PoolSt.canStart, Bool.and_eq_true, decide_eq_true_eq] at hc
    simp only [PoolSt.start]; omega
  | finish hc =>
    simp only [PoolSt.canFinish, Bool.and_eq_true, beq_iff_eq, decide_eq_true_eq] at hc
    simp only [PoolSt.finish]; omega

/-- **C11 (they meet).** No system leaves `run` before all `n` are inside at the same time:
at the moment the last group has been started and nobody has left yet, all `n` are inside. -/
theorem C11_all_inside_together {w n : Nat} {s : PoolSt} (h : PoolReach w n s)
    (hp : s.pending = 0) (hd : s.done = 0) : s.inside = n := by
  obtain ⟨_, h2, _⟩ := pool_inv h
  omega

/-- … and nobody can leave from any other kind of state -/
theorem C11_finish_needs_all {w n : Nat} {s : PoolSt} (h : PoolReach w n s)
    (hc : s.canFinish n = true) : s.pending = 0 := by
  obtain ⟨_, h2, _⟩ := pool_inv h
  simp only [PoolSt.canFinish, Bool.and_eq_true, beq_iff_eq, decide_eq_true_eq] at hc
  omega

theorem reach_starts (w n k : Nat) (hk : k ≤ w) (hkn : k ≤ n) : PoolReach w n ⟨w - k, n - k, k, 0⟩ := by
  induction k with
  | zero => exact .init
  | succ k ih =>
    have := PoolReach.step (ih (by omega) (by omega))
      (.start (by simp only [PoolSt.canStart, Bool.and_eq_true, decide_eq_true_eq]; omega))
    have e : (⟨w - k, n - k, k, 0⟩ : PoolSt).start = ⟨w - (k + 1), n - (k + 1), k + 1, 0⟩ := by
      simp only [PoolSt.start]
      congr 1
    rw [e] at this
    exact this

/-- **C11 (the hypothesis is needed).** With fewer workers than groups there is a reachable
deadlock: all workers hold a waiting system, a group cannot start, nobody may leave. -/
theorem C11_rendezvous_needs_n {w n : Nat} (hw : w < n) :
    ∃ s, PoolReach w n s ∧ s.done < n ∧ ¬ ∃ s', PoolStep n s s' := by
  refine ⟨⟨0, n - w, w, 0⟩, ?_, by simp; omega, ?_⟩
  · have := reach_starts w n w (Nat.le_refl _) (by omega)
    simpa using this
  · rintro ⟨s', hs⟩
    cases hs with
    | start hc => simp [PoolSt.canStart] at hc
    | finish hc =>
      simp only [PoolSt.canFinish, Bool.and_eq_true, beq_iff_eq, decide_eq_true_eq] at hc
      omega


/-! ## The executable prediction agrees with the theorems -/

/-- no step is enabled -/
def PoolSt.quiescent (n : Nat) (s : PoolSt) : Prop := s.canStart = false ∧ s.canFinish n = false

theorem run_reach {w n : Nat} (fuel : Nat) {s : PoolSt} (h : PoolReach w n s) :
    PoolReach w n (s.run n fuel) := by
  induction fuel generalizing s with
  | zero => simpa [PoolSt.run] using h
  | succ fuel ih =>
    unfold PoolSt.run
    by_cases hs : s.canStart = true
    · simp only [hs, if_true]; exact ih (.step h (.start hs))
    · by_cases hf : s.canFinish n = true
      · simp only [hs, hf, if_true]; exact ih (.step h (.finish hf))
      · simp only [hs, hf]; exact h

theorem run_quiescent {n : Nat} (fuel : Nat) {s : PoolSt} (hm : 2 * s.pending + s.inside ≤ fuel) :
    (s.run n fuel).quiescent n := by
  induction fuel generalizing s with
  | zero =>
    have hp : s.pending = 0 := by omega
    have hi : s.inside = 0 := by omega
    simp [PoolSt.run, PoolSt.quiescent, PoolSt.canStart, PoolSt.canFinish, hp, hi]
  | succ fuel ih =>
    unfold PoolSt.run
    by_cases hs : s.canStart = true
    · simp only [hs, if_true]
      have := C11_steps_decrease (n := n) (.start hs)
      exact ih (by omega)
    · by_cases hf : s.canFinish n = true
      · simp only [hs, hf, if_true]
        have := C11_steps_decrease (n := n) (.finish hf)
        exact ih (by omega)
      · simp only [hs, hf]
        exact ⟨by simpa using hs, by simpa using hf⟩

/-- **C11 (the prediction the correspondence run compares with).** With at least as many idle
workers as groups, the run to quiescence ends with all `n` systems having met and left. -/
theorem C11_poolCompletes_of_le {w n : Nat} (hw : n ≤ w) : poolCompletes w n = true := by
  have hr : PoolReach w n ((PoolSt.init w n).run n (2 * n + 1)) := run_reach _ .init
  have hq : ((PoolSt.init w n).run n (2 * n + 1)).quiescent n :=
    run_quiescent _ (by simp [PoolSt.init])
  obtain ⟨_, h2, _⟩ := pool_inv hr
  have hd : ¬ ((PoolSt.init w n).run n (2 * n + 1)).done < n := by
    intro hlt
    obtain ⟨s', hs'⟩ := C11_rendezvous_progress hw hr hlt
    cases hs' with
    | start hc => rw [hq.1] at hc; exact Bool.noConfusion hc
    | finish hc => rw [hq.2] at hc; exact Bool.noConfusion hc
  simp only [poolCompletes, beq_iff_eq]
  omega

/-- somebody has left only if all `n` were inside at once, i.e. there were `n` workers -/
theorem pool_done_le {w n : Nat} {s : PoolSt} (h : PoolReach w n s) : 0 < s.done → n ≤ w := by
  induction h with
  | init => simp [PoolSt.init]
  | @step s0 _ hr hs ih =>
    obtain ⟨h1, h2, _⟩ := pool_inv hr
    cases hs with
    | start hc => simpa only [PoolSt.start] using ih
    | finish hc =>
      simp only [PoolSt.canFinish, Bool.and_eq_true, beq_iff_eq, decide_eq_true_eq] at hc
      intro _
      by_cases hd : 0 < s0.done
      · exact ih hd
      · omega

/-- … and with fewer it ends in the deadlock: the prediction is exact -/
theorem C11_poolCompletes_iff {w n : Nat} : poolCompletes w n = true ↔ n ≤ w := by
  refine ⟨fun h => ?_, C11_poolCompletes_of_le⟩
  have hr : PoolReach w n ((PoolSt.init w n).run n (2 * n + 1)) := run_reach _ .init
  simp only [poolCompletes, beq_iff_eq] at h
  by_cases hn : n = 0
  · omega
  · exact pool_done_le hr (by omega)

/-- **C11 (a blocked outsider).** `busy` of the workers held by something else: the stage still
meets as long as the *idle* workers suffice. -/
theorem C11_busy_workers {w busy n : Nat} (h : n + busy ≤ w) : poolCompletesBusy w busy n = true :=
  C11_poolCompletes_of_le (by omega)

/-! ## Which pool — `add_pool`, `add_batch`, `build` (model of the slot sharing in `builder.rs`) -/

theorem slot_some (dflt : Nat) (b : PB) (x : Nat) : ∃ y, b.slot dflt (some x) = some y := by
  induction b generalizing x with
  | nil => exact ⟨x, rfl⟩
  | pool p r ih => exact ih p
  | batch t ws inner r _ ih => exact ih _

theorem slot_noPool {dflt : Nat} {b : PB} (h : b.noPool = true) {s : Option Nat}
    (hs : s.getD dflt = dflt) : (b.slot dflt s).getD dflt = dflt := by
  induction b generalizing s with
  | nil => simpa [PB.slot] using hs
  | pool p r ih => simp [PB.noPool] at h
  | batch t ws inner r _ ih =>
    simp only [PB.noPool, Bool.and_eq_true] at h
    simp only [PB.slot]
    exact ih h.2 (by simp [hs])

theorem batches_noPool {dflt : Nat} {b : PB} (h : b.noPool = true) :
    ∀ d ∈ b.batches dflt dflt, d.pool = dflt := by
  induction b with
  | nil => simp [PB.batches]
  | pool p r ih => simp [PB.noPool] at h
  | batch t ws inner r ih1 ih2 =>
    simp only [PB.noPool, Bool.and_eq_true] at h
    intro d hd
    simp only [PB.batches, List.mem_cons, List.mem_append] at hd
    rcases hd with rfl | hd | hd
    · rfl
    · rw [slot_noPool h.1 (by simp)] at hd
      exact ih1 h.1 d hd
    · exact ih2 h.2 d hd

/-- **C11 (default pool).** Without any `add_pool`, every dispatcher that `build` produces — the
top-level one, every batch, every nested batch — dispatches on a pool of rayon's default size,
whatever the widths of the stages of the dispatcher that happened to create the pool. -/
theorem C11_default_pool_size {dflt : Nat} {b : PB} (h : b.noPool = true) (ws : List Nat) :
    ∀ d ∈ b.build dflt ws, d.pool = dflt := by
  intro d hd
  have hf : (b.slot dflt none).getD dflt = dflt := slot_noPool h (by simp)
  simp only [PB.build, List.mem_cons] at hd
  rcases hd with rfl | hd
  · exact hf
  · rw [hf] at hd
    exact batches_noPool h d hd

/-- **C11 (default pool, all dispatchers sharing it).** … hence every stage of every one of
them, of width up to the default size, can rendezvous: the pool is not sized after the widest
stage of whichever dispatcher is built first. -/
theorem C11_default_pool_rendezvous {dflt : Nat} {b : PB} (h : b.noPool = true) (ws : List Nat)
    {d : Disp} (hd : d ∈ b.build dflt ws) {n : Nat} (_hn : n ∈ d.widths) (hle : n ≤ dflt) :
    poolCompletes d.pool n = true := by
  rw [C11_default_pool_size h ws d hd]
  exact C11_poolCompletes_of_le hle

example : (PB.batch 1 [1] .nil (.batch 2 [4] .nil .nil)).noPool = true ∧
    (PB.batch 1 [1] .nil (.batch 2 [4] .nil .nil)).build 8 [4, 1] =
      [⟨none, 8, [4, 1]⟩, ⟨some 1, 8, [1]⟩, ⟨some 2, 8, [4]⟩] := by decide

theorem slot_lastPool {dflt : Nat} {b : PB} {p : Nat} (h : b.lastPool = some p) (s : Option Nat) :
    b.slot dflt s = some p := by
  induction b generalizing s with
  | nil => simp [PB.lastPool] at h
  | pool q r ih =>
    simp only [PB.lastPool] at h
    simp only [PB.slot]
    cases hr : r.lastPool with
    | some q' => rw [hr] at h; exact ih (by rw [hr]; exact h) _
    | none =>
      rw [hr] at h
      injection h with h
      subst h
      -- no later `add_pool`: the slot keeps `q`
      clear ih
      have : ∀ (r : PB) (x : Nat), r.lastPool = none → r.slot dflt (some x) = some x := by
        intro r
        induction r with
        | nil => intro x _; rfl
        | pool q2 r2 _ =>
          intro x h2
          simp only [PB.lastPool] at h2
          cases h3 : r2.lastPool <;> simp [h3] at h2
        | batch t ws inner r2 _ ih2 =>
          intro x h2
          simp only [PB.slot, Option.getD_some]
          exact ih2 x h2
      exact this r q hr
  | batch t ws inner r _ ih =>
    simp only [PB.lastPool] at h
    simp only [PB.slot]
    exact ih h _

theorem direct_mem_batches {dflt f : Nat} {b : PB} {t : Nat} {ws : List Nat}
    (h : (t, ws) ∈ b.direct) : ⟨some t, f, ws⟩ ∈ b.batches dflt f := by
  induction b with
  | nil => simp [PB.direct] at h
  | pool p r ih => exact ih h
  | batch t' ws' inner r _ ih =>
    simp only [PB.direct, List.mem_cons] at h
    simp only [PB.batches, List.mem_cons, List.mem_append]
    rcases h with h | h
    · left
      injection h with h1 h2
      subst h1; subst h2; rfl
    · right; right; exact ih h

/-- **C11 (user-supplied pool).** Once `add_pool` / `with_pool` was called on the builder —
before or after the batches were added — the top-level dispatcher and every batch registered on
that builder dispatch on the pool supplied last; what the batch's own builder was given is
irrelevant for the batch's own stages. -/
theorem C11_user_pool {dflt p : Nat} {b : PB} (h : b.lastPool = some p) (ws : List Nat) :
    (b.build dflt ws).head? = some ⟨none, p, ws⟩ ∧
    ∀ t wt, (t, wt) ∈ b.direct → ⟨some t, p, wt⟩ ∈ b.build dflt ws := by
  have hf : (b.slot dflt none).getD dflt = p := by rw [slot_lastPool h]; rfl
  refine ⟨by simp [PB.build, hf], fun t wt ht => ?_⟩
  simp only [PB.build, hf, List.mem_cons]
  right
  exact direct_mem_batches ht

/-- … so its stages of width up to the supplied pool's size rendezvous -/
theorem C11_user_pool_rendezvous {dflt p : Nat} {b : PB} (h : b.lastPool = some p) (ws : List Nat)
    {t : Nat} {wt : List Nat} (ht : (t, wt) ∈ b.direct) {n : Nat} (_hn : n ∈ wt) (hle : n ≤ p) :
    ∃ d ∈ b.build dflt ws, d.tag = some t ∧ d.widths = wt ∧ poolCompletes d.pool n = true :=
  ⟨_, (C11_user_pool h ws).2 t wt ht, rfl, rfl, C11_poolCompletes_of_le hle⟩

example : (PB.batch 1 [3] (.pool 1 .nil) (.pool 4 .nil)).lastPool = some 4 ∧
    (PB.batch 1 [3] (.pool 1 .nil) (.pool 4 .nil)).build 16 [4] = [⟨none, 4, [4]⟩, ⟨some 1, 4, [3]⟩] := by
  decide

/-- **What the code does for a batch inside a batch (depth ≥ 2)** — recorded because it limits
the clause "for a user-supplied pool … inside batches": the inner-most dispatcher was built on
the slot of the middle builder *before* `add_batch` pointed that builder at the top-level slot,
so it runs on a default pool (here 2 threads) although the user supplied 8: its stage of four
groups cannot rendezvous, while the same plan directly under the top level can. -/
theorem C11_nested_batch_pool_witness :
    (PB.pool 8 (.batch 1 [1] (.batch 2 [4] .nil .nil) .nil)).build 2 [1] =
      [⟨none, 8, [1]⟩, ⟨some 1, 8, [1]⟩, ⟨some 2, 2, [4]⟩] ∧
    (⟨some 2, 2, [4]⟩ : Disp).completes = false ∧
    ((PB.pool 8 (.batch 2 [4] .nil .nil)).build 2 [1]).all Disp.completes = true := by decide

/-! ## The async dispatcher over a sequence of calls (model of `async_dispatcher.rs`) -/

/-- at most the job of the last dispatch is unfinished, and exactly when `data` is `Data::Rx`; no
dispatch ever had another unfinished job next to it -/
def ASt.Inv (s : ASt) : Prop := s.flying = (if s.rx then 1 else 0) ∧ ∀ b ∈ s.others, b = 0

theorem bumpNewest_zero (l : List Nat) : bumpNewest 0 l = l := by simp [bumpNewest]

theorem bumpNewest_length (k : Nat) (l : List Nat) : (bumpNewest k l).length = l.length := by
  simp only [bumpNewest, List.length_append, List.length_map, List.length_take, List.length_drop]
  omega

theorem ainv_inner {s : ASt} (h : s.Inv) : s.inner.Inv ∧ s.inner.rx = false ∧ s.inner.flying = 0 ∧
    s.inner.others = s.others := by
  obtain ⟨rx, flying, others⟩ := s
  obtain ⟨h1, h2⟩ := h
  cases rx with
  | true =>
    have h1 : flying = 1 := by simpa using h1
    subst h1
    exact ⟨⟨rfl, h2⟩, rfl, rfl, rfl⟩
  | false =>
    have h1 : flying = 0 := by simpa using h1
    subst h1
    exact ⟨⟨rfl, h2⟩, rfl, rfl, rfl⟩

theorem ainv_call {s : ASt} (h : s.Inv) (c : ACall) : (s.call c).Inv := by
  cases c with
  | dispatch =>
    obtain ⟨⟨_, h2⟩, _, hf, _⟩ := ainv_inner h
    refine ⟨by simp [ASt.call, ASt.spawn, hf], ?_⟩
    intro b hb
    simp only [ASt.call, ASt.spawn, hf, bumpNewest_zero, List.mem_cons] at hb
    rcases hb with rfl | hb
    · rfl
    · exact h2 b hb
  | wait => exact (ainv_inner h).1
  | waitWithoutTl => exact (ainv_inner h).1
  | world => exact (ainv_inner h).1
  | running sent =>
    cases sent with
    | true => simpa [ASt.call] using (ainv_inner h).1
    | false => simpa [ASt.call] using h

theorem ainv_run {s : ASt} (h : s.Inv) (calls : List ACall) : (s.run calls).Inv := by
  induction calls generalizing s with
  | nil => exact h
  | cons c cs ih => exact ih (ainv_call h c)

theorem ainv_init : ASt.init.Inv := by simp [ASt.Inv, ASt.init]

/-- **C11 (async dispatcher, the caller does the waiting).** In every state reachable by any
sequence of `dispatch` / `wait` / `wait_without_tl` / `world` / `running` calls — whatever
`running` observes — there is at most one unfinished job, the one `data` is waiting for: a second
`dispatch` is not spawned before the first has handed the systems back. -/
theorem C11_async_one_job (calls : List ACall) :
    (ASt.init.run calls).flying = if (ASt.init.run calls).rx then 1 else 0 :=
  (ainv_run ainv_init calls).1

/-- **C11 (async dispatcher, the whole pool for every dispatch).** However many dispatches were
issued before it, with or without `wait` in between, no dispatch ever shares the pool with another
unfinished job of the dispatcher: the workers available to its stages are all those of the pool. -/
theorem C11_async_whole_pool (calls : List ACall) : ∀ b ∈ asyncOthers calls, b = 0 := by
  intro b hb
  exact (ainv_run ainv_init calls).2 b (by simpa [asyncOthers] using hb)

theorem run_others_length (s : ASt) (calls : List ACall) :
    (s.run calls).others.length = s.others.length + nDispatch calls := by
  induction calls generalizing s with
  | nil => simp [ASt.run, nDispatch]
  | cons c cs ih =>
    have hi : s.inner.others = s.others := by unfold ASt.inner; split <;> rfl
    rw [ASt.run, ih]
    cases c with
    | dispatch => simp [ASt.call, ASt.spawn, nDispatch, bumpNewest_length, hi]; omega
    | wait => simp [ASt.call, nDispatch, hi]
    | waitWithoutTl => simp [ASt.call, nDispatch, hi]
    | world => simp [ASt.call, nDispatch, hi]
    | running sent => cases sent <;> simp [ASt.call, nDispatch, hi]

/-- every `dispatch()` of the sequence is accounted for -/
theorem C11_async_every_dispatch (calls : List ACall) : (asyncOthers calls).length = nDispatch calls := by
  simp [asyncOthers, run_others_length, ASt.init]

/-- **C11 (async dispatcher, sequences of calls).** On a pool of `p` threads, every dispatch of
every call sequence — back to back or with waits in between — lets a stage of `n ≤ p` groups
rendezvous; and a stage of more groups than threads never does: the prediction for a sequence is
the prediction for a single dispatch, once per `dispatch()`. -/
theorem C11_async_sequence (p n : Nat) (calls : List ACall) :
    asyncVerdicts p n calls = List.replicate (nDispatch calls) (decide (n ≤ p)) := by
  have hl := C11_async_every_dispatch calls
  have h0 := C11_async_whole_pool calls
  unfold asyncVerdicts
  apply List.ext_getElem
  · simp [hl]
  · intro i h1 h2
    have hi : i < (asyncOthers calls).length := by simpa using h1
    have hz : (asyncOthers calls)[i] = 0 := h0 _ (List.getElem_mem hi)
    simp only [List.getElem_map, List.getElem_replicate, hz, poolCompletesBusy, Nat.sub_zero]
    by_cases hle : n ≤ p
    · simp [hle, C11_poolCompletes_iff.2 hle]
    · have : poolCompletes p n = false := by
        cases hc : poolCompletes p n with
        | false => rfl
        | true => exact absurd (C11_poolCompletes_iff.1 hc) hle
      simp [hle, this]

theorem C11_async_sequence_rendezvous {p n : Nat} (hle : n ≤ p) (calls : List ACall) :
    ∀ v ∈ asyncVerdicts p n calls, v = true := by
  intro v hv
  rw [C11_async_sequence] at hv
  simpa [hle] using (List.mem_replicate.1 hv).2

/-- three dispatches back to back, `running` in between, then `wait`: three entries, all `0`;
a stage of 4 on a pool of 4 meets in each of them, a stage of 5 in none -/
example : asyncOthers [.dispatch, .dispatch, .running false, .dispatch, .wait] = [0, 0, 0] ∧
    asyncVerdicts 4 4 [.dispatch, .dispatch, .running false, .dispatch, .wait] = [true, true, true] ∧
    asyncVerdicts 4 5 [.dispatch, .running true, .dispatch, .world] = [false, false] := by decide

/-- the bookkeeping is not vacuous: were a job spawned while another is unfinished (no
`Data::inner` first), both would be recorded as sharing the pool -/
example : (ASt.init.inner.spawn.spawn).others = [1, 1] ∧
    (ASt.init.inner.spawn.spawn.spawn).others = [2, 2, 2] := by decide

/-- the executable prediction used by the correspondence run, on a few sizes (these are tests) -/
example : poolCompletes 16 16 = true ∧ poolCompletes 19 16 = true ∧ poolCompletes 3 4 = false ∧
    poolCompletes 2 2 = true := by decide

end Shred

#print axioms Shred.pool_inv
#print axioms Shred.C11_rendezvous_progress
#print axioms Shred.C11_steps_decrease
#print axioms Shred.C11_all_inside_together
#print axioms Shred.C11_finish_needs_all
#print axioms Shred.reach_starts
#print axioms Shred.C11_rendezvous_needs_n
#print axioms Shred.run_reach
#print axioms Shred.run_quiescent
#print axioms Shred.C11_poolCompletes_of_le
#print axioms Shred.pool_done_le
#print axioms Shred.C11_poolCompletes_iff
#print axioms Shred.C11_busy_workers
#print axioms Shred.slot_some
#print axioms Shred.slot_noPool
#print axioms Shred.batches_noPool
#print axioms Shred.C11_default_pool_size
#print axioms Shred.C11_default_pool_rendezvous
#print axioms Shred.slot_lastPool
#print axioms Shred.direct_mem_batches
#print axioms Shred.C11_user_pool
#print axioms Shred.C11_user_pool_rendezvous
#print axioms Shred.C11_nested_batch_pool_witness
#print axioms Shred.bumpNewest_zero
#print axioms Shred.bumpNewest_length
#print axioms Shred.ainv_inner
#print axioms Shred.ainv_call
#print axioms Shred.ainv_run
#print axioms Shred.ainv_init
#print axioms Shred.C11_async_one_job
#print axioms Shred.C11_async_whole_pool
#print axioms Shred.run_others_length
#print axioms Shred.C11_async_every_dispatch
#print axioms Shred.C11_async_sequence
#print axioms Shred.C11_async_sequence_rendezvous
