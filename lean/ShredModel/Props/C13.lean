import ShredModel.Lemmas.Lifecycle
import ShredModel.Lemmas.Scenario
/-!
# C13 — setup and dispose reach every system once; setup never clobbers

`setupOrder` / `disposeOrder` mirror the fan-out of `Dispatcher::setup` / `dispose` over
stages, groups, systems, batch wrappers (which forward to their inner dispatcher — for
`dispose` only after repair D2) and the thread-local list. The world part (`setupWorld`) is
the `DefaultProvider` / `PanicHandler` / `Option` behaviour for the controller data types the
harness uses; the same statements for **every** system-data type are C06's
`setup_preserves` / `setup_creates` (Props/C06.lean).
-/
namespace Shred

/-- **C13 (setup reaches).** The systems whose `setup` hook is called are exactly the systems
of the dispatcher in layout order, every batch replaced by the systems its inner dispatcher
sets up — at any nesting depth, since inner lists are built the same way. -/
theorem C13_setup_reaches (stages : Table (List SysTag)) (tl : List SysTag) (bs : List (SysTag × Nat × List LEv)) :
    setupSys (setupOrder stages tl bs) = sysList stages tl fun t => (findL bs t).map fun p => setupSys p.2 :=
  setupSys_setupOrder stages tl bs

/-- **C13 (dispose reaches).** Same for the `dispose` hooks. -/
theorem C13_dispose_reaches (stages : Table (List SysTag)) (tl : List SysTag) (bs : List (SysTag × Nat × List LEv)) :
    disposeSys (disposeOrder stages tl bs) = sysList stages tl fun t => (findL bs t).map fun p => disposeSys p.2 :=
  disposeSys_disposeOrder stages tl bs

/-- **C13 (dispose = setup, by nesting depth).** If for every batch the inner dispatcher's
dispose reaches the systems its setup reached, so does the outer one's. (Base: a dispatcher
without batches, `bs = []`.) -/
theorem C13_dispose_matches_setup (stages : Table (List SysTag)) (tl : List SysTag)
    (bs bd : List (SysTag × Nat × List LEv))
    (h : ∀ t, (findL bd t).map (fun p => disposeSys p.2) = (findL bs t).map (fun p => setupSys p.2)) :
    disposeSys (disposeOrder stages tl bd) = setupSys (setupOrder stages tl bs) := by
  rw [setupSys_setupOrder, disposeSys_disposeOrder]
  congr 1
  funext t
  exact h t

/-- the controller data of every batch is set up where the batch sits in the layout -/
theorem C13_controller_data_setup (stages : Table (List SysTag)) (tl : List SysTag) (bs : List (SysTag × Nat × List LEv))
    (t : SysTag) (k : Nat) (inner : List LEv) (ht : t ∈ stages.flatten.flatten) (hb : findL bs t = some (k, inner)) :
    LEv.C t k ∈ setupOrder stages tl bs := by
  unfold setupOrder
  apply List.mem_append_left
  apply List.mem_flatMap.mpr
  exact ⟨t, ht, by rw [hb]; simp⟩

namespace Scenario
variable (sc : Scenario)

/-- **C13 (exactly once, any registration sequence without batches).** Every registered
system and every thread-local system has its `setup` hook called exactly once and is handed to
its `dispose` hook exactly once. -/
theorem C13_setup_dispose_once (x : SysTag) (hx : x < sc.final.n ∨ x ∈ sc.tl) :
    (setupSys (setupOrder sc.final.b.stages sc.tl [])).count x = 1 ∧
    (disposeSys (disposeOrder sc.final.b.stages sc.tl [])).count x = 1 := by
  obtain ⟨z, hz⟩ := sc.good
  have hnd := nodup_dispatchTask hz sc.tl sc.tl_nodup sc.tl_fresh
  rw [sys_dispatchTask] at hnd
  have hmem : x ∈ sc.final.b.stages.flatten.flatten ++ sc.tl := by
    rw [stages_eq_of_zips hz.zips, flatten_sys_eq_allIds hz]
    rcases hx with h | h
    · apply List.mem_append_left
      apply List.count_pos_iff.mp
      rw [hz.ids x]; simp [h]
    · exact List.mem_append_right _ h
  have hone : (sc.final.b.stages.flatten.flatten ++ sc.tl).count x = 1 :=
    by rw [List.Nodup.count hnd]; simp [hmem]
  have e : ∀ (l : List SysTag), (l.flatMap fun t => [t]) = l := by
    intro l; induction l with
    | nil => rfl
    | cons a l ih => simp [List.flatMap_cons, ih]
  constructor
  · rw [setupSys_setupOrder]
    simp only [sysList, findL, Option.map_none]
    rw [e]; exact hone
  · rw [disposeSys_disposeOrder]
    simp only [sysList, findL, Option.map_none]
    rw [e]; exact hone

end Scenario

/-- **C13 (setup never clobbers).** -/
theorem C13_setup_preserves (evs : List LEv) (w : LWorld) (x : ResId) (v : Nat) (h : w.get? x = some v) :
    (setupWorld evs w).get? x = some v := setupWorld_preserves evs w x v h

/-- **C13 (defaults exist afterwards).** -/
theorem C13_setup_creates (evs : List LEv) (w : LWorld) (t : SysTag) (k : Nat) (r : ResId)
    (he : LEv.C t k ∈ evs) (hr : r ∈ ctlCreates k) : (setupWorld evs w).has r = true :=
  setupWorld_creates evs w t k r he hr

/-- **C13 (nothing else is created)** — optional and expecting accessors create nothing. -/
theorem C13_setup_creates_only (evs : List LEv) (w : LWorld) (r : ResId) (h : (setupWorld evs w).has r = true) :
    w.has r = true ∨ ∃ t k, LEv.C t k ∈ evs ∧ r ∈ ctlCreates k := setupWorld_only evs w r h

/-- **C13 (repeated setup).** -/
theorem C13_setup_idempotent (evs : List LEv) (w : LWorld) :
    setupWorld evs (setupWorld evs w) = setupWorld evs w := setupWorld_idempotent evs w

/-- non-vacuity: a batch (kind 3) around one system, next to a plain system and a thread-local one -/
example : setupOrder [[[0], [1]]] [2] [(1, 3, [.S 5])] = [.S 0, .C 1 3, .S 5, .S 2] ∧
    disposeOrder [[[0], [1]]] [2] [(1, 3, [.X 5])] = [.X 0, .X 5, .X 2] ∧
    setupWorld [.S 0, .C 1 3, .S 5, .S 2] [(⟨0, 0⟩, 77)] = [(⟨0, 0⟩, 77), (⟨2, 0⟩, 0)] := by decide

end Shred

#print axioms Shred.C13_setup_reaches
#print axioms Shred.C13_dispose_reaches
#print axioms Shred.C13_dispose_matches_setup
#print axioms Shred.C13_controller_data_setup
#print axioms Shred.Scenario.C13_setup_dispose_once
#print axioms Shred.C13_setup_preserves
#print axioms Shred.C13_setup_creates
#print axioms Shred.C13_setup_creates_only
#print axioms Shred.C13_setup_idempotent
