import ShredModel.Lemmas.PExec
/-!
# C14 — a panicking system is contained

`PTraces pan t l o`: `l` is a possible event sequence of task `t` when exactly the instances in
`pan` panic inside `run`; `o` tells whether a panic leaves the task. `par` lets the sibling
run on (rayon's `join` semantics), `seq` stops at the first panicking child.
-/
namespace Shred
variable {ι : Type} [DecidableEq ι] {pan : ι → Prop}

/-- a panic reaches the caller iff some system emitted `P` … -/
theorem C14_panicked_iff {t : Task ι} {l : List (PEv ι)} {o : Bool} (h : PTraces pan t l o) :
    o = true ↔ ∃ s, PEv.P s ∈ l := panicked_iff h

/-- … and then a system that really panicked is among them (the payload is a panicking system's) -/
theorem C14_payload_source {t : Task ι} {l : List (PEv ι)} {o : Bool} (h : PTraces pan t l o) :
    o = true → ∃ s, pan s ∧ PEv.P s ∈ l := panic_source h

/-- no system ordered after a panicking one (dependency, barrier, later in its group, later
stage, thread-local) runs in that dispatch -/
theorem C14_dependents_dont_run {t : Task ι} {l : List (PEv ι)} {o : Bool}
    (h : PTraces pan t l o) (hnd : t.sys.Nodup) (x y : ι) (hb : Before t x y) (hp : PEv.P x ∈ l) :
    PEv.F y ∉ l := dependents_dont_run h hnd x y hb hp

end Shred

#print axioms Shred.C14_panicked_iff
#print axioms Shred.C14_payload_source
#print axioms Shred.C14_dependents_dont_run
