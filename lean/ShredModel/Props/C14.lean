import ShredModel.Lemmas.PExec
import ShredModel.Lemmas.PAccept
import ShredModel.Lemmas.PComplete
/-!
# C14 — a panicking system is contained

Two layers.

**What the driver checks.** `Accepted t l o`: the panic-aware acceptor (`PR.run`, the function
the driver executes on every recorded log, injected panics included) accepts `l` for task `t`
with outcome `o` (`true` = a panic leaves the dispatch). The acceptor follows the code: a `seq`
(stage loop, group loop, thread-local loop) stops at the first part that ended in a panic; at a
`par` the started siblings run to their own end and — as observed of rayon, which runs several
groups of a stage in one sequential chunk — groups that were never started may be left out once
a sibling has panicked; a batch controller may panic whenever no inner system is inside its
window. For **every** accepted log:

* `C14_panic_reported_iff` — a panic reaches the caller iff some system was unwound;
* `C14_dependents_dont_run` — nothing ordered after an unwound system (dependency, barrier,
  later in its group, later stage, thread-local, inside or outside batches) starts;
* `C14_at_most_once` — no instance starts twice;
* `C14_nothing_left_open` — every window that was opened is closed (data dropped normally or by
  unwinding): replayed on the world model no borrow is outstanding.

The plan is not changed by a dispatch, so the next dispatch is accepted from `t.toPR` again and
C04 applies to it (`reusable` is definitional in the model; the engine checks it on the crate).

**The declarative semantics** `PTraces pan t l o` (which instances panic is a parameter) with the
same three statements, kept as the readable specification.
-/
namespace Shred
variable {ι : Type} [DecidableEq ι]

/-- the driver's acceptor accepts log `l` for one dispatch of `t`, with outcome `o` -/
def Accepted (t : Task ι) (l : List (PEv ι)) (o : Bool) : Prop := t.toPR.run l = some o

instance (t : Task ι) (l : List (PEv ι)) (o : Bool) : Decidable (Accepted t l o) := by
  unfold Accepted; infer_instance

theorem accepted_iff (t : Task ι) (l : List (PEv ι)) (o : Bool) :
    Accepted t l o ↔ ∃ r', t.toPR.steps l = some r' ∧ r'.finalOk false = true ∧ o = r'.hasPanic := by
  unfold Accepted
  rw [PR.run_eq]
  cases h : t.toPR.steps l with
  | none => simp
  | some r' =>
    simp only [Option.bind_some]
    by_cases hf : r'.finalOk false = true
    · rw [if_pos hf]
      constructor
      · intro e; exact ⟨r', rfl, hf, by cases e; rfl⟩
      · rintro ⟨r'', e1, _, e2⟩; cases e1; rw [e2]
    · rw [if_neg hf]
      constructor
      · intro e; cases e
      · rintro ⟨r'', e1, hf', _⟩; cases e1; exact absurd hf' hf

/-- **C14 (propagation).** -/
theorem C14_panic_reported_iff {t : Task ι} {l : List (PEv ι)} {o : Bool} (h : Accepted t l o) :
    o = true ↔ ∃ s, PEv.P s ∈ l := by
  obtain ⟨r', hs, _, ho⟩ := (accepted_iff t l o).mp h
  rw [ho, PR.hasPanic_steps _ _ _ hs, hasPanic_toPR]
  simp

/-- **C14 (dependents do not run).** -/
theorem C14_dependents_dont_run {t : Task ι} {l : List (PEv ι)} {o : Bool} (h : Accepted t l o)
    (hnd : t.sys.Nodup) (x y : ι) (hb : Before t x y) (hp : PEv.P x ∈ l) : PEv.F y ∉ l := by
  obtain ⟨r', hs, _, _⟩ := (accepted_iff t l o).mp h
  exact dependents_dont_start hb hs hnd hp

/-- **C14 (no system runs more than once).** -/
theorem C14_at_most_once {t : Task ι} {l : List (PEv ι)} {o : Bool} (h : Accepted t l o)
    (hnd : t.sys.Nodup) (x : ι) : l.count (PEv.F x) ≤ 1 := by
  obtain ⟨r', hs, _, _⟩ := (accepted_iff t l o).mp h
  exact PR.count_F_le_one _ hs (by rw [insts_toPR]; exact hnd) x

/-- **C14 (nothing is left borrowed).** -/
theorem C14_nothing_left_open {t : Task ι} {l : List (PEv ι)} {o : Bool} (h : Accepted t l o)
    (x : ι) (hx : PEv.F x ∈ l) : PEv.D x ∈ l ∨ PEv.P x ∈ l := by
  obtain ⟨r', hs, hf, _⟩ := (accepted_iff t l o).mp h
  exact PR.closed_of_final _ false hs hf x hx

/-- every event of an accepted log belongs to an instance of the plan -/
theorem C14_events_of_plan {t : Task ι} {l : List (PEv ι)} {o : Bool} (h : Accepted t l o)
    (e : PEv ι) (he : e ∈ l) : e.sys ∈ t.sys := by
  obtain ⟨r', hs, _, _⟩ := (accepted_iff t l o).mp h
  simpa [insts_toPR] using PR.steps_ev_sys _ hs e he

/-- non-vacuity: stage `[[0],[1]]` then system `2`; `0` panics, its sibling `1` still runs, `2`
(ordered after both) does not; and the rayon behaviour that a sibling that never started is
left out is accepted too -/
example : Accepted (.seq (.par (.leaf 0) (.leaf 1)) (.leaf 2)) [.F 0, .F 1, .P 0, .D 1] true ∧
    Accepted (.seq (.par (.leaf 0) (.leaf 1)) (.leaf 2)) [.F 0, .P 0] true ∧
    (.seq (.par (.leaf 0) (.leaf 1)) (.leaf 2) : Task Nat).toPR.run [.F 0, .P 0, .F 2, .D 2] = none ∧
    Accepted (.seq (.par (.leaf 0) (.leaf 1)) (.leaf 2)) [.F 1, .F 0, .D 0, .D 1, .F 2, .D 2] false := by
  decide

/-! ### the declarative semantics -/
variable {pan : ι → Prop}

/-- a panic reaches the caller iff some system emitted `P` … -/
theorem C14_panicked_iff {t : Task ι} {l : List (PEv ι)} {o : Bool} (h : PTraces pan t l o) :
    o = true ↔ ∃ s, PEv.P s ∈ l := panicked_iff h

/-- … and then a system that really panicked is among them (the payload is a panicking system's) -/
theorem C14_payload_source {t : Task ι} {l : List (PEv ι)} {o : Bool} (h : PTraces pan t l o) :
    o = true → ∃ s, pan s ∧ PEv.P s ∈ l := panic_source h

theorem C14_dependents_dont_run_spec {t : Task ι} {l : List (PEv ι)} {o : Bool}
    (h : PTraces pan t l o) (hnd : t.sys.Nodup) (x y : ι) (hb : Before t x y) (hp : PEv.P x ∈ l) :
    PEv.F y ∉ l := dependents_dont_run h hnd x y hb hp

/-- **no false alarm**: every execution the declarative semantics allows — whichever instances
panic, however the siblings interleave — is accepted by the driver's acceptor, with the same
outcome. -/
theorem C14_spec_is_accepted {t : Task ι} {l : List (PEv ι)} {o : Bool} (h : PTraces pan t l o)
    (hnd : t.sys.Nodup) : Accepted t l o := by
  obtain ⟨r', hs, hst⟩ := ptraces_steps h hnd
  apply (accepted_iff t l o).mpr
  refine ⟨r', hs, PR.finalOk_of_done r' false (by cases o <;> simp [hst]), ?_⟩
  have hp := PR.hasPanic_steps _ _ _ hs
  rw [hasPanic_toPR] at hp
  cases o with
  | false =>
    simp only [Bool.false_eq_true, ↓reduceIte] at hst
    exact (PR.not_hasPanic_of_ok r' hst).symm
  | true =>
    have : ∃ s, PEv.P s ∈ l := (panicked_iff h).mp rfl
    exact (hp.mpr (Or.inr this)).symm

end Shred

#print axioms Shred.accepted_iff
#print axioms Shred.C14_panic_reported_iff
#print axioms Shred.C14_dependents_dont_run
#print axioms Shred.C14_at_most_once
#print axioms Shred.C14_nothing_left_open
#print axioms Shred.C14_events_of_plan
#print axioms Shred.C14_panicked_iff
#print axioms Shred.C14_payload_source
#print axioms Shred.C14_dependents_dont_run_spec
#print axioms Shred.C14_spec_is_accepted
