import ShredModel.Lemmas.Batch
import ShredModel.Lemmas.Expand
/-!
# C07 — a batch is isolated as the union of its controller and everything inside it
-/
namespace Shred

/-- **C07 (accessor, reads).** What `add_batch` declares for the batch is *exactly* the
controller's declared data plus what the systems registered in the inner builder declare. -/
theorem C07_batch_reads {D Dep g z} (h : GoodZ D Dep g z) (inner : DispatcherBuilder)
    (hinner : inner.stagesBuilder = g.b) (ctl : Decl) (x : ResId) :
    x ∈ (DispatcherBuilder.batchDecl inner ctl).reads ↔ x ∈ ctl.reads ∨ ∃ s, s < g.n ∧ x ∈ (D s).reads :=
  batchDecl_reads h inner hinner ctl x

theorem C07_batch_writes {D Dep g z} (h : GoodZ D Dep g z) (inner : DispatcherBuilder)
    (hinner : inner.stagesBuilder = g.b) (ctl : Decl) (x : ResId) :
    x ∈ (DispatcherBuilder.batchDecl inner ctl).writes ↔ x ∈ ctl.writes ∨ ∃ s, s < g.n ∧ x ∈ (D s).writes :=
  batchDecl_writes h inner hinner ctl x

/-- **C07 (conflicts lift).** Whoever conflicts with an inner system, or with the controller's
data, conflicts with the batch as the outer scheduler sees it. -/
theorem C07_conflict_lifts {D Dep g z} (h : GoodZ D Dep g z) (inner : DispatcherBuilder)
    (hinner : inner.stagesBuilder = g.b) (ctl : Decl) (a : Decl) :
    (∀ s, s < g.n → conflictsD a (D s) → conflictsD a (DispatcherBuilder.batchDecl inner ctl)) ∧
    (conflictsD a ctl → conflictsD a (DispatcherBuilder.batchDecl inner ctl)) :=
  ⟨fun s hs hc => conflict_lifts h inner hinner ctl a s hs hc, conflict_lifts_ctl h inner hinner ctl a⟩

/-- **C07 (nesting).** Replacing every batch leaf of a well-formed outer task by the scope
around its (well-formed) body keeps the task well-formed — so isolation (C01), ordering (C02,
C03) and exactly-once (C04) hold for the nested task, at any depth. -/
theorem C07_nested_wf {ι : Type} [DecidableEq ι] {C : ι → ι → Prop} {σ : ι → Option (Task ι)} {t : Task ι}
    (ht : WF C t) (hbody : ∀ s body, σ s = some body → WF C body)
    (hl : ∀ s body, σ s = some body → ∀ x y, y ∈ body.sys → C x s → C x y)
    (hr : ∀ s body, σ s = some body → ∀ x y, y ∈ body.sys → C s x → C y x) :
    WF C (t.expand σ) := wf_expand ht hbody hl hr

end Shred

#print axioms Shred.C07_batch_reads
#print axioms Shred.C07_batch_writes
#print axioms Shred.C07_conflict_lifts
#print axioms Shred.C07_nested_wf
