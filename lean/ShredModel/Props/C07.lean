import ShredModel.Lemmas.Batch
import ShredModel.Lemmas.Examples
import ShredModel.Lemmas.Expand
import ShredModel.Lemmas.NestedTop
/-!
# C07 — a batch is isolated as the union of its controller and everything inside it

Two halves.

**The accessor.** What `add_batch` declares for the batch is exactly the controller's declared
data plus what the systems registered in the inner builder declare (`C07_batch_reads/_writes`),
so whoever conflicts with something inside conflicts with the batch (`C07_conflict_lifts`).

**The executions, at any nesting depth.** A `Level D` is a built dispatcher whose batches were
built the same way; `C07_level_of_registrations` obtains one from *every* registration sequence
run through the tagged five-table builder the driver executes, `C07_body_of_level` turns an
inner level into the body of a batch (declared with the accessor `add_batch` computes — hypothesis
`htl`: no thread-local systems inside, the open finding KF1). For every level, every prefix and
every trace of `dispatch` or `dispatch_seq` — every interleaving — `C07_nested_isolation`,
`C07_nested_exactly_once`, `C07_nested_order`, `C07_nested_inner_order` hold: outside systems
never overlap a batch they conflict with (neither its controller's data nor anything inside),
and inside the batch the inner systems enjoy isolation, ordering and exactly-once on every
inner dispatch.
-/
namespace Shred

/-- **C07 (accessor, reads).** -/
theorem C07_batch_reads {D Dep g z} (h : GoodZ D Dep g z) (inner : DispatcherBuilder)
    (hinner : inner.stagesBuilder = g.b) (ctl : Decl) (x : ResId) :
    x ∈ (DispatcherBuilder.batchDecl inner ctl).reads ↔ x ∈ ctl.reads ∨ ∃ s, s < g.n ∧ x ∈ (D s).reads :=
  batchDecl_reads h inner hinner ctl x

/-- **C07 (accessor, writes).** -/
theorem C07_batch_writes {D Dep g z} (h : GoodZ D Dep g z) (inner : DispatcherBuilder)
    (hinner : inner.stagesBuilder = g.b) (ctl : Decl) (x : ResId) :
    x ∈ (DispatcherBuilder.batchDecl inner ctl).writes ↔ x ∈ ctl.writes ∨ ∃ s, s < g.n ∧ x ∈ (D s).writes :=
  batchDecl_writes h inner hinner ctl x

/-- **C07 (conflicts lift).** Whoever conflicts with an inner system, or with the controller's
data, conflicts with the batch as the outer scheduler sees it. -/
theorem C07_conflict_lifts {D Dep g z} (h : GoodZ D Dep g z) (inner : DispatcherBuilder)
    (hinner : inner.stagesBuilder = g.b) (ctl : Decl) (a : Decl) :
    (∀ s, s < g.n → conflictsD a (D s) → conflictsD a (DispatcherBuilder.batchDecl inner ctl)) ∧
    (conflictsD a ctl → conflictsD a (DispatcherBuilder.batchDecl inner ctl)) :=
  ⟨fun s hs hc => conflict_lifts h inner hinner ctl a s hs hc, conflict_lifts_ctl h inner hinner ctl a⟩

/-- **C07 (nesting by expansion).** Replacing every batch leaf of a well-formed outer task by the
scope around its (well-formed) body keeps the task well-formed. -/
theorem C07_nested_wf {ι : Type} [DecidableEq ι] {C : ι → ι → Prop} {σ : ι → Option (Task ι)} {t : Task ι}
    (ht : WF C t) (hbody : ∀ s body, σ s = some body → WF C body)
    (hl : ∀ s body, σ s = some body → ∀ x y, y ∈ body.sys → C x s → C x y)
    (hr : ∀ s body, σ s = some body → ∀ x y, y ∈ body.sys → C s x → C y x) :
    WF C (t.expand σ) := wf_expand ht hbody hl hr

/-- **C07 (every registration sequence gives a level).** -/
theorem C07_level_of_registrations (sc : Scenario) (τ : Nat → SysTag) (D' : SysTag → Decl)
    (hτ : ∀ i j, i < sc.final.n → j < sc.final.n → τ i = τ j → i = j)
    (hD : ∀ i, i < sc.final.n → D' (τ i) = sc.D i) (tl : List SysTag) (htl : tl.Nodup)
    (hfresh : ∀ i, i < sc.final.n → τ i ∉ tl) (bs : List (SysTag × Body)) (hbs : BodiesOK D' bs) :
    ∃ L : Level D', L.stages = (runOpsT τ sc.ops).1.stages ∧ L.tl = tl ∧ L.bs = bs :=
  ⟨sc.level τ D' hτ hD tl htl hfresh bs hbs, rfl, rfl, rfl⟩

/-- **C07 (an inner level is a good body for the accessor `add_batch` computes).** -/
theorem C07_body_of_level (sc : Scenario) (τ : Nat → SysTag) (D' : SysTag → Decl)
    (hτ : ∀ i j, i < sc.final.n → j < sc.final.n → τ i = τ j → i = j)
    (hD : ∀ i, i < sc.final.n → D' (τ i) = sc.D i) (bs : List (SysTag × Body)) (hbs : BodiesOK D' bs)
    (inner : DispatcherBuilder) (hinner : inner.stagesBuilder = (runOpsT τ sc.ops).1) (ctl : Decl)
    (par : Bool) (n : Nat) :
    BodyOK D' (batchBody par (runOpsT τ sc.ops).1.stages [] bs n) (DispatcherBuilder.batchDecl inner ctl) :=
  (sc.level τ D' hτ hD [] List.nodup_nil (fun _ _ h => by cases h) bs hbs).body rfl par n _
    (sub_batchDecl sc τ D' hD inner hinner ctl)

variable {D : SysTag → Decl} (L : Level D)

/-- **C07 / C01 (isolation at any depth).** At every moment of every execution, two distinct
instances that are both inside their window are a batch and something inside it, or have
non-conflicting declared access. -/
theorem C07_nested_isolation (par : Bool) (pfx : Inst) (l : List (Ev Inst)) (hl : Traces (L.task par pfx) l)
    (p : List (Ev Inst)) (hp : p <+: l) (x y : Inst) (hxy : x ≠ y) (hx : OpenIn x p) (hy : OpenIn y p) :
    Anc (L.task par pfx) x y ∨ Anc (L.task par pfx) y x ∨ ¬ conflictsD (D (lastTag x)) (D (lastTag y)) :=
  traces_isolated (compatI_symm D) hl (L.wf par pfx) (L.nodup par pfx) p hp x y hxy hx hy

/-- **C07 / C04 (exactly once at any depth).** -/
theorem C07_nested_exactly_once (par : Bool) (pfx : Inst) (l : List (Ev Inst)) (hl : Traces (L.task par pfx) l)
    (x : Inst) (hx : x ∈ (L.task par pfx).sys) : l.count (Ev.F x) = 1 ∧ l.count (Ev.D x) = 1 :=
  traces_once hl (L.nodup par pfx) x hx

/-- **C07 / C02 / C03 (order at any depth).** If the layout puts `A` before `B`, everything under
`A` has dropped its data before anything under `B` begins to fetch. -/
theorem C07_nested_order (par : Bool) (pfx : Inst) (l : List (Ev Inst)) (hl : Traces (L.task par pfx) l)
    {A B : SysTag} (hAB : TOrdered L.stages A B) {x y : Inst}
    (hx : x ∈ (leafOf L.bs pfx A).sys) (hy : y ∈ (leafOf L.bs pfx B).sys)
    (l1 l2 : List (Ev Inst)) (hsplit : l = l1 ++ Ev.F y :: l2) : Ev.D x ∈ l1 :=
  traces_before hl (L.nodup par pfx) x y (before_nested_of_ordered par L.tl L.bs pfx hAB hx hy) l1 l2 hsplit

/-- **C07 / C12 (thread-local systems last, at any depth).** -/
theorem C07_nested_tl_last (par : Bool) (pfx : Inst) (l : List (Ev Inst)) (hl : Traces (L.task par pfx) l)
    {A u : SysTag} (hA : A ∈ L.stages.flatten.flatten) (hu : u ∈ L.tl) {x : Inst}
    (hx : x ∈ (leafOf L.bs pfx A).sys)
    (l1 l2 : List (Ev Inst)) (hsplit : l = l1 ++ Ev.F (pfx ++ [u]) :: l2) : Ev.D x ∈ l1 :=
  traces_before hl (L.nodup par pfx) x _ (before_nested_tl par L.bs pfx hA hu hx) l1 l2 hsplit

/-- **C07 (the order inside a batch holds in the enclosing dispatcher).** -/
theorem C07_nested_inner_order (par : Bool) (pfx : Inst) (l : List (Ev Inst)) (hl : Traces (L.task par pfx) l)
    {t : SysTag} {b : Body} (ht : t ∈ L.stages.flatten.flatten) (hb : findBody L.bs t = some b)
    {x y : Inst} (hxy : Before (b (pfx ++ [t])) x y)
    (l1 l2 : List (Ev Inst)) (hsplit : l = l1 ++ Ev.F y :: l2) : Ev.D x ∈ l1 :=
  traces_before hl (L.nodup par pfx) x y (before_nested_inner par L.tl pfx ht hb hxy) l1 l2 hsplit

/-- **C07 (inner dispatches run one after the other).** A batch whose controller dispatches its
inner dispatcher `n` times: in every execution of the enclosing dispatcher, every system of inner
dispatch `i` (staged or thread-local, at any depth below it) has dropped its data before any system
of a later inner dispatch `j` begins to fetch. (This is what the trace engine's ordering oracle over
instance paths checks on every event log.) -/
theorem C07_inner_dispatches_in_order (par : Bool) (pfx : Inst) (l : List (Ev Inst)) (hl : Traces (L.task par pfx) l)
    {t : SysTag} (ht : t ∈ L.stages.flatten.flatten)
    {ipar : Bool} {stages : Table (List SysTag)} {tl : List SysTag} {bs : List (SysTag × Body)} {n : Nat}
    (hb : findBody L.bs t = some (batchBody ipar stages tl bs n))
    {i j : Nat} (hij : i < j) (hj : j < n) {x y : Inst}
    (hx : x ∈ (nDispatchTask ipar stages tl bs (pfx ++ [t] ++ [i])).sys)
    (hy : y ∈ (nDispatchTask ipar stages tl bs (pfx ++ [t] ++ [j])).sys)
    (l1 l2 : List (Ev Inst)) (hsplit : l = l1 ++ Ev.F y :: l2) : Ev.D x ∈ l1 := by
  refine C07_nested_inner_order L par pfx l hl ht hb ?_ l1 l2 hsplit
  have := iterBody_before (nDispatchTask ipar stages tl bs) (pfx ++ [t]) (x := x) (y := y) n 0 i j hij hj
    (by simpa using hx) (by simpa using hy)
  simpa [batchBody] using this

end Shred

namespace Shred
/-- non-vacuity of `C07_inner_dispatches_in_order`: in `exLevel` batch `1` is dispatched twice, its
body is a `batchBody`, and `[1, 0, 6]` (inner dispatch 0) and `[1, 1, 5]` (inner dispatch 1) are systems of it -/
example : findBody exLevel.bs 1 = some (batchBody true [[[5]], [[6]]] [] [] 2) ∧ (1 : Nat) ∈ exLevel.stages.flatten.flatten ∧
    ([1, 0, 6] : Inst) ∈ (nDispatchTask true [[[5]], [[6]]] [] [] ([] ++ [1] ++ [0])).sys ∧
    ([1, 1, 5] : Inst) ∈ (nDispatchTask true [[[5]], [[6]]] [] [] ([] ++ [1] ++ [1])).sys := by
  refine ⟨rfl, by decide, by decide, by decide⟩

/-- non-vacuity: `exLevel` is a `Level` with a batch whose body is dispatched twice; the inner
stages `[[5]], [[6]]` order `5` before `6` in every iteration -/
example : (exLevel.task true []).sys = [[0], [1], [1, 0, 5], [1, 0, 6], [1, 1, 5], [1, 1, 6], [2]] ∧
    TOrdered [[[5]], [[6]]] 5 6 := by
  refine ⟨by decide, Or.inl ⟨0, 1, [[5]], [[6]], by decide, rfl, rfl, by simp, by simp⟩⟩
end Shred

#print axioms Shred.C07_inner_dispatches_in_order
#print axioms Shred.C07_batch_reads
#print axioms Shred.C07_batch_writes
#print axioms Shred.C07_conflict_lifts
#print axioms Shred.C07_nested_wf
#print axioms Shred.C07_level_of_registrations
#print axioms Shred.C07_body_of_level
#print axioms Shred.C07_nested_isolation
#print axioms Shred.C07_nested_exactly_once
#print axioms Shred.C07_nested_order
#print axioms Shred.C07_nested_tl_last
#print axioms Shred.C07_nested_inner_order
