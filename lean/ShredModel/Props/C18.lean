import ShredModel.Model.Builder
/-!
# C18 (rejections): `add` panics exactly on the two ill-formed registrations

(Totality of everything else — indexing, group capacity, `u8`/`i8` arithmetic — is
`insert_fit` / `fit_time_le` / `target_valid` in `Lemmas/ZipMore.lean`.)
-/
namespace Shred
namespace DispatcherBuilder

theorem resolve_error_iff (m : List (String × SysId)) (deps : List String) (x : String) :
    resolve m deps = .error x ↔
      ∃ pre post, deps = pre ++ x :: post ∧ lookup m x = none ∧ ∀ y, y ∈ pre → (lookup m y).isSome := by
  induction deps with
  | nil => simp [resolve]
  | cons y ys ih =>
    simp only [resolve]
    cases hy : lookup m y with
    | none =>
      constructor
      · intro h; cases h
        exact ⟨[], ys, rfl, hy, by simp⟩
      · rintro ⟨pre, post, heq, hx, hpre⟩
        cases pre with
        | nil => simp at heq; rw [heq.1]
        | cons p ps =>
          simp at heq
          have := hpre p (by simp)
          rw [← heq.1, hy] at this; cases this
    | some id =>
      simp only []
      cases hr : resolve m ys with
      | error e =>
        simp only []
        constructor
        · intro h; cases h
          obtain ⟨pre, post, heq, hx, hpre⟩ := ih.mp hr
          refine ⟨y :: pre, post, by simp [heq], hx, ?_⟩
          intro w hw
          rcases List.mem_cons.mp hw with rfl | hw
          · simp [hy]
          · exact hpre w hw
        · rintro ⟨pre, post, heq, hx, hpre⟩
          cases pre with
          | nil => simp at heq; rw [← heq.1, hy] at hx; cases hx
          | cons p ps =>
            simp at heq
            have := ih.mpr ⟨ps, post, heq.2, hx, fun w hw => hpre w (by simp [hw])⟩
            rw [hr] at this; cases this; rfl
      | ok ids =>
        simp only []
        constructor
        · intro h; cases h
        · rintro ⟨pre, post, heq, hx, hpre⟩
          cases pre with
          | nil => simp at heq; rw [← heq.1, hy] at hx; cases hx
          | cons p ps =>
            simp at heq
            have := ih.mpr ⟨ps, post, heq.2, hx, fun w hw => hpre w (by simp [hw])⟩
            rw [hr] at this; cases this

/-- **C18.** `add` panics iff a dependency names no registered system — then with the *first*
such name — or, all dependencies being known, the name is non-empty and already taken. -/
theorem add_panics_iff (b : DispatcherBuilder) (tag : SysTag) (name : String) (dep : List String)
    (d : Decl) (p : BuildPanic) :
    (b.add tag name dep d).2 = some p ↔
      (∃ x, p = .unknownDep x ∧ resolve b.map dep = .error x) ∨
      (p = .duplicateName name ∧ (∃ ids, resolve b.map dep = .ok ids) ∧ name ≠ "" ∧
        (lookup b.map name).isSome) := by
  unfold add
  simp only []
  cases hr : resolve b.map dep with
  | error x =>
    simp only []
    constructor
    · intro h; cases h; exact Or.inl ⟨x, rfl, rfl⟩
    · rintro (⟨y, rfl, hy⟩ | ⟨_, ⟨ids, hids⟩, _⟩)
      · cases hy; rfl
      · cases hids
  | ok ids =>
    simp only []
    split
    · rename_i hn
      split
      · rename_i hl
        constructor
        · intro h; cases h; exact Or.inr ⟨rfl, ⟨ids, rfl⟩, hn, hl⟩
        · rintro (⟨y, _, hy⟩ | ⟨rfl, _⟩)
          · cases hy
          · rfl
      · rename_i hl
        constructor
        · intro h; cases h
        · rintro (⟨y, _, hy⟩ | ⟨_, _, _, hl'⟩)
          · cases hy
          · exact absurd hl' hl
    · rename_i hn
      constructor
      · intro h; cases h
      · rintro (⟨y, _, hy⟩ | ⟨_, _, hne, _⟩)
        · cases hy
        · exact absurd hne hn

/-- registrations that are well-formed never panic -/
theorem add_ok (b : DispatcherBuilder) (tag : SysTag) (name : String) (dep : List String) (d : Decl)
    (hdeps : ∀ x, x ∈ dep → (lookup b.map x).isSome) (hname : name = "" ∨ lookup b.map name = none) :
    (b.add tag name dep d).2 = none := by
  cases h : (b.add tag name dep d).2 with
  | none => rfl
  | some p =>
    exfalso
    rcases (add_panics_iff b tag name dep d p).mp h with ⟨x, _, hx⟩ | ⟨_, _, hne, hl⟩
    · obtain ⟨pre, post, heq, hnone, _⟩ := (resolve_error_iff _ _ _).mp hx
      have := hdeps x (by rw [heq]; simp)
      rw [hnone] at this; cases this
    · rcases hname with h | h
      · exact hne h
      · rw [h] at hl; cases hl

#print axioms add_ok
#print axioms resolve_error_iff
#print axioms add_panics_iff
end DispatcherBuilder
end Shred
