import ShredModel.Model.Builder
import ShredModel.Lemmas.Scenario
import ShredModel.Lemmas.AddGlue
/-!
# C18 (rejections): `add` panics exactly on the two ill-formed registrations

(Totality of everything else — indexing, group capacity, `u8`/`i8` arithmetic — is
`insert_fit` / `fit_time_le` / `target_valid` in `Lemmas/ZipMore.lean`.)
-/
namespace Shred
namespace DispatcherBuilder

theorem resolve_error_iff (m : List (String × SysId)) (deps : List String) (x : String) :
    resolve m deps = .error x ↔
      ∃ pre post, deps = pre ++ x :: post ∧ lookup m x = none ∧ ∀ y, y ∈ pre → (lookup m y).isSome := by
  induction deps with
  | nil => simp [resolve]
  | cons y ys ih =>
    simp only [resolve]
    cases hy : lookup m y with
    | none =>
      constructor
      · intro h; cases h
        exact ⟨[], ys, rfl, hy, by simp⟩
      · rintro ⟨pre, post, heq, hx, hpre⟩
        cases pre with
        | nil => simp at heq; rw [heq.1]
        | cons p ps =>
          simp at heq
          have := hpre p (by simp)
          rw [← heq.1, hy] at this; cases this
    | some id =>
      simp only []
      cases hr : resolve m ys with
      | error e =>
        simp only []
        constructor
        · intro h; cases h
          obtain ⟨pre, post, heq, hx, hpre⟩ := ih.mp hr
          refine ⟨y :: pre, post, by simp [heq], hx, ?_⟩
          intro w hw
          rcases List.mem_cons.mp hw with rfl | hw
          · simp [hy]
          · exact hpre w hw
        · rintro ⟨pre, post, heq, hx, hpre⟩
          cases pre with
          | nil => simp at heq; rw [← heq.1, hy] at hx; cases hx
          | cons p ps =>
            simp at heq
            have := ih.mpr ⟨ps, post, heq.2, hx, fun w hw => hpre w (by simp [hw])⟩
            rw [hr] at this; cases this; rfl
      | ok ids =>
        simp only []
        constructor
        · intro h; cases h
        · rintro ⟨pre, post, heq, hx, hpre⟩
          cases pre with
          | nil => simp at heq; rw [← heq.1, hy] at hx; cases hx
          | cons p ps =>
            simp at heq
            have := ih.mpr ⟨ps, post, heq.2, hx, fun w hw => hpre w (by simp [hw])⟩
            rw [hr] at this; cases this

/-- **C18.** `add` panics iff a dependency names no registered system — then with the *first*
such name — or, all dependencies being known, the name is non-empty and already taken. -/
theorem add_panics_iff (b : DispatcherBuilder) (tag : SysTag) (name : String) (dep : List String)
    (d : Decl) (p : BuildPanic) :
    (b.add tag name dep d).2 = some p ↔
      (∃ x, p = .unknownDep x ∧ resolve b.map dep = .error x) ∨
      (p = .duplicateName name ∧ (∃ ids, resolve b.map dep = .ok ids) ∧ name ≠ "" ∧
        (lookup b.map name).isSome) := by
  unfold add
  simp only []
  cases hr : resolve b.map dep with
  | error x =>
    simp only []
    constructor
    · intro h; cases h; exact Or.inl ⟨x, rfl, rfl⟩
    · rintro (⟨y, rfl, hy⟩ | ⟨_, ⟨ids, hids⟩, _⟩)
      · cases hy; rfl
      · cases hids
  | ok ids =>
    simp only []
    split
    · rename_i hn
      split
      · rename_i hl
        constructor
        · intro h; cases h; exact Or.inr ⟨rfl, ⟨ids, rfl⟩, hn, hl⟩
        · rintro (⟨y, _, hy⟩ | ⟨rfl, _⟩)
          · cases hy
          · rfl
      · rename_i hl
        constructor
        · intro h; cases h
        · rintro (⟨y, _, hy⟩ | ⟨_, _, _, hl'⟩)
          · cases hy
          · exact absurd hl' hl
    · rename_i hn
      constructor
      · intro h; cases h
      · rintro (⟨y, _, hy⟩ | ⟨_, _, hne, _⟩)
        · cases hy
        · exact absurd hne hn

/-- registrations that are well-formed never panic -/
theorem add_ok (b : DispatcherBuilder) (tag : SysTag) (name : String) (dep : List String) (d : Decl)
    (hdeps : ∀ x, x ∈ dep → (lookup b.map x).isSome) (hname : name = "" ∨ lookup b.map name = none) :
    (b.add tag name dep d).2 = none := by
  cases h : (b.add tag name dep d).2 with
  | none => rfl
  | some p =>
    exfalso
    rcases (add_panics_iff b tag name dep d p).mp h with ⟨x, _, hx⟩ | ⟨_, _, hne, hl⟩
    · obtain ⟨pre, post, heq, hnone, _⟩ := (resolve_error_iff _ _ _).mp hx
      have := hdeps x (by rw [heq]; simp)
      rw [hnone] at this; cases this
    · rcases hname with h | h
      · exact hne h
      · rw [h] at hl; cases hl

/-! ### the builder's own queries say what `add` will do -/

/-- **C18 (`has_system` / `contains` predict the rejections).** `add` is rejected exactly when
`has_system` is false for one of the dependencies, or — all of them known — true for the
non-empty name itself. -/
theorem C18_queries_predict_add (b : DispatcherBuilder) (tag : SysTag) (name : String) (dep : List String)
    (d : Decl) :
    (b.add tag name dep d).2 ≠ none ↔
      (∃ x, x ∈ dep ∧ b.hasSystem x = false) ∨ (name ≠ "" ∧ b.hasSystem name = true) := by
  constructor
  · intro h
    cases hp : (b.add tag name dep d).2 with
    | none => exact absurd hp h
    | some p =>
      rcases (add_panics_iff b tag name dep d p).mp hp with ⟨x, _, hx⟩ | ⟨_, _, hne, hl⟩
      · obtain ⟨pre, post, heq, hnone, _⟩ := (resolve_error_iff _ _ _).mp hx
        exact Or.inl ⟨x, by rw [heq]; simp, by simp [hasSystem, hnone]⟩
      · exact Or.inr ⟨hne, hl⟩
  · intro h hn
    rcases h with ⟨x, hx, hf⟩ | ⟨hne, ht⟩
    · -- some dependency is unknown: `resolve` fails
      cases hr : resolve b.map dep with
      | error y =>
        have : (b.add tag name dep d).2 = some (.unknownDep y) :=
          (add_panics_iff b tag name dep d _).mpr (Or.inl ⟨y, rfl, hr⟩)
        rw [hn] at this; cases this
      | ok ids =>
        -- impossible: every name of `dep` is known when `resolve` succeeds
        have hall : ∀ (l : List String) (ids : List SysId), resolve b.map l = .ok ids → ∀ y, y ∈ l → (lookup b.map y).isSome := by
          intro l
          induction l with
          | nil => intro _ _ y hy; cases hy
          | cons a l ih =>
            intro ids hres y hy
            simp only [resolve] at hres
            cases ha : lookup b.map a with
            | none => rw [ha] at hres; cases hres
            | some ia =>
              rw [ha] at hres
              simp only [] at hres
              cases hl : resolve b.map l with
              | error e => rw [hl] at hres; cases hres
              | ok ids' =>
                rcases List.mem_cons.mp hy with rfl | hy'
                · simp [ha]
                · exact ih ids' hl y hy'
        have := hall dep ids hr x hx
        simp [hasSystem] at hf
        rw [hf] at this; cases this
    · cases hr : resolve b.map dep with
      | error y =>
        have : (b.add tag name dep d).2 = some (.unknownDep y) :=
          (add_panics_iff b tag name dep d _).mpr (Or.inl ⟨y, rfl, hr⟩)
        rw [hn] at this; cases this
      | ok ids =>
        have : (b.add tag name dep d).2 = some (.duplicateName name) :=
          (add_panics_iff b tag name dep d _).mpr (Or.inr ⟨rfl, ⟨ids, hr⟩, hne, ht⟩)
        rw [hn] at this; cases this

/-- `has_system name` becomes true by an accepted `add` under that non-empty name, and no other way -/
theorem C18_has_system_after_add (b : DispatcherBuilder) (tag : SysTag) (name : String) (dep : List String)
    (d : Decl) (q : String) :
    (b.add tag name dep d).1.hasSystem q =
      (b.hasSystem q || ((b.add tag name dep d).2 == none && name != "" && q == name)) := by
  unfold add hasSystem
  simp only []
  cases resolve b.map dep with
  | error x => simp
  | ok ids =>
    simp only []
    by_cases hn : name = ""
    · subst hn; simp
    · simp only [ne_eq, hn, not_false_eq_true, if_true]
      by_cases hl : (lookup b.map name).isSome = true
      · simp [hl]
      · simp only [hl]
        have hnone : lookup b.map name = none := by
          cases h : lookup b.map name with
          | none => rfl
          | some v => simp [h] at hl
        by_cases hq : q = name
        · subst hq; simp [lookup]; exact Or.inr hn
        · have : (name == q) = false := by simpa using fun h => hq h.symm
          simp [lookup, this, hq, hn]

/-! ### a registration that fails inside the user's own callback -/

/-- when `accessor()` / `running_time()` of the system being added panics, no stage table and no
thread-local list changes; the id is consumed -/
theorem C18_callback_panic_frame (b : DispatcherBuilder) (name : String) (dep : List String) :
    (b.addCallbackPanics name dep).1.stagesBuilder = b.stagesBuilder ∧
    (b.addCallbackPanics name dep).1.threadLocal = b.threadLocal ∧
    (b.addCallbackPanics name dep).1.currentId = b.currentId + 1 := by
  unfold addCallbackPanics
  simp only []
  cases resolve b.map dep with
  | error x => exact ⟨rfl, rfl, rfl⟩
  | ok ids =>
    simp only []
    split
    · split <;> exact ⟨rfl, rfl, rfl⟩
    · exact ⟨rfl, rfl, rfl⟩

/-- such a registration is rejected by the builder exactly when `add` would have rejected it, with
the same panic — otherwise it gets as far as the callback -/
theorem C18_callback_panic_same_rejections (b : DispatcherBuilder) (tag : SysTag) (name : String)
    (dep : List String) (d : Decl) (p : BuildPanic) :
    (b.addCallbackPanics name dep).2 = some p ↔ (b.add tag name dep d).2 = some p := by
  unfold addCallbackPanics add
  simp only []
  cases resolve b.map dep with
  | error x => simp
  | ok ids =>
    simp only []
    split
    · split <;> simp
    · simp

end DispatcherBuilder
end Shred

namespace Shred
namespace Scenario
variable (sc : Scenario)

/-- **C18 (no capacity panic).** In the executed table of every registration sequence every group
holds between one and four systems — `ArrayVec<_, 5>::push` cannot overflow, however many systems
are funnelled into one group by their conflicts and running-time hints. -/
theorem C18_group_capacity (st : List (List SysTag)) (hst : st ∈ sc.final.b.stages)
    (g : List SysTag) (hg : g ∈ st) : 1 ≤ g.length ∧ g.length < maxSystemsPerGroup := by
  obtain ⟨z, hz⟩ := sc.good
  rw [stages_eq_of_zips hz.zips] at hst
  obtain ⟨zst, hzst, rfl⟩ := List.mem_map.mp hst
  obtain ⟨zg, hzg, rfl⟩ := List.mem_map.mp hg
  exact (hz.fit zst hzst zg hzg).size

/-- **C18 (no arithmetic overflow).** With running-time hints in 1..5 (the `RunningTime` enum)
every accumulated group time is at most 20, so the `u8` sum and the `i8` casts of
`improves_balance` are exact. -/
theorem C18_running_time_bound (htimes : ∀ s, (sc.D s).time ≤ 5)
    (st : List Nat) (hst : st ∈ sc.final.b.runningTime) (t : Nat) (ht : t ∈ st) : t ≤ 20 := by
  obtain ⟨z, hz⟩ := sc.good
  obtain ⟨s, hs1, hs2⟩ := List.getElem_of_mem hst
  have hcol := (cols_eq hz.zips s).2.2.2.1
  have hlen := zips_length hz.zips
  have hlr := congrArg List.length hz.zips.lock.runningTime
  simp only [Table.shape, List.length_map] at hlr
  have hsz : s < z.stages.length := by omega
  simp only [List.getD_eq_getElem?_getD, List.getElem?_eq_getElem hs1, List.getElem?_eq_getElem hsz,
    Option.getD_some] at hcol
  rw [← hs2, hcol] at ht
  obtain ⟨zg, hzg, rfl⟩ := List.mem_map.mp ht
  exact fit_time_le (hz.fit _ (List.getElem_mem hsz) zg hzg) htimes

/-- **C18 (no index panic).** The target `insertion_target` returns always names an existing
stage (and group) — `self.ids[stage]`, `self.stages[stage].groups[group]` are in bounds. -/
theorem C18_target_in_bounds (dep : List Nat) (d : Decl) :
    match sc.final.b.insertionTarget (sortDedup d.reads) d.writes (sc.final.b.prepDep dep) d.time with
    | .stage s => s < sc.final.b.stages.length
    | .group s g => ∃ st, sc.final.b.stages[s]? = some st ∧ g < st.length
    | .newStage => True := by
  obtain ⟨z, hz⟩ := sc.good
  rw [insertionTarget_sim hz.zips, prepDep_sim hz.zips]
  have hv := target_valid zJoinOk dedup z dep (sortDedup d.reads) d
  unfold ZB.target at hv
  have hlen := zips_length hz.zips
  cases ht : zScan zJoinOk (sortDedup d.reads) d.writes d.time z.barrier (List.drop z.barrier z.stages)
      (zPrepDep dedup z dep) with
  | newStage => trivial
  | stage s =>
    rw [ht] at hv
    obtain ⟨_, st, hst⟩ := hv
    have : s < z.stages.length := (List.getElem?_eq_some_iff.mp hst).1
    show s < sc.final.b.stages.length
    omega
  | group s g =>
    rw [ht] at hv
    obtain ⟨_, st, gk, hst, hgk⟩ := hv
    refine ⟨st.map (·.sys), ?_, ?_⟩
    · rw [stages_eq_of_zips hz.zips]; simp [hst]
    · simpa using (List.getElem?_eq_some_iff.mp hgk).1

end Scenario
end Shred


namespace Shred

/-- **C18 (every builder state is covered).** Whatever sequence of `add` calls — accepted or
rejected — and barriers produced a `DispatcherBuilder`, its tables are those of a registration
`Scenario` up to an injective renumbering of ids and the caller's tagging; so the `Scenario`
theorems of C01–C04, C10, C18, C20 speak about it. -/
theorem C18_every_builder_is_a_scenario (bops : List BOp) :
    ∃ (sc : Scenario) (σ : Nat → Nat) (τ : Nat → SysTag), (∀ a b, σ a = σ b → a = b) ∧
      let b := (bops.foldl BOp.step {}).stagesBuilder
      b.ids = mapIds σ sc.final.b.ids ∧ b.stages = mapT τ sc.final.b.stages ∧
      b.reads = sc.final.b.reads ∧ b.writes = sc.final.b.writes ∧
      b.runningTime = sc.final.b.runningTime ∧ b.barrier = sc.final.b.barrier :=
  builder_is_scenario bops

/-- **C18 (no capacity panic, for every builder).** -/
theorem C18_group_capacity_any_builder (bops : List BOp) (st : List (List SysTag))
    (hst : st ∈ (bops.foldl BOp.step {}).stagesBuilder.stages) (g : List SysTag) (hg : g ∈ st) :
    1 ≤ g.length ∧ g.length < maxSystemsPerGroup := by
  obtain ⟨sc, σ, τ, _, _, hstages, _⟩ := builder_is_scenario bops
  rw [hstages] at hst
  obtain ⟨st0, hst0, rfl⟩ := List.mem_map.mp hst
  obtain ⟨g0, hg0, rfl⟩ := List.mem_map.mp hg
  simpa using sc.C18_group_capacity st0 hst0 g0 hg0

end Shred

#print axioms Shred.DispatcherBuilder.add_ok
#print axioms Shred.DispatcherBuilder.resolve_error_iff
#print axioms Shred.DispatcherBuilder.add_panics_iff
#print axioms Shred.Scenario.C18_group_capacity
#print axioms Shred.Scenario.C18_running_time_bound
#print axioms Shred.Scenario.C18_target_in_bounds
#print axioms Shred.C18_every_builder_is_a_scenario
#print axioms Shred.C18_group_capacity_any_builder
#print axioms Shred.DispatcherBuilder.C18_queries_predict_add
#print axioms Shred.DispatcherBuilder.C18_has_system_after_add
#print axioms Shred.DispatcherBuilder.C18_callback_panic_frame
#print axioms Shred.DispatcherBuilder.C18_callback_panic_same_rejections
