import ShredModel.Lemmas.Invariance
/-!
# C19 — the plan is a deterministic function of the registration sequence

Determinism is definitional for the model (the layout *is* a function of the registration
list); what the theorem adds is that nothing the code leaves unspecified can leak into it:
an injective relabelling `ρ` of resources (other Rust types, other dynamic ids — hence also
`TypeId`'s compiler-chosen order, which only enters through `sort`), any permutation or
duplication of a system's declared lists and any membership-preserving normalisation of them
choose the same place for every system.
-/
namespace Shred

/-- **C19 (one registration).** -/
theorem C19_insert_invariant {ρ : ResId → ResId} (hinj : ∀ a b, ρ a = ρ b → a = b) {z z' : ZB} (h : ZRel ρ z z')
    (norm norm' : List ResId → List ResId)
    (hnorm : ∀ l x, x ∈ norm l ↔ x ∈ l) (hnorm' : ∀ l x, x ∈ norm' l ↔ x ∈ l)
    (dedupN : List Nat → List Nat) (dep : List Nat) (id sys : Nat) {d d' : Decl}
    (hr : SetImg ρ d.reads d'.reads) (hw : SetImg ρ d.writes d'.writes) (ht : d'.time = d.time) :
    ZRel ρ (z.insert zJoinOk norm dedupN dep id sys d) (z'.insert zJoinOk norm' dedupN dep id sys d') :=
  insert_rel hinj h norm norm' hnorm hnorm' dedupN dep id sys hr hw ht

end Shred

#print axioms Shred.C19_insert_invariant
