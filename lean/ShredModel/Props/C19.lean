import ShredModel.Lemmas.InvarianceSeq
import ShredModel.Lemmas.IdRelabel
import ShredModel.Model.Builder
/-!
# C19 — the plan is a deterministic function of the registration sequence

Determinism is definitional for the model (the layout *is* a function of the registration
list); what the theorems add is that nothing the code leaves unspecified can leak into it:

* `C19_layout_invariant`: an injective relabelling `ρ` of resources (other Rust types, other
  dynamic ids — hence also `TypeId`'s compiler-chosen order, which only enters through `sort`),
  any permutation or duplication of each system's declared lists: the executed table and the
  printed table of the **five-table builder of the code** are identical, for every registration
  sequence;
* `C19_names_irrelevant`: an injective renaming of system names, applied consistently to the
  dependency lists, resolves every dependency list to the same ids and rejects the same
  registrations — the name map is only ever looked up.
-/
namespace Shred

/-- **C19 (one registration).** -/
theorem C19_insert_invariant {ρ : ResId → ResId} (hinj : ∀ a b, ρ a = ρ b → a = b) {z z' : ZB} (h : ZRel ρ z z')
    (norm norm' : List ResId → List ResId)
    (hnorm : ∀ l x, x ∈ norm l ↔ x ∈ l) (hnorm' : ∀ l x, x ∈ norm' l ↔ x ∈ l)
    (dedupN : List Nat → List Nat) (dep : List Nat) (id sys : Nat) {d d' : Decl}
    (hr : SetImg ρ d.reads d'.reads) (hw : SetImg ρ d.writes d'.writes) (ht : d'.time = d.time) :
    ZRel ρ (z.insert zJoinOk norm dedupN dep id sys d) (z'.insert zJoinOk norm' dedupN dep id sys d') :=
  insert_rel hinj h norm norm' hnorm hnorm' dedupN dep id sys hr hw ht

/-- **C19 (whole sequences, the code's own tables).** -/
theorem C19_layout_invariant {ρ : ResId → ResId} (hinj : ∀ a b, ρ a = ρ b → a = b)
    {ops ops' : List SOp} (h : OpsRel ρ ops ops') :
    (runOps ops').1.stages = (runOps ops).1.stages ∧ (runOps ops').1.ids = (runOps ops).1.ids ∧
    (runOps ops').1.barrier = (runOps ops).1.barrier := by
  obtain ⟨y, y', hy, hy', hr, _⟩ :=
    opsRel_foldl hinj h ({}, 0) ({}, 0) {} {} rfl zips_init zips_init (zrel_init ρ)
  have hp := proj_eq_of_zrel hr
  refine ⟨?_, ?_, ?_⟩
  · show (ops'.foldl SOp.step ({}, 0)).1.stages = (ops.foldl SOp.step ({}, 0)).1.stages
    rw [stages_eq_of_zips hy', stages_eq_of_zips hy, hp.1]
  · show (ops'.foldl SOp.step ({}, 0)).1.ids = (ops.foldl SOp.step ({}, 0)).1.ids
    rw [ids_eq_of_zips hy', ids_eq_of_zips hy, hp.2]
  · show (ops'.foldl SOp.step ({}, 0)).1.barrier = (ops.foldl SOp.step ({}, 0)).1.barrier
    rw [← hy'.barrier, ← hy.barrier, hr.barrier]

/-- non-vacuity: swapping two resources and reversing a read list is such a relabelling -/
example : OpsRel (fun r => if r = ⟨0, 0⟩ then ⟨1, 7⟩ else if r = ⟨1, 7⟩ then ⟨0, 0⟩ else r)
    [.insert [] ⟨[⟨0, 0⟩, ⟨2, 0⟩], [⟨1, 7⟩], 3⟩, .barrier]
    [.insert [] ⟨[⟨2, 0⟩, ⟨1, 7⟩, ⟨2, 0⟩], [⟨0, 0⟩], 3⟩, .barrier] := by
  refine .insert ?_ ?_ rfl (.barrier .nil)
  · intro x
    simp only [List.mem_cons, List.not_mem_nil, or_false]
    constructor
    · rintro (rfl | rfl | rfl)
      · exact ⟨⟨2, 0⟩, by simp, by decide⟩
      · exact ⟨⟨0, 0⟩, by simp, by decide⟩
      · exact ⟨⟨2, 0⟩, by simp, by decide⟩
    · rintro ⟨y, (rfl | rfl), rfl⟩
      · right; left; decide
      · left; decide
  · intro x
    simp only [List.mem_cons, List.not_mem_nil, or_false]
    constructor
    · rintro rfl; exact ⟨⟨1, 7⟩, rfl, by decide⟩
    · rintro ⟨y, rfl, rfl⟩; decide

namespace DispatcherBuilder

theorem lookup_rename (f : String → String) (hf : ∀ a b, f a = f b → a = b)
    (m : List (String × SysId)) (x : String) :
    lookup (m.map fun p => (f p.1, p.2)) (f x) = lookup m x := by
  induction m with
  | nil => rfl
  | cons p m ih =>
    have e1 : lookup ((p :: m).map fun p => (f p.1, p.2)) (f x)
        = if f p.1 == f x then some p.2 else lookup (m.map fun p => (f p.1, p.2)) (f x) := by
      simp only [lookup, List.map_cons, List.find?_cons]
      cases f p.1 == f x <;> rfl
    have e2 : lookup (p :: m) x = if p.1 == x then some p.2 else lookup m x := by
      simp only [lookup, List.find?_cons]
      cases p.1 == x <;> rfl
    rw [e1, e2, ih]
    by_cases h : p.1 = x
    · simp [h]
    · have : f p.1 ≠ f x := fun e => h (hf _ _ e)
      simp [h, this]

/-- **C19 (names).** Under an injective renaming of names the dependency list resolves to the
same ids, or fails at the same (renamed) name. -/
theorem C19_names_irrelevant (f : String → String) (hf : ∀ a b, f a = f b → a = b)
    (m : List (String × SysId)) (deps : List String) :
    resolve (m.map fun p => (f p.1, p.2)) (deps.map f) =
      match resolve m deps with
      | .ok ids => .ok ids
      | .error x => .error (f x) := by
  induction deps with
  | nil => rfl
  | cons d ds ih =>
    simp only [List.map_cons, resolve, lookup_rename f hf]
    cases lookup m d with
    | none => rfl
    | some id =>
      simp only []
      rw [ih]
      cases resolve m ds <;> rfl

end DispatcherBuilder
end Shred


namespace Shred

/-- **C19 (the numeric values of system ids and the tags are irrelevant).** `DispatcherBuilder::add`
numbers systems with a counter that also advances on rejected registrations, and the harness tags
systems as it likes: for any injective numbering `σ` and any tagging `τ` the five tables are those of
the consecutive-id builder, with the `ids` table relabelled and the executed table re-tagged —
for every registration sequence. -/
theorem C19_ids_and_tags_irrelevant (σ : Nat → Nat) (hσ : ∀ a b, σ a = σ b → a = b) (τ : Nat → SysTag)
    (ops : List SOp) :
    let b := (runOps ops).1
    let b' := (ops.foldl (SOp.stepI σ τ) ({}, 0)).1
    b'.ids = mapIds σ b.ids ∧ b'.stages = mapT τ b.stages ∧ b'.reads = b.reads ∧ b'.writes = b.writes ∧
      b'.runningTime = b.runningTime ∧ b'.barrier = b.barrier := by
  intro b b'
  have h1 := runOpsI_rel σ hσ τ ops
  have h2 := (runOpsT_rel τ ops).1
  refine ⟨?_, ?_, ?_, ?_, ?_, ?_⟩
  · rw [h1.ids]; show mapIds σ (runOpsT τ ops).1.ids = _; rw [h2.ids]
  · rw [h1.stages]; exact h2.stages
  · rw [h1.reads]; exact h2.reads
  · rw [h1.writes]; exact h2.writes
  · rw [h1.runningTime]; exact h2.runningTime
  · rw [h1.barrier]; exact h2.barrier

/-- **C19 (a rejected registration leaves nothing behind but a used-up id).** When `add` panics -
unknown dependency or taken name - the name map, the five stage tables and the thread-local list are
what they were; only the id counter has advanced. Together with `C19_ids_and_tags_irrelevant` (the
numeric values of ids do not matter): the accepted registrations are laid out the same with and
without the rejected calls in between (what the invariance engine's "twin without the rejected calls"
checks on the real builder). -/
theorem C19_rejected_add_frame (b : DispatcherBuilder) (tag : SysTag) (name : String) (dep : List String)
    (d : Decl) (h : (b.add tag name dep d).2 ≠ none) :
    (b.add tag name dep d).1 = { b with currentId := b.currentId + 1 } := by
  unfold DispatcherBuilder.add at h ⊢
  simp only [] at h ⊢
  cases hr : DispatcherBuilder.resolve b.map dep with
  | error x => simp
  | ok ids =>
    simp only [hr] at h ⊢
    by_cases hn : name = ""
    · subst hn; simp at h
    · simp only [ne_eq, hn, not_false_eq_true, if_true] at h ⊢
      by_cases hl : (DispatcherBuilder.lookup b.map name).isSome = true
      · simp [hl]
      · simp [hl] at h

/-- non-vacuity: registering `a` twice - the second call is rejected and only uses up an id -/
example : let b0 := (({} : DispatcherBuilder).add 0 "a" [] ⟨[], [], 1⟩).1
    (b0.add 1 "a" [] ⟨[], [], 1⟩).2 ≠ none ∧ (b0.add 1 "a" [] ⟨[], [], 1⟩).1.currentId = 2 ∧
      (b0.add 1 "a" [] ⟨[], [], 1⟩).1.map = b0.map := by
  decide

end Shred

#print axioms Shred.C19_rejected_add_frame
#print axioms Shred.C19_insert_invariant
#print axioms Shred.C19_layout_invariant
#print axioms Shred.DispatcherBuilder.lookup_rename
#print axioms Shred.DispatcherBuilder.C19_names_irrelevant
#print axioms Shred.C19_ids_and_tags_irrelevant
