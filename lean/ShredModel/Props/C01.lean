import ShredModel.Lemmas.Scenario
import ShredModel.Lemmas.NestedTop
/-!
# C01 — isolation: conflicting systems never run at the same time

Quantifiers: every registration sequence `ops` (any number of systems, any declarations, any
dependency lists over earlier systems, barriers anywhere), every list of thread-local systems,
and **every trace** of the resulting plan, i.e. every interleaving a thread pool of any size
can produce.
-/
namespace Shred
namespace Scenario
variable (sc : Scenario)

/-- **C01 (isolation).** At every moment of every execution, two different systems that are
both between fetching and dropping their data have non-conflicting declared access. -/
theorem C01_isolation (l : List (Ev SysTag)) (hl : Traces sc.plan l)
    (p : List (Ev SysTag)) (hp : p <+: l) (x y : SysTag) (hxy : x ≠ y)
    (hx : OpenIn x p) (hy : OpenIn y p) : ¬ conflictsD (sc.D x) (sc.D y) := by
  obtain ⟨z, hz⟩ := sc.good
  have hwf := wf_dispatchTask hz sc.tl
  have hnd := nodup_dispatchTask hz sc.tl sc.tl_nodup sc.tl_fresh
  have hns := noScope_dispatchTask sc.final.b.stages sc.tl
  rcases traces_isolated (compatD_symm sc.D) hl hwf hnd p hp x y hxy hx hy with h | h | h
  · exact absurd h (not_anc_of_noScope hns x y)
  · exact absurd h (not_anc_of_noScope hns y x)
  · exact h

end Scenario
end Shred

namespace Shred
/-- **C01 with batches, at any nesting depth** (`Level`: see Props/C07.lean): two distinct
instances inside their windows at the same time are a batch and something inside it, or do not
conflict. -/
theorem C01_isolation_nested {D : SysTag → Decl} (L : Level D) (par : Bool) (pfx : Inst) (l : List (Ev Inst))
    (hl : Traces (L.task par pfx) l) (p : List (Ev Inst)) (hp : p <+: l) (x y : Inst) (hxy : x ≠ y)
    (hx : OpenIn x p) (hy : OpenIn y p) :
    Anc (L.task par pfx) x y ∨ Anc (L.task par pfx) y x ∨ ¬ conflictsD (D (lastTag x)) (D (lastTag y)) :=
  traces_isolated (compatI_symm D) hl (L.wf par pfx) (L.nodup par pfx) p hp x y hxy hx hy
end Shred

#print axioms Shred.Scenario.C01_isolation
#print axioms Shred.C01_isolation_nested
