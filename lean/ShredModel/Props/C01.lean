import ShredModel.Lemmas.Scenario
import ShredModel.Lemmas.Examples
import ShredModel.Lemmas.SeqTrace
import ShredModel.Lemmas.NestedTop
import ShredModel.Lemmas.Window
import ShredModel.Lemmas.Effect
/-!
# C01 — isolation: conflicting systems never run at the same time

Quantifiers: every registration sequence `ops` (any number of systems, any declarations, any
dependency lists over earlier systems, barriers anywhere), every list of thread-local systems,
and **every trace** of the resulting plan, i.e. every interleaving a thread pool of any size
can produce.
-/
namespace Shred
namespace Scenario
variable (sc : Scenario)

/-- **C01 (isolation).** At every moment of every execution, two different systems that are
both between fetching and dropping their data have non-conflicting declared access. -/
theorem C01_isolation (l : List (Ev SysTag)) (hl : Traces sc.plan l)
    (p : List (Ev SysTag)) (hp : p <+: l) (x y : SysTag) (hxy : x ≠ y)
    (hx : OpenIn x p) (hy : OpenIn y p) : ¬ conflictsD (sc.D x) (sc.D y) := by
  obtain ⟨z, hz⟩ := sc.good
  have hwf := wf_dispatchTask hz sc.tl
  have hnd := nodup_dispatchTask hz sc.tl sc.tl_nodup sc.tl_fresh
  have hns := noScope_dispatchTask sc.final.b.stages sc.tl
  rcases traces_isolated (compatD_symm sc.D) hl hwf hnd p hp x y hxy hx hy with h | h | h
  · exact absurd h (not_anc_of_noScope hns x y)
  · exact absurd h (not_anc_of_noScope hns y x)
  · exact h

end Scenario
end Shred

namespace Shred
/-- **C01 with batches, at any nesting depth** (`Level`: see Props/C07.lean): two distinct
instances inside their windows at the same time are a batch and something inside it, or do not
conflict. -/
theorem C01_isolation_nested {D : SysTag → Decl} (L : Level D) (par : Bool) (pfx : Inst) (l : List (Ev Inst))
    (hl : Traces (L.task par pfx) l) (p : List (Ev Inst)) (hp : p <+: l) (x y : Inst) (hxy : x ≠ y)
    (hx : OpenIn x p) (hy : OpenIn y p) :
    Anc (L.task par pfx) x y ∨ Anc (L.task par pfx) y x ∨ ¬ conflictsD (D (lastTag x)) (D (lastTag y)) :=
  traces_isolated (compatI_symm D) hl (L.wf par pfx) (L.nodup par pfx) p hp x y hxy hx hy
end Shred


namespace Shred
namespace Scenario
variable (sc : Scenario)

omit sc in
/-- the systems inside their window after the events `p` -/
def openAfter (p : List (Ev SysTag)) : List SysTag :=
  (p.filterMap fun e => match e with | .F y => some y | .D _ => none).filter fun y => Ev.D y ∉ p

/-- **C01 ("consequently").** When a system begins to fetch, no sibling inside its window holds a
guard that is incompatible with what the system borrows (`fetchedReads` shared, `fetchedWrites`
exclusively — a subset of what it declared): nobody else holds any guard on what it writes, nobody
else holds an exclusive guard on what it reads. By `C08.outcome_spec` (a fetch panics iff an
incompatible guard is alive) a system that fetches only what it declared therefore never sees a
borrow-conflict panic caused by a sibling — in every trace, i.e. whatever the pool size or timing. -/
theorem C01_no_sibling_borrow_conflict (l : List (Ev SysTag)) (hl : Traces sc.plan l)
    (p l2 : List (Ev SysTag)) (x : SysTag) (hsplit : l = p ++ Ev.F x :: l2)
    (y : SysTag) (hy : y ∈ openAfter p) (hyx : y ≠ x) (r : ResId) :
    (r ∈ fetchedWrites (sc.D x) → r ∉ fetchedWrites (sc.D y) ∧ r ∉ fetchedReads (sc.D y)) ∧
    (r ∈ fetchedReads (sc.D x) → r ∉ fetchedWrites (sc.D y)) := by
  obtain ⟨z, hz⟩ := sc.good
  have hnd := nodup_dispatchTask hz sc.tl sc.tl_nodup sc.tl_fresh
  -- `y` is open after `p ++ [F x]`, and so is `x`
  simp only [openAfter, List.mem_filter, List.mem_filterMap, decide_eq_true_eq] at hy
  obtain ⟨⟨e, he, hey⟩, hDy⟩ := hy
  have hFy : Ev.F y ∈ p := by
    cases e with
    | F y' => simp at hey; subst hey; exact he
    | D y' => simp at hey
  have hpre : (p ++ [Ev.F x]) <+: l := ⟨l2, by rw [hsplit]; simp⟩
  have hoy : OpenIn y (p ++ [Ev.F x]) :=
    ⟨List.mem_append_left _ hFy, by simp [hDy]⟩
  have hxsys : x ∈ sc.plan.sys := by
    have := traces_ev_sys hl (Ev.F x) (by rw [hsplit]; simp)
    simpa [Ev.sys] using this
  have hDx : Ev.D x ∉ p := by
    intro hm
    obtain ⟨p1, p2, hp⟩ := List.append_of_mem hm
    have hF := traces_F_before_D hl hnd x hxsys p1 (p2 ++ Ev.F x :: l2) (by rw [hsplit, hp]; simp)
    -- then F x occurs twice
    have hcount := (traces_once hl hnd x hxsys).1
    rw [hsplit, hp] at hcount
    have : 1 ≤ p1.count (Ev.F x) := List.count_pos_iff.mpr hF
    simp [List.count_append, List.count_cons] at hcount
    omega
  have hox : OpenIn x (p ++ [Ev.F x]) := ⟨by simp, by simp [hDx]⟩
  have hno := sc.C01_isolation l hl (p ++ [Ev.F x]) hpre x y (Ne.symm hyx) hox hoy
  constructor
  · intro hr
    constructor
    · intro hry
      exact hno (Or.inl ⟨r, (mem_fetchedWrites _ r).mp hr, Or.inl ((mem_fetchedWrites _ r).mp hry)⟩)
    · intro hry
      exact hno (Or.inl ⟨r, (mem_fetchedWrites _ r).mp hr, Or.inr (mem_fetchedReads _ r hry)⟩)
  · intro hr hry
    exact hno (Or.inr ⟨r, mem_fetchedReads _ r hr, (mem_fetchedWrites _ r).mp hry⟩)

end Scenario
end Shred

namespace Shred
/-- non-vacuity: a concrete registration sequence (dependency, barrier, thread-local system) with
a trace, and a concrete dispatcher with a batch (two inner stages, dispatched twice) with a trace -/
example : (∃ l, Traces exScenario.plan l) ∧ (∃ l, Traces (exLevel.task true []) l) :=
  ⟨⟨_, traces_seqTrace _⟩, ⟨_, traces_seqTrace _⟩⟩
end Shred

#print axioms Shred.Scenario.C01_isolation
#print axioms Shred.C01_isolation_nested
#print axioms Shred.Scenario.C01_no_sibling_borrow_conflict
