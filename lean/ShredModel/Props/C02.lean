import ShredModel.Lemmas.Scenario
import ShredModel.Lemmas.NestedTop
/-!
# C02 — dependencies

Quantifiers: every registration sequence `ops` (any number of systems, any declarations, any
dependency lists over earlier systems, barriers anywhere), every list of thread-local systems,
and **every trace** of the resulting plan, i.e. every interleaving a thread pool of any size
can produce.
-/
namespace Shred
namespace Scenario
variable (sc : Scenario)

/-- **C02 (dependencies).** If `B` was registered with `A` in its dependency list, then in every
execution `A` has dropped its data before `B` begins to fetch. -/
theorem C02_dependencies (l : List (Ev SysTag)) (hl : Traces sc.plan l)
    (A B : SysTag) (hB : B < sc.final.n) (hA : A ∈ sc.Dep B)
    (l1 l2 : List (Ev SysTag)) (hsplit : l = l1 ++ Ev.F B :: l2) : Ev.D A ∈ l1 := by
  obtain ⟨z, hz⟩ := sc.good
  have hnd := nodup_dispatchTask hz sc.tl sc.tl_nodup sc.tl_fresh
  exact traces_before hl hnd A B (before_of_ordered hz (hz.deps B A hB hA) sc.tl) l1 l2 hsplit

end Scenario
end Shred

namespace Shred
/-- **C02 / C03 with batches, at any nesting depth**: layout order (which `C02_dependencies` and
`C03_barriers` establish for dependencies and barriers) is execution order for everything under
the two systems. -/
theorem C02_order_nested {D : SysTag → Decl} (L : Level D) (par : Bool) (pfx : Inst) (l : List (Ev Inst))
    (hl : Traces (L.task par pfx) l) {A B : SysTag} (hAB : TOrdered L.stages A B) {x y : Inst}
    (hx : x ∈ (leafOf L.bs pfx A).sys) (hy : y ∈ (leafOf L.bs pfx B).sys)
    (l1 l2 : List (Ev Inst)) (hsplit : l = l1 ++ Ev.F y :: l2) : Ev.D x ∈ l1 :=
  traces_before hl (L.nodup par pfx) x y (before_nested_of_ordered par L.tl L.bs pfx hAB hx hy) l1 l2 hsplit

/-- dependencies and barriers of a registration sequence order the tagged table the driver uses -/
theorem C02_deps_order_tagged (sc : Scenario) (τ : Nat → SysTag) (A B : Nat) (hB : B < sc.final.n)
    (hA : A ∈ sc.Dep B) : TOrdered (sc.taggedStages τ) (τ A) (τ B) := by
  obtain ⟨z, hz⟩ := sc.good
  rw [sc.taggedStages_eq]
  exact tOrdered_of_ordered hz τ (hz.deps B A hB hA)
end Shred

#print axioms Shred.Scenario.C02_dependencies
#print axioms Shred.C02_order_nested
#print axioms Shred.C02_deps_order_tagged
