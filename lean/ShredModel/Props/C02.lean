import ShredModel.Lemmas.Scenario
import ShredModel.Lemmas.NestedTop
import ShredModel.Lemmas.Window
/-!
# C02 — dependencies

Quantifiers: every registration sequence `ops` (any number of systems, any declarations, any
dependency lists over earlier systems, barriers anywhere), every list of thread-local systems,
and **every trace** of the resulting plan, i.e. every interleaving a thread pool of any size
can produce.
-/
namespace Shred
namespace Scenario
variable (sc : Scenario)

/-- **C02 (dependencies).** If `B` was registered with `A` in its dependency list, then in every
execution `A` has dropped its data before `B` begins to fetch. -/
theorem C02_dependencies (l : List (Ev SysTag)) (hl : Traces sc.plan l)
    (A B : SysTag) (hB : B < sc.final.n) (hA : A ∈ sc.Dep B)
    (l1 l2 : List (Ev SysTag)) (hsplit : l = l1 ++ Ev.F B :: l2) : Ev.D A ∈ l1 := by
  obtain ⟨z, hz⟩ := sc.good
  have hnd := nodup_dispatchTask hz sc.tl sc.tl_nodup sc.tl_fresh
  exact traces_before hl hnd A B (before_of_ordered hz (hz.deps B A hB hA) sc.tl) l1 l2 hsplit

end Scenario
end Shred

namespace Shred
/-- **C02 / C03 with batches, at any nesting depth**: layout order (which `C02_dependencies` and
`C03_barriers` establish for dependencies and barriers) is execution order for everything under
the two systems. -/
theorem C02_order_nested {D : SysTag → Decl} (L : Level D) (par : Bool) (pfx : Inst) (l : List (Ev Inst))
    (hl : Traces (L.task par pfx) l) {A B : SysTag} (hAB : TOrdered L.stages A B) {x y : Inst}
    (hx : x ∈ (leafOf L.bs pfx A).sys) (hy : y ∈ (leafOf L.bs pfx B).sys)
    (l1 l2 : List (Ev Inst)) (hsplit : l = l1 ++ Ev.F y :: l2) : Ev.D x ∈ l1 :=
  traces_before hl (L.nodup par pfx) x y (before_nested_of_ordered par L.tl L.bs pfx hAB hx hy) l1 l2 hsplit

/-- dependencies and barriers of a registration sequence order the tagged table the driver uses -/
theorem C02_deps_order_tagged (sc : Scenario) (τ : Nat → SysTag) (A B : Nat) (hB : B < sc.final.n)
    (hA : A ∈ sc.Dep B) : TOrdered (sc.taggedStages τ) (τ A) (τ B) := by
  obtain ⟨z, hz⟩ := sc.good
  rw [sc.taggedStages_eq]
  exact tOrdered_of_ordered hz τ (hz.deps B A hB hA)
end Shred


namespace Shred
namespace Scenario
variable (sc : Scenario)

/-- **C02 (transitively along dependency chains).** If `B` depends on `A` and `C` depends on `B`,
then `A` has finished before `C` begins to fetch — although `C` did not name `A`. -/
theorem C02_transitive (l : List (Ev SysTag)) (hl : Traces sc.plan l)
    (A B C : SysTag) (hB : B < sc.final.n) (hC : C < sc.final.n) (hAB : A ∈ sc.Dep B) (hBC : B ∈ sc.Dep C)
    (l1 l2 : List (Ev SysTag)) (hsplit : l = l1 ++ Ev.F C :: l2) : Ev.D A ∈ l1 := by
  obtain ⟨z, hz⟩ := sc.good
  have hnd := nodup_dispatchTask hz sc.tl sc.tl_nodup sc.tl_fresh
  have hDB : Ev.D B ∈ l1 := sc.C02_dependencies l hl B C hC hBC l1 l2 hsplit
  obtain ⟨m1, m2, hm⟩ := List.append_of_mem hDB
  have hBsys : B ∈ sc.plan.sys := by
    have := traces_ev_sys hl (Ev.D B) (by rw [hsplit, hm]; simp)
    simpa [Ev.sys] using this
  have hFB : Ev.F B ∈ m1 :=
    traces_F_before_D hl hnd B hBsys m1 (m2 ++ Ev.F C :: l2) (by rw [hsplit, hm]; simp)
  obtain ⟨k1, k2, hk⟩ := List.append_of_mem hFB
  have hDA : Ev.D A ∈ k1 :=
    sc.C02_dependencies l hl A B hB hAB k1 (k2 ++ Ev.D B :: m2 ++ Ev.F C :: l2) (by rw [hsplit, hm, hk]; simp)
  rw [hm, hk]
  simp [hDA]

end Scenario
end Shred

#print axioms Shred.Scenario.C02_dependencies
#print axioms Shred.C02_order_nested
#print axioms Shred.C02_deps_order_tagged
#print axioms Shred.Scenario.C02_transitive
