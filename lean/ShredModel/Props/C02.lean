import ShredModel.Lemmas.Scenario
/-!
# C02 — dependencies

Quantifiers: every registration sequence `ops` (any number of systems, any declarations, any
dependency lists over earlier systems, barriers anywhere), every list of thread-local systems,
and **every trace** of the resulting plan, i.e. every interleaving a thread pool of any size
can produce.
-/
namespace Shred
namespace Scenario
variable (sc : Scenario)

/-- **C02 (dependencies).** If `B` was registered with `A` in its dependency list, then in every
execution `A` has dropped its data before `B` begins to fetch. -/
theorem C02_dependencies (l : List (Ev SysTag)) (hl : Traces sc.plan l)
    (A B : SysTag) (hB : B < sc.final.n) (hA : A ∈ sc.Dep B)
    (l1 l2 : List (Ev SysTag)) (hsplit : l = l1 ++ Ev.F B :: l2) : Ev.D A ∈ l1 := by
  obtain ⟨z, hz⟩ := sc.good
  have hnd := nodup_dispatchTask hz sc.tl sc.tl_nodup sc.tl_fresh
  exact traces_before hl hnd A B (before_of_ordered hz (hz.deps B A hB hA) sc.tl) l1 l2 hsplit

end Scenario
end Shred

#print axioms Shred.Scenario.C02_dependencies
