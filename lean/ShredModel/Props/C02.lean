import ShredModel.Lemmas.Scenario
import ShredModel.Lemmas.NestedTop
import ShredModel.Lemmas.Window
/-!
# C02 — dependencies

Quantifiers: every registration sequence `ops` (any number of systems, any declarations, any
dependency lists over earlier systems, barriers anywhere), every list of thread-local systems,
and **every trace** of the resulting plan, i.e. every interleaving a thread pool of any size
can produce.
-/
namespace Shred
namespace Scenario
variable (sc : Scenario)

/-- **C02 (dependencies).** If `B` was registered with `A` in its dependency list, then in every
execution `A` has dropped its data before `B` begins to fetch. -/
theorem C02_dependencies (l : List (Ev SysTag)) (hl : Traces sc.plan l)
    (A B : SysTag) (hB : B < sc.final.n) (hA : A ∈ sc.Dep B)
    (l1 l2 : List (Ev SysTag)) (hsplit : l = l1 ++ Ev.F B :: l2) : Ev.D A ∈ l1 := by
  obtain ⟨z, hz⟩ := sc.good
  have hnd := nodup_dispatchTask hz sc.tl sc.tl_nodup sc.tl_fresh
  exact traces_before hl hnd A B (before_of_ordered hz (hz.deps B A hB hA) sc.tl) l1 l2 hsplit

end Scenario
end Shred

namespace Shred
/-- **C02 / C03 with batches, at any nesting depth**: layout order (which `C02_dependencies` and
`C03_barriers` establish for dependencies and barriers) is execution order for everything under
the two systems. -/
theorem C02_order_nested {D : SysTag → Decl} (L : Level D) (par : Bool) (pfx : Inst) (l : List (Ev Inst))
    (hl : Traces (L.task par pfx) l) {A B : SysTag} (hAB : TOrdered L.stages A B) {x y : Inst}
    (hx : x ∈ (leafOf L.bs pfx A).sys) (hy : y ∈ (leafOf L.bs pfx B).sys)
    (l1 l2 : List (Ev Inst)) (hsplit : l = l1 ++ Ev.F y :: l2) : Ev.D x ∈ l1 :=
  traces_before hl (L.nodup par pfx) x y (before_nested_of_ordered par L.tl L.bs pfx hAB hx hy) l1 l2 hsplit

/-- dependencies and barriers of a registration sequence order the tagged table the driver uses -/
theorem C02_deps_order_tagged (sc : Scenario) (τ : Nat → SysTag) (A B : Nat) (hB : B < sc.final.n)
    (hA : A ∈ sc.Dep B) : TOrdered (sc.taggedStages τ) (τ A) (τ B) := by
  obtain ⟨z, hz⟩ := sc.good
  rw [sc.taggedStages_eq]
  exact tOrdered_of_ordered hz τ (hz.deps B A hB hA)
end Shred


namespace Shred
namespace Scenario
variable (sc : Scenario)

/-- **C02 (transitively along dependency chains).** If `B` depends on `A` and `C` depends on `B`,
then `A` has finished before `C` begins to fetch — although `C` did not name `A`. -/
theorem C02_transitive (l : List (Ev SysTag)) (hl : Traces sc.plan l)
    (A B C : SysTag) (hB : B < sc.final.n) (hC : C < sc.final.n) (hAB : A ∈ sc.Dep B) (hBC : B ∈ sc.Dep C)
    (l1 l2 : List (Ev SysTag)) (hsplit : l = l1 ++ Ev.F C :: l2) : Ev.D A ∈ l1 := by
  obtain ⟨z, hz⟩ := sc.good
  have hnd := nodup_dispatchTask hz sc.tl sc.tl_nodup sc.tl_fresh
  have hDB : Ev.D B ∈ l1 := sc.C02_dependencies l hl B C hC hBC l1 l2 hsplit
  obtain ⟨m1, m2, hm⟩ := List.append_of_mem hDB
  have hBsys : B ∈ sc.plan.sys := by
    have := traces_ev_sys hl (Ev.D B) (by rw [hsplit, hm]; simp)
    simpa [Ev.sys] using this
  have hFB : Ev.F B ∈ m1 :=
    traces_F_before_D hl hnd B hBsys m1 (m2 ++ Ev.F C :: l2) (by rw [hsplit, hm]; simp)
  obtain ⟨k1, k2, hk⟩ := List.append_of_mem hFB
  have hDA : Ev.D A ∈ k1 :=
    sc.C02_dependencies l hl A B hB hAB k1 (k2 ++ Ev.D B :: m2 ++ Ev.F C :: l2) (by rw [hsplit, hm, hk]; simp)
  rw [hm, hk]
  simp [hDA]

end Scenario

open DispatcherBuilder

/-- **C02 (a name keeps meaning the system registered under it).** Whatever is registered later -
named, unnamed (whose printed placeholder `unnamed_system_<id>` is only a rendering, never a map
entry), rejected as a duplicate, or rejected for an unknown dependency - a name that resolves to an
id keeps resolving to that id: a dependency list always refers to the system that was registered
under the name. -/
theorem C02_names_never_repointed (b : DispatcherBuilder) (tag : SysTag) (name : String) (dep : List String)
    (d : Decl) (q : String) (id : SysId) (h : lookup b.map q = some id) :
    lookup (b.add tag name dep d).1.map q = some id := by
  unfold DispatcherBuilder.add
  simp only []
  cases resolve b.map dep with
  | error x => simpa using h
  | ok ids =>
    simp only []
    by_cases hn : name = ""
    · subst hn; simpa using h
    · simp only [ne_eq, hn, not_false_eq_true, if_true]
      by_cases hl : (lookup b.map name).isSome = true
      · simpa [hl] using h
      · simp only [hl]
        have hq : (name == q) = false := by
          cases hnq : name == q with
          | false => rfl
          | true =>
            have : name = q := by simpa using hnq
            subst this; simp [h] at hl
        simpa [lookup, hq] using h

/-- the same over any further registrations: `regs` is a list of (tag, name, dependencies, declaration) -/
theorem C02_names_never_repointed_run (regs : List (SysTag × String × List String × Decl)) :
    ∀ (b : DispatcherBuilder) (q : String) (id : SysId), lookup b.map q = some id →
      lookup (regs.foldl (fun b r => (b.add r.1 r.2.1 r.2.2.1 r.2.2.2).1) b).map q = some id := by
  induction regs with
  | nil => intro b q id h; simpa using h
  | cons r rs ih =>
    intro b q id h
    simp only [List.foldl_cons]
    exact ih _ q id (C02_names_never_repointed b r.1 r.2.1 r.2.2.1 r.2.2.2 q id h)

/-- non-vacuity: after registering `a`, the name resolves; an unnamed registration and one under the
placeholder's spelling leave it alone -/
example : let b0 := (({} : DispatcherBuilder).add 0 "a" [] ⟨[], [], 1⟩).1
    DispatcherBuilder.lookup b0.map "a" = some 0 ∧
    DispatcherBuilder.lookup ((b0.add 1 "" [] ⟨[], [], 1⟩).1.add 2 "unnamed_system_1" [] ⟨[], [], 1⟩).1.map "a" = some 0 := by
  decide

end Shred

#print axioms Shred.C02_names_never_repointed
#print axioms Shred.C02_names_never_repointed_run
#print axioms Shred.Scenario.C02_dependencies
#print axioms Shred.C02_order_nested
#print axioms Shred.C02_deps_order_tagged
#print axioms Shred.Scenario.C02_transitive
