import ShredModel.Lemmas.Scenario
/-!
# C03 — barriers

Quantifiers: every registration sequence `ops` (any number of systems, any declarations, any
dependency lists over earlier systems, barriers anywhere), every list of thread-local systems,
and **every trace** of the resulting plan, i.e. every interleaving a thread pool of any size
can produce.
-/
namespace Shred
namespace Scenario
variable (sc : Scenario)

/-- **C03 (barriers).** Everything registered before a barrier has finished before anything
registered after it starts: `k` is the number of systems registered when the barrier was added. -/
theorem C03_barriers (l : List (Ev SysTag)) (hl : Traces sc.plan l)
    (k : Nat) (hk : k ∈ sc.final.bars) (x y : SysTag) (hx : x < k) (hy : k ≤ y) (hyn : y < sc.final.n)
    (l1 l2 : List (Ev SysTag)) (hsplit : l = l1 ++ Ev.F y :: l2) : Ev.D x ∈ l1 := by
  obtain ⟨z, hz⟩ := sc.good
  have hnd := nodup_dispatchTask hz sc.tl sc.tl_nodup sc.tl_fresh
  have hkn := hz.bars_le k hk
  obtain ⟨sx, hsx⟩ := hz.placed (show x < sc.final.n from Nat.lt_of_lt_of_le hx hkn)
  obtain ⟨sy, hsy⟩ := hz.placed hyn
  have hlt := hz.sep k hk x y hx hy hyn sx sy hsx hsy
  exact traces_before hl hnd x y (before_of_ordered hz (Or.inl ⟨sx, sy, hlt, hsx, hsy⟩) sc.tl) l1 l2 hsplit

end Scenario
end Shred

#print axioms Shred.Scenario.C03_barriers
