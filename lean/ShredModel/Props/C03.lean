import ShredModel.Lemmas.Scenario
import ShredModel.Lemmas.NestedTop
/-!
# C03 — barriers

Quantifiers: every registration sequence `ops` (any number of systems, any declarations, any
dependency lists over earlier systems, barriers anywhere), every list of thread-local systems,
and **every trace** of the resulting plan, i.e. every interleaving a thread pool of any size
can produce.
-/
namespace Shred
namespace Scenario
variable (sc : Scenario)

/-- **C03 (barriers).** Everything registered before a barrier has finished before anything
registered after it starts: `k` is the number of systems registered when the barrier was added. -/
theorem C03_barriers (l : List (Ev SysTag)) (hl : Traces sc.plan l)
    (k : Nat) (hk : k ∈ sc.final.bars) (x y : SysTag) (hx : x < k) (hy : k ≤ y) (hyn : y < sc.final.n)
    (l1 l2 : List (Ev SysTag)) (hsplit : l = l1 ++ Ev.F y :: l2) : Ev.D x ∈ l1 := by
  obtain ⟨z, hz⟩ := sc.good
  have hnd := nodup_dispatchTask hz sc.tl sc.tl_nodup sc.tl_fresh
  have hkn := hz.bars_le k hk
  obtain ⟨sx, hsx⟩ := hz.placed (show x < sc.final.n from Nat.lt_of_lt_of_le hx hkn)
  obtain ⟨sy, hsy⟩ := hz.placed hyn
  have hlt := hz.sep k hk x y hx hy hyn sx sy hsx hsy
  exact traces_before hl hnd x y (before_of_ordered hz (Or.inl ⟨sx, sy, hlt, hsx, hsy⟩) sc.tl) l1 l2 hsplit

end Scenario
end Shred


namespace Shred

/-- **C03 (a repeated barrier changes nothing).** -/
theorem C03_addBarrier_idem (b : StagesBuilder) : b.addBarrier.addBarrier = b.addBarrier := rfl

/-- **C03 (a leading barrier changes nothing).** -/
theorem C03_addBarrier_init : ({} : StagesBuilder).addBarrier = {} := rfl

/-- **C03 (a barrier where nothing was registered since the previous one changes nothing):**
`add_barrier` only records the current number of stages; if that is what it already holds, the
builder — hence every later placement — is unchanged. -/
theorem C03_addBarrier_noop (b : StagesBuilder) (h : b.barrier = b.stages.length) : b.addBarrier = b := by
  cases b; simp_all [StagesBuilder.addBarrier]

/-- … and that is the situation right after a barrier: registering nothing keeps it -/
theorem C03_barrier_after_barrier (b : StagesBuilder) : b.addBarrier.barrier = b.addBarrier.stages.length := rfl

/-- **C03 on the tagged table the driver uses** (also inside batches: an inner builder is a
builder; thread-local systems are not part of the staged table, see `C07_nested_tl_last`): a
barrier orders every earlier registration before every later one. -/
theorem C03_barrier_order_tagged (sc : Scenario) (τ : Nat → SysTag) (k : Nat) (hk : k ∈ sc.final.bars)
    (x y : Nat) (hx : x < k) (hy : k ≤ y) (hyn : y < sc.final.n) :
    TOrdered (sc.taggedStages τ) (τ x) (τ y) := by
  obtain ⟨z, hz⟩ := sc.good
  have hkn := hz.bars_le k hk
  obtain ⟨sx, hsx⟩ := hz.placed (show x < sc.final.n from Nat.lt_of_lt_of_le hx hkn)
  obtain ⟨sy, hsy⟩ := hz.placed hyn
  have hlt := hz.sep k hk x y hx hy hyn sx sy hsx hsy
  rw [sc.taggedStages_eq]
  exact tOrdered_of_ordered hz τ (Or.inl ⟨sx, sy, hlt, hsx, hsy⟩)

end Shred

#print axioms Shred.Scenario.C03_barriers
#print axioms Shred.C03_addBarrier_idem
#print axioms Shred.C03_addBarrier_init
#print axioms Shred.C03_addBarrier_noop
#print axioms Shred.C03_barrier_after_barrier
#print axioms Shred.C03_barrier_order_tagged
