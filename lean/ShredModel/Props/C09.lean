import ShredModel.Lemmas.WorldSpec
/-!
# C09 — World is a faithful typed map: values keep their type, slot and identity

`World.abs : World → (ResId → Option Token)` is the abstraction. Statements are about
`World.step` / `World.run` of `Model/World.lean` — the functions the driver executes.
What Rust's type system guarantees is assumed, not proved: the value passed to
`insert_by_id::<R>` has type `R` (the model tags the new cell with the type argument), and a
`&mut World` call happens with no live guard (hypothesis `hl` where it matters).
-/
namespace Shred
namespace C09
open World

/-- **`refines`, state part**: every operation commutes with the abstraction: `insert` replaces,
`remove` empties the slot, `entry().or_insert(_with)` writes only a vacant slot, `setup` / `exec`
write defaults into vacant slots only, every other operation (all fetches, guard clone / drop,
presence queries, `get_mut`) leaves the map as it is. -/
theorem refines_state (w : World) (op : Op) : (w.step op).1.abs = absStep w.abs op := step_abs w op

/-- **`refines`, answer part**: every operation answers what the abstract map answers (`OutOk`):
`remove` returns the stored value, presence queries and `get_mut` agree with the map, a fetch that
does not end in a borrow panic returns a guard showing the stored value or reports absence, the
fields of system data show the stored values. -/
theorem refines_out {w : World} (hw : Inv w) (op : Op) (hl : op.isMut = true → w.guards = []) :
    OutOk w.abs op (w.step op).2 := step_out hw op hl

/-- `insert` replaces: afterwards the slot holds the new value, whatever it held before -/
theorem insert_replaces (w : World) (a : Nat) (k : ResId) (t : Nat) (h : a = k.ty) :
    (w.step (.insertById a k t)).1.abs k = some t ∧ (w.step (.insertById a k t)).2 = .unit := by
  rw [refines_state]
  simp [absStep, h, upd, step, insertById]

/-- `remove` returns the stored value and empties the slot -/
theorem remove_returns (w : World) (a : Nat) (k : ResId) (h : a = k.ty) :
    (w.step (.removeById a k)).2 = (match w.abs k with | some t => .value t | none => .none) ∧
    (w.step (.removeById a k)).1.abs k = none := by
  rw [refines_state]
  refine ⟨?_, by simp [absStep, h, upd]⟩
  simp only [step, removeById_out, h]
  simp
  cases w.abs k <;> rfl

/-- `entry().or_insert(..)` never overwrites: an occupied slot keeps its value, and that value is
what the returned guard shows -/
theorem or_insert_never_overwrites {w : World} (hw : Inv w) (hg : w.guards = []) (ty t t0 : Nat) (bv : Bool)
    (h : w.abs ⟨ty, 0⟩ = some t0) :
    (w.step (.entry ty t bv)).1.abs = w.abs ∧ (w.step (.entry ty t bv)).2 = .seen t0 := by
  refine ⟨?_, ?_⟩
  · rw [refines_state]; simp [absStep, h]
  · have := refines_out hw (.entry ty t bv) (fun _ => hg)
    simpa [OutOk, h] using this

/-- slots with different ids — in particular the same type under different dynamic ids — are
independent: an operation on `k` leaves every other slot alone -/
theorem dyn_independent (w : World) (a : Nat) (k k' : ResId) (t : Nat) (h : k' ≠ k) :
    (w.step (.insertById a k t)).1.abs k' = w.abs k' ∧ (w.step (.removeById a k)).1.abs k' = w.abs k' := by
  rw [refines_state, refines_state]
  simp only [absStep]
  constructor <;> split <;> simp [upd, h]

/-- the three data invariants hold after every history from the empty world: **`typed`** (the
value stored under an id has the type named by the id), keys are unique, and **`linear`**
(conservation: with multiplicity, every created value is stored, was returned, or was dropped) -/
theorem typed_linear_invariant (ops : List Op) : MapOk (run {} ops) := run_mapOk mapOk_empty ops

/-- … and every single operation preserves them from any such world -/
theorem step_preserves_typed_linear {w : World} (hm : MapOk w) (op : Op) : MapOk (w.step op).1 :=
  step_mapOk hm op

/-- **`typed`**, spelled out -/
theorem typed (ops : List Op) (k : ResId) (c : Cell) (h : (run {} ops).get k = some c) : c.ty = k.ty :=
  (typed_linear_invariant ops).typed k c h

/-- **`mismatch_panics`**: each of the four id-taking calls, given a type argument that disagrees
with the id, panics with the type-id assertion and leaves both tables unchanged (the value passed
to `insert_by_id` is dropped by the unwinding, nothing else is — in particular not the stored
value, whether or not its `Drop` would panic). -/
theorem mismatch_panics (w : World) (a : Nat) (k : ResId) (t : Nat) (h : a ≠ k.ty) :
    (w.step (.insertById a k t)) =
      ({ w with created := w.created ++ [t], dropped := w.dropped ++ [t] }, .panic .wrongType) ∧
    (w.step (.removeById a k)) = (w, .panic .wrongType) ∧
    (w.step (.tryFetchById a k)) = (w, .panic .wrongType) ∧
    (w.step (.tryFetchMutById a k)) = (w, .panic .wrongType) ∧
    (w.step (.insertFused a k t)) = (w.step (.insertById a k t)) := by
  simp [step, insertById, insertFused, removeById, tryFetchById, tryFetchMutById, h]

/-- and conversely the assertion fires only then -/
theorem wrongType_only_on_mismatch (w : World) (op : Op) (h : (w.step op).2 = .panic .wrongType) :
    ∃ a k, a ≠ k.ty ∧ ((∃ t, op = .insertById a k t) ∨ op = .removeById a k ∨ op = .tryFetchById a k ∨
      op = .tryFetchMutById a k ∨ (∃ t, op = .insertFused a k t)) := step_wrongType w op h

/-- **`linear`**: in every history whose value arguments carry pairwise distinct tokens, every
token that was created is, at the end, in exactly one of {stored in the world, returned to the
caller, dropped} and occurs there exactly once — so it was dropped at most once; a token that
was never created occurs nowhere. -/
theorem linear (ops : List Op) (hd : (ops.flatMap Op.tokens).Nodup) (t : Nat) :
    let w := run {} ops
    (t ∈ w.created → w.tokens.count t + w.returned.count t + w.dropped.count t = 1) ∧
    (t ∉ w.created → t ∉ w.tokens ∧ t ∉ w.returned ∧ t ∉ w.dropped) ∧
    w.dropped.Nodup ∧ (∀ x ∈ w.created, x ∈ ops.flatMap Op.tokens) := by
  intro w
  have hm := typed_linear_invariant ops
  have hn : w.created.Nodup := run_created_nodup (w := {}) ops (by simpa using hd)
  refine ⟨linear_once hm.linear hn t, linear_none hm.linear t, linear_dropped_nodup hm.linear hn, ?_⟩
  intro x hx
  have h1 : w.created.count x ≤ ({} : World).created.count x + (ops.flatMap Op.tokens).count x :=
    run_created ({} : World) ops x
  have h2 : 0 < w.created.count x := List.count_pos_iff.mpr hx
  have h3 : 0 < (ops.flatMap Op.tokens).count x := by
    have : ({} : World).created.count x = 0 := rfl
    omega
  exact List.count_pos_iff.mp h3

/-- **every value is dropped exactly once**: when finally the world itself is dropped, every
created value has been dropped exactly once or is in the caller's hands (returned by `remove`) -/
theorem dropped_exactly_once (ops : List Op) (hd : (ops.flatMap Op.tokens).Nodup) (t : Nat)
    (ht : t ∈ (run {} ops).created) :
    (run {} ops).dropWorld.dropped.count t + (run {} ops).dropWorld.returned.count t = 1 := by
  have h := (linear ops hd t).1 ht
  simp only [dropWorld, World.tokens, List.count_append] at h ⊢
  omega

/-! ## values whose `Drop` panics, closures that panic

The three data invariants and `linear` above quantify over *all* operations, including the ones
below; these theorems say what each of them does to the map. -/

/-- **insert replaces, also when the replaced value's `Drop` panics**: the call is unwound by that
panic, but the slot holds the new value, the old value's `drop` ran exactly once, and nothing else
was dropped (same state as the plain call) -/
theorem insert_replaces_when_drop_panics (w : World) (a : Nat) (k : ResId) (t t0 : Nat) (h : a = k.ty)
    (h0 : w.abs k = some t0) :
    (w.step (.insertFused a k t)).2 = .unwound .drop ∧
    (w.step (.insertFused a k t)).1 = (w.step (.insertById a k t)).1 ∧
    (w.step (.insertFused a k t)).1.abs k = some t ∧
    (w.step (.insertFused a k t)).1.dropped = w.dropped ++ [t0] ∧
    (w.step (.insertFused a k t)).1.created = w.created ++ [t] := by
  have hf : (w.step (.insertFused a k t)).1 = (w.step (.insertById a k t)).1 := insertFused_fst w a k t
  refine ⟨?_, hf, ?_, ?_, ?_⟩
  · simp [step, insertFused_out, h, h0]
  · rw [hf]; exact (insert_replaces w a k t h).1
  · rw [hf]
    cases hk : w.get k with
    | none => simp [World.abs, hk] at h0
    | some c =>
      simp [World.abs, hk] at h0
      simp [step, insertById, h, hk, h0]
  · rw [hf]; simp [step, insertById, h]

/-- a vacant slot drops nothing: the armed call is the plain call -/
theorem insert_vacant_drops_nothing (w : World) (a : Nat) (k : ResId) (t : Nat) (h0 : w.abs k = none) :
    w.step (.insertFused a k t) = w.step (.insertById a k t) := by
  have hk : w.get k = none := (abs_none_iff w k).mp h0
  simp only [step, insertFused, hk]
  generalize w.insertById a k t = r
  obtain ⟨w', o⟩ := r
  cases o <;> rfl

/-- **`entry().or_insert(v)` never overwrites, also when `v`'s `Drop` panics**: on an occupied slot
`v` is dropped (its `drop` ran once, the call is unwound), the stored value stays, no guard exists -/
theorem or_insert_occupied_drop_panics (w : World) (ty t t0 : Nat) (h : w.abs ⟨ty, 0⟩ = some t0) :
    (w.step (.entryFault ty t .valueDrop)).2 = .unwound .drop ∧
    (w.step (.entryFault ty t .valueDrop)).1.abs = w.abs ∧
    (w.step (.entryFault ty t .valueDrop)).1.cells = w.cells ∧
    (w.step (.entryFault ty t .valueDrop)).1.guards = w.guards ∧
    (w.step (.entryFault ty t .valueDrop)).1.dropped = w.dropped ++ [t] := by
  cases hk : w.get ⟨ty, 0⟩ with
  | none => simp [World.abs, hk] at h
  | some c => simp [step, entryFault, hk]; rfl

/-- **`or_insert_with(f)` with an `f` that panics stores nothing**: on a vacant slot the world is
untouched (the slot stays vacant, nothing was created); on an occupied one `f` does not run -/
theorem or_insert_with_closure_panics (w : World) (ty t : Nat) :
    (w.abs ⟨ty, 0⟩ = none → w.step (.entryFault ty t .closure) = (w, .unwound .closure)) ∧
    ((w.abs ⟨ty, 0⟩).isSome → w.step (.entryFault ty t .closure) = w.step (.entry ty t false)) := by
  cases hk : w.get ⟨ty, 0⟩ with
  | none => simp [World.abs, hk, step, entryFault]
  | some c => simp [World.abs, hk, step, entryFault]

/-- a caller that panics while holding the `entry` guard: the value is stored all the same -/
theorem entry_stores_before_caller_panics (w : World) (ty t : Nat) (bv : Bool) :
    (w.step (.entryFault ty t (.guardHeld bv))).1 = (w.step (.entry ty t bv)).1 :=
  entryFault_guardHeld_fst w ty t bv

/-- the caller dropping a value `remove` handed back: conservation goes on -/
theorem dropReturned_keeps_linear {w : World} (hm : MapOk w) (t : Nat) : MapOk (w.dropReturned t) := by
  refine ⟨?_, ?_, dropReturned_linear hm.linear t⟩
  · unfold dropReturned; split <;> exact hm.typed
  · unfold dropReturned; split <;> exact hm.keys

/-- **the world dropped while the `Drop` of one stored value panics** (whichever values the table
had dropped before it): every value created in the history is afterwards dropped exactly once, in
the caller's hands, or leaked — exactly one of the three; none is dropped twice -/
theorem dropWorld_panic_at_most_once (ops : List Op) (hd : (ops.flatMap Op.tokens).Nodup) (tok : Nat)
    (before leaked : List Nat) (w' : World) (h : (run {} ops).dropWorldPanic tok before = some (w', leaked))
    (t : Nat) (ht : t ∈ (run {} ops).created) :
    w'.dropped.count t + w'.returned.count t + leaked.count t = 1 ∧ w'.cells = [] :=
  dropWorldPanic_once (typed_linear_invariant ops).linear
    (run_created_nodup (w := {}) ops (by simpa using hd)) h t ht

/-! ## non-vacuity -/

/-- a history with replacement, removal, entry on vacant and occupied slots, dynamic ids,
mismatching calls, setup and exec -/
def sample : List Op :=
  [.insert 1 10, .insert 1 11, .insertById 2 ⟨2, 5⟩ 12, .insertById 3 ⟨2, 5⟩ 13, .entry 1 14 true,
   .entry 3 15 false, .removeById 2 ⟨2, 5⟩, .removeById 1 ⟨2, 6⟩, .setup [⟨0, false, false, true⟩, ⟨1, true, false, true⟩] [16, 17],
   .exec [⟨2, true, false, true⟩, ⟨4, false, true, true⟩] [18, 19], .remove 3]

example : (sample.flatMap Op.tokens).Nodup := by decide

example : (run {} sample).cells.map (fun p => (p.1.ty, p.1.dyn, p.2.ty, p.2.token)) =
      [(1, 0, 1, 11), (0, 0, 0, 16), (2, 0, 2, 18)] ∧
    (run {} sample).created = [10, 11, 12, 13, 14, 15, 16, 18] ∧
    (run {} sample).returned = [12, 15] ∧ (run {} sample).dropped = [10, 13, 14] := by decide

/-- hypotheses of `mismatch_panics` / `or_insert_never_overwrites` are satisfiable -/
example : ((run {} (sample.take 3)).step (.insertById 3 ⟨2, 5⟩ 13)).2 = .panic .wrongType ∧
    (run {} (sample.take 4)).abs ⟨1, 0⟩ = some 11 ∧ (run {} (sample.take 4)).guards = [] := by decide

/-- a history with the faults: replacing a value whose `Drop` panics, `or_insert` of such a value
on an occupied slot, a panicking `or_insert_with` closure on a vacant and on an occupied slot, a
caller panicking with the entry guard, an `exec` closure that panics -/
def faulty : List Op :=
  [.insert 1 10, .insertFused 1 ⟨1, 0⟩ 11, .insertFused 2 ⟨2, 3⟩ 12, .entryFault 1 13 .valueDrop,
   .entryFault 3 0 .closure, .entryFault 1 0 .closure, .entryFault 3 14 (.guardHeld true),
   .execFault [⟨0, true, false, true⟩] [15], .removeById 2 ⟨2, 3⟩]

example : (faulty.flatMap Op.tokens).Nodup := by decide

example : (run {} faulty).cells.map (fun p => (p.1.ty, p.1.dyn, p.2.ty, p.2.token, p.2.borrow)) =
      [(1, 0, 1, 11, .free), (3, 0, 3, 14, .free), (0, 0, 0, 15, .free)] ∧
    (run {} faulty).created = [10, 11, 12, 13, 14, 15] ∧
    (run {} faulty).returned = [12] ∧ (run {} faulty).dropped = [10, 13] ∧ (run {} faulty).guards = [] ∧
    ((run {} (faulty.take 1)).step (.insertFused 1 ⟨1, 0⟩ 11)).2 = .unwound .drop ∧
    ((run {} (faulty.take 2)).step (.insertFused 2 ⟨2, 3⟩ 12)).2 = .unit ∧
    ((run {} (faulty.take 4)).step (.entryFault 3 0 .closure)).2 = .unwound .closure ∧
    ((run {} (faulty.take 5)).step (.entryFault 1 0 .closure)).2 = .seen 11 ∧
    ((run {} (faulty.take 7)).step (.execFault [⟨0, true, false, true⟩] [15])).2 = .unwound .closure := by decide

/-- dropping that world while the `Drop` of value 14 panics after value 15 was dropped: 11 is leaked -/
example : (((run {} faulty).dropReturned 12).dropWorldPanic 14 [15]).map
      (fun r => (r.1.dropped, r.1.returned, r.1.cells.length, r.2)) =
    some ([10, 13, 12, 15, 14], [], 0, [11]) := by decide

/-- and an order the table cannot have produced is rejected -/
example : ((run {} faulty).dropWorldPanic 14 [15, 15]).isNone ∧ ((run {} faulty).dropWorldPanic 14 [12]).isNone ∧
    ((run {} faulty).dropWorldPanic 12 []).isNone := by decide

end C09
end Shred

#print axioms Shred.C09.refines_state
#print axioms Shred.C09.refines_out
#print axioms Shred.C09.insert_replaces
#print axioms Shred.C09.remove_returns
#print axioms Shred.C09.or_insert_never_overwrites
#print axioms Shred.C09.dyn_independent
#print axioms Shred.C09.typed_linear_invariant
#print axioms Shred.C09.step_preserves_typed_linear
#print axioms Shred.C09.typed
#print axioms Shred.C09.mismatch_panics
#print axioms Shred.C09.wrongType_only_on_mismatch
#print axioms Shred.C09.linear
#print axioms Shred.C09.dropped_exactly_once
#print axioms Shred.C09.insert_replaces_when_drop_panics
#print axioms Shred.C09.insert_vacant_drops_nothing
#print axioms Shred.C09.or_insert_occupied_drop_panics
#print axioms Shred.C09.or_insert_with_closure_panics
#print axioms Shred.C09.entry_stores_before_caller_panics
#print axioms Shred.C09.dropReturned_keeps_linear
#print axioms Shred.C09.dropWorld_panic_at_most_once
