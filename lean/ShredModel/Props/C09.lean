import ShredModel.Lemmas.WorldSpec
/-!
# C09 — World is a faithful typed map: values keep their type, slot and identity

`World.abs : World → (ResId → Option Token)` is the abstraction. Statements are about
`World.step` / `World.run` of `Model/World.lean` — the functions the driver executes.
What Rust's type system guarantees is assumed, not proved: the value passed to
`insert_by_id::<R>` has type `R` (the model tags the new cell with the type argument), and a
`&mut World` call happens with no live guard (hypothesis `hl` where it matters).
-/
namespace Shred
namespace C09
open World

/-- **`refines`, state part**: every operation commutes with the abstraction: `insert` replaces,
`remove` empties the slot, `entry().or_insert(_with)` writes only a vacant slot, `setup` / `exec`
write defaults into vacant slots only, every other operation (all fetches, guard clone / drop,
presence queries, `get_mut`) leaves the map as it is. -/
theorem refines_state (w : World) (op : Op) : (w.step op).1.abs = absStep w.abs op := step_abs w op

/-- **`refines`, answer part**: every operation answers what the abstract map answers (`OutOk`):
`remove` returns the stored value, presence queries and `get_mut` agree with the map, a fetch that
does not end in a borrow panic returns a guard showing the stored value or reports absence, the
fields of system data show the stored values. -/
theorem refines_out {w : World} (hw : Inv w) (op : Op) (hl : op.isMut = true → w.guards = []) :
    OutOk w.abs op (w.step op).2 := step_out hw op hl

/-- `insert` replaces: afterwards the slot holds the new value, whatever it held before -/
theorem insert_replaces (w : World) (a : Nat) (k : ResId) (t : Nat) (h : a = k.ty) :
    (w.step (.insertById a k t)).1.abs k = some t ∧ (w.step (.insertById a k t)).2 = .unit := by
  rw [refines_state]
  simp [absStep, h, upd, step, insertById]

/-- `remove` returns the stored value and empties the slot -/
theorem remove_returns (w : World) (a : Nat) (k : ResId) (h : a = k.ty) :
    (w.step (.removeById a k)).2 = (match w.abs k with | some t => .value t | none => .none) ∧
    (w.step (.removeById a k)).1.abs k = none := by
  rw [refines_state]
  refine ⟨?_, by simp [absStep, h, upd]⟩
  simp only [step, removeById_out, h]
  simp
  cases w.abs k <;> rfl

/-- `entry().or_insert(..)` never overwrites: an occupied slot keeps its value, and that value is
what the returned guard shows -/
theorem or_insert_never_overwrites {w : World} (hw : Inv w) (hg : w.guards = []) (ty t t0 : Nat) (bv : Bool)
    (h : w.abs ⟨ty, 0⟩ = some t0) :
    (w.step (.entry ty t bv)).1.abs = w.abs ∧ (w.step (.entry ty t bv)).2 = .seen t0 := by
  refine ⟨?_, ?_⟩
  · rw [refines_state]; simp [absStep, h]
  · have := refines_out hw (.entry ty t bv) (fun _ => hg)
    simpa [OutOk, h] using this

/-- slots with different ids — in particular the same type under different dynamic ids — are
independent: an operation on `k` leaves every other slot alone -/
theorem dyn_independent (w : World) (a : Nat) (k k' : ResId) (t : Nat) (h : k' ≠ k) :
    (w.step (.insertById a k t)).1.abs k' = w.abs k' ∧ (w.step (.removeById a k)).1.abs k' = w.abs k' := by
  rw [refines_state, refines_state]
  simp only [absStep]
  constructor <;> split <;> simp [upd, h]

/-- the three data invariants hold after every history from the empty world: **`typed`** (the
value stored under an id has the type named by the id), keys are unique, and **`linear`**
(conservation: with multiplicity, every created value is stored, was returned, or was dropped) -/
theorem typed_linear_invariant (ops : List Op) : MapOk (run {} ops) := run_mapOk mapOk_empty ops

/-- … and every single operation preserves them from any such world -/
theorem step_preserves_typed_linear {w : World} (hm : MapOk w) (op : Op) : MapOk (w.step op).1 :=
  step_mapOk hm op

/-- **`typed`**, spelled out -/
theorem typed (ops : List Op) (k : ResId) (c : Cell) (h : (run {} ops).get k = some c) : c.ty = k.ty :=
  (typed_linear_invariant ops).typed k c h

/-- **`mismatch_panics`**: each of the four id-taking calls, given a type argument that disagrees
with the id, panics with the type-id assertion and leaves both tables unchanged (the value passed
to `insert_by_id` is dropped by the unwinding, nothing else is). -/
theorem mismatch_panics (w : World) (a : Nat) (k : ResId) (t : Nat) (h : a ≠ k.ty) :
    (w.step (.insertById a k t)) =
      ({ w with created := w.created ++ [t], dropped := w.dropped ++ [t] }, .panic .wrongType) ∧
    (w.step (.removeById a k)) = (w, .panic .wrongType) ∧
    (w.step (.tryFetchById a k)) = (w, .panic .wrongType) ∧
    (w.step (.tryFetchMutById a k)) = (w, .panic .wrongType) := by
  simp [step, insertById, removeById, tryFetchById, tryFetchMutById, h]

/-- and conversely the assertion fires only then -/
theorem wrongType_only_on_mismatch (w : World) (op : Op) (h : (w.step op).2 = .panic .wrongType) :
    ∃ a k, a ≠ k.ty ∧ ((∃ t, op = .insertById a k t) ∨ op = .removeById a k ∨ op = .tryFetchById a k ∨
      op = .tryFetchMutById a k) := step_wrongType w op h

/-- **`linear`**: in every history whose value arguments carry pairwise distinct tokens, every
token that was created is, at the end, in exactly one of {stored in the world, returned to the
caller, dropped} and occurs there exactly once — so it was dropped at most once; a token that
was never created occurs nowhere. -/
theorem linear (ops : List Op) (hd : (ops.flatMap Op.tokens).Nodup) (t : Nat) :
    let w := run {} ops
    (t ∈ w.created → w.tokens.count t + w.returned.count t + w.dropped.count t = 1) ∧
    (t ∉ w.created → t ∉ w.tokens ∧ t ∉ w.returned ∧ t ∉ w.dropped) ∧
    w.dropped.Nodup ∧ (∀ x ∈ w.created, x ∈ ops.flatMap Op.tokens) := by
  intro w
  have hm := typed_linear_invariant ops
  have hn : w.created.Nodup := run_created_nodup (w := {}) ops (by simpa using hd)
  refine ⟨linear_once hm.linear hn t, linear_none hm.linear t, linear_dropped_nodup hm.linear hn, ?_⟩
  intro x hx
  have h1 : w.created.count x ≤ ({} : World).created.count x + (ops.flatMap Op.tokens).count x :=
    run_created ({} : World) ops x
  have h2 : 0 < w.created.count x := List.count_pos_iff.mpr hx
  have h3 : 0 < (ops.flatMap Op.tokens).count x := by
    have : ({} : World).created.count x = 0 := rfl
    omega
  exact List.count_pos_iff.mp h3

/-- **every value is dropped exactly once**: when finally the world itself is dropped, every
created value has been dropped exactly once or is in the caller's hands (returned by `remove`) -/
theorem dropped_exactly_once (ops : List Op) (hd : (ops.flatMap Op.tokens).Nodup) (t : Nat)
    (ht : t ∈ (run {} ops).created) :
    (run {} ops).dropWorld.dropped.count t + (run {} ops).dropWorld.returned.count t = 1 := by
  have h := (linear ops hd t).1 ht
  simp only [dropWorld, World.tokens, List.count_append] at h ⊢
  omega

/-! ## non-vacuity -/

/-- a history with replacement, removal, entry on vacant and occupied slots, dynamic ids,
mismatching calls, setup and exec -/
def sample : List Op :=
  [.insert 1 10, .insert 1 11, .insertById 2 ⟨2, 5⟩ 12, .insertById 3 ⟨2, 5⟩ 13, .entry 1 14 true,
   .entry 3 15 false, .removeById 2 ⟨2, 5⟩, .removeById 1 ⟨2, 6⟩, .setup [⟨0, false, false, true⟩, ⟨1, true, false, true⟩] [16, 17],
   .exec [⟨2, true, false, true⟩, ⟨4, false, true, true⟩] [18, 19], .remove 3]

example : (sample.flatMap Op.tokens).Nodup := by decide

example : (run {} sample).cells.map (fun p => (p.1.ty, p.1.dyn, p.2.ty, p.2.token)) =
      [(1, 0, 1, 11), (0, 0, 0, 16), (2, 0, 2, 18)] ∧
    (run {} sample).created = [10, 11, 12, 13, 14, 15, 16, 18] ∧
    (run {} sample).returned = [12, 15] ∧ (run {} sample).dropped = [10, 13, 14] := by decide

/-- hypotheses of `mismatch_panics` / `or_insert_never_overwrites` are satisfiable -/
example : ((run {} (sample.take 3)).step (.insertById 3 ⟨2, 5⟩ 13)).2 = .panic .wrongType ∧
    (run {} (sample.take 4)).abs ⟨1, 0⟩ = some 11 ∧ (run {} (sample.take 4)).guards = [] := by decide

end C09
end Shred

#print axioms Shred.C09.refines_state
#print axioms Shred.C09.refines_out
#print axioms Shred.C09.insert_replaces
#print axioms Shred.C09.remove_returns
#print axioms Shred.C09.or_insert_never_overwrites
#print axioms Shred.C09.dyn_independent
#print axioms Shred.C09.typed_linear_invariant
#print axioms Shred.C09.step_preserves_typed_linear
#print axioms Shred.C09.typed
#print axioms Shred.C09.mismatch_panics
#print axioms Shred.C09.wrongType_only_on_mismatch
#print axioms Shred.C09.linear
#print axioms Shred.C09.dropped_exactly_once
