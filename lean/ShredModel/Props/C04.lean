import ShredModel.Lemmas.Scenario
import ShredModel.Lemmas.NestedTop
/-!
# C04 — exactly once

Quantifiers: every registration sequence `ops` (any number of systems, any declarations, any
dependency lists over earlier systems, barriers anywhere), every list of thread-local systems,
and **every trace** of the resulting plan, i.e. every interleaving a thread pool of any size
can produce.
-/
namespace Shred
namespace Scenario
variable (sc : Scenario)

/-- **C04 (exactly once).** Every registered system, and every thread-local system, fetches
exactly once and drops exactly once in every execution of one dispatch. -/
theorem C04_exactly_once (l : List (Ev SysTag)) (hl : Traces sc.plan l) (x : SysTag)
    (hx : x < sc.final.n ∨ x ∈ sc.tl) : l.count (Ev.F x) = 1 ∧ l.count (Ev.D x) = 1 := by
  obtain ⟨z, hz⟩ := sc.good
  have hnd := nodup_dispatchTask hz sc.tl sc.tl_nodup sc.tl_fresh
  apply traces_once hl hnd x
  show x ∈ (dispatchTask sc.final.b.stages sc.tl).sys
  rw [sys_dispatchTask, stages_eq_of_zips hz.zips, flatten_sys_eq_allIds hz]
  rcases hx with h | h
  · apply List.mem_append_left
    apply List.count_pos_iff.mp
    rw [hz.ids x]; simp [h]
  · exact List.mem_append_right _ h

end Scenario
end Shred

namespace Shred
/-- **C04 with batches, at any nesting depth**: every instance — a system inside a batch once
per inner dispatch — fetches and drops exactly once. -/
theorem C04_exactly_once_nested {D : SysTag → Decl} (L : Level D) (par : Bool) (pfx : Inst) (l : List (Ev Inst))
    (hl : Traces (L.task par pfx) l) (x : Inst) (hx : x ∈ (L.task par pfx).sys) :
    l.count (Ev.F x) = 1 ∧ l.count (Ev.D x) = 1 :=
  traces_once hl (L.nodup par pfx) x hx

/-- a controller that dispatches `n` times contributes `n` instances of every inner system -/
theorem C04_batch_instances (inner : Inst → Task Inst) (inst : Inst) (n : Nat) :
    (iterBody inner inst n 0).sys = (List.range' 0 n).flatMap fun j => (inner (inst ++ [j])).sys :=
  sys_iterBody inner inst n 0
end Shred

#print axioms Shred.Scenario.C04_exactly_once
#print axioms Shred.C04_exactly_once_nested
#print axioms Shred.C04_batch_instances
