import ShredModel.Lemmas.Scenario
import ShredModel.Lemmas.NestedTop
import ShredModel.Lemmas.SeqTrace
/-!
# C04 — exactly once

Quantifiers: every registration sequence `ops` (any number of systems, any declarations, any
dependency lists over earlier systems, barriers anywhere), every list of thread-local systems,
and **every trace** of the resulting plan, i.e. every interleaving a thread pool of any size
can produce.
-/
namespace Shred
namespace Scenario
variable (sc : Scenario)

/-- **C04 (exactly once).** Every registered system, and every thread-local system, fetches
exactly once and drops exactly once in every execution of one dispatch. -/
theorem C04_exactly_once (l : List (Ev SysTag)) (hl : Traces sc.plan l) (x : SysTag)
    (hx : x < sc.final.n ∨ x ∈ sc.tl) : l.count (Ev.F x) = 1 ∧ l.count (Ev.D x) = 1 := by
  obtain ⟨z, hz⟩ := sc.good
  have hnd := nodup_dispatchTask hz sc.tl sc.tl_nodup sc.tl_fresh
  apply traces_once hl hnd x
  show x ∈ (dispatchTask sc.final.b.stages sc.tl).sys
  rw [sys_dispatchTask, stages_eq_of_zips hz.zips, flatten_sys_eq_allIds hz]
  rcases hx with h | h
  · apply List.mem_append_left
    apply List.count_pos_iff.mp
    rw [hz.ids x]; simp [h]
  · exact List.mem_append_right _ h

end Scenario
end Shred

namespace Shred
/-- **C04 with batches, at any nesting depth**: every instance — a system inside a batch once
per inner dispatch — fetches and drops exactly once. -/
theorem C04_exactly_once_nested {D : SysTag → Decl} (L : Level D) (par : Bool) (pfx : Inst) (l : List (Ev Inst))
    (hl : Traces (L.task par pfx) l) (x : Inst) (hx : x ∈ (L.task par pfx).sys) :
    l.count (Ev.F x) = 1 ∧ l.count (Ev.D x) = 1 :=
  traces_once hl (L.nodup par pfx) x hx

/-- a controller that dispatches `n` times contributes `n` instances of every inner system -/
theorem C04_batch_instances (inner : Inst → Task Inst) (inst : Inst) (n : Nat) :
    (iterBody inner inst n 0).sys = (List.range' 0 n).flatMap fun j => (inner (inst ++ [j])).sys :=
  sys_iterBody inner inst n 0
end Shred


namespace Shred
namespace Scenario
variable (sc : Scenario)

/-- **C04 (k successive dispatches run each system exactly k times).** -/
theorem C04_repeated (ls : List (List (Ev SysTag))) (hls : ∀ l, l ∈ ls → Traces sc.plan l) (x : SysTag)
    (hx : x < sc.final.n ∨ x ∈ sc.tl) :
    ls.flatten.count (Ev.F x) = ls.length ∧ ls.flatten.count (Ev.D x) = ls.length := by
  induction ls with
  | nil => simp
  | cons l ls ih =>
    obtain ⟨h1, h2⟩ := sc.C04_exactly_once l (hls l (by simp)) x hx
    obtain ⟨i1, i2⟩ := ih (fun l' hl' => hls l' (by simp [hl']))
    simp only [List.flatten_cons, List.count_append, List.length_cons, h1, h2, i1, i2]
    omega

/-- **C04 (nothing else runs).** Every event of a dispatch belongs to a registered or thread-local system. -/
theorem C04_only_registered (l : List (Ev SysTag)) (hl : Traces sc.plan l) (e : Ev SysTag) (he : e ∈ l) :
    e.sys < sc.final.n ∨ e.sys ∈ sc.tl := by
  obtain ⟨z, hz⟩ := sc.good
  have := traces_ev_sys hl e he
  rw [show sc.plan = dispatchTask sc.final.b.stages sc.tl from rfl, sys_dispatchTask] at this
  rcases List.mem_append.mp this with h | h
  · left
    rw [stages_eq_of_zips hz.zips, flatten_sys_eq_allIds hz] at h
    have hc := List.count_pos_iff.mpr h
    rw [hz.ids] at hc
    split at hc <;> omega
  · exact Or.inr h

end Scenario
end Shred


namespace Shred
namespace Scenario
variable (sc : Scenario)

/-- **C04 (`dispatch_par` / `dispatch_seq` run exactly the staged systems).** -/
theorem C04_staged_only (l : List (Ev SysTag)) (hl : Traces (stagesTask sc.final.b.stages) l) (x : SysTag) :
    (x < sc.final.n → l.count (Ev.F x) = 1 ∧ l.count (Ev.D x) = 1) ∧
    (¬ x < sc.final.n → l.count (Ev.F x) = 0 ∧ l.count (Ev.D x) = 0) := by
  obtain ⟨z, hz⟩ := sc.good
  have hnd := nodup_dispatchTask hz [] List.nodup_nil (fun _ h => by cases h)
  rw [sys_dispatchTask, List.append_nil] at hnd
  have hsys : (stagesTask sc.final.b.stages).sys = sc.final.b.stages.flatten.flatten := sys_stagesTask _
  have hmem : x ∈ sc.final.b.stages.flatten.flatten ↔ x < sc.final.n := by
    rw [stages_eq_of_zips hz.zips, flatten_sys_eq_allIds hz]
    constructor
    · intro h
      have hc := List.count_pos_iff.mpr h
      rw [hz.ids] at hc
      split at hc <;> omega
    · intro h
      apply List.count_pos_iff.mp
      rw [hz.ids x]; simp [h]
  constructor
  · intro hx
    exact traces_once hl (by rw [hsys]; exact hnd) x (by rw [hsys]; exact hmem.mpr hx)
  · intro hx
    have hns : x ∉ (stagesTask sc.final.b.stages).sys := by rw [hsys]; exact fun h => hx (hmem.mp h)
    exact ⟨count_zero_of_not_sys hl (.F x) hns, count_zero_of_not_sys hl (.D x) hns⟩

/-- **C04 (`dispatch_thread_local` runs exactly the thread-local systems, in order).** -/
theorem C04_thread_local_only (l : List (Ev SysTag))
    (hl : Traces (Task.seqN (sc.tl.map Task.leaf)) l) : l = sc.tl.flatMap fun t => [Ev.F t, Ev.D t] := by
  have hn : (Task.seqN (sc.tl.map Task.leaf)).NoPar := by
    apply noPar_seqN
    intro t ht
    obtain ⟨x, _, rfl⟩ := List.mem_map.mp ht
    trivial
  rw [traces_noPar hl hn, seqTrace_seqN]
  induction sc.tl with
  | nil => rfl
  | cons t tl ih => simp [List.flatMap_cons, Task.seqTrace, ih]

end Scenario
end Shred

#print axioms Shred.Scenario.C04_exactly_once
#print axioms Shred.C04_exactly_once_nested
#print axioms Shred.C04_batch_instances
#print axioms Shred.Scenario.C04_repeated
#print axioms Shred.Scenario.C04_only_registered
#print axioms Shred.Scenario.C04_staged_only
#print axioms Shred.Scenario.C04_thread_local_only
