import ShredModel.Lemmas.Scenario
import ShredModel.Lemmas.NestedTop
import ShredModel.Lemmas.Threads
/-!
# C12 — thread-local systems

Quantifiers: every registration sequence `ops` (any number of systems, any declarations, any
dependency lists over earlier systems, barriers anywhere), every list of thread-local systems,
and **every trace** of the resulting plan, i.e. every interleaving a thread pool of any size
can produce.
-/
namespace Shred
namespace Scenario
variable (sc : Scenario)

/-- **C12 (order part).** Thread-local systems start only after every staged system has
finished, and run in registration order. -/
theorem C12_thread_local_last (l : List (Ev SysTag)) (hl : Traces sc.plan l)
    (x y : SysTag) (hx : x < sc.final.n) (hy : y ∈ sc.tl)
    (l1 l2 : List (Ev SysTag)) (hsplit : l = l1 ++ Ev.F y :: l2) : Ev.D x ∈ l1 := by
  obtain ⟨z, hz⟩ := sc.good
  have hnd := nodup_dispatchTask hz sc.tl sc.tl_nodup sc.tl_fresh
  have hmem : x ∈ sc.final.b.stages.flatten.flatten := by
    rw [stages_eq_of_zips hz.zips, flatten_sys_eq_allIds hz]
    apply List.count_pos_iff.mp
    rw [hz.ids x]; simp [hx]
  exact traces_before hl hnd x y (before_tl hmem hy) l1 l2 hsplit

end Scenario
end Shred


namespace Shred

/-- **C12 (thread-local systems run in registration order, one at a time).** -/
theorem C12_thread_local_in_order (sc : Scenario) (l : List (Ev SysTag)) (hl : Traces sc.plan l)
    (i j : Nat) (x y : SysTag) (hi : sc.tl[i]? = some x) (hj : sc.tl[j]? = some y) (hij : i < j)
    (l1 l2 : List (Ev SysTag)) (hsplit : l = l1 ++ Ev.F y :: l2) : Ev.D x ∈ l1 := by
  obtain ⟨z, hz⟩ := sc.good
  have hnd := nodup_dispatchTask hz sc.tl sc.tl_nodup sc.tl_fresh
  exact traces_before hl hnd x y (before_tl_order hi hj hij) l1 l2 hsplit

/-- **C12 (calling thread), for a dispatcher that is not nested in a batch**: the thread the model
assigns to every thread-local system is the thread that called `dispatch` (`'c'`), to every
staged system a pool worker under `dispatch` / `dispatch_par` and the caller under
`dispatch_seq`. The driver compares the thread kind of every logged event with this table. -/
theorem C12_threads_partial (par : Bool) (stages : Table (List SysTag)) (tl : List SysTag)
    (bs : List (SysTag × Threads)) :
    (∀ t, t ∈ tl → ([t], 'c') ∈ nThreads par stages tl bs 'c' []) ∧
    (∀ t, t ∈ stages.flatten.flatten → ([t], if par then 'w' else 'c') ∈ nThreads par stages tl bs 'c' []) :=
  ⟨fun t ht => by simpa using tl_thread_mem par stages tl bs 'c' [] t ht,
   fun t ht => by simpa using staged_thread_mem par stages tl bs 'c' [] t ht⟩

/-- and nothing else is assigned to a top-level instance -/
theorem C12_threads_only (par : Bool) (stages : Table (List SysTag)) (tl : List SysTag)
    (bs : List (SysTag × Threads))
    (hbs : ∀ t inner c p x, findThreads bs t = some inner → x ∈ inner c p → p.length < x.1.length)
    (x : Inst × Char) (hx : x ∈ nThreads par stages tl bs 'c' []) (hlen : x.1.length = 1) :
    (∃ t, t ∈ stages.flatten.flatten ∧ x = ([t], if par then 'w' else 'c')) ∨ (∃ t, t ∈ tl ∧ x = ([t], 'c')) := by
  simpa using nThreads_top_level par stages tl bs hbs 'c' [] x hx (by simpa using hlen)

/-- **KF1 (open finding), as a theorem about the model that mirrors the code**: the full
statement "thread-local systems never run on a pool worker" is FALSE for a thread-local system of
a builder passed to `add_batch`: the batch runs as an ordinary system on a worker and its inner
`dispatch` runs the inner thread-local system there. Witness: batch `0` holding thread-local `1`. -/
theorem C12_kf1_witness :
    ([0, 0, 1], 'w') ∈ nThreads true [[[0]]] [] [(0, batchThreads true [] [1] [] 1)] 'c' [] := by decide

/-- what `try_into_sendable` does: `Ok(self.inner)` iff the thread-local list is empty -/
def tryIntoSendable (stages : Table (List SysTag)) (tl : List SysTag) : Option (Table (List SysTag)) :=
  if tl.isEmpty then some stages else none

/-- **C12 (sendable form).** The conversion succeeds exactly when there is no thread-local
system, and then the plan is unchanged. -/
theorem C12_sendable_iff (stages : Table (List SysTag)) (tl : List SysTag) (r : Table (List SysTag)) :
    tryIntoSendable stages tl = some r ↔ tl = [] ∧ r = stages := by
  unfold tryIntoSendable
  cases tl with
  | nil => simp [eq_comm]
  | cons a l => simp

end Shred

#print axioms Shred.Scenario.C12_thread_local_last
#print axioms Shred.C12_thread_local_in_order
#print axioms Shred.C12_threads_partial
#print axioms Shred.C12_threads_only
#print axioms Shred.C12_kf1_witness
#print axioms Shred.C12_sendable_iff
