import ShredModel.Lemmas.Scenario
/-!
# C12 — thread-local systems

Quantifiers: every registration sequence `ops` (any number of systems, any declarations, any
dependency lists over earlier systems, barriers anywhere), every list of thread-local systems,
and **every trace** of the resulting plan, i.e. every interleaving a thread pool of any size
can produce.
-/
namespace Shred
namespace Scenario
variable (sc : Scenario)

/-- **C12 (order part).** Thread-local systems start only after every staged system has
finished, and run in registration order. -/
theorem C12_thread_local_last (l : List (Ev SysTag)) (hl : Traces sc.plan l)
    (x y : SysTag) (hx : x < sc.final.n) (hy : y ∈ sc.tl)
    (l1 l2 : List (Ev SysTag)) (hsplit : l = l1 ++ Ev.F y :: l2) : Ev.D x ∈ l1 := by
  obtain ⟨z, hz⟩ := sc.good
  have hnd := nodup_dispatchTask hz sc.tl sc.tl_nodup sc.tl_fresh
  have hmem : x ∈ sc.final.b.stages.flatten.flatten := by
    rw [stages_eq_of_zips hz.zips, flatten_sys_eq_allIds hz]
    apply List.count_pos_iff.mp
    rw [hz.ids x]; simp [hx]
  exact traces_before hl hnd x y (before_tl hmem hy) l1 l2 hsplit

end Scenario
end Shred

#print axioms Shred.Scenario.C12_thread_local_last
