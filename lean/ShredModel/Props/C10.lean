import ShredModel.Lemmas.Scenario
/-!
# C10 — no needless serialisation

Stated for the repaired `insert` (fix D3 in /repo: the dependency list is de-duplicated and the
ids of stages in front of the barrier are crossed off first). Without those two steps the
statement is false — `a; barrier; b; c→a` is the witness kept in `corpus/plan`.
-/
namespace Shred

/-- **C10 (every skipped stage is justified).** When the builder (any reachable one: `b.OK D`
and every dependency placed) chooses a target for a new system, every stage between the
barrier and the chosen stage holds an earlier system that conflicts with the new one, or one of
the new system's dependencies sits in that stage or a later one. For **any** join policy. -/
theorem C10_skipped_stage_justified {D : Nat → Decl} (joinOk : ZStage → Nat → Nat → Bool)
    (b : ZB) (hb : b.OK D) (dep : List Nat) (d : Decl)
    (hplaced : ∀ A, A ∈ dep → ∃ s, InStage b s A)
    (s : Nat) (hs1 : b.barrier ≤ s)
    (hs2 : s < (b.target joinOk dedup dep (sortDedup d.reads) d).stageOr b.stages.length) :
    (∃ (st : ZStage) (g : ZGroup) (a : Nat), b.stages[s]? = some st ∧ g ∈ st ∧ a ∈ g.sys ∧ conflictsD d (D a)) ∨
    (∃ A s', A ∈ dep ∧ s ≤ s' ∧ InStage b s' A) :=
  insert_skips_justified joinOk sortDedup (fun _ _ => mem_sortDedup) dedup (fun _ _ => mem_dedup)
    nodup_dedup b hb dep d hplaced s hs1 hs2

/-- the five-table builder of the code takes exactly that decision (simulation) -/
theorem C10_target_is_the_codes {b : StagesBuilder} {z : ZB} (hz : Zips b z) (dep : List Nat) (d : Decl) :
    b.insertionTarget (sortDedup d.reads) d.writes (b.prepDep dep) d.time
      = z.target zJoinOk dedup dep (sortDedup d.reads) d := by
  rw [insertionTarget_sim hz, prepDep_sim hz]
  rfl

end Shred

#print axioms Shred.C10_skipped_stage_justified
#print axioms Shred.C10_target_is_the_codes
