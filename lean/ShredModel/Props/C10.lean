import ShredModel.Lemmas.Scenario
import ShredModel.Lemmas.Share
import ShredModel.Model.Builder
/-!
# C10 — no needless serialisation

Stated for the repaired `insert` (fix D3 in /repo: the dependency list is de-duplicated and the
ids of stages in front of the barrier are crossed off first). Without those two steps the
statement is false — `a; barrier; b; c→a` and `x; z; y→[x,x]` are the witnesses kept in
`corpus/plan` and replayed on the real crate on every run.
-/
namespace Shred

/-- **C10 (every skipped stage is justified), decision level.** When the builder (any reachable
one: `b.OK D` and every dependency placed) chooses a target for a new system, every stage
between the barrier and the chosen stage holds an earlier system that conflicts with the new
one, or one of the new system's dependencies sits in that stage or a later one. For **any**
join policy. -/
theorem C10_skipped_stage_justified {D : Nat → Decl} (joinOk : ZStage → Nat → Nat → Bool)
    (b : ZB) (hb : b.OK D) (dep : List Nat) (d : Decl)
    (hplaced : ∀ A, A ∈ dep → ∃ s, InStage b s A)
    (s : Nat) (hs1 : b.barrier ≤ s)
    (hs2 : s < (b.target joinOk dedup dep (sortDedup d.reads) d).stageOr b.stages.length) :
    (∃ (st : ZStage) (g : ZGroup) (a : Nat), b.stages[s]? = some st ∧ g ∈ st ∧ a ∈ g.sys ∧ conflictsD d (D a)) ∨
    (∃ A s', A ∈ dep ∧ s ≤ s' ∧ InStage b s' A) :=
  insert_skips_justified joinOk sortDedup (fun _ _ => mem_sortDedup) dedup (fun _ _ => mem_dedup)
    nodup_dedup b hb dep d hplaced s hs1 hs2

/-- the five-table builder of the code takes exactly that decision (simulation) -/
theorem C10_target_is_the_codes {b : StagesBuilder} {z : ZB} (hz : Zips b z) (dep : List Nat) (d : Decl) :
    b.insertionTarget (sortDedup d.reads) d.writes (b.prepDep dep) d.time
      = z.target zJoinOk dedup dep (sortDedup d.reads) d := by
  rw [insertionTarget_sim hz, prepDep_sim hz]
  rfl

namespace Scenario
variable (sc : Scenario)

/-- **C10, on the tables of the code, for every registration sequence.** Whatever is registered
next (any declaration, any dependency list over registered systems): every stage the code's
`insertion_target` skips — from the barrier up to the stage it chooses, or up to the end when it
opens a new stage — contains an earlier-registered system the new one conflicts with, or a
stage at or behind it contains one of its dependencies. -/
theorem C10_no_needless_serialisation (dep : List Nat) (d : Decl) (hdep : ∀ A, A ∈ dep → A < sc.final.n)
    (s : Nat) (hs1 : sc.final.b.barrier ≤ s)
    (hs2 : s < (sc.final.b.insertionTarget (sortDedup d.reads) d.writes (sc.final.b.prepDep dep) d.time).stageOr
      sc.final.b.stages.length) :
    (∃ st a, sc.final.b.stages[s]? = some st ∧ a ∈ st.flatten ∧ a < sc.final.n ∧ conflictsD d (sc.D a)) ∨
    (∃ A s' st', A ∈ dep ∧ s ≤ s' ∧ sc.final.b.ids[s']? = some st' ∧ A ∈ st'.flatten) := by
  obtain ⟨z, hz⟩ := sc.good
  have hlen := (zips_length hz.zips)
  rw [C10_target_is_the_codes hz.zips, hlen.2, ← hlen.1] at hs2
  rw [← hz.zips.barrier] at hs1
  have hplaced : ∀ A, A ∈ dep → ∃ s, InStage z s A := fun A hA => hz.placed (hdep A hA)
  rcases C10_skipped_stage_justified zJoinOk z hz.ok dep d hplaced s hs1 hs2 with
    ⟨st, g, a, hst, hg, ha, hc⟩ | ⟨A, s', hA, hss', st', g', hst', hg', hA'⟩
  · left
    refine ⟨st.map (·.sys), a, ?_, ?_, ?_, hc⟩
    · rw [stages_eq_of_zips hz.zips]; simp [hst]
    · exact List.mem_flatten.mpr ⟨g.sys, List.mem_map.mpr ⟨g, hg, rfl⟩, ha⟩
    · have : a ∈ z.allIds := by
        rw [← flatten_sys_eq_allIds hz]
        exact List.mem_flatten.mpr ⟨g.sys, List.mem_flatten.mpr ⟨st.map (·.sys),
          List.mem_map.mpr ⟨st, List.mem_of_getElem? hst, rfl⟩, List.mem_map.mpr ⟨g, hg, rfl⟩⟩, ha⟩
      have hc' := List.count_pos_iff.mpr this
      rw [hz.ids a] at hc'
      split at hc' <;> omega
  · right
    refine ⟨A, s', st'.map (·.ids), hA, hss', ?_, ?_⟩
    · rw [ids_eq_of_zips hz.zips]; simp [hst']
    · exact List.mem_flatten.mpr ⟨g'.ids, List.mem_map.mpr ⟨g', hg', rfl⟩, hA'⟩

end Scenario

/-- **C10 ("in particular").** From a builder in which nothing was registered since the last
barrier (`stages = pre`, `barrier = pre.length`; the empty builder is `pre = []`), registering
any list of pairwise compatible, dependency-free systems puts all of them into one new stage,
one group each — whatever the running-time hints and for any join policy. -/
theorem C10_compatible_share_stage (joinOk : ZStage → Nat → Nat → Bool) (pre : List ZStage)
    (ds : List (Nat × Decl)) (hds : ds ≠ []) (hcompat : ds.Pairwise fun p q => ¬ conflictsD p.2 q.2) :
    ds.foldl (fun b p => b.insert joinOk sortDedup dedup [] p.1 p.1 p.2) ({ barrier := pre.length, stages := pre } : ZB) =
      { barrier := pre.length, stages := pre ++ [ds.map soloGroup] } :=
  compatible_share_stage joinOk pre ds hds hcompat

/-- non-vacuity: three readers of one resource and a writer of another -/
example : [((0 : Nat), (⟨[⟨0, 0⟩], [], 1⟩ : Decl)), (1, ⟨[⟨0, 0⟩], [], 5⟩), (2, ⟨[], [⟨1, 0⟩], 3⟩)].Pairwise
    (fun p q => ¬ conflictsD p.2 q.2) := by
  simp [conflictsD]

/-- **C10 (`max_threads`).** The reported maximum thread count is the width of the widest stage. -/
theorem C10_max_threads_is_width (b : DispatcherBuilder) :
    (∀ st, st ∈ b.stagesBuilder.stages → st.length ≤ b.maxThreads) ∧
    (b.stagesBuilder.stages ≠ [] → ∃ st, st ∈ b.stagesBuilder.stages ∧ st.length = b.maxThreads) := by
  unfold DispatcherBuilder.maxThreads
  generalize b.stagesBuilder.stages = t
  have key : ∀ (l : List Nat) (m : Nat), (∀ x, x ∈ l → x ≤ l.foldl Nat.max m) ∧ m ≤ l.foldl Nat.max m ∧
      (l.foldl Nat.max m = m ∨ l.foldl Nat.max m ∈ l) := by
    intro l
    induction l with
    | nil => intro m; simp
    | cons a l ih =>
      intro m
      simp only [List.foldl, List.mem_cons]
      obtain ⟨h1, h2, h3⟩ := ih (Nat.max m a)
      refine ⟨?_, Nat.le_trans (Nat.le_max_left m a) h2, ?_⟩
      · rintro x (rfl | hx)
        · exact Nat.le_trans (Nat.le_max_right m x) h2
        · exact h1 x hx
      · rcases h3 with h3 | h3
        · rcases Nat.le_total m a with hma | ham
          · right; left; rw [h3]; exact Nat.max_eq_right hma
          · left; rw [h3]; exact Nat.max_eq_left ham
        · exact Or.inr (Or.inr h3)
  obtain ⟨h1, _, h3⟩ := key (t.map List.length) 0
  constructor
  · intro st hst
    exact h1 _ (List.mem_map.mpr ⟨st, hst, rfl⟩)
  · intro hne
    rcases h3 with h3 | h3
    · cases t with
      | nil => exact absurd rfl hne
      | cons st t =>
        refine ⟨st, by simp, ?_⟩
        have := h1 st.length (by simp)
        omega
    · obtain ⟨st, hst, he⟩ := List.mem_map.mp h3
      exact ⟨st, hst, he⟩

end Shred

#print axioms Shred.C10_skipped_stage_justified
#print axioms Shred.C10_target_is_the_codes
#print axioms Shred.Scenario.C10_no_needless_serialisation
#print axioms Shred.C10_compatible_share_stage
#print axioms Shred.C10_max_threads_is_width
