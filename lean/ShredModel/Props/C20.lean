import ShredModel.Lemmas.Scenario
import ShredModel.Lemmas.Print
/-!
# C20 — the printed par/seq plan is total and matches the executed plan

`write_par_seq` walks the `ids` table and prints, for every stage, group and position, the
name registered for the id found there — or (repair D1 in /repo) the placeholder
`unnamed_system_<id>` when the system was registered with the empty name. In the model the
text is `render (printTree b)`: total by construction (no lookup can fail), so `C20_print_total`
is the statement that the *name choice* never fails; the harness compares the real text byte
for byte and checks that formatting does not panic.
-/
namespace Shred
namespace Scenario
variable (sc : Scenario)

/-- **C20 (lock-step).** The table that is printed is the table that is executed: at every
stage, group and position the printed id is the id of the system run there. -/
theorem C20_printed_is_executed : sc.final.b.stages = sc.final.b.ids := by
  obtain ⟨z, hz⟩ := sc.good
  exact stages_eq_ids hz

/-- **C20 (every system exactly once).** Every registered system occurs exactly once in the
table that is printed. -/
theorem C20_each_once (x : Nat) (hx : x < sc.final.n) : sc.final.b.ids.flatten.flatten.count x = 1 := by
  obtain ⟨z, hz⟩ := sc.good
  rw [← stages_eq_ids hz, stages_eq_of_zips hz.zips, flatten_sys_eq_allIds hz, hz.ids x]
  simp [hx]

end Scenario

namespace DispatcherBuilder

/-- **C20 (the text is the rendering of the name tree of the `ids` table).** -/
theorem C20_text_structure (b : DispatcherBuilder) :
    b.writeParSeq = render (b.stagesBuilder.ids.map fun st => st.map fun g => g.map (printedName b.map)) := rfl

/-- **C20 (the name map stays well-formed under every registration, failed ones included).** -/
theorem C20_map_ok (b : DispatcherBuilder) (h : MapOK b) (tag : SysTag) (name : String) (dep : List String) (d : Decl) :
    MapOK (b.add tag name dep d).1 := mapOK_add b h tag name dep d

/-- **C20 (names).** A system registered under a name is printed under that name, sanitised;
a system without a name gets the placeholder carrying its id — the choice never fails. -/
theorem C20_print_total (b : DispatcherBuilder) (h : MapOK b) (id : SysId) :
    (∃ name, (name, id) ∈ b.map ∧ printedName b.map id = sanitise name) ∨
    ((∀ p, p ∈ b.map → p.2 ≠ id) ∧ printedName b.map id = sanitise s!"unnamed_system_{id}") := by
  by_cases hx : ∃ p, p ∈ b.map ∧ p.2 = id
  · obtain ⟨p, hp, rfl⟩ := hx
    exact Or.inl ⟨p.1, hp, printedName_named h.ids hp⟩
  · have : ∀ p, p ∈ b.map → p.2 ≠ id := fun p hp e => hx ⟨p, hp, e⟩
    exact Or.inr ⟨this, printedName_unnamed this⟩

/-- non-vacuity: one named and one unnamed system, side by side: the printed table holds both
ids, only the named one is in the map (so the second gets the placeholder) -/
example :
    let b := (({} : DispatcherBuilder).add 0 "a b" [] ⟨[], [], 3⟩).1.add 1 "" [] ⟨[], [], 3⟩ |>.1
    b.stagesBuilder.ids = [[[0], [1]]] ∧ b.map.map (·.2) = [0] ∧ b.currentId = 2 := by decide

end DispatcherBuilder
end Shred

#print axioms Shred.Scenario.C20_printed_is_executed
#print axioms Shred.Scenario.C20_each_once
#print axioms Shred.DispatcherBuilder.C20_text_structure
#print axioms Shred.DispatcherBuilder.C20_map_ok
#print axioms Shred.DispatcherBuilder.C20_print_total
