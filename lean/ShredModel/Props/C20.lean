import ShredModel.Lemmas.Scenario
/-!
# C20 — the printed plan matches the executed plan

`write_par_seq` prints the `ids` table; the dispatcher executes the `stages` table. They are
kept in lock-step by `insert` — for every registration sequence.
-/
namespace Shred
namespace Scenario
variable (sc : Scenario)

/-- **C20 (lock-step).** The table that is printed is the table that is executed: at every
stage, group and position the printed id is the id of the system run there. -/
theorem C20_printed_is_executed : sc.final.b.stages = sc.final.b.ids := by
  obtain ⟨z, hz⟩ := sc.good
  exact stages_eq_ids hz

end Scenario
end Shred

#print axioms Shred.Scenario.C20_printed_is_executed
