import ShredModel.Lemmas.SysData
/-!
# C06: declared access = real borrows, for every provided or derived system-data type

`SD` (Model/SysData.lean) is the closure of `Read`/`Write` (any setup handler), their `Option`
forms, `()`, `PhantomData`, tuples and derived structs under nesting. All statements are for
every `sd : SD`, every presence pattern `p` of the resources and every borrow state `fl` the
cells are in when `fetch` is called (other systems may hold guards).

"Exactly" is meant as multisets: a type listing `Read<A>` twice reports `A` twice and holds two
shared guards on `A`.
-/
namespace Shred.SysData

/-- one shared guard per listed tag -/
def sharedOn (ts : List Tag) : List Guard := ts.map fun t => ⟨t, false⟩
/-- one exclusive guard per listed tag -/
def exclOn (ts : List Tag) : List Guard := ts.map fun t => ⟨t, true⟩

/-- all cells unborrowed -/
def allFree : Flags := fun _ => .free

/-! ## composition: tuples and derived structs concatenate / compose their members, in order -/

theorem reads_concat (ms : List SD) :
    reads (.tuple ms) = ms.flatMap reads ∧ reads (.struct ms) = ms.flatMap reads := by
  simp [reads, readsL_flatMap]

theorem writes_concat (ms : List SD) :
    writes (.tuple ms) = ms.flatMap writes ∧ writes (.struct ms) = ms.flatMap writes := by
  simp [writes, writesL_flatMap]

theorem setup_comp (henv : HEnv) (dv : Tag → Nat) (ms : List SD) (w : Vals) :
    setup henv dv (.tuple ms) w = ms.foldl (fun w m => setup henv dv m w) w ∧
    setup henv dv (.struct ms) w = ms.foldl (fun w m => setup henv dv m w) w := by
  simp [setup, setupL_foldl]

/-- `fetch` of a tuple / struct is the left-to-right sequence of the members' fetches, a panic
in a member dropping what the earlier members hold (`seqF`). -/
theorem fetch_comp (p : Tag → Bool) (m : SD) (ms : List SD) (fl : Flags) :
    fetch p (.tuple (m :: ms)) fl = seqF (fetch p m fl) (fun fl1 => fetch p (.tuple ms) fl1) ∧
    fetch p (.struct (m :: ms)) fl = seqF (fetch p m fl) (fun fl1 => fetch p (.struct ms) fl1) := by
  simp only [fetch, fetchL_cons, and_self]

/-! ## success: the value holds exactly the declared borrows of the present resources -/

/-- **C06 (borrows).** If `fetch` returns, the guards the value owns are — as a multiset — one
shared guard per occurrence in `reads()` of a present resource and one exclusive guard per
occurrence in `writes()` of a present resource; and the flag of every cell is what these guards
make of it: untouched for absent or unlisted resources, `excl` for a written one, `r` more
shared borrows for one read `r` times. -/
theorem fetch_borrows_exactly (p : Tag → Bool) (sd : SD) (fl fl' : Flags) (gs : List Guard)
    (h : fetch p sd fl = (fl', .ok gs)) :
    gs.Perm (sharedOn ((reads sd).filter p) ++ exclOn ((writes sd).filter p)) ∧
    ∀ t, fl' t = if p t then flagAfter (fl t) ((reads sd).count t) ((writes sd).count t) else fl t := by
  rw [fetch_flat] at h
  rw [reads_flat, writes_flat]
  refine ⟨?_, fetchA_ok_flags p _ _ _ _ h⟩
  rw [fetchA_ok_guards p _ _ _ _ h]
  exact guardsOf_perm p _

/-- a present resource listed in `writes()` is borrowed exclusively; it was free before, is listed
once, and is not also listed in `reads()` -/
theorem fetch_write_excl (p : Tag → Bool) (sd : SD) (fl fl' : Flags) (gs : List Guard)
    (h : fetch p sd fl = (fl', .ok gs)) (t : Tag) (hp : p t = true) (hw : t ∈ writes sd) :
    fl' t = .excl ∧ fl t = .free ∧ (writes sd).count t = 1 ∧ t ∉ reads sd := by
  have hfl := (fetch_borrows_exactly p sd fl fl' gs h).2 t
  rw [fetch_flat] at h
  have hc := (fetchA_ok_sound p _ _ _ _ h).2 t hp
  rw [← reads_flat, ← writes_flat] at hc
  unfold Conflict at hc
  have hpos : 0 < (writes sd).count t := List.count_pos_iff.mpr hw
  refine ⟨?_, ?_, ?_, ?_⟩
  · rw [hfl]; simp [hp, flagAfter]; omega
  · exact Classical.byContradiction fun hne => hc (Or.inl ⟨hw, hne⟩)
  · have : ¬ 2 ≤ (writes sd).count t := fun h2 => hc (Or.inr (Or.inr (Or.inr h2)))
    omega
  · exact fun hr => hc (Or.inr (Or.inr (Or.inl ⟨hw, hr⟩)))

/-- a present resource listed `r > 0` times in `reads()` carries `r` more shared borrows (and is
not listed in `writes()`, and was not exclusively borrowed) -/
theorem fetch_read_shared (p : Tag → Bool) (sd : SD) (fl fl' : Flags) (gs : List Guard)
    (h : fetch p sd fl = (fl', .ok gs)) (t : Tag) (hp : p t = true) (hr : t ∈ reads sd) :
    fl' t = addShared (fl t) ((reads sd).count t) ∧ fl t ≠ .excl ∧ t ∉ writes sd := by
  have hfl := (fetch_borrows_exactly p sd fl fl' gs h).2 t
  rw [fetch_flat] at h
  have hc := (fetchA_ok_sound p _ _ _ _ h).2 t hp
  rw [← reads_flat, ← writes_flat] at hc
  unfold Conflict at hc
  have hw : t ∉ writes sd := fun hw => hc (Or.inr (Or.inr (Or.inl ⟨hw, hr⟩)))
  refine ⟨?_, fun he => hc (Or.inr (Or.inl ⟨hr, he⟩)), hw⟩
  rw [hfl]; simp [hp, flagAfter, List.count_eq_zero.mpr hw]

/-- nothing else is touched: a resource that is absent, or listed in neither `reads()` nor
`writes()`, keeps its flag -/
theorem fetch_nothing_else (p : Tag → Bool) (sd : SD) (fl fl' : Flags) (gs : List Guard)
    (h : fetch p sd fl = (fl', .ok gs)) (t : Tag)
    (ht : p t = false ∨ (t ∉ reads sd ∧ t ∉ writes sd)) : fl' t = fl t := by
  have hfl := (fetch_borrows_exactly p sd fl fl' gs h).2 t
  rcases ht with hp | ⟨hr, hw⟩
  · simp [hfl, hp]
  · rw [hfl]
    simp [flagAfter, addShared, List.count_eq_zero.mpr hr, List.count_eq_zero.mpr hw]

/-! ## failure -/

/-- **C06 (failure).** `fetch` panics iff a non-optional member's resource is absent, or some
present resource cannot be borrowed as declared (`Conflict`: written while borrowed, read while
exclusively borrowed, listed in both `reads()` and `writes()`, or listed twice in `writes()`). -/
theorem fetch_fail_iff (p : Tag → Bool) (sd : SD) (fl : Flags) :
    (∃ fl' e, fetch p sd fl = (fl', .error e)) ↔
      (∃ t ∈ required sd, p t = false) ∨ (∃ t, p t = true ∧ Conflict fl (reads sd) (writes sd) t) := by
  rw [fetch_flat, reads_flat, writes_flat]
  constructor
  · rintro ⟨fl', e, h⟩
    have := fetchA_error_sound p _ _ _ _ h
    cases e with
    | absent t => exact Or.inl ⟨t, this.1, this.2⟩
    | borrowed t => exact Or.inr ⟨t, this.1, this.2⟩
  · intro hrhs
    rcases hres : fetchA p (leaves sd) fl with ⟨fl', r⟩
    cases r with
    | error e => exact ⟨fl', e, rfl⟩
    | ok gs =>
      exfalso
      obtain ⟨h1, h2⟩ := fetchA_ok_sound p _ _ _ _ hres
      rcases hrhs with ⟨t, ht, hp⟩ | ⟨t, hp, hc⟩
      · have := h1 t ht; rw [hp] at this; cases this
      · exact h2 t hp hc

/-- the panic names a resource that really is the reason -/
theorem fetch_panic_sound (p : Tag → Bool) (sd : SD) (fl fl' : Flags) (e : Panic)
    (h : fetch p sd fl = (fl', .error e)) :
    PanicReason p fl (required sd) (reads sd) (writes sd) e := by
  rw [fetch_flat] at h
  rw [reads_flat, writes_flat]
  exact fetchA_error_sound p _ _ _ _ h

/-- **C06 (failure releases).** When `fetch` panics every guard taken on the way has been
released by unwinding: the borrow state is what it was. -/
theorem fetch_fail_releases (p : Tag → Bool) (sd : SD) (fl fl' : Flags) (e : Panic)
    (h : fetch p sd fl = (fl', .error e)) : fl' = fl := by
  rw [fetch_flat] at h
  exact fetchA_error_flags p _ _ _ _ h

/-! ## drop -/

/-- **C06 (release).** Dropping the fetched value — its guards in field order, or in any other
order — restores the borrow state from before the fetch. -/
theorem drop_releases (p : Tag → Bool) (sd : SD) (fl fl' : Flags) (gs : List Guard)
    (h : fetch p sd fl = (fl', .ok gs)) :
    drop fl' gs = fl ∧ ∀ gs', gs'.Perm gs → drop fl' gs' = fl := by
  rw [fetch_flat] at h
  have := fetchA_ok_drop p _ _ _ _ h
  exact ⟨this, fun gs' hperm => by rw [drop_perm fl' hperm, this]⟩

/-! ## setup -/

/-- every user `SetupHandler` occurring in `sd` satisfies `P` -/
def CustomHandlers (henv : HEnv) (P : (Vals → Vals) → Prop) (sd : SD) : Prop :=
  CustomAll henv P (handlers sd)

/-- **C06 (setup preserves).** `setup` never changes a resource that was present — provided the
user handlers in the type do not (`DefaultProvider`, `PanicHandler` and the `Option` forms never
do). -/
theorem setup_preserves (henv : HEnv) (dv : Tag → Nat) (sd : SD)
    (hc : CustomHandlers henv Preserves sd) (w : Vals) (t : Tag) (v : Nat) (h : w t = some v) :
    setup henv dv sd w t = some v := by
  rw [setup_flat]
  exact setupH_preserves henv dv _ hc w t v h

/-- **C06 (setup creates).** After `setup` the resource of every `Read<T>` / `Write<T>` member
with the default handler is present — provided no user handler in the type removes resources. -/
theorem setup_creates (henv : HEnv) (dv : Tag → Nat) (sd : SD)
    (hc : CustomHandlers henv KeepsPresent sd) (w : Vals) (t : Tag) (h : t ∈ defaults sd) :
    (setup henv dv sd w t).isSome = true := by
  rw [setup_flat]
  apply setupH_creates henv dv _ hc t _ w
  simp only [defaults, List.mem_map, List.mem_filter] at h
  obtain ⟨⟨h', t'⟩, ⟨hmem, hd⟩, rfl⟩ := h
  have : h' = .dflt := by simpa using hd
  subst this
  exact hmem

/-- consequence: if every non-optional member uses the default handler, `fetch` after `setup`
can only fail on a borrow conflict, never on absence -/
theorem setup_then_fetch (henv : HEnv) (dv : Tag → Nat) (sd : SD)
    (hc : CustomHandlers henv KeepsPresent sd) (hreq : ∀ t ∈ required sd, t ∈ defaults sd)
    (w : Vals) (fl fl' : Flags) (e : Panic)
    (h : fetch (fun t => (setup henv dv sd w t).isSome) sd fl = (fl', .error e)) :
    ∃ t, e = .borrowed t := by
  have := fetch_panic_sound _ sd fl fl' e h
  cases e with
  | borrowed t => exact ⟨t, rfl⟩
  | absent t =>
    exfalso
    simp only [PanicReason] at this
    have hs := setup_creates henv dv sd hc w t (hreq t this.1)
    rw [hs] at this
    exact absurd this.2 (by simp)

/-! ## non-vacuity: concrete types, worlds and borrow states satisfying the hypotheses -/

/-- `(Read<R0>, S { Option<WriteExpect<R1>>, WriteExpect<R2> }, (), (Read<R0, HIns>, PhantomData))` -/
def exSD : SD :=
  .tuple [.leaf false .dflt 0, .struct [.opt true .expect 1, .leaf true .expect 2], .unit,
          .tuple [.leaf false (.custom 0) 0, .phantom]]

/-- a fetch that succeeds (resource 1 absent): two shared guards on 0, one exclusive on 2 -/
example : (fetch (fun t => t != 1) exSD allFree).2 = .ok [⟨0, false⟩, ⟨2, true⟩, ⟨0, false⟩] := by rfl
example : (fetch (fun t => t != 1) exSD allFree).1 0 = .shared 1 := by rfl
example : reads exSD = [0, 0] ∧ writes exSD = [1, 2] := by decide
/-- a fetch that panics on absence, after having borrowed (and released) resource 0 -/
example : (fetch (fun t => t != 2) exSD allFree).2 = .error (.absent 2) := by rfl
/-- a fetch that panics on a conflict with a guard held by someone else -/
example : (fetch (fun _ => true) exSD (upd allFree 2 (.shared 0))).2 = .error (.borrowed 2) := by rfl
/-- a type that conflicts with itself -/
example : (fetch (fun _ => true) (.tuple [.leaf false .dflt 0, .leaf true .dflt 0]) allFree).2
    = .error (.borrowed 0) := by rfl
/-- the handler hypotheses are satisfiable: the harness handler `HIns` (number 0) preserves -/
example : CustomHandlers stdEnv KeepsPresent exSD := by
  intro k t hm
  have : k = 0 := by simp [exSD, handlers, handlersL] at hm; exact hm.1
  subst this
  exact stdEnv_keeps_unless_del 0 t (by decide)
/-- … and the hypothesis of `setup_then_fetch` (`required ⊆ defaults`) by a type with a member -/
example : ∀ t ∈ required (.tuple [.leaf false .dflt 0, .opt true .expect 1]),
    t ∈ defaults (.tuple [.leaf false .dflt 0, .opt true .expect 1]) := by decide
example : setup stdEnv stdDefault exSD (fun _ => none) 0 = some 500 := by rfl

#print axioms reads_concat
#print axioms writes_concat
#print axioms setup_comp
#print axioms fetch_comp
#print axioms fetch_borrows_exactly
#print axioms fetch_write_excl
#print axioms fetch_read_shared
#print axioms fetch_nothing_else
#print axioms fetch_fail_iff
#print axioms fetch_panic_sound
#print axioms fetch_fail_releases
#print axioms drop_releases
#print axioms setup_preserves
#print axioms setup_creates
#print axioms setup_then_fetch
end Shred.SysData
