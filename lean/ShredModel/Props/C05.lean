import ShredModel.Lemmas.Scenario
/-!
# C05 — schedule independence: parallel dispatch equals sequential dispatch

`act e σ` is the effect of event `e` on the state `σ` (world contents and every system's
own state). The hypothesis `hcomm` is what "every system's behaviour depends only on its own
state and on the resources it declared" provides: events of two systems whose declared access
does not conflict commute. Then **every** trace of the parallel plan — every interleaving —
has the same effect as the one trace `dispatch_seq` produces.
-/
namespace Shred
namespace Scenario
variable (sc : Scenario)

/-- **C05.** -/
theorem C05_schedule_independence {σ : Type} (act : Ev SysTag → σ → σ)
    (hcomm : ∀ e1 e2, ¬ conflictsD (sc.D e1.sys) (sc.D e2.sys) → ∀ s, act e1 (act e2 s) = act e2 (act e1 s))
    (l : List (Ev SysTag)) (hl : Traces sc.plan l) (s : σ) :
    eval act l s = eval act sc.plan.seqTrace s := by
  obtain ⟨z, hz⟩ := sc.good
  exact par_eq_seq (Compat := CompatD sc.D) act hcomm hl (wf_dispatchTask hz sc.tl) s

end Scenario
end Shred

#print axioms Shred.Scenario.C05_schedule_independence
