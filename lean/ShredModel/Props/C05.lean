import ShredModel.Lemmas.Scenario
import ShredModel.Lemmas.Effect
import ShredModel.Lemmas.SeqTrace
import ShredModel.Lemmas.NestedTop
/-!
# C05 — schedule independence: parallel dispatch equals sequential dispatch

`act e σ` is the effect of event `e` on the state `σ` (world contents and every system's
own state). The hypothesis `hcomm` is what "every system's behaviour depends only on its own
state and on the resources it declared" provides: events of two systems whose declared access
does not conflict commute. Then **every** trace of the parallel plan — every interleaving —
has the same effect as the one trace `dispatch_seq` produces (`C05_seq_has_one_trace`), and
this is preserved over any number of dispatches (`C05_repeated`). The harness's own systems
(`Model/Effect.lean::runSys`, the same code as `harness/src/sys.rs::HSys::run`, an
order-sensitive update) satisfy the hypothesis (`C05_harness_commutes`), so the statement is
not vacuous and `C05_harness_schedule_independent` is what the correspondence run compares the
real parallel dispatches with.
-/
namespace Shred

namespace Scenario
variable (sc : Scenario)

/-- **C05.** -/
theorem C05_schedule_independence {σ : Type} (act : Ev SysTag → σ → σ)
    (hcomm : ∀ e1 e2, ¬ conflictsD (sc.D e1.sys) (sc.D e2.sys) → ∀ s, act e1 (act e2 s) = act e2 (act e1 s))
    (l : List (Ev SysTag)) (hl : Traces sc.plan l) (s : σ) :
    eval act l s = eval act sc.plan.seqTrace s := by
  obtain ⟨z, hz⟩ := sc.good
  exact par_eq_seq (Compat := CompatD sc.D) act hcomm hl (wf_dispatchTask hz sc.tl) s

/-- **C05 (what `dispatch_seq` does).** Sequential dispatch has exactly one trace, and it is the
sequential reading of the parallel plan. -/
theorem C05_seq_has_one_trace (l : List (Ev SysTag)) (hl : Traces sc.planSeq l) : l = sc.plan.seqTrace := by
  have hn : sc.planSeq.NoPar := by
    unfold planSeq dispatchSeqTask stagesTaskSeq stageTaskSeq groupTask
    refine ⟨noPar_seqN _ ?_, noPar_seqN _ ?_⟩
    · intro a ha
      obtain ⟨st, _, rfl⟩ := List.mem_map.mp ha
      apply noPar_seqN
      intro b hb
      obtain ⟨g, _, rfl⟩ := List.mem_map.mp hb
      apply noPar_seqN
      intro c hc
      obtain ⟨x, _, rfl⟩ := List.mem_map.mp hc
      trivial
    · intro c hc
      obtain ⟨x, _, rfl⟩ := List.mem_map.mp hc
      trivial
  rw [traces_noPar hl hn]
  unfold planSeq plan dispatchSeqTask dispatchTask stagesTaskSeq stagesTask stageTaskSeq stageTask
  simp only [Task.seqTrace, seqTrace_seqN]
  congr 1
  induction sc.final.b.stages with
  | nil => rfl
  | cons st sts ih =>
    simp only [List.map_cons, List.flatMap_cons, ih, seqTrace_seqN, seqTrace_parN]

/-- **what `dispatch_seq` does is one of the executions of `dispatch`**: every statement proved for
all traces of the parallel plan (C01–C04, C12) therefore holds for sequential dispatch too. -/
theorem seq_trace_is_a_par_trace (l : List (Ev SysTag)) (hl : Traces sc.planSeq l) : Traces sc.plan l := by
  rw [sc.C05_seq_has_one_trace l hl]
  exact traces_seqTrace sc.plan

/-- **C05 (parallel = sequential).** Whatever interleaving the parallel dispatch takes and
the one trace of the sequential dispatch have the same effect. -/
theorem C05_par_eq_seq {σ : Type} (act : Ev SysTag → σ → σ)
    (hcomm : ∀ e1 e2, ¬ conflictsD (sc.D e1.sys) (sc.D e2.sys) → ∀ s, act e1 (act e2 s) = act e2 (act e1 s))
    (lp ls : List (Ev SysTag)) (hp : Traces sc.plan lp) (hs : Traces sc.planSeq ls) (s : σ) :
    eval act lp s = eval act ls s := by
  rw [sc.C05_seq_has_one_trace ls hs]
  exact sc.C05_schedule_independence act hcomm lp hp s

/-- **C05 (repetition).** Any number of parallel dispatches, each with its own interleaving,
have the effect of the same number of sequential dispatches. -/
theorem C05_repeated {σ : Type} (act : Ev SysTag → σ → σ)
    (hcomm : ∀ e1 e2, ¬ conflictsD (sc.D e1.sys) (sc.D e2.sys) → ∀ s, act e1 (act e2 s) = act e2 (act e1 s))
    (ls : List (List (Ev SysTag))) (hls : ∀ l, l ∈ ls → Traces sc.plan l) (s : σ) :
    eval act ls.flatten s = eval act (List.replicate ls.length sc.plan.seqTrace).flatten s := by
  induction ls generalizing s with
  | nil => rfl
  | cons l ls ih =>
    simp only [List.flatten_cons, List.length_cons, List.replicate_succ, eval_append]
    rw [sc.C05_schedule_independence act hcomm l (hls l (by simp)) s]
    exact ih (fun l' hl' => hls l' (by simp [hl'])) _

/-- the effect of the harness's systems: all of it happens inside the window, here at `D` -/
def harnessAct (D : Nat → Decl) : Ev SysTag → EffState → EffState
  | .D x, st => runSys x (D x) st
  | .F _, st => st

/-- **C05 (the hypothesis is satisfiable).** The harness's order-sensitive systems commute
whenever their declarations do not conflict. -/
theorem C05_harness_commutes (D : Nat → Decl) (e1 e2 : Ev SysTag)
    (h : ¬ conflictsD (D e1.sys) (D e2.sys)) (s : EffState) :
    harnessAct D e1 (harnessAct D e2 s) = harnessAct D e2 (harnessAct D e1 s) := by
  cases e1 with
  | F x => rfl
  | D x =>
    cases e2 with
    | F y => rfl
    | D y =>
      simp only [harnessAct]
      by_cases hxy : x = y
      · subst hxy; rfl
      · exact runSys_comm x y (D x) (D y) hxy h s

/-- **C05 for the harness's systems**: what the correspondence run compares real parallel
dispatches with. -/
theorem C05_harness_schedule_independent (l : List (Ev SysTag)) (hl : Traces sc.plan l) (st : EffState) :
    eval (harnessAct sc.D) l st = eval (harnessAct sc.D) sc.plan.seqTrace st :=
  sc.C05_schedule_independence (harnessAct sc.D) (C05_harness_commutes sc.D) l hl st

end Scenario


/-! ### dispatchers with batches, nested to any depth -/
namespace Level
variable {D : SysTag → Decl} (L : Level D)

theorem seqTrace_nStageTask (par : Bool) (bs : List (SysTag × Body)) (pfx : Inst) (st : List (List SysTag)) :
    (nStageTask par bs pfx st).seqTrace = (nStageTask false bs pfx st).seqTrace := by
  cases par with
  | false => rfl
  | true =>
    simp only [nStageTask, if_true, seqTrace_parN]
    exact (seqTrace_seqN _).symm

/-- reading the parallel plan group by group is what `dispatch_seq` executes, batches included
(their controllers still call `dispatch` on the inner dispatcher: same bodies) -/
theorem seqTrace_task (par : Bool) (pfx : Inst) : (L.task par pfx).seqTrace = (L.task false pfx).seqTrace := by
  unfold task nDispatchTask
  simp only [Task.seqTrace, seqTrace_seqN]
  congr 1
  induction L.stages with
  | nil => rfl
  | cons st sts ih => simp only [List.map_cons, List.flatMap_cons, ih, seqTrace_nStageTask par]

/-- **C05 at any nesting depth.** Every interleaving of a dispatcher with batches (their inner
dispatchers running in parallel too, any number of iterations) has the effect of the one
sequential reading, provided instances with non-conflicting declarations commute. -/
theorem C05_nested {σ : Type} (act : Ev Inst → σ → σ)
    (hcomm : ∀ e1 e2, CompatI D e1.sys e2.sys → ∀ s, act e1 (act e2 s) = act e2 (act e1 s))
    (par : Bool) (pfx : Inst) (l : List (Ev Inst)) (hl : Traces (L.task par pfx) l) (s : σ) :
    eval act l s = eval act (L.task false pfx).seqTrace s := by
  rw [← L.seqTrace_task par pfx]
  exact par_eq_seq (Compat := CompatI D) act hcomm hl (L.wf par pfx) s

/-- the harness's effect per instance: the system with the instance's tag runs once inside the
window (controllers of batches — `isSys = false` — have no effect of their own) -/
def harnessActI (D : SysTag → Decl) (isSys : SysTag → Bool) : Ev Inst → EffState → EffState
  | .D x, st => if isSys (lastTag x) then runSys (lastTag x) (D (lastTag x)) st else st
  | .F _, st => st

theorem harnessActI_commutes (isSys : SysTag → Bool) (e1 e2 : Ev Inst)
    (h : CompatI D e1.sys e2.sys) (s : EffState) :
    harnessActI D isSys e1 (harnessActI D isSys e2 s) = harnessActI D isSys e2 (harnessActI D isSys e1 s) := by
  cases e1 with
  | F x => rfl
  | D x =>
    cases e2 with
    | F y => rfl
    | D y =>
      simp only [harnessActI]
      by_cases hx : isSys (lastTag x) = true
      · by_cases hy : isSys (lastTag y) = true
        · simp only [hx, hy, if_true]
          by_cases hxy : lastTag x = lastTag y
          · rw [hxy]
          · exact runSys_comm _ _ _ _ hxy h s
        · simp [hx, hy]
      · simp [hx]

/-- **C05 for the harness's systems at any depth**: what `effects k` of the driver computes (the
sequential reading) is the effect of every real interleaving. -/
theorem C05_nested_harness (isSys : SysTag → Bool) (par : Bool) (pfx : Inst) (l : List (Ev Inst))
    (hl : Traces (L.task par pfx) l) (st : EffState) :
    eval (harnessActI D isSys) l st = eval (harnessActI D isSys) (L.task false pfx).seqTrace st :=
  L.C05_nested (harnessActI D isSys) (harnessActI_commutes isSys) par pfx l hl st

/-- … and over any number of dispatches -/
theorem C05_nested_repeated {σ : Type} (act : Ev Inst → σ → σ)
    (hcomm : ∀ e1 e2, CompatI D e1.sys e2.sys → ∀ s, act e1 (act e2 s) = act e2 (act e1 s))
    (par : Bool) (pfx : Inst) (ls : List (List (Ev Inst))) (hls : ∀ l, l ∈ ls → Traces (L.task par pfx) l) (s : σ) :
    eval act ls.flatten s = eval act (List.replicate ls.length (L.task false pfx).seqTrace).flatten s := by
  induction ls generalizing s with
  | nil => rfl
  | cons l ls ih =>
    simp only [List.flatten_cons, List.length_cons, List.replicate_succ, eval_append]
    rw [L.C05_nested act hcomm par pfx l (hls l (by simp)) s]
    exact ih (fun l' hl' => hls l' (by simp [hl'])) _

end Level

/-- the update really is order-sensitive: two writers of one resource do **not** commute -/
example : (runSys 0 ⟨[], [⟨0, 0⟩], 1⟩ (runSys 1 ⟨[], [⟨0, 0⟩], 1⟩ EffState.init)).world ⟨0, 0⟩ ≠
    (runSys 1 ⟨[], [⟨0, 0⟩], 1⟩ (runSys 0 ⟨[], [⟨0, 0⟩], 1⟩ EffState.init)).world ⟨0, 0⟩ := by decide

end Shred

#print axioms Shred.Scenario.seq_trace_is_a_par_trace
#print axioms Shred.Scenario.C05_schedule_independence
#print axioms Shred.Scenario.C05_seq_has_one_trace
#print axioms Shred.Scenario.C05_par_eq_seq
#print axioms Shred.Scenario.C05_repeated
#print axioms Shred.Scenario.C05_harness_commutes
#print axioms Shred.Scenario.C05_harness_schedule_independent
#print axioms Shred.Level.C05_nested
#print axioms Shred.Level.C05_nested_harness
#print axioms Shred.Level.C05_nested_repeated
#print axioms Shred.Level.seqTrace_task
#print axioms Shred.Level.seqTrace_nStageTask
#print axioms Shred.Level.harnessActI_commutes
