import ShredModel.Lemmas.AsyncMore
import ShredModel.Lemmas.Scenario
/-!
# C15 — asynchronous dispatcher: completion is observable and never overtaken

Model: `Model/Async.lean` (mirror of `src/dispatch/async_dispatcher.rs`). `Run P c l` is the
set of reachable (control state, log) pairs of the transition system in which the caller's
steps (`call op`, the blocking `acquire` = `Data::inner()`, `poll` = `inner_noblock()`,
`spawn`, `ret`, thread-local events inside `wait`) interleave arbitrarily with the steps of the
background job (`jobEv`: one F/D event of the stages task, any order the task allows; `send`).

Quantifiers of every theorem: every plan `P` (any stages task — in particular the task of any
layout the builder produces —, any list of thread-local systems), every sequence of
`dispatch / running / wait / wait_without_tl / world / res / world_mut / mut_res / setup` calls
— every public method of `AsyncDispatcher`, in every order, each one issued at every possible
moment of the job: not yet started, a system inside `run`, between two stages, finished but
not yet sent, sent long ago and never looked at (`quiet` marks that the environment has seen
the systems' own completion signal without calling the dispatcher) — and **every
interleaving** with the job (`Run` is closed under all enabled steps, so a system may stay
inside `run` across arbitrarily many caller steps). `l = l1 ++ e :: l2` reads "at the moment
event `e` is logged, the log so far is `l1`".

Panics are part of the runs: a system of the job may panic while it is inside its window
(`sysP`; the job then never sends, its sender is dropped, and every later call of any of the
nine methods unwinds with "Sender dropped": `unwound op`), a thread-local system may panic
inside `wait` (`tlP`, then `unwound wait`; nothing but the caller's position changes). `setup`
calls the setup hook of every system (`hook`), after `inner()`.

**Calling context.** Nothing below depends on which thread drives the dispatcher: `Th.caller`
is whichever thread calls the methods — an ordinary thread, a worker of the dispatcher's own pool
(the dispatcher is driven inside `pool.install`), or a worker of another pool — and the model has
no further parameter for it (see "The calling context" in `Model/Async.lean`), so every theorem
holds in each of these contexts as it stands. **Long plans.** `P` is arbitrary, so plans of any
number of stages are covered; `chain_each_stage_once` spells the exactly-once clause out for
plans of `n` stages with one system each (any `n`): the events of a completed dispatch are
`F x₁ D x₁ … F xₙ D xₙ`, each stage once and in order.

The driver executes `feed` / `acceptsLog` of the same file; `accepted_is_run` transfers every
theorem below to every merged log the driver accepts.
-/
namespace Shred
namespace Async

variable {P : APlan} {c : Ctl} {l l1 l2 : List AEv}

/-- **C15 (accessors).** When `wait`, `wait_without_tl`, `world`, `world_mut` or `setup`
returns, every dispatch issued so far has run to completion (its events are a complete trace
of the stages task: every system has its F and its D) and nothing else has run. -/
theorem accessor_quiescent {op : AOp} {v : Bool} (h : Run P c l) (hl : l = l1 ++ .ret op v :: l2)
    (h1 : op ≠ .running) (h2 : op ≠ .dispatch) : Quiescent P l1 (dispatches l1) := by
  obtain ⟨c1, lb, c1', hr, hs⟩ := run_split h l1 _ l2 hl
  have hi := run_inv hr
  rcases step_ret_cases hs with ⟨hc, _⟩ | ⟨_, hc⟩ | ⟨r, hc, _⟩ | ⟨_, hc⟩ | ⟨hc, _⟩
  · have hcd := hi.caller_data
    have hd := hi.disp
    rw [hc] at hcd hd
    have := inv_quiescent hi hcd.1
    rw [hd] at this
    simpa [spawnedBit] using this
  · exact absurd hc h2
  · have hcd := hi.caller_data
    have hd := hi.disp
    rw [hc] at hcd hd
    have := inv_quiescent hi hcd
    rw [hd] at this
    simpa [spawnedBit] using this
  · exact absurd hc h1
  · have hcd := hi.caller_data
    have hd := hi.disp
    rw [hc] at hcd hd
    have := inv_quiescent hi hcd
    rw [hd] at this
    simpa [spawnedBit] using this

/-- … in particular no system is inside its F…D window at that moment. -/
theorem accessor_none_open {op : AOp} {v : Bool} (h : Run P c l) (hl : l = l1 ++ .ret op v :: l2)
    (h1 : op ≠ .running) (h2 : op ≠ .dispatch) (d x : Nat) : ¬ OpenAt l1 d x :=
  quiescent_none_open (accessor_quiescent h hl h1 h2) d x

/-- **C15 (the next dispatch).** When a `dispatch` call returns, every *earlier* dispatch has
run to completion; only the job it has just spawned may already have produced events. -/
theorem dispatch_quiescent {v : Bool} (h : Run P c l) (hl : l = l1 ++ .ret .dispatch v :: l2) :
    (∀ d, d < dispatches l1 → Traces P.job (projD d l1)) ∧ (∀ d, dispatches l1 < d → projD d l1 = []) := by
  obtain ⟨c1, lb, c1', hr, hs⟩ := run_split h l1 _ l2 hl
  have hi := run_inv hr
  rcases step_ret_cases hs with ⟨_, hc⟩ | ⟨hc, _⟩ | ⟨r, _, hc⟩ | ⟨_, hc⟩ | ⟨_, hc⟩
  · exact absurd rfl hc
  · have hd := hi.disp
    rw [hc] at hd
    simp only [spawnedBit] at hd
    exact ⟨fun d hlt => hi.earlier d (by omega), fun d hlt => hi.beyond d (by omega)⟩
  · cases hc
  · cases hc
  · cases hc

/-- **C15 (running, 1).** If some system is inside its F…D window when `running()` returns,
it returns `true`. -/
theorem running_true_while_open {v : Bool} (h : Run P c l) (hl : l = l1 ++ .ret .running v :: l2)
    (d x : Nat) (ho : OpenAt l1 d x) : v = true := by
  obtain ⟨c1, lb, c1', hr, hs⟩ := run_split h l1 _ l2 hl
  have hi := run_inv hr
  rcases step_ret_cases hs with ⟨hc, _⟩ | ⟨_, hc⟩ | ⟨r, _, hc⟩ | ⟨hc, _⟩ | ⟨_, hc⟩
  · have hcd := hi.caller_data
    rw [hc] at hcd
    exact absurd rfl hcd.2.1
  · cases hc
  · cases hc
  · cases v with
    | true => rfl
    | false =>
      have hcd := hi.caller_data
      rw [hc] at hcd
      exact absurd ho (quiescent_none_open (inv_quiescent hi hcd) d x)
  · cases hc

/-- **C15 (running, 2).** `running()` returns `false` only once every dispatch issued so far
has run to completion. -/
theorem running_false_only_done (h : Run P c l) (hl : l = l1 ++ .ret .running false :: l2) :
    Quiescent P l1 (dispatches l1) := by
  obtain ⟨c1, lb, c1', hr, hs⟩ := run_split h l1 _ l2 hl
  have hi := run_inv hr
  rcases step_ret_cases hs with ⟨hc, _⟩ | ⟨_, hc⟩ | ⟨r, _, hc⟩ | ⟨hc, _⟩ | ⟨_, hc⟩
  · have hcd := hi.caller_data
    rw [hc] at hcd
    exact absurd rfl hcd.2.1
  · cases hc
  · cases hc
  · have hcd := hi.caller_data
    have hd := hi.disp
    rw [hc] at hcd hd
    have := inv_quiescent hi hcd
    rw [hd] at this
    simpa [spawnedBit] using this
  · cases hc

/-- … and the dispatcher then holds the world and the stages again (`Data::Inner`), no job
exists: state form of the same fact, at the moment `inner_noblock()` has answered. -/
theorem running_false_state (h : Run P c l) (hc : c.caller = .polled false) :
    c.data = .inner ∧ dataOk .inner c.job ∧ Quiescent P l c.nDisp := by
  have hi := run_inv h
  have hcd := hi.caller_data
  rw [hc] at hcd
  have hd : c.data = .inner := hcd
  exact ⟨hd, hd ▸ hi.data_job, inv_quiescent hi hd⟩

/-- **C15 (no overtaking).** When any event of a later dispatch occurs — in particular its
first F —, every earlier dispatch has run to completion. -/
theorem no_overtake {th : Th} {d d' : Nat} {e : Ev Nat} (h : Run P c l)
    (hl : l = l1 ++ .sys th d' e :: l2) (hd : d < d') : Traces P.job (projD d l1) := by
  obtain ⟨c1, lb, c1', hr, hs⟩ := run_split h l1 _ l2 hl
  have hi := run_inv hr
  obtain ⟨_, hd', _⟩ := step_sys_cases hs
  exact hi.earlier d (by omega)

/-- the last D of dispatch `d` precedes the first F of dispatch `d + 1` -/
theorem no_overtake_D {th : Th} {d : Nat} {e : Ev Nat} (h : Run P c l)
    (hl : l = l1 ++ .sys th (d + 1) e :: l2) (x : Nat) (hx : x ∈ P.job.sys) : Ev.D x ∈ projD d l1 :=
  (traces_complete (no_overtake h hl (Nat.lt_succ_self d)) x hx).2

/-- **C15 (thread-local systems).** A thread-local system's event occurs only on the calling
thread, between the call of `wait` and its return (the most recent call/return event is
`call wait`), and only when every dispatch issued so far has run to completion. -/
theorem tl_only_in_wait {th : Th} {e : Ev Nat} (h : Run P c l) (hl : l = l1 ++ .tl th e :: l2) :
    th = .caller ∧
    (∃ l0 l0', l1 = l0 ++ .call .wait :: l0' ∧ ∀ x, x ∈ l0' → x.isCallRet = false) ∧
    Quiescent P l1 (dispatches l1) := by
  obtain ⟨c1, lb, c1', hr, hs⟩ := run_split h l1 _ l2 hl
  have hi := run_inv hr
  obtain ⟨hth, r, hc⟩ := step_tl_cases hs
  have hp := hi.pend
  have hcd := hi.caller_data
  have hd := hi.disp
  rw [hc] at hp hcd hd
  refine ⟨hth, pending_some hp, ?_⟩
  have := inv_quiescent hi hcd
  rw [hd] at this
  simpa [spawnedBit] using this

/-- ordinary systems never run on the calling thread -/
theorem sys_on_worker {th : Th} {d : Nat} {e : Ev Nat} (h : Run P c l) (hl : l = l1 ++ .sys th d e :: l2) :
    th = .worker := by
  obtain ⟨c1, lb, c1', _, hs⟩ := run_split h l1 _ l2 hl
  exact (step_sys_cases hs).1

/-- `wait` runs every thread-local system exactly once, in registration order: the
thread-local events between `call wait` and `ret wait` are `F t₁, D t₁, F t₂, D t₂, …`. -/
theorem wait_runs_tl {v : Bool} (h : Run P c l) (hl : l = l1 ++ .ret .wait v :: l2) :
    tlSince l1 [] = P.tl.flatMap fun t => [Ev.F t, Ev.D t] := by
  obtain ⟨c1, lb, c1', hr, hs⟩ := run_split h l1 _ l2 hl
  have ht := run_tl hr
  rcases step_ret_cases hs with ⟨hc, _⟩ | ⟨_, hc⟩ | ⟨r, hc, _⟩ | ⟨_, hc⟩ | ⟨_, hc⟩
  · -- `holding wait` is not reachable: `acquire` sends `wait` to `inTl`
    have hcd := (run_inv hr).caller_data
    rw [hc] at hcd
    exact absurd rfl hcd.2.2.1
  · cases hc
  · rw [hc] at ht
    exact traces_seqN_leaf _ _ (traces_of_derivs ht (step_ret_inTl hs hc))
  · cases hc
  · cases hc

/-- **C15 (exactly once).** At every moment at which an accessor (anything but `running`)
returns, each completed dispatch has contributed exactly one F and one D per ordinary
system. (`hnd`: a system instance occurs once in the stages task — true of every layout, see
`nodup_dispatchTask`.) -/
theorem each_once {op : AOp} {v : Bool} (h : Run P c l) (hl : l = l1 ++ .ret op v :: l2)
    (h1 : op ≠ .running) (hnd : P.job.sys.Nodup) (d : Nat) (hd : d < dispatches l1) (x : Nat) (hx : x ∈ P.job.sys) :
    (projD d l1).count (Ev.F x) = 1 ∧ (projD d l1).count (Ev.D x) = 1 := by
  by_cases h2 : op = .dispatch
  · subst h2
    exact traces_once ((dispatch_quiescent h hl).1 d hd) hnd x hx
  · exact quiescent_once (accessor_quiescent h hl h1 h2) hnd d hd x hx

/-- … and at every moment whatsoever no dispatch has produced any event twice. -/
theorem each_at_most_once (h : Run P c l) (hnd : P.job.sys.Nodup) (d : Nat) (e : Ev Nat) :
    (projD d l).count e ≤ 1 :=
  inv_at_most_once (run_inv h) hnd d e

/-- **C15 (a dispatch that finishes on its own).** When the environment sees the systems' own
completion signal between two operations (`quiet`: no dispatcher method is involved), every
dispatch issued so far has run to completion and nothing else has run … -/
theorem quiet_quiescent (h : Run P c l) (hl : l = l1 ++ .quiet :: l2) : Quiescent P l1 (dispatches l1) := by
  obtain ⟨c1, lb, c1', hr, hs⟩ := run_split h l1 _ l2 hl
  have hi := run_inv hr
  obtain ⟨hc, hq, _⟩ := step_quiet_cases hs
  have hd := hi.disp
  rw [hc] at hd
  have := inv_quiescent_quiet hi hq
  rw [hd] at this
  simpa [spawnedBit] using this

/-- … and looking does not touch the dispatcher: the control state (`Data`, the mailbox, the
dispatch count) after the observation is the one before it. Whatever is called next —
blocking or not, `world_mut` / `mut_res` / `setup` as well as `wait` / `world` / `running` —
therefore finds the finished job's message exactly as if nobody had looked, and all of the
above holds of every continuation: how (and whether) an earlier dispatch was observed never
weakens what a later return guarantees. -/
theorem quiet_stutters {lb : Lbl} {c' : Ctl} (hs : step P c lb = some (c', some .quiet)) : c' = c :=
  (step_quiet_cases hs).2.2

/-- **C15 (no lost wake-up).** A blocking operation (`Data::inner()`) of a reachable state is
disabled only while the job has not sent (`Data::Rx`, job still `running`); and as soon as the
job's residual is nullable — every system has finished — `send` and then the operation's
`inner()` are enabled. So a call that stays blocked although every system has finished and the
pool is idle is not a behaviour of the model. (Third case: a system of the job has panicked;
then the call stays blocked only until every system that had started has come to its end —
`die`, the sender is dropped — and then unwinds.) -/
theorem blocked_only_while_running {op : AOp} (h : Run P c l) (hc : c.caller = .called op)
    (h1 : op ≠ .running) :
    (∃ c', step P c .acquire = some (c', none)) ∨
    (∃ r, c.job = .running r ∧ c.data = .rx ∧
      (r.nullable = true → ∃ c1 c2, step P c .send = some (c1, none) ∧ step P c1 .acquire = some (c2, none))) ∨
    (∃ r ps g, c.job = .failed r ps g ∧ c.data = .rx ∧
      (g = true → ∃ c', step P c .raise = some (c', some (.unwound op))) ∧
      (g = false → (opens r).all ps.contains = true →
        ∃ c1 c2, step P c .die = some (c1, none) ∧ step P c1 .raise = some (c2, some (.unwound op)))) := by
  have hdj := (run_inv h).data_job
  obtain ⟨data, job, caller, n⟩ := c
  simp only at hc hdj
  subst hc
  cases data <;> cases job <;> simp only [dataOk] at hdj
  · left; simp [step, h1, available]
  · right; left
    rename_i r
    refine ⟨r, rfl, rfl, fun hn => ?_⟩
    simp [step, hn, h1, available]
  · left; simp [step, h1, available]
  · right; right
    rename_i r ps g
    refine ⟨r, ps, g, rfl, rfl, fun hg => ?_, fun hg ho => ?_⟩
    · subst hg; simp [step]
    · subst hg
      have ho' : ∀ x, x ∈ opens r → x ∈ ps := by simpa using ho
      refine ⟨{ data := .rx, job := .failed r ps true, caller := .called op, nDisp := n },
        { data := .rx, job := .failed r ps true, caller := .ready, nDisp := n }, ?_, ?_⟩
      · simp only [step, ho, if_true]
      · simp only [step]

/-! ### a system of the job panics (pool with a panic handler) -/

/-- **After a panic inside the job nothing is ever reported complete.** Once a system of
dispatch `d` has panicked, no call returns any more — neither `wait`, `wait_without_tl`, `world`,
`res`, `world_mut`, `mut_res`, `setup` nor a later `dispatch`, and `running()` does not answer
`false` — with two exceptions that claim nothing: `running()` may still answer `true`, and the
`dispatch` call that spawned that very job may still be on its way out. -/
theorem job_panic_no_return {op : AOp} {v : Bool} {th : Th} {d x : Nat} (h : Run P c l)
    (hl : l = l1 ++ .ret op v :: l2) (hp : AEv.sysP th d x ∈ l1) :
    (op = .running ∧ v = true) ∨ (op = .dispatch ∧ d = dispatches l1) := by
  obtain ⟨c1, lb, c1', hr, hs⟩ := run_split h l1 _ l2 hl
  have hi := run_inv hr
  obtain ⟨hrx, _, hd⟩ := inv_failed hi hp
  have hcd := hi.caller_data
  rcases step_ret_cases hs with ⟨hc, _⟩ | ⟨hc, ho⟩ | ⟨r, hc, _⟩ | ⟨hc, ho⟩ | ⟨hc, _⟩
  · rw [hc, hrx] at hcd; cases hcd.1
  · right
    have hdisp := hi.disp
    rw [hc] at hdisp
    simp only [spawnedBit] at hdisp
    exact ⟨ho, by omega⟩
  · rw [hc, hrx] at hcd; cases hcd
  · left
    refine ⟨ho, ?_⟩
    cases v with
    | true => rfl
    | false => rw [hc, hrx] at hcd; cases hcd
  · rw [hc, hrx] at hcd; cases hcd

/-- … **no thread-local system starts** (or goes on) in a `wait` for a dispatch in which a
system panicked, nor in any later `wait` … -/
theorem job_panic_no_tl {th th' : Th} {e : Ev Nat} {d x : Nat} (h : Run P c l)
    (hl : l = l1 ++ .tl th e :: l2) : AEv.sysP th' d x ∉ l1 := by
  intro hp
  obtain ⟨c1, lb, c1', hr, hs⟩ := run_split h l1 _ l2 hl
  have hi := run_inv hr
  obtain ⟨hrx, _, _⟩ := inv_failed hi hp
  obtain ⟨_, r, hc⟩ := step_tl_cases hs
  have hcd := hi.caller_data
  rw [hc, hrx] at hcd
  cases hcd

/-- … no setup hook is called … -/
theorem job_panic_no_hook {th th' : Th} {y d x : Nat} (h : Run P c l)
    (hl : l = l1 ++ .hook th y :: l2) : AEv.sysP th' d x ∉ l1 := by
  intro hp
  obtain ⟨c1, lb, c1', hr, hs⟩ := run_split h l1 _ l2 hl
  have hi := run_inv hr
  obtain ⟨hrx, _, _⟩ := inv_failed hi hp
  obtain ⟨_, rest, hc, _⟩ := step_hook_cases hs
  have hcd := hi.caller_data
  rw [hc, hrx] at hcd
  cases hcd

/-- … the systems' own completion signal is never seen … -/
theorem job_panic_no_quiet {th' : Th} {d x : Nat} (h : Run P c l)
    (hl : l = l1 ++ .quiet :: l2) : AEv.sysP th' d x ∉ l1 := by
  intro hp
  obtain ⟨c1, lb, c1', hr, hs⟩ := run_split h l1 _ l2 hl
  obtain ⟨_, ⟨r, ps, g, hj⟩, _⟩ := inv_failed (run_inv hr) hp
  obtain ⟨_, hq, _⟩ := step_quiet_cases hs
  rw [hj] at hq
  cases hq

/-- … and no system of a later dispatch ever runs. -/
theorem job_panic_no_next_dispatch {th th' : Th} {d d' x : Nat} {e : Ev Nat} (h : Run P c l)
    (hl : l = l1 ++ .sys th d' e :: l2) (hp : AEv.sysP th' d x ∈ l1) : d' = d := by
  obtain ⟨c1, lb, c1', hr, hs⟩ := run_split h l1 _ l2 hl
  obtain ⟨_, _, hd⟩ := inv_failed (run_inv hr) hp
  obtain ⟨_, hd', _⟩ := step_sys_cases hs
  omega

/-- a system panics only inside its own window, on a pool thread -/
theorem job_panic_inside {th : Th} {d x : Nat} (h : Run P c l) (hl : l = l1 ++ .sysP th d x :: l2) :
    th = .worker ∧ ∃ r, derivs P.job.toR (projD d l1) = some r ∧ x ∈ opens r := by
  obtain ⟨c1, lb, c1', hr, hs⟩ := run_split h l1 _ l2 hl
  have hcur := (run_inv hr).current
  obtain ⟨hth, hd, _, _, ⟨r, hj, hx, _⟩ | ⟨r, ps, hj, hx, _⟩⟩ := step_sysP_cases hs
  · rw [hj] at hcur
    exact ⟨hth, r, hd ▸ hcur.2, by simpa using hx⟩
  · rw [hj] at hcur
    exact ⟨hth, r, hd ▸ hcur.2, by simpa using hx⟩

/-- **Every later call unwinds.** In a reachable state in which the failed job's sender is gone,
a call of any of the nine methods can neither get through `inner()` nor through
`inner_noblock()`; the one step it can take is the "Sender dropped" panic. -/
theorem dead_every_call_unwinds {op : AOp} {r : RTask Nat} {ps : List Nat} (h : Run P c l)
    (hc : c.caller = .called op) (hj : c.job = .failed r ps true) :
    step P c .acquire = none ∧ step P c .poll = none ∧
    step P c .raise = some ({ c with caller := .ready }, some (.unwound op)) := by
  have hdj := (run_inv h).data_job
  obtain ⟨data, job, caller, n⟩ := c
  simp only at hc hj hdj
  subst hc hj
  cases data <;> simp only [dataOk] at hdj
  refine ⟨?_, ?_, ?_⟩
  · by_cases ho : op = .running <;> simp [step, ho, available]
  · cases op <;> simp [step]
  · simp [step]

/-- **Why a call unwinds.** Either a system of a job has panicked (then every later call does),
or — the dispatcher being otherwise untouched — it is `wait`, every dispatch issued so far has
run to completion, and a thread-local system panicked inside its window in this very `wait`:
the thread-local events since `call wait` are a prefix `F t₁ D t₁ … F tᵢ` of the thread-local
task that leaves `tᵢ` open, so the systems registered after `tᵢ` did not start. -/
theorem unwound_cases {op : AOp} (h : Run P c l) (hl : l = l1 ++ .unwound op :: l2) :
    (∃ th d x, AEv.sysP th d x ∈ l1) ∨
    (op = .wait ∧ Quiescent P l1 (dispatches l1) ∧
      ∃ r x, derivs P.tlTask.toR (tlSince l1 []) = some r ∧ x ∈ opens r) := by
  obtain ⟨c1, lb, c1', hr, hs⟩ := run_split h l1 _ l2 hl
  have hi := run_inv hr
  obtain ⟨_, ⟨_, _, r, ps, hj⟩ | ⟨hc, ho⟩⟩ := step_unwound_cases hs
  · left
    have hf := hi.fail_iff
    rw [hj] at hf
    exact exists_sysP_of_any hf
  · right
    have hcd := hi.caller_data
    have hd := hi.disp
    have ht := run_tl hr
    rw [hc] at hcd hd ht
    have hq := inv_quiescent hi hcd
    rw [hd] at hq
    exact ⟨ho, by simpa [spawnedBit] using hq, ht⟩

/-! ### a thread-local system panics inside `wait` -/

/-- **A thread-local panic leaves the dispatcher intact.** The panic happens on the calling
thread inside `wait`, after every dispatch has run to completion; the step changes nothing but
the caller's position (`Data` stays `Inner`, no job, the same thread-local list `P.tl` — it is
part of the plan, not of the state), and so does the unwinding of `wait` that follows. Every
later `wait` therefore runs *all* thread-local systems again, in registration order:
`wait_runs_tl` holds of every `ret wait` of every run, those after a panic included. -/
theorem tl_panic_keeps_dispatcher {th : Th} {x : Nat} (h : Run P c l) (hl : l = l1 ++ .tlP th x :: l2) :
    th = .caller ∧ Quiescent P l1 (dispatches l1) ∧
    ∃ c1 lb, Run P c1 l1 ∧ step P c1 lb = some ({ c1 with caller := .tlFailed }, some (.tlP th x)) ∧
      c1.data = .inner ∧ dataOk .inner c1.job := by
  obtain ⟨c1, lb, c1', hr, hs⟩ := run_split h l1 _ l2 hl
  have hi := run_inv hr
  obtain ⟨hth, ⟨r, hc, _⟩, hc'⟩ := step_tlP_cases hs
  have hcd := hi.caller_data
  have hd := hi.disp
  rw [hc] at hcd hd
  have hcd : c1.data = .inner := hcd
  have hq := inv_quiescent hi hcd
  rw [hd] at hq
  exact ⟨hth, by simpa [spawnedBit] using hq, c1, lb, hr, hc' ▸ hs, hcd, hcd ▸ hi.data_job⟩

/-- … state form: while `wait` unwinds, and after it has, the dispatcher holds the world and the
stages (`Data::Inner`) and no job exists. -/
theorem tl_panic_state (h : Run P c l) (hc : c.caller = .tlFailed) : c.data = .inner ∧ dataOk .inner c.job := by
  have hi := run_inv h
  have hcd := hi.caller_data
  rw [hc] at hcd
  have hd : c.data = .inner := hcd
  exact ⟨hd, hd ▸ hi.data_job⟩

/-! ### `setup` -/

/-- **`setup` reaches every system, in every job state.** When `setup` returns — whether it was
called on an idle dispatcher, while a system of the running job was inside `run`, while the job
had not started, or after the job had finished unobserved: the theorem is about every run — the
setup hooks called since `call setup` are those of every system of the stages, in stage / group
order, followed by those of the thread-local systems, each exactly once; and (it is an accessor:
`accessor_quiescent`) every dispatch issued so far had run to completion before the first hook. -/
theorem setup_reaches {v : Bool} (h : Run P c l) (hl : l = l1 ++ .ret .setup v :: l2) :
    hookSince l1 [] = P.job.sys ++ P.tl ∧ Quiescent P l1 (dispatches l1) := by
  refine ⟨?_, accessor_quiescent h hl (by decide) (by decide)⟩
  obtain ⟨c1, lb, c1', hr, hs⟩ := run_split h l1 _ l2 hl
  have hk := run_hk hr
  rcases step_ret_cases hs with ⟨hc, _⟩ | ⟨_, hc⟩ | ⟨r, _, hc⟩ | ⟨_, hc⟩ | ⟨hc, _⟩
  · -- `holding setup` is not reachable: `acquire` sends `setup` to `inSetup`
    have hcd := (run_inv hr).caller_data
    rw [hc] at hcd
    exact absurd rfl hcd.2.2.2
  · cases hc
  · cases hc
  · cases hc
  · rw [hc] at hk
    simpa [hkOk] using hk

/-- a setup hook is called only on the calling thread, inside `setup`, and only when every
dispatch issued so far has run to completion (`setup` joins the running dispatch first) -/
theorem hook_only_in_setup {th : Th} {x : Nat} (h : Run P c l) (hl : l = l1 ++ .hook th x :: l2) :
    th = .caller ∧
    (∃ l0 l0', l1 = l0 ++ .call .setup :: l0' ∧ ∀ y, y ∈ l0' → y.isCallRet = false) ∧
    Quiescent P l1 (dispatches l1) := by
  obtain ⟨c1, lb, c1', hr, hs⟩ := run_split h l1 _ l2 hl
  have hi := run_inv hr
  obtain ⟨hth, rest, hc, _⟩ := step_hook_cases hs
  have hp := hi.pend
  have hcd := hi.caller_data
  have hd := hi.disp
  rw [hc] at hp hcd hd
  refine ⟨hth, pending_some hp, ?_⟩
  have := inv_quiescent hi hcd
  rw [hd] at this
  simpa [spawnedBit] using this

/-- the dispatcher `build_async` produces for a registration sequence (`Lemmas/Scenario.lean`:
any list of registrations whose dependencies name earlier ones, any thread-local list) -/
def ofScenario (sc : Scenario) : APlan := ⟨stagesTask sc.final.b.stages, sc.tl⟩

/-- **C15 (exactly once) for every registration sequence**: the `Nodup` hypothesis of
`each_once` holds of every layout the builder produces, and every registered system is in it. -/
theorem scenario_each_once (sc : Scenario) {op : AOp} {v : Bool} (h : Run (ofScenario sc) c l)
    (hl : l = l1 ++ .ret op v :: l2) (h1 : op ≠ .running) (d : Nat) (hd : d < dispatches l1)
    (x : SysTag) (hx : x < sc.final.n) :
    (projD d l1).count (Ev.F x) = 1 ∧ (projD d l1).count (Ev.D x) = 1 := by
  obtain ⟨z, hz⟩ := sc.good
  have hnd := nodup_dispatchTask hz sc.tl sc.tl_nodup sc.tl_fresh
  rw [sys_dispatchTask] at hnd
  have hnd' : (ofScenario sc).job.sys.Nodup := by
    show (stagesTask sc.final.b.stages).sys.Nodup
    rw [sys_stagesTask]
    exact (List.nodup_append.mp hnd).1
  refine each_once h hl h1 hnd' d hd x ?_
  show x ∈ (stagesTask sc.final.b.stages).sys
  rw [sys_stagesTask, stages_eq_of_zips hz.zips, flatten_sys_eq_allIds hz]
  apply List.count_pos_iff.mp
  rw [hz.ids x]; simp [hx]

/-- **Transfer to the driver.** A merged log accepted by the executable acceptor is a run;
all of the above therefore holds of it. -/
theorem accepted_is_run (h : acceptsLog P l = true) : ∃ c, Run P c l :=
  (acceptsLog_sound h).imp fun _ h => h.1

/-! ### long plans: one system per stage, any number of stages -/

/-- the dispatcher `build_async` produces for `xs.length` systems that end up in `xs.length` stages
of one group of one system each — a dependency chain, systems that all write one resource, systems
separated by barriers, or any mixture of these: `stages = [[[x₁]], [[x₂]], …]` -/
def chainPlan (xs tl : List Nat) : APlan := ⟨stagesTask (xs.map fun x => [[x]]), tl⟩

/-- `for stage in &mut inner.stages { stage.execute(world) }` over such stages has exactly one trace -/
theorem chain_traces (xs : List Nat) (t : List (Ev Nat))
    (h : Traces (stagesTask (xs.map fun x => [[x]])) t) : t = xs.flatMap fun x => [Ev.F x, Ev.D x] := by
  induction xs generalizing t with
  | nil => cases h; rfl
  | cons x xs ih =>
    simp only [stagesTask, List.map, Task.seqN] at h ih
    cases h with
    | seq ha hb =>
      simp only [stageTask, groupTask, List.map, Task.parN, Task.seqN] at ha
      cases ha with
      | par h1 h2 hsh =>
        cases h2
        cases h1 with
        | seq hl hn =>
          cases hl
          cases hn
          have hb' := ih _ hb
          subst hb'
          -- the shuffle with the empty trace of `parN []` is the identity
          cases hsh with
          | left h' => cases h' with
            | left h'' => cases h''; rfl

/-- **C15 (exactly once, plans of any length).** For every number of stages: at every moment at
which `dispatch` or an accessor (anything but `running`) returns, the events of every completed
dispatch are exactly `F x₁ D x₁ F x₂ D x₂ … F xₙ D xₙ` — every stage has run once, in order, none
a second time (whatever position it has in the plan), in every calling context and whatever
happened in between. -/
theorem chain_each_stage_once {xs tl : List Nat} {c : Ctl} {l l1 l2 : List AEv} {op : AOp} {v : Bool}
    (h : Run (chainPlan xs tl) c l) (hl : l = l1 ++ .ret op v :: l2) (h1 : op ≠ .running)
    (d : Nat) (hd : d < dispatches l1) : projD d l1 = xs.flatMap fun x => [Ev.F x, Ev.D x] := by
  by_cases h2 : op = .dispatch
  · subst h2
    exact chain_traces xs _ ((dispatch_quiescent h hl).1 d hd)
  · exact chain_traces xs _ ((accessor_quiescent h hl h1 h2).1 d hd)

/-! ### non-vacuity: a concrete run exercising every hypothesis above, and logs that are refused -/

/-- stage 1 = {0} ∥ {1;2}, stage 2 = {3}; one thread-local system 4 -/
def P0 : APlan := ⟨.seq (.par (.leaf 0) (.seq (.leaf 1) (.leaf 2))) (.leaf 3), [4]⟩

open AEv AOp Th in
/-- dispatch; `running()` polled while 0 and 1 are open (true); a second `dispatch` issued
while the first is still running (it blocks); `running()` false after the end; `wait` with
the thread-local system; `world_mut` -/
def log0 : List AEv :=
  [call dispatch, sys worker 0 (.F 1), ret dispatch false, sys worker 0 (.F 0),
   call running, ret running true, sys worker 0 (.D 1), sys worker 0 (.F 2), sys worker 0 (.D 0),
   call running, sys worker 0 (.D 2), ret running true,
   call dispatch, sys worker 0 (.F 3), sys worker 0 (.D 3),
   sys worker 1 (.F 0), sys worker 1 (.F 1), ret dispatch false, sys worker 1 (.D 0), sys worker 1 (.D 1),
   sys worker 1 (.F 2), sys worker 1 (.D 2), sys worker 1 (.F 3), sys worker 1 (.D 3),
   call running, ret running true, call running, ret running false,
   call wait, tl caller (.F 4), tl caller (.D 4), ret wait false,
   call worldMut, ret worldMut false, call waitWithoutTl, ret waitWithoutTl false,
   call setup, hook caller 0, hook caller 1, hook caller 2, hook caller 3, hook caller 4, ret setup false,
   -- a third dispatch finishes on its own; it is first looked at by `mut_res`
   call dispatch, ret dispatch false, sys worker 2 (.F 0), sys worker 2 (.F 1), sys worker 2 (.D 1),
   sys worker 2 (.F 2), sys worker 2 (.D 2), sys worker 2 (.D 0), sys worker 2 (.F 3), sys worker 2 (.D 3),
   quiet, call mutRes, ret mutRes false, quiet,
   -- a fourth one is polled while system 0 is open, then `res` blocks until the end
   call dispatch, ret dispatch false, sys worker 3 (.F 0), call running, ret running true, call res,
   sys worker 3 (.F 1), sys worker 3 (.D 1), sys worker 3 (.F 2), sys worker 3 (.D 2), sys worker 3 (.D 0),
   sys worker 3 (.F 3), sys worker 3 (.D 3), ret res false, quiet]

example : acceptsLog P0 log0 = true := by decide
example : ∃ c, Run P0 c log0 := accepted_is_run (by decide)
example : P0.job.sys.Nodup := by decide
/-- at the first `ret running true` systems 0 and 1 of dispatch 0 are open -/
example : OpenAt (log0.take 5) 0 0 ∧ OpenAt (log0.take 5) 0 1 := by unfold OpenAt; decide

open AEv AOp Th in
/-- refused: `wait_without_tl` returns while system 0 is still inside `run` -/
example : acceptsLog P0 [call dispatch, ret dispatch false, sys worker 0 (.F 0), call waitWithoutTl,
    ret waitWithoutTl false] = false := by decide
open AEv AOp Th in
/-- refused: `running()` answers `false` while system 0 is open -/
example : acceptsLog P0 [call dispatch, ret dispatch false, sys worker 0 (.F 0), call running,
    ret running false] = false := by decide
open AEv AOp Th in
/-- refused: the second dispatch starts before the first is complete -/
example : acceptsLog P0 [call dispatch, ret dispatch false, sys worker 0 (.F 0), call dispatch,
    sys worker 1 (.F 1)] = false := by decide
open AEv AOp Th in
/-- refused: the completion signal while system 0 is inside `run`, or inside an operation -/
example : acceptsLog P0 [call dispatch, ret dispatch false, sys worker 0 (.F 0), quiet] = false ∧
    acceptsLog P0 [call world, quiet] = false := by decide
open AEv AOp Th in
/-- refused: the first dispatch finishes on its own and is first looked at by `world_mut`
(resp. `mut_res`, `setup`); the second is still running (system 0 open) when `wait`
(resp. `res`, `running() = false`) returns -/
example :
    let pre (x : AOp) := [call dispatch, ret dispatch false, sys worker 0 (.F 0), sys worker 0 (.F 1),
      sys worker 0 (.D 1), sys worker 0 (.F 2), sys worker 0 (.D 2), sys worker 0 (.D 0), sys worker 0 (.F 3),
      sys worker 0 (.D 3), quiet, call x, ret x false, call dispatch, ret dispatch false, sys worker 1 (.F 0)]
    acceptsLog P0 (pre worldMut ++ [call wait, ret wait false]) = false ∧
    acceptsLog P0 (pre mutRes ++ [call res, ret res false]) = false ∧
    acceptsLog P0 (pre setup ++ [call running, ret running false]) = false := by
  decide
open AEv AOp Th in
/-- refused: a thread-local system outside `wait`, or on a worker -/
example : acceptsLog ⟨.nil, [4]⟩ [call world, tl caller (.F 4)] = false ∧
    acceptsLog ⟨.nil, [4]⟩ [call wait, tl worker (.F 4)] = false := by decide

/-! #### panics and `setup` -/

open AEv AOp Th in
/-- system 1 of the first stage panics while its sibling 0 is inside `run`: `running()` is still
true; the sibling finishes, the sender is dropped (`gone`: the pool's panic handler was seen);
then each of the nine methods unwinds; stage 2 (system 3) never runs -/
def log1 : List AEv :=
  [call dispatch, ret dispatch false, sys worker 0 (.F 0), sys worker 0 (.F 1), sysP worker 0 1,
   call running, ret running true, call wait, sys worker 0 (.D 0), unwound wait, gone,
   call running, unwound running, call dispatch, unwound dispatch, call waitWithoutTl, unwound waitWithoutTl,
   call world, unwound world, call res, unwound res, call worldMut, unwound worldMut, call mutRes, unwound mutRes,
   call setup, unwound setup, call wait, unwound wait, gone]

example : acceptsLog P0 log1 = true := by decide
/-- the hypothesis of the `job_panic_*` theorems holds of the prefix before `call running` -/
example : AEv.sysP .worker 0 1 ∈ log1.take 5 := by decide

open AEv AOp Th in
/-- refused after that panic: `wait` returns; `running()` answers false; a thread-local system
starts; the call unwinds while the sibling is still inside `run`; a later dispatch starts;
the panic of a system that is not inside its window -/
example :
    let pre := [call dispatch, ret dispatch false, sys worker 0 (.F 0), sys worker 0 (.F 1), sysP worker 0 1]
    acceptsLog P0 (pre ++ [sys worker 0 (.D 0), call wait, ret wait false]) = false ∧
    acceptsLog P0 (pre ++ [sys worker 0 (.D 0), call running, ret running false]) = false ∧
    acceptsLog P0 (pre ++ [sys worker 0 (.D 0), call wait, tl caller (.F 4)]) = false ∧
    acceptsLog P0 (pre ++ [call world, unwound world]) = false ∧
    acceptsLog P0 (pre ++ [sys worker 0 (.D 0), sys worker 0 (.F 3)]) = false ∧
    acceptsLog P0 (pre ++ [sys worker 0 (.D 1)]) = false ∧
    acceptsLog P0 [call dispatch, ret dispatch false, sys worker 0 (.F 0), sysP worker 0 1] = false := by
  decide

/-- one system, two thread-local systems -/
def P1 : APlan := ⟨.leaf 0, [4, 5]⟩

open AEv AOp Th in
/-- the second thread-local system panics inside the first `wait` (which unwinds); the next
`wait` runs both again; then the first one panics: the second does not start in that `wait` -/
def log2 : List AEv :=
  [call dispatch, ret dispatch false, sys worker 0 (.F 0), sys worker 0 (.D 0),
   call wait, tl caller (.F 4), tl caller (.D 4), tl caller (.F 5), tlP caller 5, unwound wait,
   call running, ret running false,
   call wait, tl caller (.F 4), tl caller (.D 4), tl caller (.F 5), tl caller (.D 5), ret wait false,
   call dispatch, ret dispatch false, call wait, sys worker 1 (.F 0), sys worker 1 (.D 0),
   tl caller (.F 4), tlP caller 4, unwound wait,
   call setup, hook caller 0, hook caller 4, hook caller 5, ret setup false,
   call wait, tl caller (.F 4), tl caller (.D 4), tl caller (.F 5), tl caller (.D 5), ret wait false]

example : acceptsLog P1 log2 = true := by decide

open AEv AOp Th in
/-- refused: after the panic of thread-local system 4 the next one starts in the same `wait`;
`wait` returns normally; the `wait` after a panic skips a thread-local system; a call unwinds
although nothing panicked -/
example :
    let pre := [call wait, tl caller (.F 4), tlP caller 4]
    acceptsLog P1 (pre ++ [tl caller (.F 5)]) = false ∧
    acceptsLog P1 (pre ++ [ret wait false]) = false ∧
    acceptsLog P1 (pre ++ [unwound wait, call wait, ret wait false]) = false ∧
    acceptsLog P1 (pre ++ [unwound wait, call wait, tl caller (.F 5)]) = false ∧
    acceptsLog P1 [call world, unwound world] = false ∧
    acceptsLog P1 [call dispatch, ret dispatch false, sys worker 0 (.F 0), call wait, unwound wait] = false := by
  decide

open AEv AOp Th in
/-- `setup` called while system 0 is inside `run`, while the job has not started, and after the
job has finished unobserved: it returns after the job's end and after every hook -/
def log3 : List AEv :=
  [call dispatch, ret dispatch false, sys worker 0 (.F 0), call setup, sys worker 0 (.D 0),
   hook caller 0, hook caller 4, hook caller 5, ret setup false,
   call dispatch, ret dispatch false, call setup, sys worker 1 (.F 0), sys worker 1 (.D 0),
   hook caller 0, hook caller 4, hook caller 5, ret setup false,
   call dispatch, ret dispatch false, sys worker 2 (.F 0), sys worker 2 (.D 0), quiet,
   call setup, hook caller 0, hook caller 4, hook caller 5, ret setup false]

example : acceptsLog P1 log3 = true := by decide

open AEv AOp Th in
/-- refused: `setup` returns without having called a hook (idle, or while system 0 is inside
`run`); a hook is called while system 0 is inside `run`; a hook is left out, called twice or out
of order; a hook outside `setup` -/
example :
    acceptsLog P1 [call setup, ret setup false] = false ∧
    acceptsLog P1 [call dispatch, ret dispatch false, sys worker 0 (.F 0), call setup, ret setup false] = false ∧
    acceptsLog P1 [call dispatch, ret dispatch false, sys worker 0 (.F 0), call setup, hook caller 0] = false ∧
    acceptsLog P1 [call setup, hook caller 0, hook caller 5] = false ∧
    acceptsLog P1 [call setup, hook caller 0, hook caller 4, ret setup false] = false ∧
    acceptsLog P1 [call setup, hook caller 0, hook caller 0] = false ∧
    acceptsLog P1 [call world, hook caller 0] = false := by
  decide

/-! a plan of nine stages (what the builder makes of nine systems that all write one resource) -/
def P9 : APlan := chainPlan [0, 1, 2, 3, 4, 5, 6, 7, 8] [9]

/-- one pass over the nine stages, as dispatch number `d` logs it -/
def pass9 (d : Nat) : List AEv := (List.range 9).flatMap fun x => [AEv.sys .worker d (.F x), AEv.sys .worker d (.D x)]

open AEv AOp Th in
/-- two dispatches of the nine-stage plan: the second is issued while the first is in its eighth
stage (it blocks), the thread-local system runs inside the final `wait` -/
def log9 : List AEv :=
  [call dispatch, ret dispatch false] ++ (pass9 0).take 15 ++ [call dispatch] ++ (pass9 0).drop 15 ++
  (pass9 1).take 4 ++ [ret dispatch false, call running, ret running true] ++ (pass9 1).drop 4 ++
  [call wait, tl caller (.F 9), tl caller (.D 9), ret wait false]

example : acceptsLog P9 log9 = true := by decide
/-- the hypotheses of `chain_each_stage_once` hold at the final `ret wait` (two completed dispatches) -/
example : dispatches (log9.take 45) = 2 := by decide
open AEv AOp Th in
/-- refused: the eighth stage runs a second time (after its first run, or after the last stage),
before or after completion is reported -/
example :
    acceptsLog P9 ([call dispatch, ret dispatch false] ++ (pass9 0).take 16 ++ [sys worker 0 (.F 7)]) = false ∧
    acceptsLog P9 ([call dispatch, ret dispatch false] ++ pass9 0 ++ [sys worker 0 (.F 7)]) = false ∧
    acceptsLog P9 ([call dispatch, ret dispatch false] ++ pass9 0 ++ [call wait, sys worker 0 (.F 8)]) = false ∧
    acceptsLog P9 ([call dispatch, ret dispatch false] ++ pass9 0 ++
      [call waitWithoutTl, ret waitWithoutTl false, sys worker 0 (.F 8)]) = false := by
  decide
open AEv AOp Th in
/-- refused in every calling context: `wait_without_tl` returns while the system of the third stage
is inside `run` (the pool having nothing queued does not make the dispatch complete); an ordinary
system on the thread that drives the dispatcher -/
example :
    acceptsLog P9 ([call dispatch, ret dispatch false] ++ (pass9 0).take 5 ++
      [call waitWithoutTl, ret waitWithoutTl false]) = false ∧
    acceptsLog P9 [call dispatch, ret dispatch false, call waitWithoutTl, sys caller 0 (.F 0)] = false := by
  decide

end Async
end Shred

#print axioms Shred.Async.accessor_quiescent
#print axioms Shred.Async.accessor_none_open
#print axioms Shred.Async.dispatch_quiescent
#print axioms Shred.Async.running_true_while_open
#print axioms Shred.Async.running_false_only_done
#print axioms Shred.Async.running_false_state
#print axioms Shred.Async.no_overtake
#print axioms Shred.Async.no_overtake_D
#print axioms Shred.Async.tl_only_in_wait
#print axioms Shred.Async.sys_on_worker
#print axioms Shred.Async.wait_runs_tl
#print axioms Shred.Async.each_once
#print axioms Shred.Async.each_at_most_once
#print axioms Shred.Async.scenario_each_once
#print axioms Shred.Async.accepted_is_run
#print axioms Shred.Async.quiet_quiescent
#print axioms Shred.Async.quiet_stutters
#print axioms Shred.Async.blocked_only_while_running
#print axioms Shred.Async.job_panic_no_return
#print axioms Shred.Async.job_panic_no_tl
#print axioms Shred.Async.job_panic_no_hook
#print axioms Shred.Async.job_panic_no_quiet
#print axioms Shred.Async.job_panic_no_next_dispatch
#print axioms Shred.Async.job_panic_inside
#print axioms Shred.Async.dead_every_call_unwinds
#print axioms Shred.Async.unwound_cases
#print axioms Shred.Async.tl_panic_keeps_dispatcher
#print axioms Shred.Async.tl_panic_state
#print axioms Shred.Async.setup_reaches
#print axioms Shred.Async.hook_only_in_setup
#print axioms Shred.Async.chain_traces
#print axioms Shred.Async.chain_each_stage_once
