import ShredModel.Lemmas.AsyncMore
import ShredModel.Lemmas.Scenario
/-!
# C15 — asynchronous dispatcher: completion is observable and never overtaken

Model: `Model/Async.lean` (mirror of `src/dispatch/async_dispatcher.rs`). `Run P c l` is the
set of reachable (control state, log) pairs of the transition system in which the caller's
steps (`call op`, the blocking `acquire` = `Data::inner()`, `poll` = `inner_noblock()`,
`spawn`, `ret`, thread-local events inside `wait`) interleave arbitrarily with the steps of the
background job (`jobEv`: one F/D event of the stages task, any order the task allows; `send`).

Quantifiers of every theorem: every plan `P` (any stages task — in particular the task of any
layout the builder produces —, any list of thread-local systems), every sequence of
`dispatch / running / wait / wait_without_tl / world / res / world_mut / mut_res / setup` calls
— every public method of `AsyncDispatcher`, in every order, each one issued at every possible
moment of the job: not yet started, a system inside `run`, between two stages, finished but
not yet sent, sent long ago and never looked at (`quiet` marks that the environment has seen
the systems' own completion signal without calling the dispatcher) — and **every
interleaving** with the job (`Run` is closed under all enabled steps, so a system may stay
inside `run` across arbitrarily many caller steps). `l = l1 ++ e :: l2` reads "at the moment
event `e` is logged, the log so far is `l1`".

The driver executes `feed` / `acceptsLog` of the same file; `accepted_is_run` transfers every
theorem below to every merged log the driver accepts.
-/
namespace Shred
namespace Async

variable {P : APlan} {c : Ctl} {l l1 l2 : List AEv}

/-- **C15 (accessors).** When `wait`, `wait_without_tl`, `world`, `world_mut` or `setup`
returns, every dispatch issued so far has run to completion (its events are a complete trace
of the stages task: every system has its F and its D) and nothing else has run. -/
theorem accessor_quiescent {op : AOp} {v : Bool} (h : Run P c l) (hl : l = l1 ++ .ret op v :: l2)
    (h1 : op ≠ .running) (h2 : op ≠ .dispatch) : Quiescent P l1 (dispatches l1) := by
  obtain ⟨c1, lb, c1', hr, hs⟩ := run_split h l1 _ l2 hl
  have hi := run_inv hr
  rcases step_ret_cases hs with ⟨hc, _⟩ | ⟨_, hc⟩ | ⟨r, hc, _⟩ | ⟨_, hc⟩
  · have hcd := hi.caller_data
    have hd := hi.disp
    rw [hc] at hcd hd
    have := inv_quiescent hi hcd.1
    rw [hd] at this
    simpa [spawnedBit] using this
  · exact absurd hc h2
  · have hcd := hi.caller_data
    have hd := hi.disp
    rw [hc] at hcd hd
    have := inv_quiescent hi hcd
    rw [hd] at this
    simpa [spawnedBit] using this
  · exact absurd hc h1

/-- … in particular no system is inside its F…D window at that moment. -/
theorem accessor_none_open {op : AOp} {v : Bool} (h : Run P c l) (hl : l = l1 ++ .ret op v :: l2)
    (h1 : op ≠ .running) (h2 : op ≠ .dispatch) (d x : Nat) : ¬ OpenAt l1 d x :=
  quiescent_none_open (accessor_quiescent h hl h1 h2) d x

/-- **C15 (the next dispatch).** When a `dispatch` call returns, every *earlier* dispatch has
run to completion; only the job it has just spawned may already have produced events. -/
theorem dispatch_quiescent {v : Bool} (h : Run P c l) (hl : l = l1 ++ .ret .dispatch v :: l2) :
    (∀ d, d < dispatches l1 → Traces P.job (projD d l1)) ∧ (∀ d, dispatches l1 < d → projD d l1 = []) := by
  obtain ⟨c1, lb, c1', hr, hs⟩ := run_split h l1 _ l2 hl
  have hi := run_inv hr
  rcases step_ret_cases hs with ⟨_, hc⟩ | ⟨hc, _⟩ | ⟨r, _, hc⟩ | ⟨_, hc⟩
  · exact absurd rfl hc
  · have hd := hi.disp
    rw [hc] at hd
    simp only [spawnedBit] at hd
    exact ⟨fun d hlt => hi.earlier d (by omega), fun d hlt => hi.beyond d (by omega)⟩
  · cases hc
  · cases hc

/-- **C15 (running, 1).** If some system is inside its F…D window when `running()` returns,
it returns `true`. -/
theorem running_true_while_open {v : Bool} (h : Run P c l) (hl : l = l1 ++ .ret .running v :: l2)
    (d x : Nat) (ho : OpenAt l1 d x) : v = true := by
  obtain ⟨c1, lb, c1', hr, hs⟩ := run_split h l1 _ l2 hl
  have hi := run_inv hr
  rcases step_ret_cases hs with ⟨hc, _⟩ | ⟨_, hc⟩ | ⟨r, _, hc⟩ | ⟨hc, _⟩
  · have hcd := hi.caller_data
    rw [hc] at hcd
    exact absurd rfl hcd.2.1
  · cases hc
  · cases hc
  · cases v with
    | true => rfl
    | false =>
      have hcd := hi.caller_data
      rw [hc] at hcd
      exact absurd ho (quiescent_none_open (inv_quiescent hi hcd) d x)

/-- **C15 (running, 2).** `running()` returns `false` only once every dispatch issued so far
has run to completion. -/
theorem running_false_only_done (h : Run P c l) (hl : l = l1 ++ .ret .running false :: l2) :
    Quiescent P l1 (dispatches l1) := by
  obtain ⟨c1, lb, c1', hr, hs⟩ := run_split h l1 _ l2 hl
  have hi := run_inv hr
  rcases step_ret_cases hs with ⟨hc, _⟩ | ⟨_, hc⟩ | ⟨r, _, hc⟩ | ⟨hc, _⟩
  · have hcd := hi.caller_data
    rw [hc] at hcd
    exact absurd rfl hcd.2.1
  · cases hc
  · cases hc
  · have hcd := hi.caller_data
    have hd := hi.disp
    rw [hc] at hcd hd
    have := inv_quiescent hi hcd
    rw [hd] at this
    simpa [spawnedBit] using this

/-- … and the dispatcher then holds the world and the stages again (`Data::Inner`), no job
exists: state form of the same fact, at the moment `inner_noblock()` has answered. -/
theorem running_false_state (h : Run P c l) (hc : c.caller = .polled false) :
    c.data = .inner ∧ dataOk .inner c.job ∧ Quiescent P l c.nDisp := by
  have hi := run_inv h
  have hcd := hi.caller_data
  rw [hc] at hcd
  have hd : c.data = .inner := hcd
  exact ⟨hd, hd ▸ hi.data_job, inv_quiescent hi hd⟩

/-- **C15 (no overtaking).** When any event of a later dispatch occurs — in particular its
first F —, every earlier dispatch has run to completion. -/
theorem no_overtake {th : Th} {d d' : Nat} {e : Ev Nat} (h : Run P c l)
    (hl : l = l1 ++ .sys th d' e :: l2) (hd : d < d') : Traces P.job (projD d l1) := by
  obtain ⟨c1, lb, c1', hr, hs⟩ := run_split h l1 _ l2 hl
  have hi := run_inv hr
  obtain ⟨_, hd', _⟩ := step_sys_cases hs
  exact hi.earlier d (by omega)

/-- the last D of dispatch `d` precedes the first F of dispatch `d + 1` -/
theorem no_overtake_D {th : Th} {d : Nat} {e : Ev Nat} (h : Run P c l)
    (hl : l = l1 ++ .sys th (d + 1) e :: l2) (x : Nat) (hx : x ∈ P.job.sys) : Ev.D x ∈ projD d l1 :=
  (traces_complete (no_overtake h hl (Nat.lt_succ_self d)) x hx).2

/-- **C15 (thread-local systems).** A thread-local system's event occurs only on the calling
thread, between the call of `wait` and its return (the most recent call/return event is
`call wait`), and only when every dispatch issued so far has run to completion. -/
theorem tl_only_in_wait {th : Th} {e : Ev Nat} (h : Run P c l) (hl : l = l1 ++ .tl th e :: l2) :
    th = .caller ∧
    (∃ l0 l0', l1 = l0 ++ .call .wait :: l0' ∧ ∀ x, x ∈ l0' → x.isCallRet = false) ∧
    Quiescent P l1 (dispatches l1) := by
  obtain ⟨c1, lb, c1', hr, hs⟩ := run_split h l1 _ l2 hl
  have hi := run_inv hr
  obtain ⟨hth, r, hc⟩ := step_tl_cases hs
  have hp := hi.pend
  have hcd := hi.caller_data
  have hd := hi.disp
  rw [hc] at hp hcd hd
  refine ⟨hth, pending_some hp, ?_⟩
  have := inv_quiescent hi hcd
  rw [hd] at this
  simpa [spawnedBit] using this

/-- ordinary systems never run on the calling thread -/
theorem sys_on_worker {th : Th} {d : Nat} {e : Ev Nat} (h : Run P c l) (hl : l = l1 ++ .sys th d e :: l2) :
    th = .worker := by
  obtain ⟨c1, lb, c1', _, hs⟩ := run_split h l1 _ l2 hl
  exact (step_sys_cases hs).1

/-- `wait` runs every thread-local system exactly once, in registration order: the
thread-local events between `call wait` and `ret wait` are `F t₁, D t₁, F t₂, D t₂, …`. -/
theorem wait_runs_tl {v : Bool} (h : Run P c l) (hl : l = l1 ++ .ret .wait v :: l2) :
    tlSince l1 [] = P.tl.flatMap fun t => [Ev.F t, Ev.D t] := by
  obtain ⟨c1, lb, c1', hr, hs⟩ := run_split h l1 _ l2 hl
  have ht := run_tl hr
  rcases step_ret_cases hs with ⟨hc, _⟩ | ⟨_, hc⟩ | ⟨r, hc, _⟩ | ⟨_, hc⟩
  · -- `holding wait` is not reachable: `acquire` sends `wait` to `inTl`
    have hcd := (run_inv hr).caller_data
    rw [hc] at hcd
    exact absurd rfl hcd.2.2
  · cases hc
  · rw [hc] at ht
    obtain ⟨data, job, caller, n⟩ := c1
    simp only at hc
    subst hc
    cases lb <;> simp only [step] at hs <;> try (cases hs)
    · split at hs
      · rename_i hn
        exact traces_seqN_leaf _ _ (traces_of_derivs ht hn)
      · cases hs
    · split at hs <;> cases hs
    · cases job <;> simp only at hs <;> try (cases hs)
      split at hs <;> cases hs
    · cases job <;> simp only at hs <;> try (cases hs)
      split at hs <;> cases hs
  · cases hc

/-- **C15 (exactly once).** At every moment at which an accessor (anything but `running`)
returns, each completed dispatch has contributed exactly one F and one D per ordinary
system. (`hnd`: a system instance occurs once in the stages task — true of every layout, see
`nodup_dispatchTask`.) -/
theorem each_once {op : AOp} {v : Bool} (h : Run P c l) (hl : l = l1 ++ .ret op v :: l2)
    (h1 : op ≠ .running) (hnd : P.job.sys.Nodup) (d : Nat) (hd : d < dispatches l1) (x : Nat) (hx : x ∈ P.job.sys) :
    (projD d l1).count (Ev.F x) = 1 ∧ (projD d l1).count (Ev.D x) = 1 := by
  by_cases h2 : op = .dispatch
  · subst h2
    exact traces_once ((dispatch_quiescent h hl).1 d hd) hnd x hx
  · exact quiescent_once (accessor_quiescent h hl h1 h2) hnd d hd x hx

/-- … and at every moment whatsoever no dispatch has produced any event twice. -/
theorem each_at_most_once (h : Run P c l) (hnd : P.job.sys.Nodup) (d : Nat) (e : Ev Nat) :
    (projD d l).count e ≤ 1 :=
  inv_at_most_once (run_inv h) hnd d e

/-- **C15 (a dispatch that finishes on its own).** When the environment sees the systems' own
completion signal between two operations (`quiet`: no dispatcher method is involved), every
dispatch issued so far has run to completion and nothing else has run … -/
theorem quiet_quiescent (h : Run P c l) (hl : l = l1 ++ .quiet :: l2) : Quiescent P l1 (dispatches l1) := by
  obtain ⟨c1, lb, c1', hr, hs⟩ := run_split h l1 _ l2 hl
  have hi := run_inv hr
  obtain ⟨hc, hq, _⟩ := step_quiet_cases hs
  have hd := hi.disp
  rw [hc] at hd
  have := inv_quiescent_quiet hi hq
  rw [hd] at this
  simpa [spawnedBit] using this

/-- … and looking does not touch the dispatcher: the control state (`Data`, the mailbox, the
dispatch count) after the observation is the one before it. Whatever is called next —
blocking or not, `world_mut` / `mut_res` / `setup` as well as `wait` / `world` / `running` —
therefore finds the finished job's message exactly as if nobody had looked, and all of the
above holds of every continuation: how (and whether) an earlier dispatch was observed never
weakens what a later return guarantees. -/
theorem quiet_stutters {lb : Lbl} {c' : Ctl} (hs : step P c lb = some (c', some .quiet)) : c' = c :=
  (step_quiet_cases hs).2.2

/-- **C15 (no lost wake-up).** A blocking operation (`Data::inner()`) of a reachable state is
disabled only while the job has not sent (`Data::Rx`, job still `running`); and as soon as the
job's residual is nullable — every system has finished — `send` and then the operation's
`inner()` are enabled. So a call that stays blocked although every system has finished and the
pool is idle is not a behaviour of the model. -/
theorem blocked_only_while_running {op : AOp} (h : Run P c l) (hc : c.caller = .called op)
    (h1 : op ≠ .running) :
    (∃ c', step P c .acquire = some (c', none)) ∨
    (∃ r, c.job = .running r ∧ c.data = .rx ∧
      (r.nullable = true → ∃ c1 c2, step P c .send = some (c1, none) ∧ step P c1 .acquire = some (c2, none))) := by
  have hdj := (run_inv h).data_job
  obtain ⟨data, job, caller, n⟩ := c
  simp only at hc hdj
  subst hc
  cases data <;> cases job <;> simp only [dataOk] at hdj
  · left; simp [step, h1, available]
  · right
    rename_i r
    refine ⟨r, rfl, rfl, fun hn => ?_⟩
    simp [step, hn, h1, available]
  · left; simp [step, h1, available]

/-- the dispatcher `build_async` produces for a registration sequence (`Lemmas/Scenario.lean`:
any list of registrations whose dependencies name earlier ones, any thread-local list) -/
def ofScenario (sc : Scenario) : APlan := ⟨stagesTask sc.final.b.stages, sc.tl⟩

/-- **C15 (exactly once) for every registration sequence**: the `Nodup` hypothesis of
`each_once` holds of every layout the builder produces, and every registered system is in it. -/
theorem scenario_each_once (sc : Scenario) {op : AOp} {v : Bool} (h : Run (ofScenario sc) c l)
    (hl : l = l1 ++ .ret op v :: l2) (h1 : op ≠ .running) (d : Nat) (hd : d < dispatches l1)
    (x : SysTag) (hx : x < sc.final.n) :
    (projD d l1).count (Ev.F x) = 1 ∧ (projD d l1).count (Ev.D x) = 1 := by
  obtain ⟨z, hz⟩ := sc.good
  have hnd := nodup_dispatchTask hz sc.tl sc.tl_nodup sc.tl_fresh
  rw [sys_dispatchTask] at hnd
  have hnd' : (ofScenario sc).job.sys.Nodup := by
    show (stagesTask sc.final.b.stages).sys.Nodup
    rw [sys_stagesTask]
    exact (List.nodup_append.mp hnd).1
  refine each_once h hl h1 hnd' d hd x ?_
  show x ∈ (stagesTask sc.final.b.stages).sys
  rw [sys_stagesTask, stages_eq_of_zips hz.zips, flatten_sys_eq_allIds hz]
  apply List.count_pos_iff.mp
  rw [hz.ids x]; simp [hx]

/-- **Transfer to the driver.** A merged log accepted by the executable acceptor is a run;
all of the above therefore holds of it. -/
theorem accepted_is_run (h : acceptsLog P l = true) : ∃ c, Run P c l :=
  (acceptsLog_sound h).imp fun _ h => h.1

/-! ### non-vacuity: a concrete run exercising every hypothesis above, and logs that are refused -/

/-- stage 1 = {0} ∥ {1;2}, stage 2 = {3}; one thread-local system 4 -/
def P0 : APlan := ⟨.seq (.par (.leaf 0) (.seq (.leaf 1) (.leaf 2))) (.leaf 3), [4]⟩

open AEv AOp Th in
/-- dispatch; `running()` polled while 0 and 1 are open (true); a second `dispatch` issued
while the first is still running (it blocks); `running()` false after the end; `wait` with
the thread-local system; `world_mut` -/
def log0 : List AEv :=
  [call dispatch, sys worker 0 (.F 1), ret dispatch false, sys worker 0 (.F 0),
   call running, ret running true, sys worker 0 (.D 1), sys worker 0 (.F 2), sys worker 0 (.D 0),
   call running, sys worker 0 (.D 2), ret running true,
   call dispatch, sys worker 0 (.F 3), sys worker 0 (.D 3),
   sys worker 1 (.F 0), sys worker 1 (.F 1), ret dispatch false, sys worker 1 (.D 0), sys worker 1 (.D 1),
   sys worker 1 (.F 2), sys worker 1 (.D 2), sys worker 1 (.F 3), sys worker 1 (.D 3),
   call running, ret running true, call running, ret running false,
   call wait, tl caller (.F 4), tl caller (.D 4), ret wait false,
   call worldMut, ret worldMut false, call waitWithoutTl, ret waitWithoutTl false, call setup, ret setup false,
   -- a third dispatch finishes on its own; it is first looked at by `mut_res`
   call dispatch, ret dispatch false, sys worker 2 (.F 0), sys worker 2 (.F 1), sys worker 2 (.D 1),
   sys worker 2 (.F 2), sys worker 2 (.D 2), sys worker 2 (.D 0), sys worker 2 (.F 3), sys worker 2 (.D 3),
   quiet, call mutRes, ret mutRes false, quiet,
   -- a fourth one is polled while system 0 is open, then `res` blocks until the end
   call dispatch, ret dispatch false, sys worker 3 (.F 0), call running, ret running true, call res,
   sys worker 3 (.F 1), sys worker 3 (.D 1), sys worker 3 (.F 2), sys worker 3 (.D 2), sys worker 3 (.D 0),
   sys worker 3 (.F 3), sys worker 3 (.D 3), ret res false, quiet]

example : acceptsLog P0 log0 = true := by decide
example : ∃ c, Run P0 c log0 := accepted_is_run (by decide)
example : P0.job.sys.Nodup := by decide
/-- at the first `ret running true` systems 0 and 1 of dispatch 0 are open -/
example : OpenAt (log0.take 5) 0 0 ∧ OpenAt (log0.take 5) 0 1 := by unfold OpenAt; decide

open AEv AOp Th in
/-- refused: `wait_without_tl` returns while system 0 is still inside `run` -/
example : acceptsLog P0 [call dispatch, ret dispatch false, sys worker 0 (.F 0), call waitWithoutTl,
    ret waitWithoutTl false] = false := by decide
open AEv AOp Th in
/-- refused: `running()` answers `false` while system 0 is open -/
example : acceptsLog P0 [call dispatch, ret dispatch false, sys worker 0 (.F 0), call running,
    ret running false] = false := by decide
open AEv AOp Th in
/-- refused: the second dispatch starts before the first is complete -/
example : acceptsLog P0 [call dispatch, ret dispatch false, sys worker 0 (.F 0), call dispatch,
    sys worker 1 (.F 1)] = false := by decide
open AEv AOp Th in
/-- refused: the completion signal while system 0 is inside `run`, or inside an operation -/
example : acceptsLog P0 [call dispatch, ret dispatch false, sys worker 0 (.F 0), quiet] = false ∧
    acceptsLog P0 [call world, quiet] = false := by decide
open AEv AOp Th in
/-- refused: the first dispatch finishes on its own and is first looked at by `world_mut`
(resp. `mut_res`, `setup`); the second is still running (system 0 open) when `wait`
(resp. `res`, `running() = false`) returns -/
example :
    let pre (x : AOp) := [call dispatch, ret dispatch false, sys worker 0 (.F 0), sys worker 0 (.F 1),
      sys worker 0 (.D 1), sys worker 0 (.F 2), sys worker 0 (.D 2), sys worker 0 (.D 0), sys worker 0 (.F 3),
      sys worker 0 (.D 3), quiet, call x, ret x false, call dispatch, ret dispatch false, sys worker 1 (.F 0)]
    acceptsLog P0 (pre worldMut ++ [call wait, ret wait false]) = false ∧
    acceptsLog P0 (pre mutRes ++ [call res, ret res false]) = false ∧
    acceptsLog P0 (pre setup ++ [call running, ret running false]) = false := by
  decide
open AEv AOp Th in
/-- refused: a thread-local system outside `wait`, or on a worker -/
example : acceptsLog ⟨.nil, [4]⟩ [call world, tl caller (.F 4)] = false ∧
    acceptsLog ⟨.nil, [4]⟩ [call wait, tl worker (.F 4)] = false := by decide

end Async
end Shred

#print axioms Shred.Async.accessor_quiescent
#print axioms Shred.Async.accessor_none_open
#print axioms Shred.Async.dispatch_quiescent
#print axioms Shred.Async.running_true_while_open
#print axioms Shred.Async.running_false_only_done
#print axioms Shred.Async.running_false_state
#print axioms Shred.Async.no_overtake
#print axioms Shred.Async.no_overtake_D
#print axioms Shred.Async.tl_only_in_wait
#print axioms Shred.Async.sys_on_worker
#print axioms Shred.Async.wait_runs_tl
#print axioms Shred.Async.each_once
#print axioms Shred.Async.each_at_most_once
#print axioms Shred.Async.scenario_each_once
#print axioms Shred.Async.accepted_is_run
#print axioms Shred.Async.quiet_quiescent
#print axioms Shred.Async.quiet_stutters
#print axioms Shred.Async.blocked_only_while_running
