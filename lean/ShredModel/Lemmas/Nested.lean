import ShredModel.Model.Nested
import ShredModel.Lemmas.PlanTask
/-!
# Dispatchers with batches: well-formedness, distinct instances, order — at any nesting depth

`BodyOK D b d` is what the outer level needs to know about the body `b` a batch contributes
when the batch is registered with declaration `d`: the body is well-formed for every
instance, everything inside is *covered* by `d` (reads ⊆ reads, writes ⊆ writes — C07's
union), and its instances extend the batch's instance. `wf_nDispatchTask` (outer level from
bodies) and `bodyOK_batchBody` (a body from the inner level) compose to any depth.
-/
namespace Shred
open Task

def lastTag (i : Inst) : SysTag := i.getLast?.getD 0

@[simp] theorem lastTag_snoc (p : Inst) (t : SysTag) : lastTag (p ++ [t]) = t := by
  simp [lastTag]

/-- compatibility of two system instances: their systems' declarations do not conflict -/
def CompatI (D : SysTag → Decl) (x y : Inst) : Prop := ¬ conflictsD (D (lastTag x)) (D (lastTag y))

theorem compatI_symm (D : SysTag → Decl) (x y : Inst) (h : CompatI D x y) : CompatI D y x :=
  fun hc => h (conflictsD_symm hc)

/-- `a` declares no more than `b` -/
def Sub (a b : Decl) : Prop := (∀ x, x ∈ a.reads → x ∈ b.reads) ∧ (∀ x, x ∈ a.writes → x ∈ b.writes)

theorem Sub.refl (a : Decl) : Sub a a := ⟨fun _ h => h, fun _ h => h⟩
theorem Sub.trans {a b c : Decl} (h1 : Sub a b) (h2 : Sub b c) : Sub a c :=
  ⟨fun x h => h2.1 x (h1.1 x h), fun x h => h2.2 x (h1.2 x h)⟩

theorem conflictsD_mono {a a' b b' : Decl} (ha : Sub a a') (hb : Sub b b') (h : conflictsD a b) :
    conflictsD a' b' := by
  unfold conflictsD at *
  rcases h with ⟨x, hx, hy⟩ | ⟨x, hx, hy⟩
  · left
    refine ⟨x, ha.2 x hx, ?_⟩
    rcases hy with hy | hy
    · exact Or.inl (hb.2 x hy)
    · exact Or.inr (hb.1 x hy)
  · right
    exact ⟨x, ha.1 x hx, hb.2 x hy⟩

structure BodyOK (D : SysTag → Decl) (b : Body) (d : Decl) : Prop where
  wf : ∀ inst, WF (CompatI D) (b inst)
  cover : ∀ inst y, y ∈ (b inst).sys → Sub (D (lastTag y)) d
  under : ∀ inst y, y ∈ (b inst).sys → ∃ rest, rest ≠ [] ∧ y = inst ++ rest
  nodup : ∀ inst, (b inst).sys.Nodup

def BodiesOK (D : SysTag → Decl) (bs : List (SysTag × Body)) : Prop :=
  ∀ t b, findBody bs t = some b → BodyOK D b (D t)

/-- groups of a stage never hold conflicting systems (on the executed table) -/
def IsoTable (D : SysTag → Decl) (stages : Table (List SysTag)) : Prop :=
  ∀ st, st ∈ stages → ∀ (i j : Nat) (gi gj : List SysTag), st[i]? = some gi → st[j]? = some gj → i ≠ j →
    ∀ a, a ∈ gi → ∀ c, c ∈ gj → ¬ conflictsD (D a) (D c)

/-! ### instances of the nested task -/

theorem sys_leafOf (bs : List (SysTag × Body)) (pfx : Inst) (t : SysTag) :
    (leafOf bs pfx t).sys = (pfx ++ [t]) ::
      (match findBody bs t with | some b => (b (pfx ++ [t])).sys | none => []) := by
  unfold leafOf
  cases findBody bs t <;> rfl

theorem sys_nGroupTask (bs : List (SysTag × Body)) (pfx : Inst) (g : List SysTag) :
    (nGroupTask bs pfx g).sys = g.flatMap fun t => (leafOf bs pfx t).sys := by
  unfold nGroupTask
  rw [sys_seqN]
  induction g with
  | nil => rfl
  | cons t g ih => simp [List.flatMap_cons, ih]

theorem sys_nStageTask (par : Bool) (bs : List (SysTag × Body)) (pfx : Inst) (st : List (List SysTag)) :
    (nStageTask par bs pfx st).sys = st.flatten.flatMap fun t => (leafOf bs pfx t).sys := by
  unfold nStageTask
  have : ∀ (l : List (List SysTag)), (l.map (nGroupTask bs pfx)).flatMap Task.sys
      = l.flatten.flatMap fun t => (leafOf bs pfx t).sys := by
    intro l
    induction l with
    | nil => rfl
    | cons g l ih => simp [List.flatMap_cons, sys_nGroupTask, ih, List.flatMap_append]
  cases par
  · simp only [Bool.false_eq_true, ↓reduceIte, sys_seqN]; exact this st
  · simp only [↓reduceIte, sys_parN]; exact this st

theorem sys_nDispatchTask (par : Bool) (stages : Table (List SysTag)) (tl : List SysTag)
    (bs : List (SysTag × Body)) (pfx : Inst) :
    (nDispatchTask par stages tl bs pfx).sys =
      (stages.flatten.flatten.flatMap fun t => (leafOf bs pfx t).sys) ++ tl.map (pfx ++ [·]) := by
  unfold nDispatchTask
  simp only [Task.sys, sys_seqN]
  congr 1
  · induction stages with
    | nil => rfl
    | cons st sts ih =>
      simp [List.flatMap_cons, sys_nStageTask, ih, List.flatMap_append]
  · induction tl with
    | nil => rfl
    | cons t tl ih => simp [List.flatMap_cons, Task.sys, ih]

/-- whatever sits under a staged system (itself, or inside it if it is a batch) declares no more
than that system -/
theorem cover_leafOf {D : SysTag → Decl} {bs : List (SysTag × Body)} (hbs : BodiesOK D bs) (pfx : Inst)
    (t : SysTag) (y : Inst) (hy : y ∈ (leafOf bs pfx t).sys) : Sub (D (lastTag y)) (D t) := by
  rw [sys_leafOf] at hy
  rcases List.mem_cons.mp hy with rfl | hy
  · simp [Sub.refl]
  · cases hb : findBody bs t with
    | none => simp [hb] at hy
    | some b => simp only [hb] at hy; exact (hbs t b hb).cover _ y hy

theorem wf_leafOf {D : SysTag → Decl} {bs : List (SysTag × Body)} (hbs : BodiesOK D bs) (pfx : Inst) (t : SysTag) :
    WF (CompatI D) (leafOf bs pfx t) := by
  unfold leafOf
  cases hb : findBody bs t with
  | none => trivial
  | some b => exact (hbs t b hb).wf _

/-- **the nested plan is well-formed**: isolation of the outer table with respect to the
declarations the batches were registered with, and bodies covered by those declarations -/
theorem wf_nDispatchTask {D : SysTag → Decl} (par : Bool) {stages : Table (List SysTag)} (tl : List SysTag)
    {bs : List (SysTag × Body)} (hiso : IsoTable D stages) (hbs : BodiesOK D bs) (pfx : Inst) :
    WF (CompatI D) (nDispatchTask par stages tl bs pfx) := by
  unfold nDispatchTask
  refine ⟨wf_seqN _ ?_, wf_seqN _ ?_⟩
  · intro t ht
    obtain ⟨st, hst, rfl⟩ := List.mem_map.mp ht
    have hg : ∀ a, a ∈ st.map (nGroupTask bs pfx) → WF (CompatI D) a := by
      intro a ha
      obtain ⟨g, _, rfl⟩ := List.mem_map.mp ha
      unfold nGroupTask
      apply wf_seqN
      intro c hc
      obtain ⟨x, _, rfl⟩ := List.mem_map.mp hc
      exact wf_leafOf hbs pfx x
    unfold nStageTask
    cases par
    · simp only [Bool.false_eq_true, ↓reduceIte]; exact wf_seqN _ hg
    · simp only [↓reduceIte]
      apply wf_parN _ hg
      rw [List.pairwise_iff_getElem]
      intro i j hi hj hij x hx y hy
      simp only [List.length_map] at hi hj
      simp only [List.getElem_map, sys_nGroupTask] at hx hy
      obtain ⟨a, ha, hxa⟩ := List.mem_flatMap.mp hx
      obtain ⟨c, hc, hyc⟩ := List.mem_flatMap.mp hy
      have hno := hiso st hst i j st[i] st[j] (List.getElem?_eq_getElem hi) (List.getElem?_eq_getElem hj)
        (by omega) a ha c hc
      exact fun hcf => hno (conflictsD_mono (cover_leafOf hbs pfx a x hxa) (cover_leafOf hbs pfx c y hyc) hcf)
  · intro t ht
    obtain ⟨x, _, rfl⟩ := List.mem_map.mp ht
    trivial

end Shred

namespace Shred
open Task

/-! ### distinct instances -/

theorem nodup_map_of_inj {α β : Type} (f : α → β) (hf : ∀ a b, f a = f b → a = b) {l : List α} (h : l.Nodup) :
    (l.map f).Nodup := by
  induction l with
  | nil => simp
  | cons a l ih =>
    simp only [List.map_cons, List.nodup_cons] at *
    refine ⟨?_, ih h.2⟩
    intro hm
    obtain ⟨b, hb, hab⟩ := List.mem_map.mp hm
    exact h.1 (hf _ _ hab ▸ hb)

theorem nodup_flatMap_of_key {α β γ : Type} (l : List α) (f : α → List β) (key : β → γ) (k : α → γ)
    (hl : (l.map k).Nodup) (hf : ∀ a, a ∈ l → (f a).Nodup) (hk : ∀ a, a ∈ l → ∀ b, b ∈ f a → key b = k a) :
    (l.flatMap f).Nodup := by
  induction l with
  | nil => simp
  | cons a l ih =>
    simp only [List.flatMap_cons]
    simp only [List.map_cons, List.nodup_cons] at hl
    apply List.nodup_append.mpr
    refine ⟨hf a (by simp), ih hl.2 (fun a' ha' => hf a' (by simp [ha'])) (fun a' ha' => hk a' (by simp [ha'])), ?_⟩
    intro x hx y hy hxy
    subst hxy
    obtain ⟨a', ha', hya'⟩ := List.mem_flatMap.mp hy
    have h1 := hk a (by simp) x hx
    have h2 := hk a' (by simp [ha']) x hya'
    exact hl.1 (List.mem_map.mpr ⟨a', ha', by rw [← h2, h1]⟩)

/-- every instance under the staged system `t` (prefix `pfx`) starts with `pfx ++ [t]` -/
theorem key_leafOf {D : SysTag → Decl} {bs : List (SysTag × Body)} (hbs : BodiesOK D bs) (pfx : Inst)
    (t : SysTag) (y : Inst) (hy : y ∈ (leafOf bs pfx t).sys) : ∃ rest, y = pfx ++ t :: rest := by
  rw [sys_leafOf] at hy
  rcases List.mem_cons.mp hy with rfl | hy
  · exact ⟨[], by simp⟩
  · cases hb : findBody bs t with
    | none => simp [hb] at hy
    | some b =>
      simp only [hb] at hy
      obtain ⟨rest, _, rfl⟩ := (hbs t b hb).under _ y hy
      exact ⟨rest, by simp⟩

theorem nodup_leafOf {D : SysTag → Decl} {bs : List (SysTag × Body)} (hbs : BodiesOK D bs) (pfx : Inst)
    (t : SysTag) : (leafOf bs pfx t).sys.Nodup := by
  rw [sys_leafOf]
  cases hb : findBody bs t with
  | none => simp
  | some b =>
    simp only []
    refine List.nodup_cons.mpr ⟨?_, (hbs t b hb).nodup _⟩
    intro hmem
    obtain ⟨rest, hne, he⟩ := (hbs t b hb).under _ _ hmem
    have := congrArg List.length he
    simp at this
    cases rest with
    | nil => exact hne rfl
    | cons _ _ => simp at this

theorem getElem?_prefix (pfx : Inst) (t : SysTag) (rest : Inst) : (pfx ++ t :: rest)[pfx.length]? = some t := by
  simp

/-- **distinct instances**: distinct tags at this level, bodies with distinct instances that
extend their batch's instance -/
theorem nodup_nDispatchTask {D : SysTag → Decl} (par : Bool) {stages : Table (List SysTag)} {tl : List SysTag}
    {bs : List (SysTag × Body)} (htags : (stages.flatten.flatten ++ tl).Nodup) (hbs : BodiesOK D bs) (pfx : Inst) :
    (nDispatchTask par stages tl bs pfx).sys.Nodup := by
  rw [sys_nDispatchTask]
  obtain ⟨hst, htl, hdisj⟩ := List.nodup_append.mp htags
  apply List.nodup_append.mpr
  refine ⟨?_, ?_, ?_⟩
  · apply nodup_flatMap_of_key _ _ (fun y : Inst => y[pfx.length]?) (fun t => some t)
    · exact nodup_map_of_inj _ (fun a b h => by simpa using h) hst
    · intro t _; exact nodup_leafOf hbs pfx t
    · intro t _ y hy
      obtain ⟨rest, rfl⟩ := key_leafOf hbs pfx t y hy
      exact getElem?_prefix pfx t rest
  · exact nodup_map_of_inj _ (fun a b h => by simpa using h) htl
  · intro x hx y hy hxy
    subst hxy
    obtain ⟨t, ht, hxt⟩ := List.mem_flatMap.mp hx
    obtain ⟨u, hu, rfl⟩ := List.mem_map.mp hy
    obtain ⟨rest, he⟩ := key_leafOf hbs pfx t _ hxt
    have h1 : (pfx ++ [u])[pfx.length]? = some u := by simp
    rw [he, getElem?_prefix] at h1
    cases h1
    exact hdisj t ht t hu rfl

/-! ### the body of a batch, from the inner level -/

theorem sys_iterBody (inner : Inst → Task Inst) (inst : Inst) (n i : Nat) :
    (iterBody inner inst n i).sys = (List.range' i n).flatMap fun j => (inner (inst ++ [j])).sys := by
  induction n generalizing i with
  | zero => rfl
  | succ n ih =>
    simp only [iterBody, Task.sys, ih, List.range'_succ, List.flatMap_cons]

theorem wf_iterBody {C : Inst → Inst → Prop} (inner : Inst → Task Inst) (h : ∀ p, WF C (inner p)) (inst : Inst)
    (n i : Nat) : WF C (iterBody inner inst n i) := by
  induction n generalizing i with
  | zero => trivial
  | succ n ih => exact ⟨h _, ih _⟩

/-- **C07, composition step**: the body of a batch whose inner dispatcher has an isolated
table, no thread-local systems (this is where the open finding KF1 enters), distinct tags and
well-behaved inner batches is well-behaved with respect to any declaration `d` that covers
every inner system's declaration — in particular the one `add_batch` computes. -/
theorem bodyOK_batchBody {D : SysTag → Decl} (par : Bool) {stages : Table (List SysTag)}
    {bs : List (SysTag × Body)} (hiso : IsoTable D stages) (htags : stages.flatten.flatten.Nodup)
    (hbs : BodiesOK D bs) (n : Nat) (d : Decl) (hd : ∀ t, t ∈ stages.flatten.flatten → Sub (D t) d) :
    BodyOK D (batchBody par stages [] bs n) d := by
  have hsys : ∀ inst y, y ∈ (batchBody par stages [] bs n inst).sys →
      ∃ j t, t ∈ stages.flatten.flatten ∧ y ∈ (leafOf bs (inst ++ [j]) t).sys := by
    intro inst y hy
    unfold batchBody at hy
    rw [sys_iterBody] at hy
    obtain ⟨j, _, hyj⟩ := List.mem_flatMap.mp hy
    rw [sys_nDispatchTask] at hyj
    simp only [List.map_nil, List.append_nil] at hyj
    obtain ⟨t, ht, hyt⟩ := List.mem_flatMap.mp hyj
    exact ⟨j, t, ht, hyt⟩
  refine ⟨?_, ?_, ?_, ?_⟩
  · intro inst
    exact wf_iterBody _ (fun p => wf_nDispatchTask par [] hiso hbs p) inst n 0
  · intro inst y hy
    obtain ⟨j, t, ht, hyt⟩ := hsys inst y hy
    exact (cover_leafOf hbs _ t y hyt).trans (hd t ht)
  · intro inst y hy
    obtain ⟨j, t, _, hyt⟩ := hsys inst y hy
    obtain ⟨rest, rfl⟩ := key_leafOf hbs _ t y hyt
    exact ⟨j :: t :: rest, by simp, by simp⟩
  · intro inst
    unfold batchBody
    rw [sys_iterBody]
    apply nodup_flatMap_of_key _ _ (fun y : Inst => y[inst.length]?) (fun j => some j)
    · exact nodup_map_of_inj _ (fun a b h => by simpa using h) (List.nodup_range' (step := 1))
    · intro j _
      exact nodup_nDispatchTask par (by simpa using htags) hbs _
    · intro j _ y hy
      rw [sys_nDispatchTask] at hy
      simp only [List.map_nil, List.append_nil] at hy
      obtain ⟨t, _, hyt⟩ := List.mem_flatMap.mp hy
      obtain ⟨rest, rfl⟩ := key_leafOf hbs _ t y hyt
      simp

end Shred

namespace Shred
open Task

/-! ### order -/

/-- layout order on the executed table: an earlier stage, or earlier in the same group -/
def TOrdered (stages : Table (List SysTag)) (A B : SysTag) : Prop :=
  (∃ (sa sb : Nat) (sta stb : List (List SysTag)), sa < sb ∧ stages[sa]? = some sta ∧ stages[sb]? = some stb ∧ A ∈ sta.flatten ∧ B ∈ stb.flatten) ∨
  (∃ (s : Nat) (st : List (List SysTag)) (k : Nat) (g : List SysTag) (i j : Nat),
    stages[s]? = some st ∧ st[k]? = some g ∧ i < j ∧ g[i]? = some A ∧ g[j]? = some B)

theorem before_stage_of_mem {par : Bool} {bs : List (SysTag × Body)} {pfx : Inst} {st : List (List SysTag)}
    {g : List SysTag} (hg : g ∈ st) {x y : Inst} (h : Before (nGroupTask bs pfx g) x y) :
    Before (nStageTask par bs pfx st) x y := by
  unfold nStageTask
  cases par
  · simp only [Bool.false_eq_true, ↓reduceIte]
    exact before_seqN_of_mem (List.mem_map.mpr ⟨g, hg, rfl⟩) h
  · simp only [↓reduceIte]
    exact before_parN_of_mem (List.mem_map.mpr ⟨g, hg, rfl⟩) h

theorem before_dispatch_of_stage {par : Bool} {stages : Table (List SysTag)} {tl : List SysTag}
    {bs : List (SysTag × Body)} {pfx : Inst} {st : List (List SysTag)} (hst : st ∈ stages) {x y : Inst}
    (h : Before (nStageTask par bs pfx st) x y) : Before (nDispatchTask par stages tl bs pfx) x y := by
  unfold nDispatchTask
  exact .seqL (before_seqN_of_mem (List.mem_map.mpr ⟨st, hst, rfl⟩) h)

/-- **the layout order is the task order**, for everything under `A` and everything under `B` -/
theorem before_nested_of_ordered (par : Bool) {stages : Table (List SysTag)} (tl : List SysTag)
    (bs : List (SysTag × Body)) (pfx : Inst) {A B : SysTag} (h : TOrdered stages A B) {x y : Inst}
    (hx : x ∈ (leafOf bs pfx A).sys) (hy : y ∈ (leafOf bs pfx B).sys) :
    Before (nDispatchTask par stages tl bs pfx) x y := by
  rcases h with ⟨sa, sb, sta, stb, hlt, hsa, hsb, hA, hB⟩ | ⟨s, st, k, g, i, j, hs, hk, hij, hi, hj⟩
  · unfold nDispatchTask
    apply Before.seqL
    apply before_seqN_of_lt (i := sa) (j := sb) (a := nStageTask par bs pfx sta) (b := nStageTask par bs pfx stb)
    · simp [List.getElem?_map, hsa]
    · simp [List.getElem?_map, hsb]
    · exact hlt
    · rw [sys_nStageTask]; exact List.mem_flatMap.mpr ⟨A, hA, hx⟩
    · rw [sys_nStageTask]; exact List.mem_flatMap.mpr ⟨B, hB, hy⟩
  · apply before_dispatch_of_stage (List.mem_of_getElem? hs)
    apply before_stage_of_mem (List.mem_of_getElem? hk)
    unfold nGroupTask
    apply before_seqN_of_lt (i := i) (j := j) (a := leafOf bs pfx A) (b := leafOf bs pfx B)
    · simp [List.getElem?_map, hi]
    · simp [List.getElem?_map, hj]
    · exact hij
    · exact hx
    · exact hy

/-- everything staged (and everything inside staged batches) is before every thread-local system -/
theorem before_nested_tl (par : Bool) {stages : Table (List SysTag)} {tl : List SysTag}
    (bs : List (SysTag × Body)) (pfx : Inst) {A u : SysTag} (hA : A ∈ stages.flatten.flatten) (hu : u ∈ tl)
    {x : Inst} (hx : x ∈ (leafOf bs pfx A).sys) :
    Before (nDispatchTask par stages tl bs pfx) x (pfx ++ [u]) := by
  unfold nDispatchTask
  apply Before.here
  · have := sys_nDispatchTask par stages [] bs pfx
    unfold nDispatchTask at this
    simp only [Task.sys, List.map_nil, seqN, List.append_nil] at this
    rw [this]
    exact List.mem_flatMap.mpr ⟨A, hA, hx⟩
  · rw [sys_seqN]
    exact List.mem_flatMap.mpr ⟨Task.leaf (pfx ++ [u]), List.mem_map.mpr ⟨u, hu, rfl⟩, by simp [Task.sys]⟩

theorem before_nested_tl_order (par : Bool) (stages : Table (List SysTag)) {tl : List SysTag}
    (bs : List (SysTag × Body)) (pfx : Inst) {i j : Nat} {u v : SysTag}
    (hi : tl[i]? = some u) (hj : tl[j]? = some v) (hij : i < j) :
    Before (nDispatchTask par stages tl bs pfx) (pfx ++ [u]) (pfx ++ [v]) := by
  unfold nDispatchTask
  apply Before.seqR
  apply before_seqN_of_lt (i := i) (j := j) (a := Task.leaf (pfx ++ [u])) (b := Task.leaf (pfx ++ [v]))
  · simp [List.getElem?_map, hi]
  · simp [List.getElem?_map, hj]
  · exact hij
  · simp [Task.sys]
  · simp [Task.sys]

/-- the order inside a batch's body is an order of the enclosing dispatcher -/
theorem before_nested_inner (par : Bool) {stages : Table (List SysTag)} (tl : List SysTag)
    {bs : List (SysTag × Body)} (pfx : Inst) {t : SysTag} {b : Body} (ht : t ∈ stages.flatten.flatten)
    (hb : findBody bs t = some b) {x y : Inst} (h : Before (b (pfx ++ [t])) x y) :
    Before (nDispatchTask par stages tl bs pfx) x y := by
  obtain ⟨g, hg, htg⟩ := List.mem_flatten.mp ht
  obtain ⟨st, hst, hgst⟩ := List.mem_flatten.mp hg
  apply before_dispatch_of_stage hst
  apply before_stage_of_mem hgst
  unfold nGroupTask
  apply before_seqN_of_mem (a := leafOf bs pfx t) (List.mem_map.mpr ⟨t, htg, rfl⟩)
  unfold leafOf
  rw [hb]
  exact .scope h

theorem before_iterBody_same {inner : Inst → Task Inst} {inst : Inst} {n i j : Nat} (hj : i ≤ j ∧ j < i + n)
    {x y : Inst} (h : Before (inner (inst ++ [j])) x y) : Before (iterBody inner inst n i) x y := by
  induction n generalizing i with
  | zero => omega
  | succ n ih =>
    by_cases hij : i = j
    · subst hij; exact .seqL h
    · exact .seqR (ih (by omega))

theorem before_iterBody_lt {inner : Inst → Task Inst} {inst : Inst} {n i j j' : Nat}
    (hj : i ≤ j) (hjj : j < j') (hj' : j' < i + n) {x y : Inst}
    (hx : x ∈ (inner (inst ++ [j])).sys) (hy : y ∈ (inner (inst ++ [j'])).sys) :
    Before (iterBody inner inst n i) x y := by
  induction n generalizing i with
  | zero => omega
  | succ n ih =>
    by_cases hij : i = j
    · subst hij
      refine .here hx ?_
      rw [sys_iterBody]
      exact List.mem_flatMap.mpr ⟨j', by simp only [List.mem_range'_1]; omega, hy⟩
    · exact .seqR (ih (by omega) (by omega))

/-! ### inner dispatches of one batch run one after the other -/

theorem iterBody_sys_mem (inner : Inst → Task Inst) (inst : Inst) {x : Inst} :
    ∀ (k i a : Nat), a < k → x ∈ (inner (inst ++ [i + a])).sys → x ∈ (iterBody inner inst k i).sys
  | 0, _, _, h, _ => by omega
  | k + 1, i, 0, _, hx => by
      simp only [iterBody, Task.sys, List.mem_append]
      exact Or.inl (by simpa using hx)
  | k + 1, i, a + 1, h, hx => by
      simp only [iterBody, Task.sys, List.mem_append]
      refine Or.inr (iterBody_sys_mem inner inst k (i + 1) a (by omega) ?_)
      have : i + 1 + a = i + (a + 1) := by omega
      rw [this]; exact hx

/-- everything of inner dispatch `i + a` is ordered before everything of inner dispatch `i + b`, `a < b` -/
theorem iterBody_before (inner : Inst → Task Inst) (inst : Inst) {x y : Inst} :
    ∀ (k i a b : Nat), a < b → b < k → x ∈ (inner (inst ++ [i + a])).sys → y ∈ (inner (inst ++ [i + b])).sys →
      Before (iterBody inner inst k i) x y
  | 0, _, _, _, _, h, _, _ => by omega
  | k + 1, i, 0, b + 1, _, hb, hx, hy => by
      simp only [iterBody]
      refine Before.here (by simpa using hx) (iterBody_sys_mem inner inst k (i + 1) b (by omega) ?_)
      have : i + 1 + b = i + (b + 1) := by omega
      rw [this]; exact hy
  | k + 1, i, a + 1, b + 1, hab, hb, hx, hy => by
      simp only [iterBody]
      refine Before.seqR (iterBody_before inner inst k (i + 1) a b (by omega) (by omega) ?_ ?_)
      · have : i + 1 + a = i + (a + 1) := by omega
        rw [this]; exact hx
      · have : i + 1 + b = i + (b + 1) := by omega
        rw [this]; exact hy
  | k + 1, _, _ + 1, 0, hab, _, _, _ => by omega

end Shred
