import ShredModel.Lemmas.Zip
/-!
# The mirrored five-table builder is an instance of the zipped one

`Zips b z`: the zipped builder `z` has the shape of `b.ids` and each of its cells collects
the five cells of `b` at the same position. `LockStep b`: the five tables have one shape.
Both are invariants of `insert` / `addBarrier`; hence every theorem of `Zip.lean` speaks
about the tables the Rust code really maintains (`ids` = what `Debug` prints, `stages` =
what is executed).
-/
namespace Shred

namespace Table
variable {α : Type}

theorem getD_of_get? {t : Table α} {s g : Nat} {a d : α} (h : t.get? s g = some a) :
    (t.getD s []).getD g d = a := by
  obtain ⟨st, h1, h2⟩ := get?_eq_some.mp h
  simp [List.getD, h1, h2]

theorem get?_lt {t : Table α} {s g : Nat} {a : α} (h : t.get? s g = some a) :
    s < t.length ∧ g < (t.getD s []).length := by
  obtain ⟨st, h1, h2⟩ := get?_eq_some.mp h
  refine ⟨(List.getElem?_eq_some_iff.mp h1).1, ?_⟩
  simp [List.getD, h1, (List.getElem?_eq_some_iff.mp h2).1]

theorem get?_isSome_iff {t : Table α} {s g : Nat} :
    (t.get? s g).isSome ↔ ∃ n, t.shape[s]? = some n ∧ g < n := by
  unfold get?
  rw [shape_getElem?]
  cases h : t[s]? with
  | none => simp
  | some st =>
    simp only [Option.map_some, Option.some.injEq, exists_eq_left']
    constructor
    · intro hs
      cases hg : st[g]? with
      | none => simp [hg] at hs
      | some a => exact (List.getElem?_eq_some_iff.mp hg).1
    · intro hlt
      simp [List.getElem?_eq_getElem hlt]

/-- two tables of the same shape with the same cells are equal -/
theorem ext {t u : Table α} (hshape : t.shape = u.shape) (hcell : ∀ s g, t.get? s g = u.get? s g) :
    t = u := by
  apply List.ext_getElem?
  intro s
  have hs := congrArg (·[s]?) hshape
  simp only [shape_getElem?] at hs
  cases ht : t[s]? with
  | none =>
    cases hu : u[s]? with
    | none => rfl
    | some b => simp [ht, hu] at hs
  | some a =>
    cases hu : u[s]? with
    | none => simp [ht, hu] at hs
    | some b =>
      congr 1
      apply List.ext_getElem?
      intro g
      have := hcell s g
      simpa [get?, ht, hu] using this

end Table

/-- the five tables have one shape -/
structure LockStep (b : StagesBuilder) : Prop where
  reads : b.reads.shape = b.ids.shape
  runningTime : b.runningTime.shape = b.ids.shape
  stages : b.stages.shape = b.ids.shape
  writes : b.writes.shape = b.ids.shape

/-- the five cells at one position, as a zipped group -/
def cellOf (b : StagesBuilder) (s g : Nat) : Option ZGroup :=
  match b.ids.get? s g, b.reads.get? s g, b.writes.get? s g, b.runningTime.get? s g, b.stages.get? s g with
  | some i, some r, some w, some t, some sy => some { ids := i, reads := r, writes := w, time := t, sys := sy }
  | _, _, _, _, _ => none

structure Zips (b : StagesBuilder) (z : ZB) : Prop where
  lock : LockStep b
  barrier : z.barrier = b.barrier
  barrier_le : b.barrier ≤ b.ids.length
  shape : Table.shape z.stages = b.ids.shape
  cell : ∀ s g, Table.get? z.stages s g = cellOf b s g

theorem zips_init : Zips {} {} := by
  refine ⟨⟨rfl, rfl, rfl, rfl⟩, rfl, Nat.le_refl _, rfl, fun s g => ?_⟩
  simp [Table.get?, cellOf]


/-! ### reading side: the column functions of the mirror agree with the zipped functions -/

theorem getD_map {α β} (l : List α) (f : α → β) (i : Nat) (d : β) (a : α) (h : l[i]? = some a) :
    (l.map f).getD i d = f a := by
  simp [List.getD, h]

theorem any_congr_mem {α} {l : List α} {p q : α → Bool} (h : ∀ x, x ∈ l → p x = q x) :
    l.any p = l.any q := by
  rw [Bool.eq_iff_iff]
  simp only [List.any_eq_true]
  constructor
  · rintro ⟨x, hx, hp⟩; exact ⟨x, hx, by rw [← h x hx]; exact hp⟩
  · rintro ⟨x, hx, hq⟩; exact ⟨x, hx, by rw [h x hx]; exact hq⟩

theorem any_range_eq (st : ZStage) (p : ZGroup → Bool) :
    (List.range st.length).any (fun i => match st[i]? with | some g => p g | none => false) = st.any p := by
  rw [Bool.eq_iff_iff]
  simp only [List.any_eq_true, List.mem_range]
  constructor
  · rintro ⟨i, hi, h⟩
    simp [List.getElem?_eq_getElem hi] at h
    exact ⟨st[i], List.getElem_mem hi, h⟩
  · rintro ⟨g, hg, h⟩
    obtain ⟨i, hi, rfl⟩ := List.getElem_of_mem hg
    exact ⟨i, hi, by simp [List.getElem?_eq_getElem hi, h]⟩

theorem findConflictCols_eq (st : ZStage) (nr nw : List ResId) (dep : List Nat) :
    StagesBuilder.findConflictCols (st.map (·.ids)) (st.map (·.reads)) (st.map (·.writes)) nr nw dep
      = zFindConflict st nr nw dep := by
  unfold StagesBuilder.findConflictCols zFindConflict
  simp only [List.length_map]
  have hpred : ∀ i, i ∈ List.range st.length →
      (hit nr nw ((st.map (·.reads)).getD i []) ((st.map (·.writes)).getD i [])
          || inter dep ((st.map (·.ids)).getD i []))
        = (match st[i]? with | some g => resHit nr nw g || depHit dep g | none => false) := by
    intro i hi
    have hi' : i < st.length := List.mem_range.mp hi
    have hg : st[i]? = some st[i] := List.getElem?_eq_getElem hi'
    rw [getD_map st _ i _ _ hg, getD_map st _ i _ _ hg, getD_map st _ i _ _ hg, hg]
    rfl
  have hhits : ((List.range st.length).filter fun g =>
        hit nr nw ((st.map (·.reads)).getD g []) ((st.map (·.writes)).getD g [])
          || inter dep ((st.map (·.ids)).getD g [])) = zHits st nr nw dep := by
    unfold zHits
    exact List.filter_congr hpred
  have hdc : ((List.range st.length).any fun g =>
        !hit nr nw ((st.map (·.reads)).getD g []) ((st.map (·.writes)).getD g [])
          && inter dep ((st.map (·.ids)).getD g [])) = zDepConflict st nr nw dep := by
    unfold zDepConflict
    rw [← any_range_eq]
    apply any_congr_mem
    intro i hi
    have hi' : i < st.length := List.mem_range.mp hi
    have hg : st[i]? = some st[i] := List.getElem?_eq_getElem hi'
    rw [getD_map st _ i _ _ hg, getD_map st _ i _ _ hg, getD_map st _ i _ _ hg, hg]
    rfl
  rw [hhits, hdc]

theorem removeIdsCol_eq (st : ZStage) (dep : List Nat) :
    StagesBuilder.removeIdsCol (st.map (·.ids)) dep = zRemoveIds st dep := by
  unfold StagesBuilder.removeIdsCol zRemoveIds
  rw [List.flatMap_def]


namespace Table
variable {α β : Type}

theorem getD_getElem? (t : Table α) (s g : Nat) : (t.getD s [])[g]? = t.get? s g := by
  unfold get?
  cases h : t[s]? with
  | none => simp [List.getD, h]
  | some st => simp [List.getD, h]

theorem isSome_eq_of_shape {t : Table α} {u : Table β} (h : t.shape = u.shape) (s g : Nat) :
    (t.get? s g).isSome = (u.get? s g).isSome := by
  rw [Bool.eq_iff_iff, get?_isSome_iff, get?_isSome_iff, h]

end Table

theorem cellOf_some {b : StagesBuilder} (hl : LockStep b) {s g : Nat} {i : List SysId}
    (hi : b.ids.get? s g = some i) :
    ∃ r w t sy, b.reads.get? s g = some r ∧ b.writes.get? s g = some w ∧
      b.runningTime.get? s g = some t ∧ b.stages.get? s g = some sy ∧
      cellOf b s g = some { ids := i, reads := r, writes := w, time := t, sys := sy } := by
  have h1 := Table.isSome_eq_of_shape hl.reads s g
  have h2 := Table.isSome_eq_of_shape hl.writes s g
  have h3 := Table.isSome_eq_of_shape hl.runningTime s g
  have h4 := Table.isSome_eq_of_shape hl.stages s g
  rw [hi] at h1 h2 h3 h4
  obtain ⟨r, hr⟩ := Option.isSome_iff_exists.mp h1
  obtain ⟨w, hw⟩ := Option.isSome_iff_exists.mp h2
  obtain ⟨t, ht⟩ := Option.isSome_iff_exists.mp h3
  obtain ⟨sy, hsy⟩ := Option.isSome_iff_exists.mp h4
  exact ⟨r, w, t, sy, hr, hw, ht, hsy, by simp [cellOf, hi, hr, hw, ht, hsy]⟩

theorem cellOf_none {b : StagesBuilder} {s g : Nat} (hi : b.ids.get? s g = none) : cellOf b s g = none := by
  simp [cellOf, hi]

/-- the five columns of a stage are the five projections of the zipped stage -/
theorem cols_eq {b : StagesBuilder} {z : ZB} (hz : Zips b z) (s : Nat) :
    b.ids.getD s [] = (z.stages.getD s []).map (·.ids) ∧
    b.reads.getD s [] = (z.stages.getD s []).map (·.reads) ∧
    b.writes.getD s [] = (z.stages.getD s []).map (·.writes) ∧
    b.runningTime.getD s [] = (z.stages.getD s []).map (·.time) ∧
    b.stages.getD s [] = (z.stages.getD s []).map (·.sys) := by
  have key : ∀ g, (match b.ids.get? s g with
      | some i => ∃ r w t sy, b.reads.get? s g = some r ∧ b.writes.get? s g = some w ∧
          b.runningTime.get? s g = some t ∧ b.stages.get? s g = some sy ∧
          Table.get? z.stages s g = some { ids := i, reads := r, writes := w, time := t, sys := sy }
      | none => b.reads.get? s g = none ∧ b.writes.get? s g = none ∧ b.runningTime.get? s g = none ∧
          b.stages.get? s g = none ∧ Table.get? z.stages s g = none) := by
    intro g
    cases hi : b.ids.get? s g with
    | some i =>
      obtain ⟨r, w, t, sy, hr, hw, ht, hsy, hc⟩ := cellOf_some hz.lock hi
      exact ⟨r, w, t, sy, hr, hw, ht, hsy, by rw [hz.cell, hc]⟩
    | none =>
      have h1 := Table.isSome_eq_of_shape hz.lock.reads s g
      have h2 := Table.isSome_eq_of_shape hz.lock.writes s g
      have h3 := Table.isSome_eq_of_shape hz.lock.runningTime s g
      have h4 := Table.isSome_eq_of_shape hz.lock.stages s g
      rw [hi] at h1 h2 h3 h4
      simp at h1 h2 h3 h4
      exact ⟨h1, h2, h3, h4, by rw [hz.cell, cellOf_none hi]⟩
  refine ⟨?_, ?_, ?_, ?_, ?_⟩ <;>
  · apply List.ext_getElem?
    intro g
    rw [Table.getD_getElem?, List.getElem?_map, Table.getD_getElem?]
    have := key g
    cases hi : b.ids.get? s g with
    | some i =>
      rw [hi] at this
      obtain ⟨r, w, t, sy, hr, hw, ht, hsy, hc⟩ := this
      simp [hc, hr, hw, ht, hsy]
    | none =>
      rw [hi] at this
      obtain ⟨hr, hw, ht, hsy, hc⟩ := this
      simp [hc, hr, hw, ht, hsy]

theorem zips_length {b : StagesBuilder} {z : ZB} (hz : Zips b z) :
    z.stages.length = b.ids.length ∧ b.stages.length = b.ids.length := by
  have h1 := congrArg List.length hz.shape
  have h2 := congrArg List.length hz.lock.stages
  simp at h1 h2
  exact ⟨h1, h2⟩


/-- the join policy of the mirror, on a zipped stage -/
def zJoinOk (st : ZStage) (g t : Nat) : Bool :=
  StagesBuilder.joinOkCols (st.map (·.sys)) (st.map (·.time)) g t

section reading
variable {b : StagesBuilder} {z : ZB} (hz : Zips b z)
include hz

theorem findConflict_sim (s : Nat) (nr nw : List ResId) (dep : List Nat) :
    b.findConflict s nr nw dep = zFindConflict (z.stages.getD s []) nr nw dep := by
  obtain ⟨h1, h2, h3, _, _⟩ := cols_eq hz s
  unfold StagesBuilder.findConflict
  rw [h1, h2, h3, findConflictCols_eq]

theorem removeIds_sim (s : Nat) (dep : List Nat) :
    b.removeIds s dep = zRemoveIds (z.stages.getD s []) dep := by
  obtain ⟨h1, _, _, _, _⟩ := cols_eq hz s
  unfold StagesBuilder.removeIds
  rw [h1, removeIdsCol_eq]

theorem joinOk_sim (s g t : Nat) : b.joinOk s g t = zJoinOk (z.stages.getD s []) g t := by
  obtain ⟨_, _, _, h4, h5⟩ := cols_eq hz s
  unfold StagesBuilder.joinOk zJoinOk
  rw [h4, h5]

theorem scan_sim (nr nw : List ResId) (t : Nat) (n i : Nat) (dep : List Nat)
    (hn : n = z.stages.length - i) :
    b.scan nr nw t (List.range' i n) dep = zScan zJoinOk nr nw t i (z.stages.drop i) dep := by
  induction n generalizing i dep with
  | zero =>
    have : z.stages.drop i = [] := List.drop_eq_nil_of_le (by omega)
    simp [StagesBuilder.scan, zScan, this]
  | succ n ih =>
    have hi : i < z.stages.length := by omega
    have hdrop : z.stages.drop i = z.stages[i] :: z.stages.drop (i + 1) := by
      rw [List.drop_eq_getElem_cons hi]
    have hget : z.stages.getD i [] = z.stages[i] := by simp [List.getD, List.getElem?_eq_getElem hi]
    rw [List.range'_succ, hdrop]
    simp only [StagesBuilder.scan, zScan, zVerdict]
    rw [findConflict_sim hz, removeIds_sim hz, hget]
    cases hc : zFindConflict z.stages[i] nr nw dep with
    | none => rfl
    | single g =>
      simp only []
      rw [joinOk_sim hz, hget]
      cases zJoinOk z.stages[i] g t with
      | true => rfl
      | false => exact ih (i + 1) _ (by omega)
    | multiple => exact ih (i + 1) _ (by omega)

theorem prepDep_sim (dep : List Nat) : b.prepDep dep = zPrepDep dedup z dep := by
  unfold StagesBuilder.prepDep zPrepDep
  rw [hz.barrier]
  have hlen := (zips_length hz).1
  have hle : b.barrier ≤ z.stages.length := by rw [hlen]; exact hz.barrier_le
  generalize dedup dep = d0
  generalize b.barrier = k at hle
  induction k with
  | zero => simp [zPending]
  | succ k ih =>
    have hk : k < z.stages.length := by omega
    rw [List.range_succ, List.foldl_append, ih (by omega)]
    simp only [List.foldl]
    rw [removeIds_sim hz]
    have : z.stages.take (k + 1) = z.stages.take k ++ [z.stages[k]] := by
      rw [List.take_succ]; simp [List.getElem?_eq_getElem hk]
    have hget : z.stages.getD k [] = z.stages[k] := by simp [List.getD, List.getElem?_eq_getElem hk]
    rw [hget]
    unfold zPending
    rw [this, List.foldl_append]
    rfl

theorem insertionTarget_sim (nr nw : List ResId) (dep : List Nat) (t : Nat) :
    b.insertionTarget nr nw dep t = zScan zJoinOk nr nw t z.barrier (z.stages.drop z.barrier) dep := by
  unfold StagesBuilder.insertionTarget
  rw [hz.barrier]
  have h1 := (zips_length hz).1
  have h2 := (zips_length hz).2
  exact scan_sim hz nr nw t _ _ dep (by omega)

end reading

/-! ### writing side -/

def emptyG : ZGroup := { ids := [], reads := [], writes := [], time := 0, sys := [] }

theorem emptyG_push (id sys : Nat) (nr : List ResId) (d : Decl) :
    emptyG.push id sys nr d = newGroup id sys nr d := by
  simp [emptyG, ZGroup.push, newGroup]

/-- the five `push`/`extend`/`+=` lines that end `insert` -/
def StagesBuilder.pushAll (b : StagesBuilder) (stage group : Nat) (id : SysId) (sys : SysTag)
    (reads writes : List ResId) (t : Nat) : StagesBuilder :=
  { b with ids := b.ids.update stage group (· ++ [id]),
           reads := b.reads.update stage group (· ++ reads),
           runningTime := b.runningTime.update stage group (· + t),
           stages := b.stages.update stage group (· ++ [sys]),
           writes := b.writes.update stage group (· ++ writes) }

theorem zips_addStage {b : StagesBuilder} {z : ZB} (hz : Zips b z) :
    Zips b.addStage { z with stages := Table.addStage z.stages } := by
  have hl := hz.lock
  refine ⟨⟨?_, ?_, ?_, ?_⟩, hz.barrier, ?_, ?_, ?_⟩
  · simp only [StagesBuilder.addStage, Table.shape_addStage, hl.reads]
  · simp only [StagesBuilder.addStage, Table.shape_addStage, hl.runningTime]
  · simp only [StagesBuilder.addStage, Table.shape_addStage, hl.stages]
  · simp only [StagesBuilder.addStage, Table.shape_addStage, hl.writes]
  · have := hz.barrier_le
    simp only [StagesBuilder.addStage, Table.addStage, List.length_append, List.length_singleton]
    omega
  · simp only [StagesBuilder.addStage, Table.shape_addStage, hz.shape]
  · intro s g
    simp only [StagesBuilder.addStage, cellOf, Table.get?_addStage]
    exact hz.cell s g

theorem zips_addGroup {b : StagesBuilder} {z : ZB} (hz : Zips b z) (s : Nat) :
    Zips (b.addGroup s) { z with stages := Table.addGroup z.stages s emptyG } := by
  have hl := hz.lock
  refine ⟨⟨?_, ?_, ?_, ?_⟩, hz.barrier, ?_, ?_, ?_⟩
  · simp only [StagesBuilder.addGroup, Table.shape_addGroup, hl.reads]
  · simp only [StagesBuilder.addGroup, Table.shape_addGroup, hl.runningTime]
  · simp only [StagesBuilder.addGroup, Table.shape_addGroup, hl.stages]
  · simp only [StagesBuilder.addGroup, Table.shape_addGroup, hl.writes]
  · have := hz.barrier_le
    simp only [StagesBuilder.addGroup, Table.addGroup, List.length_modify]
    exact this
  · simp only [StagesBuilder.addGroup, Table.shape_addGroup, hz.shape]
  · intro s' g'
    simp only [StagesBuilder.addGroup, cellOf, Table.get?_addGroup', hl.reads, hl.runningTime,
      hl.stages, hl.writes, hz.shape]
    by_cases hc : s' = s ∧ b.ids.shape[s]? = some g'
    · simp [hc, emptyG]
    · simp only [hc, if_false]
      exact hz.cell s' g'

theorem zips_pushAll {b : StagesBuilder} {z : ZB} (hz : Zips b z) (s g : Nat) (id sys : Nat)
    (nr : List ResId) (d : Decl) :
    Zips (b.pushAll s g id sys nr d.writes d.time)
      { z with stages := Table.update z.stages s g (·.push id sys nr d) } := by
  have hl := hz.lock
  refine ⟨⟨?_, ?_, ?_, ?_⟩, hz.barrier, ?_, ?_, ?_⟩
  · simp only [StagesBuilder.pushAll, Table.shape_update, hl.reads]
  · simp only [StagesBuilder.pushAll, Table.shape_update, hl.runningTime]
  · simp only [StagesBuilder.pushAll, Table.shape_update, hl.stages]
  · simp only [StagesBuilder.pushAll, Table.shape_update, hl.writes]
  · have := hz.barrier_le
    simp only [StagesBuilder.pushAll, Table.update, List.length_modify]
    exact this
  · simp only [StagesBuilder.pushAll, Table.shape_update, hz.shape]
  · intro s' g'
    simp only [StagesBuilder.pushAll, cellOf, Table.get?_update]
    by_cases hc : s' = s ∧ g' = g
    · obtain ⟨rfl, rfl⟩ := hc
      simp only [and_self, if_true]
      rw [hz.cell]
      cases hi : b.ids.get? s' g' with
      | none => simp [cellOf, hi]
      | some i =>
        obtain ⟨r, w, t, sy, hr, hw, ht, hsy, hcell⟩ := cellOf_some hl hi
        simp [hcell, hr, hw, ht, hsy, ZGroup.push]
    · simp only [hc, if_false]
      exact hz.cell s' g'

/-- **Simulation.** One `insert` on the five tables is one `insert` on the zipped view, with the
mirror's join policy, `sortDedup` and `dedup`. -/
theorem insert_sim {b : StagesBuilder} {z : ZB} (hz : Zips b z) (dep : List Nat) (id sys : Nat) (d : Decl) :
    Zips (b.insert dep id sys d) (z.insert zJoinOk sortDedup dedup dep id sys d) := by
  have htarget : b.insertionTarget (sortDedup d.reads) d.writes (b.prepDep dep) d.time
      = z.target zJoinOk dedup dep (sortDedup d.reads) d := by
    rw [insertionTarget_sim hz, prepDep_sim hz]; rfl
  have hlen := zips_length hz
  unfold StagesBuilder.insert ZB.insert
  simp only [htarget]
  cases htg : z.target zJoinOk dedup dep (sortDedup d.reads) d with
  | stage s =>
    simp only [ZB.place]
    have h1 := zips_addGroup hz s
    have h2 := zips_pushAll h1 s (b.ids.getD s []).length id sys (sortDedup d.reads) d
    -- the zipped side: addGroup emptyG then push = addGroup newGroup (or no-op when out of range)
    have hzz : Table.update (Table.addGroup z.stages s emptyG) s (b.ids.getD s []).length
          (·.push id sys (sortDedup d.reads) d)
        = z.stages.modify s (· ++ [newGroup id sys (sortDedup d.reads) d]) := by
      cases hs : z.stages[s]? with
      | none =>
        have hlt : ¬ s < z.stages.length := fun h => by simp [List.getElem?_eq_getElem h] at hs
        simp [Table.update, Table.addGroup, List.modify_eq_self (Nat.le_of_not_lt hlt)]
      | some st =>
        have hcol := (cols_eq hz s).1
        have hlenst : (b.ids.getD s []).length = st.length := by
          rw [hcol]; simp [List.getD, hs]
        rw [hlenst, Table.addGroup_update _ _ _ _ _ hs, emptyG_push]
        rfl
    rw [hzz] at h2
    exact h2
  | group s g =>
    simp only [ZB.place]
    exact zips_pushAll hz s g id sys (sortDedup d.reads) d
  | newStage =>
    simp only [ZB.place]
    have h1 := zips_addGroup (zips_addStage hz) b.stages.length
    have h2 := zips_pushAll h1 b.stages.length 0 id sys (sortDedup d.reads) d
    have hzz : Table.update (Table.addGroup (Table.addStage z.stages) b.stages.length emptyG)
          b.stages.length 0 (·.push id sys (sortDedup d.reads) d)
        = z.stages ++ [[newGroup id sys (sortDedup d.reads) d]] := by
      have hl : b.stages.length = z.stages.length := by omega
      rw [hl]
      have hs : (Table.addStage z.stages)[z.stages.length]? = some [] := by
        simp [Table.addStage]
      have := Table.addGroup_update (Table.addStage z.stages) z.stages.length emptyG
        (·.push id sys (sortDedup d.reads) d) [] hs
      simp only [List.length_nil] at this
      rw [this, emptyG_push, Table.addStage_addGroup]
    rw [hzz] at h2
    exact h2

theorem addBarrier_sim {b : StagesBuilder} {z : ZB} (hz : Zips b z) : Zips b.addBarrier z.addBarrier := by
  have hlen := zips_length hz
  refine ⟨⟨hz.lock.reads, hz.lock.runningTime, hz.lock.stages, hz.lock.writes⟩, ?_, ?_, hz.shape, hz.cell⟩
  · simp [StagesBuilder.addBarrier, ZB.addBarrier]; omega
  · simp [StagesBuilder.addBarrier]; omega

#print axioms insert_sim
end Shred
