import ShredModel.Lemmas.ZipMore
/-!
# Positions are stable; being placed = being counted

* `inStage_of_mem_allIds`, `mem_allIds_of_inStage`
* `inStage_place_inv`: `place` creates no position for an old id
* with ids occurring once, the stage of an id is unique (`inStage_unique`)
-/
namespace Shred

theorem mem_allIds_iff {b : ZB} {x : Nat} : x ∈ b.allIds ↔ ∃ s, InStage b s x := by
  unfold ZB.allIds ZStage.ids InStage
  simp only [List.mem_flatMap]
  constructor
  · rintro ⟨st, hst, g, hg, hx⟩
    obtain ⟨s, hs⟩ := List.mem_iff_getElem?.mp hst
    exact ⟨s, st, g, hs, hg, hx⟩
  · rintro ⟨s, st, g, hs, hg, hx⟩
    exact ⟨st, List.mem_of_getElem? hs, g, hg, hx⟩

/-- after `place`, an id other than the new one sits where it sat before -/
theorem inStage_place_inv (b : ZB) (tg : InsertionTarget) (id sys : Nat) (nr : List ResId) (d : Decl)
    {s x : Nat} (hx : x ≠ id) (h : InStage (b.place tg id sys nr d) s x) : InStage b s x := by
  obtain ⟨st', g', hs', hg', hxg⟩ := h
  cases tg with
  | newStage =>
    simp only [ZB.place] at hs'
    by_cases hlt : s < b.stages.length
    · rw [List.getElem?_append_left hlt] at hs'
      exact ⟨st', g', hs', hg', hxg⟩
    · rw [List.getElem?_append_right (by omega)] at hs'
      cases hh : s - b.stages.length with
      | zero =>
        simp [hh] at hs'; subst hs'
        simp at hg'; subst hg'
        simp [newGroup] at hxg; exact absurd hxg hx
      | succ n => simp [hh] at hs'
  | stage s0 =>
    simp only [ZB.place] at hs'
    by_cases h0 : s0 = s
    · subst h0
      rw [List.getElem?_modify] at hs'
      cases hst : b.stages[s0]? with
      | none => simp [hst] at hs'
      | some st =>
        simp [hst] at hs'; subst hs'
        rcases List.mem_append.mp hg' with h | h
        · exact ⟨st, g', hst, h, hxg⟩
        · simp at h; subst h
          simp [newGroup] at hxg; exact absurd hxg hx
    · rw [getElem?_modify_ne _ _ _ _ h0] at hs'
      exact ⟨st', g', hs', hg', hxg⟩
  | group s0 g0 =>
    simp only [ZB.place] at hs'
    by_cases h0 : s0 = s
    · subst h0
      rw [List.getElem?_modify] at hs'
      cases hst : b.stages[s0]? with
      | none => simp [hst] at hs'
      | some st =>
        simp [hst] at hs'; subst hs'
        rcases mem_modify hg' with h | ⟨gk, hgk, rfl⟩
        · exact ⟨st, g', hst, h, hxg⟩
        · simp only [ZGroup.push, List.mem_append, List.mem_singleton] at hxg
          rcases hxg with h | h
          · exact ⟨st, gk, hst, List.mem_of_getElem? hgk, h⟩
          · exact absurd h hx
    · rw [getElem?_modify_ne _ _ _ _ h0] at hs'
      exact ⟨st', g', hs', hg', hxg⟩

theorem count_flatMap_pos {α β} [DecidableEq β] (h : α → List β) (x : β) (l : List α) (a : α)
    (ha : a ∈ l) (hx : x ∈ h a) : 0 < (l.flatMap h).count x :=
  List.count_pos_iff.mpr (List.mem_flatMap.mpr ⟨a, ha, hx⟩)

/-- two different positions of the list both containing `x` make its count at least two -/
theorem count_flatMap_two {α β} [DecidableEq β] (h : α → List β) (x : β) :
    ∀ (l : List α) (i j : Nat) (a c : α), i < j → l[i]? = some a → l[j]? = some c →
      x ∈ h a → x ∈ h c → 2 ≤ (l.flatMap h).count x := by
  intro l
  induction l with
  | nil => intro i j a c _ hi; simp at hi
  | cons y ys ih =>
    intro i j a c hij hi hj hxa hxc
    cases j with
    | zero => omega
    | succ j =>
      simp at hj
      cases i with
      | zero =>
        simp at hi; subst hi
        simp only [List.flatMap_cons, List.count_append]
        have h1 : 0 < (h y).count x := List.count_pos_iff.mpr hxa
        have h2 := count_flatMap_pos h x ys c (List.mem_of_getElem? hj) hxc
        omega
      | succ i =>
        simp at hi
        simp only [List.flatMap_cons, List.count_append]
        have := ih i j a c (by omega) hi hj hxa hxc
        omega

/-- with every id counted once, an id has one stage -/
theorem inStage_unique {b : ZB} {x s s' : Nat} (hcount : b.allIds.count x ≤ 1)
    (h : InStage b s x) (h' : InStage b s' x) : s = s' := by
  obtain ⟨st, g, hs, hg, hx⟩ := h
  obtain ⟨st', g', hs', hg', hx'⟩ := h'
  have hin : x ∈ ZStage.ids st := List.mem_flatMap.mpr ⟨g, hg, hx⟩
  have hin' : x ∈ ZStage.ids st' := List.mem_flatMap.mpr ⟨g', hg', hx'⟩
  rcases Nat.lt_trichotomy s s' with hlt | heq | hgt
  · have := count_flatMap_two ZStage.ids x b.stages s s' st st' hlt hs hs' hin hin'
    unfold ZB.allIds at hcount; omega
  · exact heq
  · have := count_flatMap_two ZStage.ids x b.stages s' s st' st hgt hs' hs hin' hin
    unfold ZB.allIds at hcount; omega

end Shred
