import ShredModel.Lemmas.Exec
/-!
# Windows are well-nested in time: a system's `D` never precedes its `F`
-/
namespace Shred
variable {ι : Type} [DecidableEq ι]

theorem traces_F_before_D {t : Task ι} {l : List (Ev ι)} (h : Traces t l) :
    (Task.sys t).Nodup → ∀ x, x ∈ Task.sys t → ∀ l1 l2, l = l1 ++ Ev.D x :: l2 → Ev.F x ∈ l1 := by
  induction h with
  | nil => intro _ x hx; cases hx
  | leaf s =>
    intro _ x hx l1 l2 hl
    simp [Task.sys] at hx; subst hx
    cases l1 with
    | nil => simp at hl
    | cons z l1 =>
      simp at hl
      obtain ⟨rfl, _⟩ := hl
      simp
  | @seq a b la lb ha hb iha ihb =>
    intro hnd x hx l1 l2 hl
    simp only [Task.sys] at hnd hx
    obtain ⟨hna, hnb, hdisj⟩ := List.nodup_append.mp hnd
    rcases List.mem_append.mp hx with hxa | hxb
    · have hnot : Ev.D x ∉ lb := fun hm => hdisj x hxa x (traces_ev_sys hb _ hm) rfl
      rcases List.append_eq_append_iff.mp hl with ⟨m, h1, h2⟩ | ⟨m, h1, h2⟩
      · exact absurd (by rw [h2]; simp) hnot
      · cases m with
        | nil => simp at h2; exact absurd (by rw [← h2]; simp) hnot
        | cons z m =>
          simp at h2; obtain ⟨rfl, rfl⟩ := h2
          exact iha hna x hxa l1 m h1
    · have hnot : Ev.D x ∉ la := fun hm => hdisj x (traces_ev_sys ha _ hm) x hxb rfl
      obtain ⟨m, rfl, h2⟩ := append_split hl hnot
      exact List.mem_append_right _ (ihb hnb x hxb m l2 h2)
  | @par a b la lb l ha hb hs iha ihb =>
    intro hnd x hx l1 l2 hl
    simp only [Task.sys] at hnd hx
    obtain ⟨hna, hnb, hdisj⟩ := List.nodup_append.mp hnd
    rcases List.mem_append.mp hx with hxa | hxb
    · have hnot : Ev.D x ∉ lb := fun hm => hdisj x hxa x (traces_ev_sys hb _ hm) rfl
      obtain ⟨a1, a2, b1, b2, h1, _, h3, _⟩ := shuffle_split_left hs l1 l2 _ hl hnot
      exact (h3.mem_iff _).mpr (Or.inl (iha hna x hxa a1 a2 h1))
    · have hnot : Ev.D x ∉ la := fun hm => hdisj x (traces_ev_sys ha _ hm) x hxb rfl
      obtain ⟨b1, b2, a1, a2, h1, _, h3, _⟩ := shuffle_split_left hs.symm l1 l2 _ hl hnot
      exact (h3.mem_iff _).mpr (Or.inl (ihb hnb x hxb b1 b2 h1))
  | @scope s body l hb ih =>
    intro hnd x hx l1 l2 hl
    simp only [Task.sys] at hnd hx
    obtain ⟨hs, hnb⟩ := List.nodup_cons.mp hnd
    cases l1 with
    | nil => simp at hl
    | cons z l1 =>
      simp at hl
      obtain ⟨rfl, hl⟩ := hl
      rcases List.mem_cons.mp hx with rfl | hxb
      · exact List.mem_cons_self
      · -- D x lies inside the body's trace
        have hxs : x ≠ s := fun e => hs (e ▸ hxb)
        rcases List.append_eq_append_iff.mp hl with ⟨m, h1, h2⟩ | ⟨m, h1, h2⟩
        · cases m with
          | nil => simp at h2; exact absurd h2.1.symm hxs
          | cons w m => simp at h2
        · cases m with
          | nil => simp at h2; exact absurd h2.1 hxs
          | cons w m =>
            simp at h2
            obtain ⟨rfl, rfl⟩ := h2
            exact List.mem_cons_of_mem _ (ih hnb x hxb l1 m h1)

end Shred
