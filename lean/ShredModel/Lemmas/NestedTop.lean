import ShredModel.Lemmas.Nested
import ShredModel.Lemmas.Tagging
import ShredModel.Lemmas.Scenario
import ShredModel.Lemmas.Batch
/-!
# Levels: built dispatchers with batches, as the driver builds them

A `Level D` is everything the trace theorems need about one built dispatcher whose batches
were built the same way. `Level.ofScenario` produces the outermost (or any) level from a
registration sequence run through the **tagged** five-table builder — the very function the
driver executes — and `Level.body` turns an inner level into the body of a batch. Iterating
the two gives dispatchers with batches nested to any depth.
-/
namespace Shred
open Task

structure Level (D : SysTag → Decl) where
  stages : Table (List SysTag)
  tl : List SysTag
  bs : List (SysTag × Body)
  iso : IsoTable D stages
  tags : (stages.flatten.flatten ++ tl).Nodup
  bodies : BodiesOK D bs

namespace Level
variable {D : SysTag → Decl} (L : Level D)

/-- one `dispatch` (`par`) or `dispatch_seq; dispatch_thread_local` of the level -/
def task (par : Bool) (pfx : Inst) : Task Inst := nDispatchTask par L.stages L.tl L.bs pfx

theorem wf (par : Bool) (pfx : Inst) : WF (CompatI D) (L.task par pfx) :=
  wf_nDispatchTask par L.tl L.iso L.bodies pfx

theorem nodup (par : Bool) (pfx : Inst) : (L.task par pfx).sys.Nodup :=
  nodup_nDispatchTask par L.tags L.bodies pfx

/-- **an inner level becomes the body of a batch** declared with any `d` that covers the inner
systems' declarations (no thread-local systems inside: KF1) -/
theorem body (htl : L.tl = []) (par : Bool) (n : Nat) (d : Decl)
    (hd : ∀ t, t ∈ L.stages.flatten.flatten → Sub (D t) d) :
    BodyOK D (batchBody par L.stages [] L.bs n) d :=
  bodyOK_batchBody par L.iso (by have := L.tags; rw [htl] at this; simpa using this) L.bodies n d hd

end Level

/-! ### a level from a registration sequence -/

theorem flatten_map_map {α β} (f : α → β) (l : List (List α)) : (l.map (List.map f)).flatten = l.flatten.map f := by
  induction l with
  | nil => rfl
  | cons a l ih => simp only [List.map_cons, List.flatten_cons, List.map_append, ih]

theorem mem_mapT_flat {τ : Nat → SysTag} {t : Table (List Nat)} :
    (mapT τ t).flatten.flatten = t.flatten.flatten.map τ := by
  unfold mapT
  have : (t.map fun st => st.map fun g => g.map τ) = t.map (List.map (List.map τ)) := rfl
  rw [this, flatten_map_map, flatten_map_map]

theorem getElem?_mapT {τ : Nat → SysTag} {t : Table (List Nat)} (s : Nat) :
    (mapT τ t)[s]? = (t[s]?).map fun st => st.map fun g => g.map τ := by
  simp [mapT]

/-- isolation of the id table ⇒ isolation of the tagged table, for declarations that agree -/
theorem isoTable_mapT {D : Nat → Decl} {D' : SysTag → Decl} {τ : Nat → SysTag} {t : Table (List Nat)}
    (hD : ∀ i, i ∈ t.flatten.flatten → D' (τ i) = D i) (h : IsoTable D t) : IsoTable D' (mapT τ t) := by
  intro st' hst' i j gi' gj' hi hj hij a' ha' c' hc'
  obtain ⟨st, hst, rfl⟩ := List.mem_map.mp hst'
  simp only [List.getElem?_map] at hi hj
  cases hgi : st[i]? with
  | none => simp [hgi] at hi
  | some gi =>
    cases hgj : st[j]? with
    | none => simp [hgj] at hj
    | some gj =>
      simp only [hgi, hgj, Option.map_some, Option.some.injEq] at hi hj
      subst hi hj
      obtain ⟨a, ha, rfl⟩ := List.mem_map.mp ha'
      obtain ⟨c, hc, rfl⟩ := List.mem_map.mp hc'
      have hma : a ∈ t.flatten.flatten :=
        List.mem_flatten.mpr ⟨gi, List.mem_flatten.mpr ⟨st, hst, List.mem_of_getElem? hgi⟩, ha⟩
      have hmc : c ∈ t.flatten.flatten :=
        List.mem_flatten.mpr ⟨gj, List.mem_flatten.mpr ⟨st, hst, List.mem_of_getElem? hgj⟩, hc⟩
      rw [hD a hma, hD c hmc]
      exact h st hst i j gi gj hgi hgj hij a ha c hc

theorem isoTable_of_good {D Dep g z} (h : GoodZ D Dep g z) : IsoTable D g.b.stages := by
  rw [stages_eq_of_zips h.zips]
  intro st' hst' i j gi gj hi hj hij a ha c hc
  obtain ⟨st, hst, rfl⟩ := List.mem_map.mp hst'
  simp only [List.getElem?_map] at hi hj
  cases hgi : st[i]? with
  | none => simp [hgi] at hi
  | some zi =>
    cases hgj : st[j]? with
    | none => simp [hgj] at hj
    | some zj =>
      simp only [hgi, hgj, Option.map_some, Option.some.injEq] at hi hj
      subst hi hj
      exact (h.ok st hst).iso i j zi zj hgi hgj hij a ha c hc

theorem mem_stages_lt {D Dep g z} (h : GoodZ D Dep g z) {x : Nat} (hx : x ∈ g.b.stages.flatten.flatten) :
    x < g.n := by
  rw [stages_eq_of_zips h.zips, flatten_sys_eq_allIds h] at hx
  have := List.count_pos_iff.mpr hx
  rw [h.ids x] at this
  split at this <;> omega

/-- the layout order of the id table, as `TOrdered` of the tagged table -/
theorem tOrdered_of_ordered {D Dep g z} (h : GoodZ D Dep g z) (τ : Nat → SysTag) {A B : Nat}
    (ho : OrderedBefore z A B) : TOrdered (mapT τ g.b.stages) (τ A) (τ B) := by
  have hpair : ∀ st, st ∈ z.stages → ∀ gr, gr ∈ st → gr.sys = gr.ids :=
    fun st hst gr hgr => (h.fit st hst gr hgr).pair
  rw [stages_eq_of_zips h.zips]
  rcases ho with ⟨sa, sb, hlt, ⟨sta, ga, hsa, hga, hA⟩, ⟨stb, gb, hsb, hgb, hB⟩⟩ |
      ⟨s, st, k, gr, i, j, hs, hk, hij, hi, hj⟩
  · left
    refine ⟨sa, sb, (sta.map (·.sys)).map (List.map τ), (stb.map (·.sys)).map (List.map τ), hlt,
      by simp [getElem?_mapT, hsa], by simp [getElem?_mapT, hsb], ?_, ?_⟩
    · apply List.mem_flatten.mpr
      refine ⟨ga.sys.map τ, List.mem_map.mpr ⟨ga.sys, List.mem_map.mpr ⟨ga, hga, rfl⟩, rfl⟩, ?_⟩
      rw [hpair sta (List.mem_of_getElem? hsa) ga hga]
      exact List.mem_map.mpr ⟨A, hA, rfl⟩
    · apply List.mem_flatten.mpr
      refine ⟨gb.sys.map τ, List.mem_map.mpr ⟨gb.sys, List.mem_map.mpr ⟨gb, hgb, rfl⟩, rfl⟩, ?_⟩
      rw [hpair stb (List.mem_of_getElem? hsb) gb hgb]
      exact List.mem_map.mpr ⟨B, hB, rfl⟩
  · right
    have hgr : gr ∈ st := List.mem_of_getElem? hk
    have hsys := hpair st (List.mem_of_getElem? hs) gr hgr
    refine ⟨s, (st.map (·.sys)).map (List.map τ), k, gr.sys.map τ, i, j, by simp [getElem?_mapT, hs], by simp [hk], hij, ?_, ?_⟩
    · simp [hsys, hi]
    · simp [hsys, hj]

namespace Scenario
variable (sc : Scenario)

/-- the executed table of the **tagged** builder run (what the driver computes) -/
def taggedStages (τ : Nat → SysTag) : Table (List SysTag) := (runOpsT τ sc.ops).1.stages

theorem taggedStages_eq (τ : Nat → SysTag) : sc.taggedStages τ = mapT τ sc.final.b.stages := by
  unfold taggedStages
  have h := (runOpsT_rel τ sc.ops).1.stages
  have e := gstate_foldl sc.ops {}
  have : (runOps sc.ops).1 = sc.final.b := by
    unfold runOps Scenario.final
    exact (congrArg Prod.fst e).symm
  rw [h, this]

/-- **every registration sequence gives a level** (tags `τ` injective on the registered ids and
distinct from the thread-local tags; declarations by tag; bodies already known to be good) -/
def level (τ : Nat → SysTag) (D' : SysTag → Decl) (hτ : ∀ i j, i < sc.final.n → j < sc.final.n → τ i = τ j → i = j)
    (hD : ∀ i, i < sc.final.n → D' (τ i) = sc.D i) (tl : List SysTag) (htl : tl.Nodup)
    (hfresh : ∀ i, i < sc.final.n → τ i ∉ tl) (bs : List (SysTag × Body)) (hbs : BodiesOK D' bs) : Level D' where
  stages := sc.taggedStages τ
  tl := tl
  bs := bs
  iso := by
    obtain ⟨z, hz⟩ := sc.good
    rw [taggedStages_eq]
    exact isoTable_mapT (fun i hi => hD i (mem_stages_lt hz hi)) (isoTable_of_good hz)
  tags := by
    obtain ⟨z, hz⟩ := sc.good
    rw [taggedStages_eq, mem_mapT_flat]
    have hnd : sc.final.b.stages.flatten.flatten.Nodup := by
      rw [stages_eq_of_zips hz.zips, flatten_sys_eq_allIds hz, List.nodup_iff_count]
      intro a; rw [hz.ids a]; split <;> omega
    apply List.nodup_append.mpr
    refine ⟨?_, htl, ?_⟩
    · clear htl hfresh
      have hlt : ∀ x, x ∈ sc.final.b.stages.flatten.flatten → x < sc.final.n := fun x hx => mem_stages_lt hz hx
      generalize sc.final.b.stages.flatten.flatten = l at hnd hlt
      induction l with
      | nil => simp
      | cons a l ih =>
        simp only [List.map_cons, List.nodup_cons] at *
        refine ⟨?_, ih hnd.2 (fun x hx => hlt x (by simp [hx]))⟩
        intro hm
        obtain ⟨b, hb, hab⟩ := List.mem_map.mp hm
        have := hτ b a (hlt b (by simp [hb])) (hlt a (by simp)) hab
        subst this
        exact hnd.1 hb
    · intro x hx y hy hxy
      subst hxy
      obtain ⟨i, hi, rfl⟩ := List.mem_map.mp hx
      exact hfresh i (mem_stages_lt hz hi) hy
  bodies := hbs

end Scenario

/-- **C07 (the declaration `add_batch` computes covers the inner systems)**, for the tagged
inner builder the driver holds -/
theorem sub_batchDecl (sc : Scenario) (τ : Nat → SysTag) (D' : SysTag → Decl)
    (hD : ∀ i, i < sc.final.n → D' (τ i) = sc.D i) (inner : DispatcherBuilder)
    (hinner : inner.stagesBuilder = (runOpsT τ sc.ops).1) (ctl : Decl) :
    ∀ t, t ∈ (sc.taggedStages τ).flatten.flatten → Sub (D' t) (DispatcherBuilder.batchDecl inner ctl) := by
  obtain ⟨z, hz⟩ := sc.good
  intro t ht
  rw [sc.taggedStages_eq, mem_mapT_flat] at ht
  obtain ⟨i, hi, rfl⟩ := List.mem_map.mp ht
  have hin := mem_stages_lt hz hi
  rw [hD i hin]
  have hrel := (runOpsT_rel τ sc.ops).1
  have hb : (runOps sc.ops).1 = sc.final.b := by
    unfold runOps Scenario.final
    exact (congrArg Prod.fst (gstate_foldl sc.ops {})).symm
  -- the accumulated reads / writes of the tagged builder are those of the id builder
  have hr : inner.stagesBuilder.fetchAllReads = sc.final.b.fetchAllReads := by
    rw [hinner]; unfold StagesBuilder.fetchAllReads; rw [hrel.reads, hb]
  have hw : inner.stagesBuilder.fetchAllWrites = sc.final.b.fetchAllWrites := by
    rw [hinner]; unfold StagesBuilder.fetchAllWrites; rw [hrel.writes, hb]
  constructor
  · intro x hx
    unfold DispatcherBuilder.batchDecl
    simp only [mem_sortDedup, List.mem_append, hr]
    exact Or.inl ((mem_fetchAllReads hz x).mpr ⟨i, hin, hx⟩)
  · intro x hx
    unfold DispatcherBuilder.batchDecl
    simp only [mem_sortDedup, List.mem_append, hw]
    exact Or.inl ((mem_fetchAllWrites hz x).mpr ⟨i, hin, hx⟩)

end Shred
