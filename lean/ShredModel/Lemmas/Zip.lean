import ShredModel.Lemmas.Table
/-!
# The zipped view of `StagesBuilder` and its invariants

All five tables zipped cell-wise into one `List (List ZGroup)`. The placement function is
written once more on this view (`ZB.insert`), generically in the join policy, the
normalisation of the read list and the de-duplication of the dependency list; the
invariants of C01, C02 and C10 are proved here. `Lemmas/Sim.lean` shows that the mirrored
five-table `StagesBuilder.insert` is an instance.
-/
namespace Shred

theorem inter_iff {α} [DecidableEq α] (i j : List α) : inter i j = true ↔ ∃ x, x ∈ i ∧ x ∈ j := by
  simp [inter, List.any_eq_true]

structure ZGroup where
  ids : List Nat
  reads : List ResId
  writes : List ResId
  time : Nat
  sys : List Nat
deriving Repr

theorem fold_add_none (l : List Nat) : l.foldl Conflict.add .multiple = .multiple := by
  induction l with
  | nil => rfl
  | cons x xs ih => simpa [List.foldl, Conflict.add] using ih

theorem fold_add_single (g : Nat) (l : List Nat) :
    l.foldl Conflict.add (.single g) = if l = [] then .single g else .multiple := by
  cases l with
  | nil => simp
  | cons x xs => simp [List.foldl, Conflict.add, fold_add_none]

theorem fold_add (l : List Nat) :
    l.foldl Conflict.add .none =
      match l with | [] => .none | [g] => .single g | _ :: _ :: _ => .multiple := by
  cases l with
  | nil => rfl
  | cons x xs =>
    simp only [List.foldl, Conflict.add, fold_add_single]
    cases xs <;> simp

abbrev ZStage := List ZGroup

def resHit (nr nw : List ResId) (g : ZGroup) : Bool := hit nr nw g.reads g.writes
def depHit (dep : List Nat) (g : ZGroup) : Bool := inter dep g.ids

def zHits (st : ZStage) (nr nw : List ResId) (dep : List Nat) : List Nat :=
  (List.range st.length).filter fun i =>
    match st[i]? with
    | some g => resHit nr nw g || depHit dep g
    | none => false

def zDepConflict (st : ZStage) (nr nw : List ResId) (dep : List Nat) : Bool :=
  st.any fun g => !resHit nr nw g && depHit dep g

def zFindConflict (st : ZStage) (nr nw : List ResId) (dep : List Nat) : Conflict :=
  let c := (zHits st nr nw dep).foldl Conflict.add .none
  let dc := zDepConflict st nr nw dep
  if (dc && dep.length > 1) || (!dc && !dep.isEmpty) then .multiple else c

theorem zFindConflict_none {st nr nw dep} (h : zFindConflict st nr nw dep = .none) :
    (∀ g ∈ st, resHit nr nw g = false) ∧ dep = [] := by
  unfold zFindConflict at h
  simp only at h
  split at h
  · cases h
  · rename_i hc
    rw [fold_add] at h
    have hh : zHits st nr nw dep = [] := by
      generalize zHits st nr nw dep = l at h
      match l with
      | [] => rfl
      | [_] => simp at h
      | _ :: _ :: _ => simp at h
    have hall : ∀ g ∈ st, (resHit nr nw g || depHit dep g) = false := by
      intro g hg
      obtain ⟨i, hi, rfl⟩ := List.getElem_of_mem hg
      have : i ∉ zHits st nr nw dep := by simp [hh]
      simp only [zHits, List.mem_filter, List.mem_range] at this
      have h2 := this
      simp [hi] at h2
      simpa using h2
    have hdc : zDepConflict st nr nw dep = false := by
      simp only [zDepConflict, List.any_eq_false]
      intro g hg
      have := hall g hg
      simp at this
      simp [this.2]
    simp [hdc] at hc
    refine ⟨fun g hg => ?_, hc⟩
    have := hall g hg
    simp at this
    exact this.1


theorem mem_hits {st : ZStage} {nr nw dep i} :
    i ∈ zHits st nr nw dep ↔ ∃ g, st[i]? = some g ∧ (resHit nr nw g || depHit dep g) = true := by
  simp only [zHits, List.mem_filter, List.mem_range]
  constructor
  · rintro ⟨hi, h⟩
    simp [hi] at h
    exact ⟨st[i], by simp [hi], by simpa using h⟩
  · rintro ⟨g, hg, h⟩
    have hi : i < st.length := by
      rcases List.getElem?_eq_some_iff.mp hg with ⟨hi, _⟩; exact hi
    refine ⟨hi, ?_⟩
    simp [hg, h]

/-- `Single g`: group `g` is the only one with a resource hit or a dependency in it, and the
zPending list is empty or is exactly one id, found in `g`. -/
theorem zFindConflict_single {st nr nw dep k} (h : zFindConflict st nr nw dep = .single k) :
    (∃ g, st[k]? = some g) ∧
    (∀ i g, st[i]? = some g → i ≠ k → resHit nr nw g = false ∧ depHit dep g = false) ∧
    (dep = [] ∨ ∃ d g, dep = [d] ∧ st[k]? = some g ∧ d ∈ g.ids) := by
  unfold zFindConflict at h
  simp only at h
  split at h
  · cases h
  · rename_i hc
    rw [fold_add] at h
    have hh : zHits st nr nw dep = [k] := by
      generalize zHits st nr nw dep = l at h
      match l with
      | [] => simp at h
      | [x] => simp at h; simp [h]
      | _ :: _ :: _ => simp at h
    have hk : k ∈ zHits st nr nw dep := by simp [hh]
    obtain ⟨gk, hgk, hkhit⟩ := mem_hits.mp hk
    have hothers : ∀ i g, st[i]? = some g → i ≠ k → resHit nr nw g = false ∧ depHit dep g = false := by
      intro i g hg hne
      have : i ∉ zHits st nr nw dep := by simp [hh, hne]
      rw [mem_hits] at this
      have h2 : ¬ ((resHit nr nw g || depHit dep g) = true) := fun hx => this ⟨g, hg, hx⟩
      simpa using h2
    refine ⟨⟨gk, hgk⟩, hothers, ?_⟩
    cases hdc : zDepConflict st nr nw dep with
    | false =>
      simp [hdc] at hc
      exact Or.inl hc
    | true =>
      simp [hdc] at hc
      -- dep.length ≤ 1, and some group has a dep hit (without resource hit): it must be k
      simp only [zDepConflict, List.any_eq_true] at hdc
      obtain ⟨g, hg, hgd⟩ := hdc
      simp at hgd
      obtain ⟨i, hi, rfl⟩ := List.getElem_of_mem hg
      have hik : i = k := by
        by_cases hne : i = k
        · exact hne
        · have := (hothers i st[i] (by simp [hi]) hne).2
          simp [this] at hgd
      subst hik
      have : depHit dep st[i] = true := hgd.2
      simp only [depHit, inter_iff] at this
      obtain ⟨d, hd, hdg⟩ := this
      right
      match dep, hc, hd with
      | [d'], _, hd =>
        simp at hd; subst hd
        exact ⟨d, st[i], rfl, by simp [hi], hdg⟩


/-! ### membership form of the hit test and the declared-conflict relation -/

theorem hit_iff (nr nw gr gw : List ResId) :
    hit nr nw gr gw = true ↔
      (∃ x, x ∈ nw ∧ (x ∈ gw ∨ x ∈ gr)) ∨ (∃ x, x ∈ nr ∧ x ∈ gw) := by
  simp [hit, inter_iff, List.mem_append]

def conflictsD (a b : Decl) : Prop :=
  (∃ x, x ∈ a.writes ∧ (x ∈ b.writes ∨ x ∈ b.reads)) ∨ (∃ x, x ∈ a.reads ∧ x ∈ b.writes)

theorem conflictsD_symm {a b : Decl} : conflictsD a b → conflictsD b a := by
  rintro (⟨x, hx, hy | hy⟩ | ⟨x, hx, hy⟩)
  · exact Or.inl ⟨x, hy, Or.inl hx⟩
  · exact Or.inr ⟨x, hy, hx⟩
  · exact Or.inl ⟨x, hy, Or.inr hx⟩

/-- the accumulators of a group are, as sets, the union of its members' declarations -/
structure AccumOK (D : Nat → Decl) (g : ZGroup) : Prop where
  reads : ∀ x, x ∈ g.reads ↔ ∃ s, s ∈ g.sys ∧ x ∈ (D s).reads
  writes : ∀ x, x ∈ g.writes ↔ ∃ s, s ∈ g.sys ∧ x ∈ (D s).writes

theorem resHit_false_iff {D : Nat → Decl} {g : ZGroup} (hg : AccumOK D g) (d : Decl) (nr : List ResId)
    (hnr : ∀ x, x ∈ nr ↔ x ∈ d.reads) :
    resHit nr d.writes g = false ↔ ∀ s, s ∈ g.sys → ¬ conflictsD d (D s) := by
  rw [← Bool.not_eq_true, resHit, hit_iff]
  constructor
  · intro h s hs hc
    apply h
    rcases hc with ⟨x, hx, hy | hy⟩ | ⟨x, hx, hy⟩
    · exact Or.inl ⟨x, hx, Or.inl ((hg.writes x).mpr ⟨s, hs, hy⟩)⟩
    · exact Or.inl ⟨x, hx, Or.inr ((hg.reads x).mpr ⟨s, hs, hy⟩)⟩
    · exact Or.inr ⟨x, (hnr x).mpr hx, (hg.writes x).mpr ⟨s, hs, hy⟩⟩
  · intro h hc
    rcases hc with ⟨x, hx, hy | hy⟩ | ⟨x, hx, hy⟩
    · obtain ⟨s, hs, hxs⟩ := (hg.writes x).mp hy
      exact h s hs (Or.inl ⟨x, hx, Or.inl hxs⟩)
    · obtain ⟨s, hs, hxs⟩ := (hg.reads x).mp hy
      exact h s hs (Or.inl ⟨x, hx, Or.inr hxs⟩)
    · obtain ⟨s, hs, hxs⟩ := (hg.writes x).mp hy
      exact h s hs (Or.inr ⟨x, (hnr x).mp hx, hxs⟩)


/-! ### the stage zScan of `insertion_target` -/

/-- `remove_ids`: for every id of the stage, in order, erase its first occurrence in `dep`. -/
def zRemoveIds (st : ZStage) (dep : List Nat) : List Nat :=
  if dep.isEmpty then dep else (st.flatMap (·.ids)).foldl (fun d id => d.erase id) dep

/-- One step of the lazy `map`/`find`: what the zScan decides for stage `st` with zPending `dep`. -/
inductive Verdict | newGroup | join (g : Nat) | reject
deriving DecidableEq, Repr

def zVerdict (joinOk : ZStage → Nat → Nat → Bool) (st : ZStage) (nr nw : List ResId) (dep : List Nat)
    (t : Nat) : Verdict :=
  match zFindConflict st nr nw dep with
  | .none => .newGroup
  | .single g => if joinOk st g t then .join g else .reject
  | .multiple => .reject

def zScan (joinOk : ZStage → Nat → Nat → Bool) (nr nw : List ResId) (t : Nat) :
    Nat → List ZStage → List Nat → InsertionTarget
  | _, [], _ => .newStage
  | i, st :: rest, dep =>
    match zVerdict joinOk st nr nw dep t with
    | .newGroup => .stage i
    | .join g => .group i g
    | .reject => zScan joinOk nr nw t (i + 1) rest (zRemoveIds st dep)

/-- zPending dependency list after the zScan has passed over `sts` -/
def zPending (sts : List ZStage) (dep : List Nat) : List Nat :=
  sts.foldl (fun d st => zRemoveIds st d) dep

variable {joinOk : ZStage → Nat → Nat → Bool} {nr nw : List ResId} {t : Nat}

/-- Complete description of the zScan's answer: the first stage whose zVerdict is not `reject`. -/
theorem zScan_spec (i : Nat) (sts : List ZStage) (dep : List Nat) :
    (∃ k st, sts[k]? = some st ∧
        (∀ j sj, j < k → sts[j]? = some sj →
            zVerdict joinOk sj nr nw (zPending (sts.take j) dep) t = .reject) ∧
        ((zVerdict joinOk st nr nw (zPending (sts.take k) dep) t = .newGroup ∧
            zScan joinOk nr nw t i sts dep = .stage (i + k)) ∨
         (∃ g, zVerdict joinOk st nr nw (zPending (sts.take k) dep) t = .join g ∧
            zScan joinOk nr nw t i sts dep = .group (i + k) g))) ∨
    ((∀ j sj, sts[j]? = some sj →
        zVerdict joinOk sj nr nw (zPending (sts.take j) dep) t = .reject) ∧
      zScan joinOk nr nw t i sts dep = .newStage) := by
  induction sts generalizing i dep with
  | nil => right; simp [zScan]
  | cons st rest ih =>
    cases hv : zVerdict joinOk st nr nw dep t with
    | newGroup =>
      left
      refine ⟨0, st, by simp, by simp, Or.inl ⟨by simpa [zPending] using hv, by simp [zScan, hv]⟩⟩
    | join g =>
      left
      refine ⟨0, st, by simp, by simp, Or.inr ⟨g, by simpa [zPending] using hv, by simp [zScan, hv]⟩⟩
    | reject =>
      have hscan : zScan joinOk nr nw t i (st :: rest) dep
          = zScan joinOk nr nw t (i + 1) rest (zRemoveIds st dep) := by simp [zScan, hv]
      have hpend : ∀ j, zPending ((st :: rest).take (j + 1)) dep
          = zPending (rest.take j) (zRemoveIds st dep) := by intro j; simp [zPending]
      rcases ih (i + 1) (zRemoveIds st dep) with ⟨k, sk, hk, hbefore, hres⟩ | ⟨hall, hres⟩
      · left
        refine ⟨k + 1, sk, by simpa using hk, ?_, ?_⟩
        · intro j sj hj hsj
          cases j with
          | zero => simp at hsj; subst hsj; simpa [zPending] using hv
          | succ j =>
            rw [hpend]
            exact hbefore j sj (by omega) (by simpa using hsj)
        · rw [hpend, hscan]
          have : i + 1 + k = i + (k + 1) := by omega
          rcases hres with ⟨h1, h2⟩ | ⟨g, h1, h2⟩
          · exact Or.inl ⟨h1, by rw [h2, this]⟩
          · exact Or.inr ⟨g, h1, by rw [h2, this]⟩
      · right
        refine ⟨?_, by rw [hscan, hres]⟩
        intro j sj hsj
        cases j with
        | zero => simp at hsj; subst hsj; simpa [zPending] using hv
        | succ j =>
          rw [hpend]
          exact hall j sj (by simpa using hsj)


/-! ### the builder on the zipped view -/

structure ZB where
  barrier : Nat := 0
  stages : List ZStage := []

def newGroup (id sys : Nat) (nr : List ResId) (d : Decl) : ZGroup :=
  { ids := [id], reads := nr, writes := d.writes, time := d.time, sys := [sys] }

def ZGroup.push (g : ZGroup) (id sys : Nat) (nr : List ResId) (d : Decl) : ZGroup :=
  { ids := g.ids ++ [id], reads := g.reads ++ nr, writes := g.writes ++ d.writes,
    time := g.time + d.time, sys := g.sys ++ [sys] }

/-- the D3 repair: de-duplicate, then cross off what lies in front of the barrier -/
def zPrepDep (dedupN : List Nat → List Nat) (b : ZB) (dep : List Nat) : List Nat :=
  zPending (b.stages.take b.barrier) (dedupN dep)

def ZB.target (joinOk : ZStage → Nat → Nat → Bool) (dedupN : List Nat → List Nat)
    (b : ZB) (dep : List Nat) (nr : List ResId) (d : Decl) : InsertionTarget :=
  zScan joinOk nr d.writes d.time b.barrier (b.stages.drop b.barrier) (zPrepDep dedupN b dep)

def ZB.place (b : ZB) (tg : InsertionTarget) (id sys : Nat) (nr : List ResId) (d : Decl) : ZB :=
  match tg with
  | .stage s => { b with stages := b.stages.modify s (· ++ [newGroup id sys nr d]) }
  | .group s g => { b with stages := b.stages.modify s (fun st => st.modify g (·.push id sys nr d)) }
  | .newStage => { b with stages := b.stages ++ [[newGroup id sys nr d]] }

def ZB.insert (joinOk : ZStage → Nat → Nat → Bool) (norm : List ResId → List ResId)
    (dedupN : List Nat → List Nat) (b : ZB) (dep : List Nat) (id sys : Nat) (d : Decl) : ZB :=
  b.place (b.target joinOk dedupN dep (norm d.reads) d) id sys (norm d.reads) d

def ZB.addBarrier (b : ZB) : ZB := { b with barrier := b.stages.length }

/-! ### C01, plan level: groups of a stage never hold conflicting systems -/

def IsolatedStage (D : Nat → Decl) (st : ZStage) : Prop :=
  ∀ (i j : Nat) (gi gj : ZGroup), st[i]? = some gi → st[j]? = some gj → i ≠ j →
    ∀ a, a ∈ gi.sys → ∀ c, c ∈ gj.sys → ¬ conflictsD (D a) (D c)

structure StageOK (D : Nat → Decl) (st : ZStage) : Prop where
  accum : ∀ g, g ∈ st → AccumOK D g
  iso : IsolatedStage D st

def ZB.OK (D : Nat → Decl) (b : ZB) : Prop := ∀ st, st ∈ b.stages → StageOK D st

theorem accumOK_newGroup {D : Nat → Decl} {id sys : Nat} {nr : List ResId} {d : Decl}
    (hD : D sys = d) (hnr : ∀ x, x ∈ nr ↔ x ∈ d.reads) : AccumOK D (newGroup id sys nr d) := by
  constructor <;> intro x <;> simp [newGroup, hD, hnr]

theorem accumOK_push {D : Nat → Decl} {g : ZGroup} {id sys : Nat} {nr : List ResId} {d : Decl}
    (hg : AccumOK D g) (hD : D sys = d) (hnr : ∀ x, x ∈ nr ↔ x ∈ d.reads) :
    AccumOK D (g.push id sys nr d) := by
  constructor <;> intro x
  · simp only [ZGroup.push, List.mem_append, hg.reads x, hnr x, List.mem_singleton]
    constructor
    · rintro (⟨s, hs, hx⟩ | hx)
      · exact ⟨s, Or.inl hs, hx⟩
      · exact ⟨sys, Or.inr rfl, by rw [hD]; exact hx⟩
    · rintro ⟨s, hs | rfl, hx⟩
      · exact Or.inl ⟨s, hs, hx⟩
      · right; rw [hD] at hx; exact hx
  · simp only [ZGroup.push, List.mem_append, hg.writes x, List.mem_singleton]
    constructor
    · rintro (⟨s, hs, hx⟩ | hx)
      · exact ⟨s, Or.inl hs, hx⟩
      · exact ⟨sys, Or.inr rfl, by rw [hD]; exact hx⟩
    · rintro ⟨s, hs | rfl, hx⟩
      · exact Or.inl ⟨s, hs, hx⟩
      · right; rw [hD] at hx; exact hx

/-- appending a fresh group is safe when no existing group has a resource hit -/
theorem stageOK_append {D : Nat → Decl} {st : ZStage} {id sys : Nat} {nr : List ResId} {d : Decl}
    (hst : StageOK D st) (hD : D sys = d) (hnr : ∀ x, x ∈ nr ↔ x ∈ d.reads)
    (hfree : ∀ g, g ∈ st → resHit nr d.writes g = false) :
    StageOK D (st ++ [newGroup id sys nr d]) := by
  have hno : ∀ g, g ∈ st → ∀ a, a ∈ g.sys → ¬ conflictsD d (D a) := fun g hg =>
    (resHit_false_iff (hst.accum g hg) d nr hnr).mp (hfree g hg)
  constructor
  · intro g hg
    rcases List.mem_append.mp hg with h | h
    · exact hst.accum g h
    · simp at h; subst h; exact accumOK_newGroup hD hnr
  · unfold IsolatedStage
    intro i j gi gj hi hj hne a ha c hc
    by_cases hil : i < st.length <;> by_cases hjl : j < st.length
    · rw [List.getElem?_append_left hil] at hi
      rw [List.getElem?_append_left hjl] at hj
      exact hst.iso i j gi gj hi hj hne a ha c hc
    · -- j is the new group
      rw [List.getElem?_append_left hil] at hi
      rw [List.getElem?_append_right (by omega)] at hj
      have hj0 : j - st.length = 0 := by
        cases hjj : j - st.length with
        | zero => rfl
        | succ n => simp [hjj] at hj
      simp [hj0] at hj; subst hj
      simp [newGroup] at hc; subst hc
      intro hcf
      exact hno gi (List.mem_of_getElem? hi) a ha (by rw [hD] at hcf; exact conflictsD_symm hcf)
    · rw [List.getElem?_append_right (by omega)] at hi
      rw [List.getElem?_append_left hjl] at hj
      have hi0 : i - st.length = 0 := by
        cases hii : i - st.length with
        | zero => rfl
        | succ n => simp [hii] at hi
      simp [hi0] at hi; subst hi
      simp [newGroup] at ha; subst ha
      intro hcf
      exact hno gj (List.mem_of_getElem? hj) c hc (by rw [hD] at hcf; exact hcf)
    · exfalso
      rw [List.getElem?_append_right (by omega)] at hi
      rw [List.getElem?_append_right (by omega)] at hj
      have hi0 : i - st.length = 0 := by
        cases hii : i - st.length with
        | zero => rfl
        | succ n => simp [hii] at hi
      have hj0 : j - st.length = 0 := by
        cases hjj : j - st.length with
        | zero => rfl
        | succ n => simp [hjj] at hj
      omega


/-- joining group `k` is safe when no *other* group has a resource hit -/
theorem stageOK_join {D : Nat → Decl} {st : ZStage} {k : Nat} {gk : ZGroup} {id sys : Nat}
    {nr : List ResId} {d : Decl}
    (hst : StageOK D st) (hD : D sys = d) (hnr : ∀ x, x ∈ nr ↔ x ∈ d.reads)
    (hk : st[k]? = some gk)
    (hfree : ∀ (i : Nat) (g : ZGroup), st[i]? = some g → i ≠ k → resHit nr d.writes g = false) :
    StageOK D (st.modify k (·.push id sys nr d)) := by
  have hno : ∀ (i : Nat) (g : ZGroup), st[i]? = some g → i ≠ k → ∀ a, a ∈ g.sys → ¬ conflictsD d (D a) :=
    fun i g hg hne =>
      (resHit_false_iff (hst.accum g (List.mem_of_getElem? hg)) d nr hnr).mp (hfree i g hg hne)
  constructor
  · intro g hg
    rcases mem_modify hg with h | ⟨a, ha, rfl⟩
    · exact hst.accum g h
    · exact accumOK_push (hst.accum a (List.mem_of_getElem? ha)) hD hnr
  · unfold IsolatedStage
    intro i j gi gj hi hj hne a ha c hc
    by_cases hik : k = i <;> by_cases hjk : k = j
    · omega
    · -- i is the joined group
      subst hik
      rw [getElem?_modify_eq _ _ _ _ hk] at hi
      rw [getElem?_modify_ne _ _ _ _ hjk] at hj
      cases hi
      simp only [ZGroup.push, List.mem_append, List.mem_singleton] at ha
      rcases ha with ha | rfl
      · exact hst.iso k j gk gj hk hj hne a ha c hc
      · rw [hD]; exact hno j gj hj (Ne.symm hjk) c hc
    · subst hjk
      rw [getElem?_modify_ne _ _ _ _ hik] at hi
      rw [getElem?_modify_eq _ _ _ _ hk] at hj
      cases hj
      simp only [ZGroup.push, List.mem_append, List.mem_singleton] at hc
      rcases hc with hc | rfl
      · exact hst.iso i k gi gk hi hk hne a ha c hc
      · rw [hD]; exact fun h => hno i gi hi (Ne.symm hik) a ha (conflictsD_symm h)
    · rw [getElem?_modify_ne _ _ _ _ hik] at hi
      rw [getElem?_modify_ne _ _ _ _ hjk] at hj
      exact hst.iso i j gi gj hi hj hne a ha c hc

/-- **C01, plan level.** `insert` keeps every stage isolated, for any join policy, any
normalisation of the read list that preserves membership, any de-duplication of the
dependency list. -/
theorem insert_preserves_OK {D : Nat → Decl} (joinOk : ZStage → Nat → Nat → Bool)
    (norm : List ResId → List ResId) (hnorm : ∀ l x, x ∈ norm l ↔ x ∈ l)
    (dedupN : List Nat → List Nat)
    (b : ZB) (dep : List Nat) (id sys : Nat) (d : Decl) (hD : D sys = d) (hb : b.OK D) :
    (b.insert joinOk norm dedupN dep id sys d).OK D := by
  have hnr : ∀ x, x ∈ norm d.reads ↔ x ∈ d.reads := hnorm d.reads
  unfold ZB.insert ZB.target
  rcases zScan_spec (joinOk := joinOk) (nr := norm d.reads) (nw := d.writes) (t := d.time)
      b.barrier (b.stages.drop b.barrier) (zPrepDep dedupN b dep) with
    ⟨k, st, hk, _, hres⟩ | ⟨_, hres⟩
  · rw [List.getElem?_drop] at hk
    have hstOK : StageOK D st := hb st (List.mem_of_getElem? hk)
    rcases hres with ⟨hv, hsc⟩ | ⟨g, hv, hsc⟩
    · -- new group in stage barrier + k
      rw [hsc]
      simp only [ZB.place]
      have hfc : zFindConflict st (norm d.reads) d.writes
          (zPending (List.take k (List.drop b.barrier b.stages)) (zPrepDep dedupN b dep)) = .none := by
        unfold zVerdict at hv
        split at hv
        · assumption
        · split at hv <;> cases hv
        · cases hv
      have hfree := (zFindConflict_none hfc).1
      intro st' hst'
      rcases mem_modify hst' with h | ⟨a, ha, rfl⟩
      · exact hb st' h
      · rw [hk] at ha; cases ha
        exact stageOK_append hstOK hD hnr hfree
    · rw [hsc]
      simp only [ZB.place]
      have hfc : zFindConflict st (norm d.reads) d.writes
          (zPending (List.take k (List.drop b.barrier b.stages)) (zPrepDep dedupN b dep)) = .single g := by
        unfold zVerdict at hv
        split at hv
        · cases hv
        · rename_i g' hg'
          split at hv
          · cases hv; exact hg'
          · cases hv
        · cases hv
      obtain ⟨⟨gk, hgk⟩, hothers, _⟩ := zFindConflict_single hfc
      intro st' hst'
      rcases mem_modify hst' with h | ⟨a, ha, rfl⟩
      · exact hb st' h
      · rw [hk] at ha; cases ha
        exact stageOK_join hstOK hD hnr hgk (fun i g' hg' hne => (hothers i g' hg' hne).1)
  · rw [hres]
    simp only [ZB.place]
    intro st' hst'
    rcases List.mem_append.mp hst' with h | h
    · exact hb st' h
    · simp at h; subst h
      have : StageOK D ([] ++ [newGroup id sys (norm d.reads) d]) :=
        stageOK_append (st := []) ⟨by simp, by intro i j gi gj hi; simp at hi⟩ hD hnr (by simp)
      simpa using this

theorem addBarrier_preserves_OK {D : Nat → Decl} (b : ZB) (hb : b.OK D) : b.addBarrier.OK D := hb


/-! ### C02, plan level: every dependency is ordered before its dependent -/

def InStage (b : ZB) (s x : Nat) : Prop :=
  ∃ (st : ZStage) (g : ZGroup), b.stages[s]? = some st ∧ g ∈ st ∧ x ∈ g.ids

def SameGroupBefore (b : ZB) (A B : Nat) : Prop :=
  ∃ (s : Nat) (st : ZStage) (k : Nat) (g : ZGroup) (i j : Nat),
    b.stages[s]? = some st ∧ st[k]? = some g ∧ i < j ∧ g.ids[i]? = some A ∧ g.ids[j]? = some B

def OrderedBefore (b : ZB) (A B : Nat) : Prop :=
  (∃ sa sb, sa < sb ∧ InStage b sa A ∧ InStage b sb B) ∨ SameGroupBefore b A B

theorem mem_foldl_erase {x : Nat} (ids dep : List Nat) (hx : x ∈ dep) :
    x ∈ ids.foldl (fun d id => d.erase id) dep ∨ x ∈ ids := by
  induction ids generalizing dep with
  | nil => exact Or.inl hx
  | cons i ids ih =>
    by_cases hxi : x = i
    · subst hxi; exact Or.inr (by simp)
    · have : x ∈ dep.erase i := (List.mem_erase_of_ne hxi).mpr hx
      rcases ih (dep.erase i) this with h | h
      · exact Or.inl h
      · exact Or.inr (by simp [h])

theorem mem_removeIds {x : Nat} (st : ZStage) (dep : List Nat) (hx : x ∈ dep) :
    x ∈ zRemoveIds st dep ∨ ∃ g, g ∈ st ∧ x ∈ g.ids := by
  unfold zRemoveIds
  split
  · exact Or.inl hx
  · rcases mem_foldl_erase (st.flatMap (·.ids)) dep hx with h | h
    · exact Or.inl h
    · right; simpa [List.mem_flatMap] using h

theorem mem_pending {x : Nat} (sts : List ZStage) (dep : List Nat) (hx : x ∈ dep) :
    x ∈ zPending sts dep ∨ ∃ (j : Nat) (st : ZStage) (g : ZGroup), sts[j]? = some st ∧ g ∈ st ∧ x ∈ g.ids := by
  induction sts generalizing dep with
  | nil => exact Or.inl hx
  | cons st rest ih =>
    rcases mem_removeIds st dep hx with h | ⟨g, hg, hxg⟩
    · rcases ih (zRemoveIds st dep) h with h' | ⟨j, sj, g, hj, hg, hxg⟩
      · exact Or.inl (by simpa [zPending] using h')
      · exact Or.inr ⟨j + 1, sj, g, by simpa using hj, hg, hxg⟩
    · exact Or.inr ⟨0, st, g, by simp, hg, hxg⟩

theorem place_stages_mono (b : ZB) (tg : InsertionTarget) (id sys : Nat) (nr : List ResId) (d : Decl)
    {s : Nat} {st : ZStage} (hs : b.stages[s]? = some st) :
    ∃ st', (b.place tg id sys nr d).stages[s]? = some st' ∧
      ∀ (k : Nat) (g : ZGroup), st[k]? = some g →
        ∃ g', st'[k]? = some g' ∧ ∃ tail, g'.ids = g.ids ++ tail := by
  have hlt : s < b.stages.length := (List.getElem?_eq_some_iff.mp hs).1
  cases tg with
  | newStage =>
    refine ⟨st, ?_, fun k g hg => ⟨g, hg, [], by simp⟩⟩
    simp only [ZB.place]
    rw [List.getElem?_append_left hlt]; exact hs
  | stage s' =>
    simp only [ZB.place]
    by_cases h : s' = s
    · subst h
      refine ⟨st ++ [newGroup id sys nr d], getElem?_modify_eq _ _ _ _ hs, fun k g hg => ⟨g, ?_, [], by simp⟩⟩
      have hk : k < st.length := (List.getElem?_eq_some_iff.mp hg).1
      rw [List.getElem?_append_left hk]; exact hg
    · exact ⟨st, by rw [getElem?_modify_ne _ _ _ _ h]; exact hs, fun k g hg => ⟨g, hg, [], by simp⟩⟩
  | group s' k' =>
    simp only [ZB.place]
    by_cases h : s' = s
    · subst h
      refine ⟨st.modify k' (·.push id sys nr d), getElem?_modify_eq _ _ _ _ hs, fun k g hg => ?_⟩
      by_cases hk : k' = k
      · subst hk
        exact ⟨g.push id sys nr d, getElem?_modify_eq _ _ _ _ hg, [id], rfl⟩
      · exact ⟨g, by rw [getElem?_modify_ne _ _ _ _ hk]; exact hg, [], by simp⟩
    · exact ⟨st, by rw [getElem?_modify_ne _ _ _ _ h]; exact hs, fun k g hg => ⟨g, hg, [], by simp⟩⟩

theorem place_mono_inStage (b : ZB) (tg : InsertionTarget) (id sys : Nat) (nr : List ResId) (d : Decl)
    {s x : Nat} (h : InStage b s x) : InStage (b.place tg id sys nr d) s x := by
  obtain ⟨st, g, hs, hg, hx⟩ := h
  obtain ⟨st', hs', hmono⟩ := place_stages_mono b tg id sys nr d hs
  obtain ⟨k, hk⟩ := List.mem_iff_getElem?.mp hg
  obtain ⟨g', hg', tail, htail⟩ := hmono k g hk
  exact ⟨st', g', hs', List.mem_of_getElem? hg', by rw [htail]; exact List.mem_append_left _ hx⟩

theorem place_mono_sameGroup (b : ZB) (tg : InsertionTarget) (id sys : Nat) (nr : List ResId) (d : Decl)
    {A B : Nat} (h : SameGroupBefore b A B) : SameGroupBefore (b.place tg id sys nr d) A B := by
  obtain ⟨s, st, k, g, i, j, hs, hk, hij, hi, hj⟩ := h
  obtain ⟨st', hs', hmono⟩ := place_stages_mono b tg id sys nr d hs
  obtain ⟨g', hg', tail, htail⟩ := hmono k g hk
  have hil : i < g.ids.length := (List.getElem?_eq_some_iff.mp hi).1
  have hjl : j < g.ids.length := (List.getElem?_eq_some_iff.mp hj).1
  refine ⟨s, st', k, g', i, j, hs', hg', hij, ?_, ?_⟩
  · rw [htail, List.getElem?_append_left hil]; exact hi
  · rw [htail, List.getElem?_append_left hjl]; exact hj

/-- ordering facts about systems registered earlier survive every later registration -/
theorem place_mono_ordered (b : ZB) (tg : InsertionTarget) (id sys : Nat) (nr : List ResId) (d : Decl)
    {A B : Nat} (h : OrderedBefore b A B) : OrderedBefore (b.place tg id sys nr d) A B := by
  rcases h with ⟨sa, sb, hlt, ha, hb⟩ | h
  · exact Or.inl ⟨sa, sb, hlt, place_mono_inStage b tg id sys nr d ha, place_mono_inStage b tg id sys nr d hb⟩
  · exact Or.inr (place_mono_sameGroup b tg id sys nr d h)


theorem zVerdict_newGroup {joinOk : ZStage → Nat → Nat → Bool} {st nr nw dep t}
    (h : zVerdict joinOk st nr nw dep t = .newGroup) : zFindConflict st nr nw dep = .none := by
  unfold zVerdict at h
  split at h
  · assumption
  · split at h <;> cases h
  · cases h

theorem zVerdict_join {joinOk : ZStage → Nat → Nat → Bool} {st nr nw dep t g}
    (h : zVerdict joinOk st nr nw dep t = .join g) :
    zFindConflict st nr nw dep = .single g ∧ joinOk st g t = true := by
  unfold zVerdict at h
  split at h
  · cases h
  · rename_i g' hg'
    split at h
    · rename_i hj; cases h; exact ⟨hg', hj⟩
    · cases h
  · cases h

/-- **C02, plan level.** After `insert`, every dependency `A` of the new system (each already
placed somewhere) is ordered before it: in an earlier stage, or earlier in the same group. -/
theorem insert_orders_deps (joinOk : ZStage → Nat → Nat → Bool)
    (norm : List ResId → List ResId)
    (dedupN : List Nat → List Nat) (hded : ∀ l x, x ∈ dedupN l ↔ x ∈ l)
    (b : ZB) (hbar : b.barrier ≤ b.stages.length)
    (dep : List Nat) (id sys : Nat) (d : Decl)
    (A : Nat) (hA : A ∈ dep) (hplaced : ∃ s, InStage b s A) :
    OrderedBefore (b.insert joinOk norm dedupN dep id sys d) A id := by
  obtain ⟨sA, hsA⟩ := hplaced
  have hsAlt : sA < b.stages.length := by
    obtain ⟨st, _, hs, _⟩ := hsA; exact (List.getElem?_eq_some_iff.mp hs).1
  -- where is A w.r.t. the barrier / the prepared list
  have hA1 : A ∈ zPrepDep dedupN b dep ∨ ∃ j, j < b.barrier ∧ InStage b j A := by
    rcases mem_pending (b.stages.take b.barrier) (dedupN dep) ((hded dep A).mpr hA) with h | ⟨j, st, g, hj, hg, hx⟩
    · exact Or.inl h
    · right
      rw [List.getElem?_take] at hj
      split at hj
      · rename_i hjb; exact ⟨j, hjb, st, g, hj, hg, hx⟩
      · cases hj
  unfold ZB.insert ZB.target
  rcases zScan_spec (joinOk := joinOk) (nr := norm d.reads) (nw := d.writes) (t := d.time)
      b.barrier (b.stages.drop b.barrier) (zPrepDep dedupN b dep) with
    ⟨k, st, hk, _, hres⟩ | ⟨_, hres⟩
  · rw [List.getElem?_drop] at hk
    -- A that is still zPending at stage k was found in a scanned stage before k
    have hA2 : ∀ rest, zPending (List.take k (List.drop b.barrier b.stages)) (zPrepDep dedupN b dep) = rest →
        A ∈ rest ∨ ∃ j, j < b.barrier + k ∧ InStage b j A := by
      intro rest hrest
      rcases hA1 with h | ⟨j, hj, hin⟩
      · rcases mem_pending (List.take k (List.drop b.barrier b.stages)) _ h with h' | ⟨j, sj, g, hj, hg, hx⟩
        · exact Or.inl (hrest ▸ h')
        · right
          rw [List.getElem?_take] at hj
          split at hj
          · rename_i hjk
            rw [List.getElem?_drop] at hj
            exact ⟨b.barrier + j, by omega, sj, g, hj, hg, hx⟩
          · cases hj
      · exact Or.inr ⟨j, by omega, hin⟩
    rcases hres with ⟨hv, hsc⟩ | ⟨g, hv, hsc⟩
    · rw [hsc]
      have hnil := (zFindConflict_none (zVerdict_newGroup hv)).2
      rcases hA2 [] hnil with h | ⟨j, hj, hin⟩
      · cases h
      · left
        refine ⟨j, b.barrier + k, hj, place_mono_inStage b _ id sys _ d hin, ?_⟩
        simp only [ZB.place]
        exact ⟨st ++ [newGroup id sys (norm d.reads) d], newGroup id sys (norm d.reads) d,
          getElem?_modify_eq _ _ _ _ hk, by simp, by simp [newGroup]⟩
    · rw [hsc]
      obtain ⟨hfc, _⟩ := zVerdict_join hv
      obtain ⟨⟨gk, hgk⟩, _, hdep⟩ := zFindConflict_single hfc
      have hnew : InStage (b.place (.group (b.barrier + k) g) id sys (norm d.reads) d) (b.barrier + k) id := by
        simp only [ZB.place]
        exact ⟨st.modify g (·.push id sys (norm d.reads) d), gk.push id sys (norm d.reads) d,
          getElem?_modify_eq _ _ _ _ hk, List.mem_of_getElem? (getElem?_modify_eq _ _ _ _ hgk),
          by simp [ZGroup.push]⟩
      rcases hdep with hnil | ⟨dd, g', hone, hg', hdd⟩
      · rcases hA2 [] hnil with h | ⟨j, hj, hin⟩
        · cases h
        · exact Or.inl ⟨j, b.barrier + k, hj, place_mono_inStage b _ id sys _ d hin, hnew⟩
      · rcases hA2 [dd] hone with h | ⟨j, hj, hin⟩
        · -- A is the one remaining dependency: it sits in the joined group
          simp at h; subst h
          rw [hgk] at hg'; cases hg'
          obtain ⟨i, hi⟩ := List.mem_iff_getElem?.mp hdd
          have hil : i < gk.ids.length := (List.getElem?_eq_some_iff.mp hi).1
          right
          refine ⟨b.barrier + k, st.modify g (·.push id sys (norm d.reads) d), g,
            gk.push id sys (norm d.reads) d, i, gk.ids.length, ?_, getElem?_modify_eq _ _ _ _ hgk, hil, ?_, ?_⟩
          · simp only [ZB.place]; exact getElem?_modify_eq _ _ _ _ hk
          · simp only [ZGroup.push]; rw [List.getElem?_append_left hil]; exact hi
          · simp [ZGroup.push]
        · exact Or.inl ⟨j, b.barrier + k, hj, place_mono_inStage b _ id sys _ d hin, hnew⟩
  · rw [hres]
    left
    refine ⟨sA, b.stages.length, hsAlt, place_mono_inStage b _ id sys _ d hsA, ?_⟩
    simp only [ZB.place]
    exact ⟨[newGroup id sys (norm d.reads) d], newGroup id sys (norm d.reads) d,
      by simp, by simp, by simp [newGroup]⟩


/-! ### C10, plan level: a stage is skipped only for a reason -/

theorem foldl_erase_sub {x : Nat} (ids dep : List Nat) (hx : x ∈ ids.foldl (fun d id => d.erase id) dep) :
    x ∈ dep := by
  induction ids generalizing dep with
  | nil => exact hx
  | cons i ids ih => exact List.mem_of_mem_erase (ih (dep.erase i) hx)

theorem foldl_erase_nodup (ids dep : List Nat) (h : dep.Nodup) :
    (ids.foldl (fun d id => d.erase id) dep).Nodup := by
  induction ids generalizing dep with
  | nil => exact h
  | cons i ids ih => exact ih (dep.erase i) (h.erase i)

theorem not_mem_foldl_erase {x : Nat} (ids dep : List Nat) (h : dep.Nodup) (hx : x ∈ ids) :
    x ∉ ids.foldl (fun d id => d.erase id) dep := by
  induction ids generalizing dep with
  | nil => cases hx
  | cons i ids ih =>
    simp only [List.foldl]
    rcases List.mem_cons.mp hx with rfl | hx'
    · intro hmem
      have := foldl_erase_sub ids _ hmem
      rw [h.mem_erase_iff] at this
      exact this.1 rfl
    · exact ih (dep.erase i) (h.erase i) hx'

theorem zRemoveIds_sub {x : Nat} (st : ZStage) (dep : List Nat) (hx : x ∈ zRemoveIds st dep) : x ∈ dep := by
  unfold zRemoveIds at hx
  split at hx
  · exact hx
  · exact foldl_erase_sub _ _ hx

theorem zRemoveIds_nodup (st : ZStage) (dep : List Nat) (h : dep.Nodup) : (zRemoveIds st dep).Nodup := by
  unfold zRemoveIds
  split
  · exact h
  · exact foldl_erase_nodup _ _ h

theorem not_mem_removeIds {x : Nat} (st : ZStage) (dep : List Nat) (h : dep.Nodup)
    (hx : ∃ g, g ∈ st ∧ x ∈ g.ids) : x ∉ zRemoveIds st dep := by
  unfold zRemoveIds
  split
  · rename_i he
    have : dep = [] := by simpa using he
    simp [this]
  · obtain ⟨g, hg, hxg⟩ := hx
    exact not_mem_foldl_erase _ _ h (by simp only [List.mem_flatMap]; exact ⟨g, hg, hxg⟩)

theorem zPending_sub {x : Nat} (sts : List ZStage) (dep : List Nat) (hx : x ∈ zPending sts dep) : x ∈ dep := by
  induction sts generalizing dep with
  | nil => exact hx
  | cons st rest ih => exact zRemoveIds_sub st dep (ih (zRemoveIds st dep) (by simpa [zPending] using hx))

theorem zPending_nodup (sts : List ZStage) (dep : List Nat) (h : dep.Nodup) : (zPending sts dep).Nodup := by
  induction sts generalizing dep with
  | nil => exact h
  | cons st rest ih => simpa [zPending] using ih (zRemoveIds st dep) (zRemoveIds_nodup st dep h)

theorem not_mem_pending {x : Nat} (sts : List ZStage) (dep : List Nat) (h : dep.Nodup)
    (hx : ∃ (j : Nat) (st : ZStage) (g : ZGroup), sts[j]? = some st ∧ g ∈ st ∧ x ∈ g.ids) :
    x ∉ zPending sts dep := by
  induction sts generalizing dep with
  | nil => obtain ⟨j, st, g, hj, _⟩ := hx; simp at hj
  | cons st rest ih =>
    obtain ⟨j, sj, g, hj, hg, hxg⟩ := hx
    have hp : zPending (st :: rest) dep = zPending rest (zRemoveIds st dep) := by simp [zPending]
    rw [hp]
    cases j with
    | zero =>
      simp at hj; subst hj
      exact fun hmem => not_mem_removeIds st dep h ⟨g, hg, hxg⟩ (zPending_sub rest _ hmem)
    | succ j =>
      exact ih (zRemoveIds st dep) (zRemoveIds_nodup st dep h) ⟨j, sj, g, by simpa using hj, hg, hxg⟩

/-- if a stage is not accepted as "no conflict", a group has a resource hit or a dependency is zPending -/
theorem zFindConflict_ne_none {st : ZStage} {nr nw : List ResId} {dep : List Nat}
    (h : zFindConflict st nr nw dep ≠ .none) :
    (∃ g, g ∈ st ∧ resHit nr nw g = true) ∨ dep ≠ [] := by
  by_cases hd : dep = []
  · left
    subst hd
    apply Classical.byContradiction
    intro hno
    apply h
    have hall : ∀ g, g ∈ st → resHit nr nw g = false := by
      intro g hg
      cases hr : resHit nr nw g with
      | false => rfl
      | true => exact absurd ⟨g, hg, hr⟩ hno
    have hdep : ∀ g : ZGroup, depHit [] g = false := by intro g; simp [depHit, inter]
    have hh : zHits st nr nw [] = [] := by
      apply List.eq_nil_iff_forall_not_mem.mpr
      intro i hi
      obtain ⟨g, hg, hhit⟩ := mem_hits.mp hi
      rw [hall g (List.mem_of_getElem? hg), hdep g] at hhit
      cases hhit
    have hdc : zDepConflict st nr nw [] = false := by
      simp only [zDepConflict, List.any_eq_false]
      intro g _
      simp [hdep g]
    unfold zFindConflict
    simp [hh, hdc]
  · exact Or.inr hd

theorem zVerdict_reject {joinOk : ZStage → Nat → Nat → Bool} {st nr nw dep t}
    (h : zVerdict joinOk st nr nw dep t = .reject) : zFindConflict st nr nw dep ≠ .none := by
  intro hn
  simp [zVerdict, hn] at h

def InsertionTarget.stageOr (tg : InsertionTarget) (len : Nat) : Nat :=
  match tg with
  | .stage s => s
  | .group s _ => s
  | .newStage => len

/-- **C10, plan level** (for the repaired `insert`): every stage between the barrier and the
chosen one holds an earlier system that conflicts with the new one, or one of the new
system's dependencies sits in that stage or a later one. -/
theorem insert_skips_justified {D : Nat → Decl} (joinOk : ZStage → Nat → Nat → Bool)
    (norm : List ResId → List ResId) (hnorm : ∀ l x, x ∈ norm l ↔ x ∈ l)
    (dedupN : List Nat → List Nat) (hded : ∀ l x, x ∈ dedupN l ↔ x ∈ l)
    (hnodup : ∀ l, (dedupN l).Nodup)
    (b : ZB) (hb : b.OK D) (dep : List Nat) (d : Decl)
    (hplaced : ∀ A, A ∈ dep → ∃ s, InStage b s A)
    (s : Nat) (hs1 : b.barrier ≤ s)
    (hs2 : s < (b.target joinOk dedupN dep (norm d.reads) d).stageOr b.stages.length) :
    (∃ (st : ZStage) (g : ZGroup) (a : Nat), b.stages[s]? = some st ∧ g ∈ st ∧ a ∈ g.sys ∧ conflictsD d (D a)) ∨
    (∃ A s', A ∈ dep ∧ s ≤ s' ∧ InStage b s' A) := by
  have hnr : ∀ x, x ∈ norm d.reads ↔ x ∈ d.reads := hnorm d.reads
  -- every scanned-and-rejected stage has a reason
  have key : ∀ (j : Nat) (sj : ZStage), (b.stages.drop b.barrier)[j]? = some sj →
      zVerdict joinOk sj (norm d.reads) d.writes
        (zPending ((b.stages.drop b.barrier).take j) (zPrepDep dedupN b dep)) d.time = .reject →
      (∃ (g : ZGroup) (a : Nat), g ∈ sj ∧ a ∈ g.sys ∧ conflictsD d (D a)) ∨
      (∃ A s', A ∈ dep ∧ b.barrier + j ≤ s' ∧ InStage b s' A) := by
    intro j sj hj hv
    rw [List.getElem?_drop] at hj
    rcases zFindConflict_ne_none (zVerdict_reject hv) with ⟨g, hg, hhit⟩ | hne
    · left
      have hacc := (hb sj (List.mem_of_getElem? hj)).accum g hg
      have : ¬ (∀ a, a ∈ g.sys → ¬ conflictsD d (D a)) := by
        intro hall
        have := (resHit_false_iff hacc d (norm d.reads) hnr).mpr hall
        rw [this] at hhit; cases hhit
      apply Classical.byContradiction
      intro hno
      exact this (fun a ha hc => hno ⟨g, a, hg, ha, hc⟩)
    · right
      obtain ⟨A, hAp⟩ := List.exists_mem_of_ne_nil _ hne
      have hA1 : A ∈ zPrepDep dedupN b dep := zPending_sub _ _ hAp
      have hA0 : A ∈ dep := (hded dep A).mp (zPending_sub _ _ hA1)
      obtain ⟨sA, hsA⟩ := hplaced A hA0
      refine ⟨A, sA, hA0, ?_, hsA⟩
      -- A survived both removals, so it is in no stage below barrier + j
      apply Classical.byContradiction
      intro hlt
      have hlt : sA < b.barrier + j := by omega
      obtain ⟨st, g, hst, hg, hx⟩ := hsA
      by_cases hsb : sA < b.barrier
      · exact not_mem_pending (b.stages.take b.barrier) (dedupN dep) (hnodup dep)
          ⟨sA, st, g, by rw [List.getElem?_take]; simp [hsb, hst], hg, hx⟩ hA1
      · have hnd : (zPrepDep dedupN b dep).Nodup := zPending_nodup _ _ (hnodup dep)
        refine not_mem_pending ((b.stages.drop b.barrier).take j) (zPrepDep dedupN b dep) hnd
          ⟨sA - b.barrier, st, g, ?_, hg, hx⟩ hAp
        rw [List.getElem?_take, List.getElem?_drop]
        have h1 : sA - b.barrier < j := by omega
        have h2 : b.barrier + (sA - b.barrier) = sA := by omega
        simp [h1, h2, hst]
  unfold ZB.target at hs2
  have hsj : b.barrier + (s - b.barrier) = s := by omega
  rcases zScan_spec (joinOk := joinOk) (nr := norm d.reads) (nw := d.writes) (t := d.time)
      b.barrier (b.stages.drop b.barrier) (zPrepDep dedupN b dep) with
    ⟨k, st, hk, hbefore, hres⟩ | ⟨hall, hres⟩
  · have hsk : s - b.barrier < k := by
      rcases hres with ⟨_, hsc⟩ | ⟨g, _, hsc⟩ <;> (rw [hsc] at hs2; simp [InsertionTarget.stageOr] at hs2; omega)
    have hklen : k < (b.stages.drop b.barrier).length := (List.getElem?_eq_some_iff.mp hk).1
    obtain ⟨sj, hsjg⟩ : ∃ sj, (b.stages.drop b.barrier)[s - b.barrier]? = some sj :=
      ⟨_, List.getElem?_eq_getElem (by omega)⟩
    rcases key _ sj hsjg (hbefore _ sj hsk hsjg) with ⟨g, a, hg, ha, hc⟩ | ⟨A, s', hA, hle, hin⟩
    · left
      rw [List.getElem?_drop, hsj] at hsjg
      exact ⟨sj, g, a, hsjg, hg, ha, hc⟩
    · exact Or.inr ⟨A, s', hA, by omega, hin⟩
  · rw [hres] at hs2
    simp [InsertionTarget.stageOr] at hs2
    obtain ⟨sj, hsjg⟩ : ∃ sj, (b.stages.drop b.barrier)[s - b.barrier]? = some sj :=
      ⟨_, List.getElem?_eq_getElem (by simp; omega)⟩
    rcases key _ sj hsjg (hall _ sj hsjg) with ⟨g, a, hg, ha, hc⟩ | ⟨A, s', hA, hle, hin⟩
    · left
      rw [List.getElem?_drop, hsj] at hsjg
      exact ⟨sj, g, a, hsjg, hg, ha, hc⟩
    · exact Or.inr ⟨A, s', hA, by omega, hin⟩


end Shred
