import ShredModel.Model.Builder
/-!
# The printed plan (C20): structure of the text, and which name stands for which system
-/
namespace Shred
namespace DispatcherBuilder

/-- the builder's name map after any sequence of `add` calls: ids below `currentId`, pairwise
distinct, names pairwise distinct -/
structure MapOK (b : DispatcherBuilder) : Prop where
  lt : ∀ p, p ∈ b.map → p.2 < b.currentId
  ids : (b.map.map (·.2)).Nodup
  names : (b.map.map (·.1)).Nodup

theorem mapOK_init : MapOK {} := ⟨by simp, by simp, by simp⟩

theorem lookup_none_iff (m : List (String × SysId)) (n : String) : lookup m n = none ↔ n ∉ m.map (·.1) := by
  unfold lookup
  simp only [Option.map_eq_none_iff, List.find?_eq_none, beq_iff_eq, List.mem_map, not_exists, not_and]

theorem mapOK_add (b : DispatcherBuilder) (h : MapOK b) (tag : SysTag) (name : String) (dep : List String) (d : Decl) :
    MapOK (b.add tag name dep d).1 := by
  unfold add
  simp only []
  cases resolve b.map dep with
  | error x => exact ⟨fun p hp => Nat.lt_succ_of_lt (h.lt p hp), h.ids, h.names⟩
  | ok ids =>
    simp only []
    split
    · rename_i hn
      split
      · exact ⟨fun p hp => Nat.lt_succ_of_lt (h.lt p hp), h.ids, h.names⟩
      · rename_i hl
        have hl' : lookup b.map name = none := by
          cases hx : lookup b.map name with
          | none => rfl
          | some v => simp [hx] at hl
        refine ⟨?_, ?_, ?_⟩
        · intro p hp
          simp only [List.mem_cons] at hp
          rcases hp with rfl | hp
          · exact Nat.lt_succ_self _
          · exact Nat.lt_succ_of_lt (h.lt p hp)
        · simp only [List.map_cons, List.nodup_cons]
          refine ⟨?_, h.ids⟩
          intro hm
          obtain ⟨p, hp, he⟩ := List.mem_map.mp hm
          have := h.lt p hp
          rw [he] at this
          exact Nat.lt_irrefl _ this
        · simp only [List.map_cons, List.nodup_cons]
          exact ⟨(lookup_none_iff _ _).mp hl', h.names⟩
    · exact ⟨fun p hp => Nat.lt_succ_of_lt (h.lt p hp), h.ids, h.names⟩

/-- a system registered under `name` is printed under its sanitised name -/
theorem printedName_named {m : List (String × SysId)} (hids : (m.map (·.2)).Nodup) {name : String} {id : SysId}
    (h : (name, id) ∈ m) : printedName m id = sanitise name := by
  unfold printedName
  induction m with
  | nil => cases h
  | cons p m ih =>
    simp only [List.map_cons, List.nodup_cons] at hids
    simp only [List.find?_cons]
    rcases List.mem_cons.mp h with rfl | h'
    · simp only [BEq.rfl]
    · have : p.2 ≠ id := by
        intro e
        exact hids.1 (List.mem_map.mpr ⟨(name, id), h', e.symm⟩)
      have hb : (p.2 == id) = false := by simpa using this
      simp only [hb]
      exact ih hids.2 h'

/-- a system without a name in the map is printed as the placeholder carrying its id -/
theorem printedName_unnamed {m : List (String × SysId)} {id : SysId} (h : ∀ p, p ∈ m → p.2 ≠ id) :
    printedName m id = sanitise s!"unnamed_system_{id}" := by
  unfold printedName
  have : m.find? (fun p => p.2 == id) = none := by
    simp only [List.find?_eq_none, beq_iff_eq]
    exact h
  rw [this]

end DispatcherBuilder
end Shred
