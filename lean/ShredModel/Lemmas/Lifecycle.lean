import ShredModel.Model.Lifecycle
/-!
# Lemmas for C13: which systems setup / dispose reach, and what setup does to the world
-/
namespace Shred

/-- the systems whose `setup` hook an event list calls, in order -/
def setupSys : List LEv → List SysTag
  | [] => []
  | .S t :: l => t :: setupSys l
  | _ :: l => setupSys l

/-- the systems handed to their `dispose` hook, in order -/
def disposeSys : List LEv → List SysTag
  | [] => []
  | .X t :: l => t :: disposeSys l
  | _ :: l => disposeSys l

theorem setupSys_append (a b : List LEv) : setupSys (a ++ b) = setupSys a ++ setupSys b := by
  induction a with
  | nil => rfl
  | cons e a ih => cases e <;> simp [setupSys, ih]

theorem disposeSys_append (a b : List LEv) : disposeSys (a ++ b) = disposeSys a ++ disposeSys b := by
  induction a with
  | nil => rfl
  | cons e a ih => cases e <;> simp [disposeSys, ih]

theorem setupSys_map_S (l : List SysTag) : setupSys (l.map .S) = l := by
  induction l with
  | nil => rfl
  | cons t l ih => simp [setupSys, ih]

theorem disposeSys_map_X (l : List SysTag) : disposeSys (l.map .X) = l := by
  induction l with
  | nil => rfl
  | cons t l ih => simp [disposeSys, ih]

theorem setupSys_flatMap {α} (l : List α) (f : α → List LEv) :
    setupSys (l.flatMap f) = l.flatMap fun a => setupSys (f a) := by
  induction l with
  | nil => rfl
  | cons a l ih => simp [List.flatMap_cons, setupSys_append, ih]

theorem disposeSys_flatMap {α} (l : List α) (f : α → List LEv) :
    disposeSys (l.flatMap f) = l.flatMap fun a => disposeSys (f a) := by
  induction l with
  | nil => rfl
  | cons a l ih => simp [List.flatMap_cons, disposeSys_append, ih]

theorem flatMap_congr' {α β} (l : List α) (f g : α → List β) (h : ∀ a, a ∈ l → f a = g a) :
    l.flatMap f = l.flatMap g := by
  induction l with
  | nil => rfl
  | cons a l ih =>
    simp only [List.flatMap_cons]
    rw [h a (by simp), ih (fun b hb => h b (by simp [hb]))]

/-- the systems of a dispatcher in layout order, batches replaced by what they contain -/
def sysList (stages : Table (List SysTag)) (tl : List SysTag) (inner : SysTag → Option (List SysTag)) : List SysTag :=
  (stages.flatten.flatten.flatMap fun t => match inner t with | some l => l | none => [t]) ++ tl

theorem setupSys_setupOrder (stages : Table (List SysTag)) (tl : List SysTag) (bs : List (SysTag × Nat × List LEv)) :
    setupSys (setupOrder stages tl bs) = sysList stages tl fun t => (findL bs t).map fun p => setupSys p.2 := by
  unfold setupOrder sysList
  rw [setupSys_append, setupSys_map_S, setupSys_flatMap]
  congr 1
  apply flatMap_congr'
  intro t _
  show _ = match (findL bs t).map _ with | some l => l | none => [t]
  cases findL bs t with
  | none => rfl
  | some p => obtain ⟨k, inner⟩ := p; rfl

theorem disposeSys_disposeOrder (stages : Table (List SysTag)) (tl : List SysTag) (bs : List (SysTag × Nat × List LEv)) :
    disposeSys (disposeOrder stages tl bs) = sysList stages tl fun t => (findL bs t).map fun p => disposeSys p.2 := by
  unfold disposeOrder sysList
  rw [disposeSys_append, disposeSys_map_X, disposeSys_flatMap]
  congr 1
  apply flatMap_congr'
  intro t _
  show _ = match (findL bs t).map _ with | some l => l | none => [t]
  cases findL bs t with
  | none => rfl
  | some p => obtain ⟨k, inner⟩ := p; rfl

/-! ### the world -/

theorem has_iff (w : LWorld) (x : ResId) : w.has x = true ↔ ∃ v, (x, v) ∈ w := by
  simp only [LWorld.has, List.any_eq_true, beq_iff_eq]
  constructor
  · rintro ⟨p, hp, rfl⟩; exact ⟨p.2, hp⟩
  · rintro ⟨v, hv⟩; exact ⟨(x, v), hv, rfl⟩

theorem has_orInsertDefault (w : LWorld) (r x : ResId) :
    (orInsertDefault w r).has x = true ↔ w.has x = true ∨ x = r := by
  unfold orInsertDefault
  by_cases h : w.has r = true
  · rw [if_pos h]
    constructor
    · exact Or.inl
    · rintro (h' | rfl)
      · exact h'
      · exact h
  · rw [if_neg h]
    rw [has_iff, has_iff]
    constructor
    · rintro ⟨v, hv⟩
      rcases List.mem_append.mp hv with hv | hv
      · exact Or.inl ⟨v, hv⟩
      · simp at hv; exact Or.inr hv.1
    · rintro (⟨v, hv⟩ | rfl)
      · exact ⟨v, List.mem_append_left _ hv⟩
      · exact ⟨0, List.mem_append_right _ (by simp)⟩

theorem get?_orInsertDefault_of_some (w : LWorld) (r x : ResId) (v : Nat) (h : w.get? x = some v) :
    (orInsertDefault w r).get? x = some v := by
  unfold orInsertDefault
  split
  · exact h
  · simp only [LWorld.get?, List.find?_append] at *
    cases hf : List.find? (fun p => p.1 == x) w with
    | none => simp [hf] at h
    | some p => simpa [hf] using h

end Shred

namespace Shred

theorem get?_foldl_orInsert (rs : List ResId) (w : LWorld) (x : ResId) (v : Nat) (h : w.get? x = some v) :
    (rs.foldl orInsertDefault w).get? x = some v := by
  induction rs generalizing w with
  | nil => exact h
  | cons r rs ih => exact ih _ (get?_orInsertDefault_of_some w r x v h)

theorem get?_setupEv (w : LWorld) (e : LEv) (x : ResId) (v : Nat) (h : w.get? x = some v) :
    (setupEv w e).get? x = some v := by
  cases e with
  | S t => exact h
  | X t => exact h
  | C t k => exact get?_foldl_orInsert _ w x v h

/-- setup never modifies a resource that already exists -/
theorem setupWorld_preserves (evs : List LEv) (w : LWorld) (x : ResId) (v : Nat) (h : w.get? x = some v) :
    (setupWorld evs w).get? x = some v := by
  unfold setupWorld
  induction evs generalizing w with
  | nil => exact h
  | cons e evs ih => exact ih _ (get?_setupEv w e x v h)

theorem has_foldl_orInsert (rs : List ResId) (w : LWorld) (x : ResId) :
    (rs.foldl orInsertDefault w).has x = true ↔ w.has x = true ∨ x ∈ rs := by
  induction rs generalizing w with
  | nil => simp
  | cons r rs ih =>
    simp only [List.foldl, ih, has_orInsertDefault, List.mem_cons]
    constructor
    · rintro ((h | h) | h)
      · exact Or.inl h
      · exact Or.inr (Or.inl h)
      · exact Or.inr (Or.inr h)
    · rintro (h | h | h)
      · exact Or.inl (Or.inl h)
      · exact Or.inl (Or.inr h)
      · exact Or.inr h

theorem has_setupEv_mono (w : LWorld) (e : LEv) (x : ResId) (h : w.has x = true) : (setupEv w e).has x = true := by
  cases e with
  | S t => exact h
  | X t => exact h
  | C t k => exact (has_foldl_orInsert _ w x).mpr (Or.inl h)

theorem has_setupWorld_mono (evs : List LEv) (w : LWorld) (x : ResId) (h : w.has x = true) :
    (setupWorld evs w).has x = true := by
  unfold setupWorld
  induction evs generalizing w with
  | nil => exact h
  | cons e evs ih => exact ih _ (has_setupEv_mono w e x h)

/-- after setup every resource a default-providing accessor asks for exists -/
theorem setupWorld_creates (evs : List LEv) (w : LWorld) (t : SysTag) (k : Nat) (r : ResId)
    (he : LEv.C t k ∈ evs) (hr : r ∈ ctlCreates k) : (setupWorld evs w).has r = true := by
  induction evs generalizing w with
  | nil => cases he
  | cons e evs ih =>
    rcases List.mem_cons.mp he with rfl | he
    · show (setupWorld evs (setupEv w (LEv.C t k))).has r = true
      exact has_setupWorld_mono evs _ r ((has_foldl_orInsert _ w r).mpr (Or.inr hr))
    · exact ih _ he

/-- a resource that exists after setup existed before or was asked for by a default-providing accessor -/
theorem setupWorld_only (evs : List LEv) (w : LWorld) (r : ResId) (h : (setupWorld evs w).has r = true) :
    w.has r = true ∨ ∃ t k, LEv.C t k ∈ evs ∧ r ∈ ctlCreates k := by
  induction evs generalizing w with
  | nil => exact Or.inl h
  | cons e evs ih =>
    rcases ih (setupEv w e) h with h' | ⟨t, k, he, hr⟩
    · cases e with
      | S t => exact Or.inl h'
      | X t => exact Or.inl h'
      | C t k =>
        rcases (has_foldl_orInsert _ w r).mp h' with h'' | h''
        · exact Or.inl h''
        · exact Or.inr ⟨t, k, by simp, h''⟩
    · exact Or.inr ⟨t, k, List.mem_cons_of_mem _ he, hr⟩

theorem foldl_orInsert_id (rs : List ResId) (w : LWorld) (h : ∀ r, r ∈ rs → w.has r = true) :
    rs.foldl orInsertDefault w = w := by
  induction rs with
  | nil => rfl
  | cons r rs ih =>
    have : orInsertDefault w r = w := by unfold orInsertDefault; rw [if_pos (h r (by simp))]
    simp only [List.foldl, this]
    exact ih (fun r' hr' => h r' (by simp [hr']))

/-- setup changes nothing when every default-provided resource is already there — in
particular a second setup, and any setup through optional / expecting accessors only -/
theorem setupWorld_id (evs : List LEv) (w : LWorld)
    (h : ∀ t k r, LEv.C t k ∈ evs → r ∈ ctlCreates k → w.has r = true) : setupWorld evs w = w := by
  unfold setupWorld
  induction evs with
  | nil => rfl
  | cons e evs ih =>
    have he : setupEv w e = w := by
      cases e with
      | S t => rfl
      | X t => rfl
      | C t k => exact foldl_orInsert_id _ w (fun r hr => h t k r (by simp) hr)
    simp only [List.foldl, he]
    exact ih (fun t k r hm hr => h t k r (List.mem_cons_of_mem _ hm) hr)

theorem setupWorld_idempotent (evs : List LEv) (w : LWorld) :
    setupWorld evs (setupWorld evs w) = setupWorld evs w :=
  setupWorld_id evs _ (fun t k r he hr => setupWorld_creates evs w t k r he hr)

end Shred
