import ShredModel.Lemmas.AsyncInv
/-!
# Soundness of the merged-log acceptor, and what each kind of visible event presupposes

`acceptsLog_sound`: a log the driver accepts is the log of a run of the transition system
(`Run`), hence everything proved about all runs holds of it.
`step_ret_cases` / `step_sys_cases` / `step_tl_cases`: which step, from which caller / job
state, can have emitted a given event.
-/
namespace Shred
namespace Async
open RTask

theorem tryStep_run {P : APlan} {c : Ctl} {l : List AEv} (h : Run P c l) (lb : Lbl) :
    Run P (tryStep P c lb) l := by
  unfold tryStep
  split
  · rename_i c' hs
    simpa [optList] using Run.step h hs
  · exact h

theorem visStep_run {P : APlan} {c c' : Ctl} {l : List AEv} {lb : Lbl} {o : AEv} (h : Run P c l)
    (hv : visStep P c lb o = some c') : Run P c' (l ++ [o]) := by
  unfold visStep at hv
  split at hv
  · rename_i c'' o' hs
    split at hv
    · rename_i heq
      cases hv
      subst heq
      simpa [optList] using Run.step h hs
    · cases hv
  · cases hv

theorem feed_run {P : APlan} {c c' : Ctl} {l : List AEv} {o : AEv} (h : Run P c l)
    (hf : feed P c o = some c') : Run P c' (l ++ [o]) := by
  unfold feed at hf
  split at hf
  · exact visStep_run h hf
  · exact visStep_run (tryStep_run h _) hf
  · refine visStep_run (tryStep_run ?_ _) hf
    split
    · exact tryStep_run (tryStep_run (tryStep_run h _) _) _
    · exact h
  · refine visStep_run ?_ hf
    split
    · exact tryStep_run (tryStep_run h _) _
    · exact h
  · exact visStep_run h hf
  · exact visStep_run h hf
  · exact visStep_run h hf
  · refine visStep_run ?_ hf
    split
    · exact tryStep_run h _
    · exact h
  · refine visStep_run ?_ hf
    split
    · exact tryStep_run (tryStep_run h _) _
    · exact h
  · exact visStep_run (tryStep_run h _) hf
  · split at hf
    · rename_i c'' hv
      cases hf
      exact visStep_run h hv
    · refine visStep_run (tryStep_run ?_ _) hf
      split
      · exact tryStep_run (tryStep_run h _) _
      · exact h

theorem feedAll_run {P : APlan} {c c' : Ctl} {l l' : List AEv} (h : Run P c l)
    (hf : feedAll P c l' = some c') : Run P c' (l ++ l') := by
  induction l' generalizing c l with
  | nil => simp [feedAll] at hf; subst hf; simpa using h
  | cons o l' ih =>
    simp only [feedAll] at hf
    split at hf
    · rename_i c1 h1
      have := ih (feed_run h h1) hf
      simpa using this
    · cases hf

/-- **Soundness of the acceptor.** A merged log (caller `call`/`ret` events + system events)
accepted by the executable acceptor is the log of a run of the transition system. -/
theorem acceptsLog_sound {P : APlan} {l : List AEv} (h : acceptsLog P l = true) :
    ∃ c, Run P c l ∧ c.final = true := by
  unfold acceptsLog at h
  split at h
  · rename_i c hc
    exact ⟨c, by simpa using feedAll_run Run.init hc, h⟩
  · cases h

/-! ### which step emitted an event

Each lemma is a look at every clause of `step`. -/

theorem step_ret_cases {P : APlan} {c c' : Ctl} {lb : Lbl} {op : AOp} {v : Bool}
    (hs : step P c lb = some (c', some (.ret op v))) :
    (c.caller = .holding op ∧ op ≠ .dispatch) ∨ (c.caller = .spawned ∧ op = .dispatch) ∨
    (∃ r, c.caller = .inTl r ∧ op = .wait) ∨ (c.caller = .polled v ∧ op = .running) ∨
    (c.caller = .inSetup [] ∧ op = .setup) := by
  obtain ⟨data, job, caller, n⟩ := c
  cases lb <;> simp only [step] at hs <;> (repeat' (split at hs)) <;> (try cases hs) <;> simp_all

/-- `wait` returns only when the thread-local task is through -/
theorem step_ret_inTl {P : APlan} {c c' : Ctl} {lb : Lbl} {op : AOp} {v : Bool} {r : RTask Nat}
    (hs : step P c lb = some (c', some (.ret op v))) (hc : c.caller = .inTl r) : r.nullable = true := by
  obtain ⟨data, job, caller, n⟩ := c
  simp only at hc
  subst hc
  cases lb <;> simp only [step] at hs <;> (repeat' (split at hs)) <;> (try cases hs) <;> simp_all

theorem step_sys_cases {P : APlan} {c c' : Ctl} {lb : Lbl} {th : Th} {d : Nat} {e : Ev Nat}
    (hs : step P c lb = some (c', some (.sys th d e))) :
    th = .worker ∧ d = c.nDisp - 1 ∧ ((∃ r, c.job = .running r) ∨ ∃ r ps, c.job = .failed r ps false) := by
  obtain ⟨data, job, caller, n⟩ := c
  cases lb <;> simp only [step] at hs <;> (repeat' (split at hs)) <;> (try cases hs) <;> simp_all

theorem step_tl_cases {P : APlan} {c c' : Ctl} {lb : Lbl} {th : Th} {e : Ev Nat}
    (hs : step P c lb = some (c', some (.tl th e))) :
    th = .caller ∧ ∃ r, c.caller = .inTl r := by
  obtain ⟨data, job, caller, n⟩ := c
  cases lb <;> simp only [step] at hs <;> (repeat' (split at hs)) <;> (try cases hs) <;> simp_all

/-- a `quiet` event is emitted by `observe` only: between two operations, with no system of
the job inside `run` or still to be started; the control state is left alone -/
theorem step_quiet_cases {P : APlan} {c c' : Ctl} {lb : Lbl}
    (hs : step P c lb = some (c', some .quiet)) :
    c.caller = .ready ∧ c.job.quiet = true ∧ c' = c := by
  obtain ⟨data, job, caller, n⟩ := c
  cases lb <;> simp only [step] at hs <;> (repeat' (split at hs)) <;> (try cases hs) <;> simp_all

/-- a panic of an ordinary system: a step of the job, the system is inside its window -/
theorem step_sysP_cases {P : APlan} {c c' : Ctl} {lb : Lbl} {th : Th} {d x : Nat}
    (hs : step P c lb = some (c', some (.sysP th d x))) :
    th = .worker ∧ d = c.nDisp - 1 ∧ c'.data = c.data ∧ c'.caller = c.caller ∧
    ((∃ r, c.job = .running r ∧ (opens r).contains x = true ∧ c'.job = .failed r [x] false) ∨
     ∃ r ps, c.job = .failed r ps false ∧ (opens r).contains x = true ∧ c'.job = .failed r (x :: ps) false) := by
  obtain ⟨data, job, caller, n⟩ := c
  cases lb <;> simp only [step] at hs <;> (repeat' (split at hs)) <;> (try cases hs) <;> simp_all
  rename_i h
  exact ⟨_, _, ⟨rfl, rfl⟩, h.1, rfl, rfl⟩

/-- a panic of a thread-local system: inside `wait`, the system is inside its window; `Data`, the
job and the dispatch count are left alone -/
theorem step_tlP_cases {P : APlan} {c c' : Ctl} {lb : Lbl} {th : Th} {x : Nat}
    (hs : step P c lb = some (c', some (.tlP th x))) :
    th = .caller ∧ (∃ r, c.caller = .inTl r ∧ (opens r).contains x = true) ∧
    c' = { c with caller := .tlFailed } := by
  obtain ⟨data, job, caller, n⟩ := c
  cases lb <;> simp only [step] at hs <;> (repeat' (split at hs)) <;> (try cases hs) <;> simp_all

/-- a call unwinds: "Sender dropped" (the job has failed and its sender is gone; any of the nine
methods), or a thread-local system has panicked inside `wait`; nothing but the caller changes -/
theorem step_unwound_cases {P : APlan} {c c' : Ctl} {lb : Lbl} {op : AOp}
    (hs : step P c lb = some (c', some (.unwound op))) :
    c' = { c with caller := .ready } ∧
    ((c.caller = .called op ∧ c.data = .rx ∧ ∃ r ps, c.job = .failed r ps true) ∨
     (c.caller = .tlFailed ∧ op = .wait)) := by
  obtain ⟨data, job, caller, n⟩ := c
  cases lb <;> simp only [step] at hs <;> (repeat' (split at hs)) <;> (try cases hs) <;> simp_all

theorem step_hook_cases {P : APlan} {c c' : Ctl} {lb : Lbl} {th : Th} {x : Nat}
    (hs : step P c lb = some (c', some (.hook th x))) :
    th = .caller ∧ ∃ rest, c.caller = .inSetup (x :: rest) ∧ c' = { c with caller := .inSetup rest } := by
  obtain ⟨data, job, caller, n⟩ := c
  cases lb <;> simp only [step] at hs <;> (repeat' (split at hs)) <;> (try cases hs) <;> simp_all

theorem step_gone_cases {P : APlan} {c c' : Ctl} {lb : Lbl}
    (hs : step P c lb = some (c', some .gone)) :
    c.caller = .ready ∧ (∃ r ps, c.job = .failed r ps true) ∧ c' = c := by
  obtain ⟨data, job, caller, n⟩ := c
  cases lb <;> simp only [step] at hs <;> (repeat' (split at hs)) <;> (try cases hs) <;> simp_all

/-! ### quiescence -/

theorem inv_quiescent {P : APlan} {c : Ctl} {l : List AEv} (hi : Inv P c l) (hd : c.data = .inner) :
    Quiescent P l c.nDisp := by
  obtain ⟨data, job, caller, n⟩ := c
  obtain ⟨hdj, hbey, hear, hcur, _, _, _⟩ := hi
  simp only at hd hdj hbey hear hcur
  subst hd
  cases job <;> simp [dataOk] at hdj
  refine ⟨fun d h => ?_, hbey⟩
  have h : d < n := h
  by_cases h' : d + 1 < n
  · exact hear d h'
  · have : d = n - 1 := by omega
    subst this
    exact hcur (by omega)

/-- the same with `Data::Rx`, provided the job has nothing left but its `send` -/
theorem inv_quiescent_quiet {P : APlan} {c : Ctl} {l : List AEv} (hi : Inv P c l) (hq : c.job.quiet = true) :
    Quiescent P l c.nDisp := by
  obtain ⟨data, job, caller, n⟩ := c
  obtain ⟨hdj, hbey, hear, hcur, _, _, _⟩ := hi
  simp only at hq hdj hbey hear hcur
  refine ⟨fun d h => ?_, hbey⟩
  have h : d < n := h
  by_cases h' : d + 1 < n
  · exact hear d h'
  · have : d = n - 1 := by omega
    subst this
    cases job with
    | running r => exact traces_of_derivs hcur.2 hq
    | idle => exact hcur (by omega)
    | sent => exact hcur (by omega)
    | failed r ps g => simp [Job.quiet] at hq

theorem quiescent_none_open {P : APlan} {l : List AEv} {k : Nat} (h : Quiescent P l k) (d x : Nat) :
    ¬ OpenAt l d x := by
  intro ⟨hF, hD⟩
  by_cases hd : d < k
  · have ht := h.1 d hd
    exact hD (traces_complete ht x (traces_ev_sys ht _ hF)).2
  · rw [h.2 d (by omega)] at hF
    cases hF

theorem quiescent_once {P : APlan} {l : List AEv} {k : Nat} (h : Quiescent P l k) (hnd : P.job.sys.Nodup)
    (d : Nat) (hd : d < k) (x : Nat) (hx : x ∈ P.job.sys) :
    (projD d l).count (Ev.F x) = 1 ∧ (projD d l).count (Ev.D x) = 1 :=
  traces_once (h.1 d hd) hnd x hx

theorem exists_sysP_of_any {l : List AEv} (h : l.any isSysP = true) : ∃ th d x, AEv.sysP th d x ∈ l := by
  obtain ⟨a, ha, hp⟩ := List.any_eq_true.mp h
  cases a <;> simp [isSysP] at hp
  exact ⟨_, _, _, ha⟩

/-- once a system of a job has panicked the job is `failed` and `Data` is `Rx` — for ever -/
theorem inv_failed {P : APlan} {c : Ctl} {l : List AEv} (hi : Inv P c l) {th : Th} {d x : Nat}
    (hp : AEv.sysP th d x ∈ l) : c.data = .rx ∧ (∃ r ps g, c.job = .failed r ps g) ∧ d + 1 = c.nDisp := by
  have hf := hi.fail_iff
  rw [any_sysP_of_mem hp] at hf
  have hdj := hi.data_job
  have hd := hi.fail_disp th d x hp
  obtain ⟨data, job, caller, n⟩ := c
  cases job <;> simp [Job.isFailed] at hf
  cases data <;> simp [dataOk] at hdj
  exact ⟨rfl, ⟨_, _, _, rfl⟩, hd⟩

/-! ### the caller is inside `op`: the last call/return event is `call op` -/

def AEv.isCallRet : AEv → Bool
  | .call _ => true
  | .ret _ _ => true
  | .unwound _ => true
  | _ => false

theorem pending_some_aux (l : List AEv) : ∀ (p : Option AOp) (op : AOp), pending l p = some op →
    (p = some op ∧ ∀ x, x ∈ l → x.isCallRet = false) ∨
    ∃ l0 l0', l = l0 ++ .call op :: l0' ∧ ∀ x, x ∈ l0' → x.isCallRet = false := by
  induction l with
  | nil => intro p op h; left; exact ⟨by simpa [pending] using h, by simp⟩
  | cons a l ih =>
    intro p op h
    cases a with
    | call op' =>
      simp only [pending] at h
      rcases ih _ _ h with ⟨h1, h2⟩ | ⟨l0, l0', h1, h2⟩
      · cases h1
        right; exact ⟨[], l, rfl, h2⟩
      · right; exact ⟨AEv.call op' :: l0, l0', by simp [h1], h2⟩
    | ret op' v =>
      simp only [pending] at h
      rcases ih _ _ h with ⟨h1, _⟩ | ⟨l0, l0', h1, h2⟩
      · cases h1
      · right; exact ⟨AEv.ret op' v :: l0, l0', by simp [h1], h2⟩
    | sys th d e =>
      simp only [pending] at h
      rcases ih _ _ h with ⟨h1, h2⟩ | ⟨l0, l0', h1, h2⟩
      · left; refine ⟨h1, fun x hx => ?_⟩
        rcases List.mem_cons.mp hx with rfl | hx
        · rfl
        · exact h2 x hx
      · right; exact ⟨AEv.sys th d e :: l0, l0', by simp [h1], h2⟩
    | tl th e =>
      simp only [pending] at h
      rcases ih _ _ h with ⟨h1, h2⟩ | ⟨l0, l0', h1, h2⟩
      · left; refine ⟨h1, fun x hx => ?_⟩
        rcases List.mem_cons.mp hx with rfl | hx
        · rfl
        · exact h2 x hx
      · right; exact ⟨AEv.tl th e :: l0, l0', by simp [h1], h2⟩
    | quiet =>
      simp only [pending] at h
      rcases ih _ _ h with ⟨h1, h2⟩ | ⟨l0, l0', h1, h2⟩
      · left; refine ⟨h1, fun x hx => ?_⟩
        rcases List.mem_cons.mp hx with rfl | hx
        · rfl
        · exact h2 x hx
      · right; exact ⟨AEv.quiet :: l0, l0', by simp [h1], h2⟩
    | unwound op' =>
      simp only [pending] at h
      rcases ih _ _ h with ⟨h1, _⟩ | ⟨l0, l0', h1, h2⟩
      · cases h1
      · right; exact ⟨AEv.unwound op' :: l0, l0', by simp [h1], h2⟩
    | sysP th d x =>
      simp only [pending] at h
      rcases ih _ _ h with ⟨h1, h2⟩ | ⟨l0, l0', h1, h2⟩
      · left; refine ⟨h1, fun y hy => ?_⟩
        rcases List.mem_cons.mp hy with rfl | hy
        · rfl
        · exact h2 y hy
      · right; exact ⟨AEv.sysP th d x :: l0, l0', by simp [h1], h2⟩
    | tlP th x =>
      simp only [pending] at h
      rcases ih _ _ h with ⟨h1, h2⟩ | ⟨l0, l0', h1, h2⟩
      · left; refine ⟨h1, fun y hy => ?_⟩
        rcases List.mem_cons.mp hy with rfl | hy
        · rfl
        · exact h2 y hy
      · right; exact ⟨AEv.tlP th x :: l0, l0', by simp [h1], h2⟩
    | hook th x =>
      simp only [pending] at h
      rcases ih _ _ h with ⟨h1, h2⟩ | ⟨l0, l0', h1, h2⟩
      · left; refine ⟨h1, fun y hy => ?_⟩
        rcases List.mem_cons.mp hy with rfl | hy
        · rfl
        · exact h2 y hy
      · right; exact ⟨AEv.hook th x :: l0, l0', by simp [h1], h2⟩
    | gone =>
      simp only [pending] at h
      rcases ih _ _ h with ⟨h1, h2⟩ | ⟨l0, l0', h1, h2⟩
      · left; refine ⟨h1, fun y hy => ?_⟩
        rcases List.mem_cons.mp hy with rfl | hy
        · rfl
        · exact h2 y hy
      · right; exact ⟨AEv.gone :: l0, l0', by simp [h1], h2⟩

theorem pending_some {l : List AEv} {op : AOp} (h : pending l none = some op) :
    ∃ l0 l0', l = l0 ++ .call op :: l0' ∧ ∀ x, x ∈ l0' → x.isCallRet = false := by
  rcases pending_some_aux l none op h with ⟨h1, _⟩ | h
  · cases h1
  · exact h

end Async
end Shred
