import ShredModel.Lemmas.NestedTop
/-!
# Concrete inhabitants of the hypothesis bundles (non-vacuity)

`exScenario`: three registrations with a dependency and a barrier, one thread-local system.
`exLevel`: an outer dispatcher with a plain system, a batch (two inner systems in two stages,
dispatched twice) and a thread-local system.
-/
namespace Shred

def exOps : List SOp :=
  [.insert [] ⟨[], [⟨0, 0⟩], 3⟩, .insert [0] ⟨[⟨0, 0⟩], [], 1⟩, .barrier, .insert [] ⟨[], [⟨1, 0⟩], 5⟩]

def exD : Nat → Decl
  | 0 => ⟨[], [⟨0, 0⟩], 3⟩
  | 1 => ⟨[⟨0, 0⟩], [], 1⟩
  | _ => ⟨[], [⟨1, 0⟩], 5⟩

def exDep : Nat → List Nat
  | 1 => [0]
  | _ => []

theorem exConsistent : Consistent exD exDep 0 exOps := by
  simp [Consistent, exOps, exD, exDep]

def exScenario : Scenario where
  ops := exOps
  D := exD
  Dep := exDep
  consistent := exConsistent
  tl := [7]
  tl_nodup := by simp
  tl_fresh := by
    intro t ht
    simp at ht; subst ht
    decide

/-- the layout of the example: the dependent system behind its dependency, the third system
behind the barrier -/
example : exScenario.final.b.stages = [[[0]], [[1]], [[2]]] ∧ exScenario.final.n = 3 ∧
    exScenario.final.bars = [2] := by decide

/-- declarations for the nested example: 0 writes r0; batch 1 = union of 5 (writes r1) and 6 (reads r1) -/
def exDL : SysTag → Decl
  | 0 => ⟨[], [⟨0, 0⟩], 1⟩
  | 1 => ⟨[⟨1, 0⟩], [⟨1, 0⟩], 5⟩
  | 5 => ⟨[], [⟨1, 0⟩], 1⟩
  | 6 => ⟨[⟨1, 0⟩], [], 1⟩
  | _ => ⟨[], [], 1⟩

theorem exInnerIso : IsoTable exDL [[[5]], [[6]]] := by
  intro st hst i j gi gj hi hj hij a ha c hc
  simp only [List.mem_cons, List.not_mem_nil, or_false] at hst
  rcases hst with rfl | rfl
  · cases i with
    | zero => cases j with
      | zero => exact absurd rfl hij
      | succ j => simp at hj
    | succ i => simp at hi
  · cases i with
    | zero => cases j with
      | zero => exact absurd rfl hij
      | succ j => simp at hj
    | succ i => simp at hi

def exBody : Body := batchBody true [[[5]], [[6]]] [] [] 2

theorem exBodyOK : BodyOK exDL exBody (exDL 1) := by
  apply bodyOK_batchBody true exInnerIso (by decide) (by intro t b h; simp [findBody] at h) 2
  intro t ht
  simp only [List.flatten_cons, List.flatten_nil, List.append_nil, List.cons_append, List.nil_append,
    List.mem_cons, List.not_mem_nil, or_false] at ht
  rcases ht with rfl | rfl
  · exact ⟨by simp [exDL], by simp [exDL]⟩
  · exact ⟨by simp [exDL], by simp [exDL]⟩

def exLevel : Level exDL where
  stages := [[[0], [1]]]
  tl := [2]
  bs := [(1, exBody)]
  iso := by
    intro st hst i j gi gj hi hj hij a ha c hc
    simp only [List.mem_cons, List.not_mem_nil, or_false] at hst
    subst hst
    have key : ¬ conflictsD (exDL 0) (exDL 1) := by simp [conflictsD, exDL]
    match i, j with
    | 0, 0 => exact absurd rfl hij
    | 0, 1 =>
      simp at hi hj; subst hi hj; simp at ha hc; subst ha hc; exact key
    | 1, 0 =>
      simp at hi hj; subst hi hj; simp at ha hc; subst ha hc; exact fun h => key (conflictsD_symm h)
    | 1, 1 => exact absurd rfl hij
    | 0, j + 2 => simp at hj
    | 1, j + 2 => simp at hj
    | i + 2, _ => simp at hi
  tags := by decide
  bodies := by
    intro t b h
    simp only [findBody] at h
    split at h
    · rename_i ht; cases h; rw [← ht]; exact exBodyOK
    · cases h

/-- the nested example's task has the batch scope with two iterations of the inner dispatcher -/
example : (exLevel.task true []).sys =
    [[0], [1], [1, 0, 5], [1, 0, 6], [1, 1, 5], [1, 1, 6], [2]] := by decide

end Shred
