import ShredModel.Model.Async
import ShredModel.Lemmas.Exec
/-!
# The invariant of the asynchronous dispatcher's transition system

`run_inv`: every reachable (control state, log) pair satisfies `Inv`; `run_split`: every
event of a reachable log was emitted by a step out of a reachable state whose log is the
prefix in front of that event. All theorems of `Props/C15.lean` are these two facts plus a
look at `step`.
-/
namespace Shred
namespace Async
open RTask

/-! ### list bookkeeping -/

theorem projD_append (d : Nat) (l l' : List AEv) : projD d (l ++ l') = projD d l ++ projD d l' := by
  induction l with
  | nil => rfl
  | cons a l ih =>
    cases a with
    | sys th d' e =>
      by_cases h : d' = d
      · simp [projD, h, ih]
      · simp [projD, h, ih]
    | call op => simpa [projD] using ih
    | ret op v => simpa [projD] using ih
    | tl th e => simpa [projD] using ih
    | quiet => simpa [projD] using ih
    | sysP th d' x => simpa [projD] using ih
    | tlP th x => simpa [projD] using ih
    | unwound op => simpa [projD] using ih
    | hook th x => simpa [projD] using ih
    | gone => simpa [projD] using ih

theorem dispatches_append (l l' : List AEv) : dispatches (l ++ l') = dispatches l + dispatches l' := by
  induction l with
  | nil => simp [dispatches]
  | cons a l ih =>
    cases a with
    | ret op v => cases op <;> simp [dispatches, ih] <;> omega
    | call op => simpa [dispatches] using ih
    | sys th d e => simpa [dispatches] using ih
    | tl th e => simpa [dispatches] using ih
    | quiet => simpa [dispatches] using ih
    | sysP th d x => simpa [dispatches] using ih
    | tlP th x => simpa [dispatches] using ih
    | unwound op => simpa [dispatches] using ih
    | hook th x => simpa [dispatches] using ih
    | gone => simpa [dispatches] using ih

theorem pending_append (l l' : List AEv) (p : Option AOp) : pending (l ++ l') p = pending l' (pending l p) := by
  induction l generalizing p with
  | nil => rfl
  | cons a l ih => cases a <;> simp [pending, ih]

theorem append_singleton_split {α} {l l1 l2 : List α} {x o : α} (h : l ++ [x] = l1 ++ o :: l2) :
    (l = l1 ∧ x = o ∧ l2 = []) ∨ ∃ l2', l2 = l2' ++ [x] ∧ l = l1 ++ o :: l2' := by
  rcases List.append_eq_append_iff.mp h with ⟨a', h1, h2⟩ | ⟨c', h1, h2⟩
  · cases a' with
    | nil => simp at h2; left; exact ⟨by simpa using h1.symm, h2.1, h2.2⟩
    | cons z a' => simp at h2
  · cases c' with
    | nil => simp at h2; left; exact ⟨by simpa using h1, h2.1.symm, h2.2⟩
    | cons z c' =>
      simp at h2
      right; exact ⟨c', h2.2, by rw [h1, h2.1]⟩

/-! ### iterated derivative -/

def derivs : RTask Nat → List (Ev Nat) → Option (RTask Nat)
  | t, [] => some t
  | t, e :: l => match deriv t e with
    | some t' => derivs t' l
    | none => none

theorem derivs_snoc (t : RTask Nat) (l : List (Ev Nat)) (e : Ev Nat) :
    derivs t (l ++ [e]) = (derivs t l).bind (fun r => deriv r e) := by
  induction l generalizing t with
  | nil => simp [derivs]; cases deriv t e <;> rfl
  | cons a l ih =>
    simp only [List.cons_append, derivs]
    cases deriv t a with
    | none => rfl
    | some t' => exact ih t'

theorem accepts_of_derivs {t r : RTask Nat} {l : List (Ev Nat)} (h : derivs t l = some r)
    (hn : nullable r = true) : accepts t l = true := by
  induction l generalizing t with
  | nil => simp [derivs] at h; subst h; simpa [accepts] using hn
  | cons a l ih =>
    simp only [derivs] at h
    simp only [accepts]
    cases hd : deriv t a with
    | none => simp [hd] at h
    | some t' => simp only [hd] at h ⊢; exact ih h

/-- a job whose residual is nullable has produced a complete trace of its task -/
theorem traces_of_derivs {t : Task Nat} {r : RTask Nat} {l : List (Ev Nat)}
    (h : derivs t.toR l = some r) (hn : nullable r = true) : Traces t l :=
  traces_of_toR t l (accepts_sound l _ (accepts_of_derivs h hn))

/-! ### the invariant -/

def dataOk : Data → Job → Prop
  | .inner, .idle => True
  | .rx, .running _ => True
  | .rx, .sent => True
  | .rx, .failed _ _ _ => True
  | _, _ => False

def jobOk (P : APlan) (l : List AEv) (n : Nat) : Job → Prop
  | .running r => 0 < n ∧ derivs P.job.toR (projD (n - 1) l) = some r
  | .failed r _ _ => 0 < n ∧ derivs P.job.toR (projD (n - 1) l) = some r
  | _ => 0 < n → Traces P.job (projD (n - 1) l)

def callerOk : Caller → Data → Prop
  | .holding op, d => d = .inner ∧ op ≠ .running ∧ op ≠ .wait ∧ op ≠ .setup
  | .inTl _, d => d = .inner
  | .polled false, d => d = .inner
  | .spawned, d => d = .rx
  | .polled true, d => d = .rx
  | .inSetup _, d => d = .inner
  | .tlFailed, d => d = .inner
  | _, _ => True

def callerOp : Caller → Option AOp
  | .ready => none
  | .called op => some op
  | .holding op => some op
  | .spawned => some .dispatch
  | .inTl _ => some .wait
  | .polled _ => some .running
  | .inSetup _ => some .setup
  | .tlFailed => some .wait

def spawnedBit : Caller → Nat
  | .spawned => 1
  | _ => 0

/-- a system of a job has panicked -/
def isSysP : AEv → Bool
  | .sysP _ _ _ => true
  | _ => false

def Job.isFailed : Job → Bool
  | .failed _ _ _ => true
  | _ => false

theorem any_sysP_of_mem {l : List AEv} {th : Th} {d x : Nat} (h : AEv.sysP th d x ∈ l) : l.any isSysP = true :=
  List.any_eq_true.mpr ⟨_, h, rfl⟩

structure Inv (P : APlan) (c : Ctl) (l : List AEv) : Prop where
  data_job : dataOk c.data c.job
  beyond : ∀ d, c.nDisp ≤ d → projD d l = []
  earlier : ∀ d, d + 1 < c.nDisp → Traces P.job (projD d l)
  current : jobOk P l c.nDisp c.job
  caller_data : callerOk c.caller c.data
  pend : pending l none = callerOp c.caller
  disp : c.nDisp = dispatches l + spawnedBit c.caller
  /-- a system has panicked iff the job is `failed` (and it stays so for ever) … -/
  fail_iff : l.any isSysP = c.job.isFailed
  /-- … and it was a system of the latest dispatch -/
  fail_disp : ∀ th d x, AEv.sysP th d x ∈ l → d + 1 = c.nDisp

theorem inv_init (P : APlan) : Inv P {} [] :=
  ⟨trivial, fun _ _ => rfl, fun d h => by simp at h, fun h => by simp at h, trivial, rfl, rfl, rfl,
   fun _ _ _ h => by cases h⟩

theorem jobOk_congr {P : APlan} {l l' : List AEv} {n : Nat} {j : Job}
    (h : ∀ d, projD d l' = projD d l) : jobOk P l n j → jobOk P l' n j := by
  cases j <;> simp [jobOk, h]

/-- steps that leave the job, `Data` and the dispatch count alone and emit no system event -/
theorem inv_caller_only {P : APlan} {c : Ctl} {l : List AEv} (hi : Inv P c l) (cl : Caller) (o : Option AEv)
    (ho : ∀ d, projD d (l ++ optList o) = projD d l)
    (hcd : callerOk cl c.data)
    (hp : pending (l ++ optList o) none = callerOp cl)
    (hd : dispatches (l ++ optList o) + spawnedBit cl = dispatches l + spawnedBit c.caller)
    (hq : (optList o).any isSysP = false) :
    Inv P { c with caller := cl } (l ++ optList o) :=
  ⟨hi.data_job, fun d h => by rw [ho]; exact hi.beyond d h, fun d h => by rw [ho]; exact hi.earlier d h,
   jobOk_congr ho hi.current, hcd, hp, by rw [hd]; exact hi.disp,
   by rw [List.any_append, hq, Bool.or_false]; exact hi.fail_iff,
   fun th d x h => by
     rcases List.mem_append.mp h with h | h
     · exact hi.fail_disp th d x h
     · rw [any_sysP_of_mem h] at hq; cases hq⟩

/-- a step of the job that appends one event of the latest dispatch (or none) -/
theorem step_inv {P : APlan} {c c' : Ctl} {l : List AEv} {lb : Lbl} {o : Option AEv}
    (hi : Inv P c l) (hs : step P c lb = some (c', o)) : Inv P c' (l ++ optList o) := by
  cases lb with
  | call op =>
    simp only [step] at hs
    split at hs
    · rename_i hc
      cases hs
      refine inv_caller_only hi _ _ (by simp [optList, projD_append, projD]) trivial ?_ ?_ (by simp [optList, isSysP])
      · simp [optList, pending_append, pending, callerOp]
      · simp [optList, dispatches_append, dispatches, spawnedBit, hc]
    · cases hs
  | acquire =>
    obtain ⟨data, job, caller, n⟩ := c
    obtain ⟨hdj, hbey, hear, hcur, hcd, hpend, hdisp, hfi, hfd⟩ := hi
    simp only at hdj hbey hear hcur hcd hpend hdisp hfi hfd
    cases caller <;> simp only [step] at hs <;> try (cases hs)
    rename_i op
    split at hs
    · cases hs
    · split at hs
      · rename_i hne hok
        cases hs
        have hj : jobOk P l n .idle ∧ job.isFailed = false := by
          cases data <;> cases job <;> simp [dataOk, available, Job.isFailed] at hdj hok ⊢ <;> exact hcur
        refine ⟨trivial, by simpa [optList] using hbey, by simpa [optList] using hear,
          by simpa [optList] using hj.1, ?_, ?_, ?_, ?_, by simpa [optList] using hfd⟩
        · cases op <;> simp [afterAcquire, callerOk] at hne ⊢
        · cases op <;> simp [afterAcquire, callerOp, optList, hpend]
        · cases op <;> simp [afterAcquire, spawnedBit, optList, hdisp]
        · simpa [optList, hfi, Job.isFailed] using hj.2
      · cases hs
  | poll =>
    obtain ⟨data, job, caller, n⟩ := c
    obtain ⟨hdj, hbey, hear, hcur, hcd, hpend, hdisp, hfi, hfd⟩ := hi
    simp only at hdj hbey hear hcur hcd hpend hdisp hfi hfd
    cases caller <;> simp only [step] at hs <;> try (cases hs)
    rename_i op
    cases op <;> simp only at hs <;> try (cases hs)
    rcases data with _ | _ <;> rcases job with _ | r | _ | ⟨r, ps, _ | _⟩ <;> simp only at hs <;> cases hs <;>
      simp [dataOk] at hdj
    all_goals
      refine ⟨by simp [dataOk], by simpa [optList] using hbey, by simpa [optList] using hear,
        by simpa [optList, jobOk] using hcur, by simp [callerOk], by simpa [optList, callerOp] using hpend,
        by simpa [optList, spawnedBit] using hdisp, by simpa [optList, Job.isFailed] using hfi,
        by simpa [optList] using hfd⟩
  | spawn =>
    obtain ⟨data, job, caller, n⟩ := c
    obtain ⟨hdj, hbey, hear, hcur, hcd, hpend, hdisp, hfi, hfd⟩ := hi
    simp only at hdj hbey hear hcur hcd hpend hdisp hfi hfd
    cases caller <;> simp only [step] at hs <;> try (cases hs)
    rename_i op
    cases op <;> simp only at hs <;> cases hs
    simp only [callerOk] at hcd
    obtain ⟨hcd, _, _⟩ := hcd
    subst hcd
    cases job <;> simp [dataOk] at hdj
    simp only [jobOk] at hcur
    simp only [Job.isFailed] at hfi
    refine ⟨trivial, fun d h => by simpa [optList] using hbey d (by simp at h; omega), fun d h => ?_, ?_, rfl,
      by simpa [optList, callerOp] using hpend, by simp [optList, spawnedBit] at hdisp ⊢; omega,
      by simpa [optList, Job.isFailed] using hfi,
      fun th d x h => by
        simp only [optList, List.append_nil] at h
        rw [any_sysP_of_mem h] at hfi; cases hfi⟩
    · simp only [optList, List.append_nil]
      by_cases hd : d + 1 < n
      · exact hear d hd
      · have : d = n - 1 := by simp at h; omega
        subst this
        exact hcur (by simp at h; omega)
    · simp only [optList, List.append_nil, jobOk]
      refine ⟨by omega, ?_⟩
      have : n + 1 - 1 = n := by omega
      rw [this, hbey n (Nat.le_refl n)]
      rfl
  | ret =>
    obtain ⟨data, job, caller, n⟩ := c
    cases caller <;> simp only [step] at hs <;> try (cases hs)
    · rename_i op
      cases op <;> simp only at hs <;> cases hs <;>
        exact inv_caller_only hi _ _ (by simp [optList, projD_append, projD]) trivial
          (by simp [optList, pending_append, pending, callerOp])
          (by simp [optList, dispatches_append, dispatches, spawnedBit]) (by simp [optList, isSysP])
    · exact inv_caller_only hi _ _ (by simp [optList, projD_append, projD]) trivial
          (by simp [optList, pending_append, pending, callerOp])
          (by simp [optList, dispatches_append, dispatches, spawnedBit]) (by simp [optList, isSysP])
    · split at hs
      · cases hs
        exact inv_caller_only hi _ _ (by simp [optList, projD_append, projD]) trivial
          (by simp [optList, pending_append, pending, callerOp])
          (by simp [optList, dispatches_append, dispatches, spawnedBit]) (by simp [optList, isSysP])
      · cases hs
    · exact inv_caller_only hi _ _ (by simp [optList, projD_append, projD]) trivial
          (by simp [optList, pending_append, pending, callerOp])
          (by simp [optList, dispatches_append, dispatches, spawnedBit]) (by simp [optList, isSysP])
    · rename_i rest
      cases rest <;> simp only at hs <;> cases hs
      exact inv_caller_only hi _ _ (by simp [optList, projD_append, projD]) trivial
          (by simp [optList, pending_append, pending, callerOp])
          (by simp [optList, dispatches_append, dispatches, spawnedBit]) (by simp [optList, isSysP])
  | tlEv e =>
    obtain ⟨data, job, caller, n⟩ := c
    cases caller <;> simp only [step] at hs <;> try (cases hs)
    split at hs
    · cases hs
      refine inv_caller_only hi _ _ (by simp [optList, projD_append, projD]) hi.caller_data ?_ ?_ (by simp [optList, isSysP])
      · simpa [optList, pending_append, pending, callerOp] using hi.pend
      · simp [optList, dispatches_append, dispatches, spawnedBit]
    · cases hs
  | jobEv e =>
    obtain ⟨data, job, caller, n⟩ := c
    obtain ⟨hdj, hbey, hear, hcur, hcd, hpend, hdisp, hfi, hfd⟩ := hi
    simp only at hdj hbey hear hcur hcd hpend hdisp hfi hfd
    have hproj : ∀ d, d ≠ n - 1 → projD d (l ++ optList (some (AEv.sys .worker (n - 1) e))) = projD d l := by
      intro d hd
      have : ¬ (n - 1 = d) := fun h => hd h.symm
      simp [optList, projD_append, projD, this]
    rcases job with _ | r | _ | ⟨r, ps, _ | _⟩ <;> simp only [step] at hs <;> try (cases hs)
    · split at hs
      · rename_i r' hr
        cases hs
        obtain ⟨hn, hder⟩ := hcur
        refine ⟨by cases data <;> simp [dataOk] at hdj ⊢, fun d h => ?_, fun d h => ?_, ⟨hn, ?_⟩, hcd, ?_, ?_, ?_, ?_⟩
        · simp only at h; rw [hproj d (by omega)]; exact hbey d h
        · simp only at h; rw [hproj d (by omega)]; exact hear d h
        · simp only [optList, projD_append, projD, if_true, derivs_snoc, hder, Option.bind]
          exact hr
        · simpa [optList, pending_append, pending] using hpend
        · simpa [optList, dispatches_append, dispatches] using hdisp
        · simpa [optList, isSysP, Job.isFailed] using hfi
        · intro th d x h; exact hfd th d x (by simpa [optList] using h)
      · cases hs
    · split at hs
      · cases hs
      · split at hs
        · rename_i r' hr
          cases hs
          obtain ⟨hn, hder⟩ := hcur
          refine ⟨by cases data <;> simp [dataOk] at hdj ⊢, fun d h => ?_, fun d h => ?_, ⟨hn, ?_⟩, hcd, ?_, ?_, ?_, ?_⟩
          · simp only at h; rw [hproj d (by omega)]; exact hbey d h
          · simp only at h; rw [hproj d (by omega)]; exact hear d h
          · simp only [optList, projD_append, projD, if_true, derivs_snoc, hder, Option.bind]
            exact hr
          · simpa [optList, pending_append, pending] using hpend
          · simpa [optList, dispatches_append, dispatches] using hdisp
          · simpa [optList, isSysP, Job.isFailed] using hfi
          · intro th d x h; exact hfd th d x (by simpa [optList] using h)
        · cases hs
  | send =>
    obtain ⟨data, job, caller, n⟩ := c
    obtain ⟨hdj, hbey, hear, hcur, hcd, hpend, hdisp, hfi, hfd⟩ := hi
    simp only at hdj hbey hear hcur hcd hpend hdisp hfi hfd
    cases job <;> simp only [step] at hs <;> try (cases hs)
    rename_i r
    split at hs
    · rename_i hnull
      cases hs
      refine ⟨by cases data <;> simp [dataOk] at hdj ⊢, by simpa [optList] using hbey,
        by simpa [optList] using hear, ?_, hcd, by simpa [optList] using hpend, by simpa [optList] using hdisp,
        by simpa [optList, Job.isFailed] using hfi, by simpa [optList] using hfd⟩
      simp only [optList, List.append_nil, jobOk]
      intro _
      exact traces_of_derivs hcur.2 hnull
    · cases hs
  | observe =>
    obtain ⟨data, job, caller, n⟩ := c
    cases caller <;> simp only [step] at hs <;> try (cases hs)
    split at hs
    · cases hs
      exact inv_caller_only hi _ _ (by simp [optList, projD_append, projD]) trivial
        (by simpa [optList, pending_append, pending, callerOp] using hi.pend)
        (by simp [optList, dispatches_append, dispatches, spawnedBit]) (by simp [optList, isSysP])
    · cases hs
  | jobPanic x =>
    obtain ⟨data, job, caller, n⟩ := c
    obtain ⟨hdj, hbey, hear, hcur, hcd, hpend, hdisp, hfi, hfd⟩ := hi
    simp only at hdj hbey hear hcur hcd hpend hdisp hfi hfd
    have hproj : ∀ d, projD d (l ++ optList (some (AEv.sysP .worker (n - 1) x))) = projD d l := by
      intro d; simp [optList, projD_append, projD]
    rcases job with _ | r | _ | ⟨r, ps, _ | _⟩ <;> simp only [step] at hs <;> try (cases hs)
    all_goals
      split at hs
      · cases hs
        refine ⟨by cases data <;> simp [dataOk] at hdj ⊢, fun d h => by rw [hproj]; exact hbey d h,
          fun d h => by rw [hproj]; exact hear d h, ⟨hcur.1, by rw [hproj]; exact hcur.2⟩, hcd,
          by simpa [optList, pending_append, pending] using hpend,
          by simpa [optList, dispatches_append, dispatches] using hdisp,
          by simp [optList, isSysP, Job.isFailed], ?_⟩
        intro th d y h
        rcases List.mem_append.mp h with h | h
        · exact hfd th d y h
        · simp only [optList, List.mem_singleton, AEv.sysP.injEq] at h
          have := hcur.1
          show d + 1 = n
          omega
      · cases hs
  | die =>
    obtain ⟨data, job, caller, n⟩ := c
    obtain ⟨hdj, hbey, hear, hcur, hcd, hpend, hdisp, hfi, hfd⟩ := hi
    simp only at hdj hbey hear hcur hcd hpend hdisp hfi hfd
    rcases job with _ | r | _ | ⟨r, ps, _ | _⟩ <;> simp only [step] at hs <;> try (cases hs)
    split at hs
    · cases hs
      exact ⟨by cases data <;> simp [dataOk] at hdj ⊢, by simpa [optList] using hbey, by simpa [optList] using hear,
        by simpa [optList, jobOk] using hcur, hcd, by simpa [optList] using hpend, by simpa [optList] using hdisp,
        by simpa [optList, Job.isFailed] using hfi, by simpa [optList] using hfd⟩
    · cases hs
  | tlPanic x =>
    obtain ⟨data, job, caller, n⟩ := c
    cases caller <;> simp only [step] at hs <;> try (cases hs)
    split at hs
    · cases hs
      refine inv_caller_only hi _ _ (by simp [optList, projD_append, projD]) hi.caller_data ?_ ?_ (by simp [optList, isSysP])
      · simpa [optList, pending_append, pending, callerOp] using hi.pend
      · simp [optList, dispatches_append, dispatches, spawnedBit]
    · cases hs
  | raise =>
    obtain ⟨data, job, caller, n⟩ := c
    cases caller <;> simp only [step] at hs <;> try (cases hs)
    · rename_i op
      rcases data with _ | _ <;> rcases job with _ | r | _ | ⟨r, ps, _ | _⟩ <;> simp only at hs <;> cases hs
      exact inv_caller_only hi _ _ (by simp [optList, projD_append, projD]) trivial
        (by simp [optList, pending_append, pending, callerOp])
        (by simp [optList, dispatches_append, dispatches, spawnedBit]) (by simp [optList, isSysP])
    · exact inv_caller_only hi _ _ (by simp [optList, projD_append, projD]) trivial
        (by simp [optList, pending_append, pending, callerOp])
        (by simp [optList, dispatches_append, dispatches, spawnedBit]) (by simp [optList, isSysP])
  | hookEv x =>
    obtain ⟨data, job, caller, n⟩ := c
    cases caller <;> simp only [step] at hs <;> try (cases hs)
    rename_i rest
    cases rest <;> simp only at hs <;> try (cases hs)
    split at hs
    · cases hs
      refine inv_caller_only hi _ _ (by simp [optList, projD_append, projD]) hi.caller_data ?_ ?_ (by simp [optList, isSysP])
      · simpa [optList, pending_append, pending, callerOp] using hi.pend
      · simp [optList, dispatches_append, dispatches, spawnedBit]
    · cases hs
  | observeGone =>
    obtain ⟨data, job, caller, n⟩ := c
    cases caller <;> simp only [step] at hs <;> try (cases hs)
    rcases job with _ | r | _ | ⟨r, ps, _ | _⟩ <;> simp only at hs <;> cases hs
    exact inv_caller_only hi _ _ (by simp [optList, projD_append, projD]) trivial
      (by simpa [optList, pending_append, pending, callerOp] using hi.pend)
      (by simp [optList, dispatches_append, dispatches, spawnedBit]) (by simp [optList, isSysP])

theorem run_inv {P : APlan} {c : Ctl} {l : List AEv} (h : Run P c l) : Inv P c l := by
  induction h with
  | init => exact inv_init P
  | step _ hs ih => exact step_inv ih hs

/-- every event of a reachable log was emitted by a step out of a reachable state whose log
is what precedes the event -/
theorem run_split {P : APlan} {c : Ctl} {l : List AEv} (h : Run P c l) :
    ∀ l1 o l2, l = l1 ++ o :: l2 → ∃ c1 lb c1', Run P c1 l1 ∧ step P c1 lb = some (c1', some o) := by
  induction h with
  | init => intro l1 o l2 h; simp at h
  | @step c l lb c' o' hr hs ih =>
    intro l1 o l2 h
    cases o' with
    | none => exact ih l1 o l2 (by simpa [optList] using h)
    | some x =>
      rcases append_singleton_split (by simpa [optList] using h) with ⟨rfl, rfl, _⟩ | ⟨l2', _, h'⟩
      · exact ⟨c, lb, c', hr, hs⟩
      · exact ih l1 o l2' h'

end Async
end Shred
