import ShredModel.Model.ParSeq
import ShredModel.Lemmas.Exec
import ShredModel.Lemmas.Zip
import ShredModel.Lemmas.TaskN
/-!
# Facts about `Par` / `Seq` trees (C16)

Structure of the translation to tasks (`sys_toTask`, `before_of_sub`, `exists_trace`),
the accumulating `reads` / `writes` / `setup` in closed form, the debug check of `Par::with`
as a statement about leaves (`withCheck_false_iff`), and the n-ary folds `seqOf` / `parOf`
(`par!` / `seq!`).
-/
namespace Shred
namespace PS

/-! ### the task of a tree -/

theorem sys_toTask (t : PS) : (toTask t).sys = t.leaves := by
  induction t with
  | nil => rfl
  | leaf s => rfl
  | par h t ih1 ih2 => simp [toTask, Task.sys, leaves, ih1, ih2]
  | seq h t ih1 ih2 => simp [toTask, Task.sys, leaves, ih1, ih2]

/-- `Sub s t`: `s` occurs as a node of `t` -/
inductive Sub (s : PS) : PS → Prop
  | refl : Sub s s
  | parL {h t} : Sub s h → Sub s (.par h t)
  | parR {h t} : Sub s t → Sub s (.par h t)
  | seqL {h t} : Sub s h → Sub s (.seq h t)
  | seqR {h t} : Sub s t → Sub s (.seq h t)

theorem Sub.leaves {s t : PS} (h : Sub s t) : ∀ x, x ∈ s.leaves → x ∈ t.leaves := by
  induction h with
  | refl => intro x hx; exact hx
  | parL _ ih => intro x hx; simp [PS.leaves, ih x hx]
  | parR _ ih => intro x hx; simp [PS.leaves, ih x hx]
  | seqL _ ih => intro x hx; simp [PS.leaves, ih x hx]
  | seqR _ ih => intro x hx; simp [PS.leaves, ih x hx]

theorem Sub.trans {a b c : PS} (h1 : Sub a b) (h2 : Sub b c) : Sub a c := by
  induction h2 with
  | refl => exact h1
  | parL _ ih => exact .parL ih
  | parR _ ih => exact .parR ih
  | seqL _ ih => exact .seqL ih
  | seqR _ ih => exact .seqR ih

/-- a `seq` node anywhere in the tree orders the leaves of its head before those of its tail -/
theorem before_of_sub {a b t : PS} (h : Sub (.seq a b) t) {x y : Nat}
    (hx : x ∈ a.leaves) (hy : y ∈ b.leaves) : Before (toTask t) x y := by
  induction h with
  | refl => exact .here (by rw [sys_toTask]; exact hx) (by rw [sys_toTask]; exact hy)
  | parL _ ih => exact .parL ih
  | parR _ ih => exact .parR ih
  | seqL _ ih => exact .seqL ih
  | seqR _ ih => exact .seqR ih

/-! ### traces exist; a trace may start with any side of a `par` -/

theorem shuffle_append {α} (a b : List α) : Shuffle a b (a ++ b) := by
  induction a with
  | nil =>
    induction b with
    | nil => exact .nil
    | cons y b ih => exact .right ih
  | cons x a ih => exact .left ih

theorem shuffle_nil_right {α} (a : List α) : Shuffle a [] a := by
  simpa using shuffle_append a []

theorem exists_trace (t : PS) : ∃ l, Traces (toTask t) l := by
  induction t with
  | nil => exact ⟨[], .nil⟩
  | leaf s => exact ⟨_, .leaf s⟩
  | par h t ih1 ih2 =>
    obtain ⟨la, ha⟩ := ih1
    obtain ⟨lb, hb⟩ := ih2
    exact ⟨la ++ lb, .par ha hb (shuffle_append la lb)⟩
  | seq h t ih1 ih2 =>
    obtain ⟨la, ha⟩ := ih1
    obtain ⟨lb, hb⟩ := ih2
    exact ⟨la ++ lb, .seq ha hb⟩

theorem traces_nil_of_no_leaves {t : PS} (h : t.leaves = []) : Traces (toTask t) [] := by
  induction t with
  | nil => exact .nil
  | leaf s => simp [leaves] at h
  | par a b ih1 ih2 =>
    simp [leaves] at h
    exact .par (ih1 h.1) (ih2 h.2) .nil
  | seq a b ih1 ih2 =>
    simp [leaves] at h
    have := Traces.seq (ih1 h.1) (ih2 h.2)
    simpa [toTask] using this

/-- a tree with at least one leaf has a trace that begins with the fetch of one of its leaves -/
theorem exists_trace_head (t : PS) (h : t.leaves ≠ []) :
    ∃ x l, x ∈ t.leaves ∧ Traces (toTask t) (Ev.F x :: l) := by
  induction t with
  | nil => exact absurd rfl h
  | leaf s => exact ⟨s, [.D s], by simp [leaves], .leaf s⟩
  | par a b ih1 ih2 =>
    by_cases ha : a.leaves = []
    · have hb : b.leaves ≠ [] := by intro hb; exact h (by simp [leaves, ha, hb])
      obtain ⟨x, l, hx, hl⟩ := ih2 hb
      exact ⟨x, l, by simp [leaves, hx], .par (traces_nil_of_no_leaves ha) hl ((shuffle_nil_right _).symm)⟩
    · obtain ⟨x, l, hx, hl⟩ := ih1 ha
      obtain ⟨lb, hb⟩ := exists_trace b
      exact ⟨x, l ++ lb, by simp [leaves, hx], .par hl hb (shuffle_append (Ev.F x :: l) lb)⟩
  | seq a b ih1 ih2 =>
    by_cases ha : a.leaves = []
    · have hb : b.leaves ≠ [] := by intro hb; exact h (by simp [leaves, ha, hb])
      obtain ⟨x, l, hx, hl⟩ := ih2 hb
      have := Traces.seq (traces_nil_of_no_leaves ha) hl
      exact ⟨x, l, by simp [leaves, hx], by simpa [toTask] using this⟩
    · obtain ⟨x, l, hx, hl⟩ := ih1 ha
      obtain ⟨lb, hb⟩ := exists_trace b
      exact ⟨x, l ++ lb, by simp [leaves, hx], .seq hl hb⟩

/-! ### accumulated reads / writes / setup in closed form -/

theorem readsAcc_eq (decl : Nat → Decl) (t : PS) (acc : List ResId) :
    readsAcc decl t acc = acc ++ t.leaves.flatMap (fun x => (decl x).reads) := by
  induction t generalizing acc with
  | nil => simp [readsAcc, leaves]
  | leaf s => simp [readsAcc, leaves]
  | par h t ih1 ih2 => simp [readsAcc, leaves, ih1, ih2, List.flatMap_append]
  | seq h t ih1 ih2 => simp [readsAcc, leaves, ih1, ih2, List.flatMap_append]

theorem writesAcc_eq (decl : Nat → Decl) (t : PS) (acc : List ResId) :
    writesAcc decl t acc = acc ++ t.leaves.flatMap (fun x => (decl x).writes) := by
  induction t generalizing acc with
  | nil => simp [writesAcc, leaves]
  | leaf s => simp [writesAcc, leaves]
  | par h t ih1 ih2 => simp [writesAcc, leaves, ih1, ih2, List.flatMap_append]
  | seq h t ih1 ih2 => simp [writesAcc, leaves, ih1, ih2, List.flatMap_append]

theorem setupAcc_eq (t : PS) (acc : List Nat) : setupAcc t acc = acc ++ t.leaves := by
  induction t generalizing acc with
  | nil => simp [setupAcc, leaves]
  | leaf s => simp [setupAcc, leaves]
  | par h t ih1 ih2 => simp [setupAcc, leaves, ih1, ih2]
  | seq h t ih1 ih2 => simp [setupAcc, leaves, ih1, ih2]

theorem reads_eq (decl : Nat → Decl) (t : PS) :
    reads decl t = t.leaves.flatMap (fun x => (decl x).reads) := by
  simp [reads, readsAcc_eq]

theorem writes_eq (decl : Nat → Decl) (t : PS) :
    writes decl t = t.leaves.flatMap (fun x => (decl x).writes) := by
  simp [writes, writesAcc_eq]

theorem mem_reads (decl : Nat → Decl) (t : PS) (r : ResId) :
    r ∈ reads decl t ↔ ∃ x, x ∈ t.leaves ∧ r ∈ (decl x).reads := by
  simp [reads_eq, List.mem_flatMap]

theorem mem_writes (decl : Nat → Decl) (t : PS) (r : ResId) :
    r ∈ writes decl t ↔ ∃ x, x ∈ t.leaves ∧ r ∈ (decl x).writes := by
  simp [writes_eq, List.mem_flatMap]

/-! ### the debug check of `Par::with` -/

/-- some system of `xs` conflicts (W/R, W/W or R/W) with some system of `ys` -/
def ConflictL (decl : Nat → Decl) (xs ys : List Nat) : Prop :=
  ∃ x, x ∈ xs ∧ ∃ y, y ∈ ys ∧ conflictsD (decl x) (decl y)

theorem conflictL_append_left (decl : Nat → Decl) (xs xs' ys : List Nat) :
    ConflictL decl (xs ++ xs') ys ↔ ConflictL decl xs ys ∨ ConflictL decl xs' ys := by
  constructor
  · rintro ⟨x, hx, y, hy, hc⟩
    rcases List.mem_append.mp hx with h | h
    · exact Or.inl ⟨x, h, y, hy, hc⟩
    · exact Or.inr ⟨x, h, y, hy, hc⟩
  · rintro (⟨x, hx, y, hy, hc⟩ | ⟨x, hx, y, hy, hc⟩)
    · exact ⟨x, List.mem_append_left _ hx, y, hy, hc⟩
    · exact ⟨x, List.mem_append_right _ hx, y, hy, hc⟩

theorem conflictL_flatMap_left (decl : Nat → Decl) (cs : List PS) (ys : List Nat) :
    ConflictL decl (cs.flatMap leaves) ys ↔ ∃ a, a ∈ cs ∧ ConflictL decl a.leaves ys := by
  constructor
  · rintro ⟨x, hx, y, hy, hc⟩
    obtain ⟨a, ha, hxa⟩ := List.mem_flatMap.mp hx
    exact ⟨a, ha, x, hxa, y, hy, hc⟩
  · rintro ⟨a, ha, x, hx, y, hy, hc⟩
    exact ⟨x, List.mem_flatMap.mpr ⟨a, ha, hx⟩, y, hy, hc⟩

theorem withCheck_false_iff (decl : Nat → Decl) (h sys : PS) :
    withCheck decl h sys = false ↔ ConflictL decl h.leaves sys.leaves := by
  unfold withCheck
  rw [Bool.not_eq_false', Bool.or_eq_true, Bool.or_eq_true, inter_iff, inter_iff, inter_iff]
  simp only [mem_reads, mem_writes]
  constructor
  · rintro ((⟨r, ⟨x, hx, hxr⟩, y, hy, hyr⟩ | ⟨r, ⟨x, hx, hxr⟩, y, hy, hyr⟩) | ⟨r, ⟨x, hx, hxr⟩, y, hy, hyr⟩)
    · exact ⟨x, hx, y, hy, Or.inl ⟨r, hxr, Or.inr hyr⟩⟩
    · exact ⟨x, hx, y, hy, Or.inl ⟨r, hxr, Or.inl hyr⟩⟩
    · exact ⟨x, hx, y, hy, Or.inr ⟨r, hxr, hyr⟩⟩
  · rintro ⟨x, hx, y, hy, (⟨r, hxr, hyr | hyr⟩ | ⟨r, hxr, hyr⟩)⟩
    · exact Or.inl (Or.inr ⟨r, ⟨x, hx, hxr⟩, y, hy, hyr⟩)
    · exact Or.inl (Or.inl ⟨r, ⟨x, hx, hxr⟩, y, hy, hyr⟩)
    · exact Or.inr ⟨r, ⟨x, hx, hxr⟩, y, hy, hyr⟩

theorem withCheck_true_iff (decl : Nat → Decl) (h sys : PS) :
    withCheck decl h sys = true ↔ ¬ ConflictL decl h.leaves sys.leaves := by
  rw [← withCheck_false_iff]; cases withCheck decl h sys <;> simp

/-! ### `seq![..]` -/

theorem leaves_foldl_seqWith (cs : List PS) (h : PS) :
    (cs.foldl seqWith h).leaves = h.leaves ++ cs.flatMap leaves := by
  induction cs generalizing h with
  | nil => simp
  | cons c cs ih => simp [List.foldl, ih, seqWith, leaves]

theorem leaves_seqOf (c0 : PS) (cs : List PS) : (seqOf c0 cs).leaves = (c0 :: cs).flatMap leaves := by
  simp [seqOf, seqNew, leaves, leaves_foldl_seqWith]

theorem before_foldl_seqWith (x y : Nat) : ∀ (cs : List PS) (h : PS),
    (Before (toTask h) x y
      ∨ (x ∈ h.leaves ∧ ∃ d, d ∈ cs ∧ y ∈ d.leaves)
      ∨ (∃ p c q, cs = p ++ c :: q ∧ x ∈ c.leaves ∧ ∃ d, d ∈ q ∧ y ∈ d.leaves)) →
    Before (toTask (cs.foldl seqWith h)) x y := by
  intro cs
  induction cs with
  | nil =>
    intro h hh
    rcases hh with hb | ⟨_, d, hd, _⟩ | ⟨p, c, q, hcs, _⟩
    · exact hb
    · cases hd
    · simp at hcs
  | cons c cs ih =>
    intro h hh
    simp only [List.foldl]
    apply ih
    rcases hh with hb | ⟨hx, d, hd, hy⟩ | ⟨p, c', q, hcs, hx, d, hd, hy⟩
    · exact Or.inl (.seqL hb)
    · rcases List.mem_cons.mp hd with rfl | hd
      · exact Or.inl (.here (by rw [sys_toTask]; exact hx) (by rw [sys_toTask]; exact hy))
      · exact Or.inr (Or.inl ⟨by simp [seqWith, leaves, hx], d, hd, hy⟩)
    · cases p with
      | nil =>
        simp at hcs
        obtain ⟨rfl, rfl⟩ := hcs
        exact Or.inr (Or.inl ⟨by simp [seqWith, leaves, hx], d, hd, hy⟩)
      | cons p0 p =>
        simp at hcs
        obtain ⟨rfl, rfl⟩ := hcs
        exact Or.inr (Or.inr ⟨p, c', q, rfl, hx, d, hd, hy⟩)

/-- in `seq![c0, c1, ..]` every leaf of an earlier child is `Before` every leaf of a later one -/
theorem before_seqOf {c0 : PS} {cs p mid q : List PS} {a b : PS} {x y : Nat}
    (hcs : c0 :: cs = p ++ a :: mid ++ b :: q) (hx : x ∈ a.leaves) (hy : y ∈ b.leaves) :
    Before (toTask (seqOf c0 cs)) x y := by
  unfold seqOf seqNew
  apply Before.seqL
  apply before_foldl_seqWith
  cases p with
  | nil =>
    simp at hcs
    obtain ⟨rfl, rfl⟩ := hcs
    exact Or.inr (Or.inl ⟨hx, b, by simp, hy⟩)
  | cons p0 p =>
    simp at hcs
    obtain ⟨rfl, rfl⟩ := hcs
    exact Or.inr (Or.inr ⟨p, a, mid ++ b :: q, by simp, hx, b, by simp, hy⟩)

/-! ### `par![..]` with debug assertions -/

/-- complete description of the fold of `Par::with`: on success the head holds all children and
no child conflicted with what was there before it; on failure `j` is the first child that does -/
theorem parFold_spec (decl : Nat → Decl) : ∀ (cs : List PS) (h : PS) (k : Nat),
    match parFold decl h cs k with
    | .ok h' => h'.leaves = h.leaves ++ cs.flatMap leaves
        ∧ ∀ p c q, cs = p ++ c :: q → ¬ ConflictL decl (h.leaves ++ p.flatMap leaves) c.leaves
    | .error j => ∃ p c q, cs = p ++ c :: q ∧ j = k + p.length
        ∧ ConflictL decl (h.leaves ++ p.flatMap leaves) c.leaves
        ∧ ∀ p' c' q', p = p' ++ c' :: q' → ¬ ConflictL decl (h.leaves ++ p'.flatMap leaves) c'.leaves := by
  intro cs
  induction cs with
  | nil =>
    intro h k
    simp [parFold]
  | cons c cs ih =>
    intro h k
    simp only [parFold, parWith]
    cases hw : withCheck decl h c with
    | false =>
      simp only [Bool.false_eq_true, if_false]
      refine ⟨[], c, cs, rfl, by simp, ?_, ?_⟩
      · simpa using (withCheck_false_iff decl h c).mp hw
      · intro p' c' q' hp; simp at hp
    | true =>
      simp only [if_true]
      have hnc := (withCheck_true_iff decl h c).mp hw
      have := ih (.par h c) (k + 1)
      revert this
      cases parFold decl (.par h c) cs (k + 1) with
      | ok h' =>
        simp only []
        rintro ⟨hl, hno⟩
        refine ⟨by simp [hl, leaves], ?_⟩
        intro p c' q hpq
        cases p with
        | nil =>
          simp at hpq
          obtain ⟨rfl, rfl⟩ := hpq
          simpa using hnc
        | cons p0 p =>
          simp at hpq
          obtain ⟨rfl, rfl⟩ := hpq
          have := hno p c' q rfl
          simpa [leaves, List.append_assoc] using this
      | error j =>
        simp only []
        rintro ⟨p, c', q, rfl, rfl, hc, hmin⟩
        refine ⟨c :: p, c', q, rfl, by simp; omega, by simpa [leaves, List.append_assoc] using hc, ?_⟩
        intro p' c'' q' hp
        cases p' with
        | nil =>
          simp at hp
          obtain ⟨rfl, rfl⟩ := hp
          simpa using hnc
        | cons p0 p' =>
          simp at hp
          obtain ⟨rfl, rfl⟩ := hp
          have := hmin p' c'' q' rfl
          simpa [leaves, List.append_assoc] using this

/-- when every check passes the result is the plain left-nested tree -/
theorem parFold_ok_eq (decl : Nat → Decl) : ∀ (cs : List PS) (h : PS) (k : Nat) (h' : PS),
    parFold decl h cs k = .ok h' → h' = cs.foldl PS.par h := by
  intro cs
  induction cs with
  | nil => intro h k h' he; simp [parFold] at he; simp [he]
  | cons c cs ih =>
    intro h k h' he
    simp only [parFold, parWith] at he
    cases hw : withCheck decl h c with
    | false => simp [hw] at he
    | true =>
      simp [hw] at he
      simpa using ih (.par h c) (k + 1) h' he

/-! ### trees all of whose `with` checks passed -/

/-- every `Par { head, tail }` node of the tree passed the debug check of `Par::with` -/
def Checked (decl : Nat → Decl) : PS → Prop
  | .nil => True
  | .leaf _ => True
  | .par h t => withCheck decl h t = true ∧ Checked decl h ∧ Checked decl t
  | .seq h t => Checked decl h ∧ Checked decl t

theorem withCheck_nil (decl : Nat → Decl) (h : PS) : withCheck decl h .nil = true := by
  rw [withCheck_true_iff]; rintro ⟨_, _, y, hy, _⟩; simp [leaves] at hy

theorem checked_parFold (decl : Nat → Decl) : ∀ (cs : List PS) (h : PS) (k : Nat) (h' : PS),
    Checked decl h → (∀ c, c ∈ cs → Checked decl c) → parFold decl h cs k = .ok h' → Checked decl h' := by
  intro cs
  induction cs with
  | nil => intro h k h' hh _ he; simp [parFold] at he; subst he; exact hh
  | cons c cs ih =>
    intro h k h' hh hcs he
    simp only [parFold, parWith] at he
    cases hw : withCheck decl h c with
    | false => simp [hw] at he
    | true =>
      simp [hw] at he
      exact ih (.par h c) (k + 1) h' ⟨hw, hh, hcs c (by simp)⟩ (fun d hd => hcs d (by simp [hd])) he

theorem checked_parOf (decl : Nat → Decl) (c0 : PS) (cs : List PS) (t : PS)
    (h0 : Checked decl c0) (hcs : ∀ c, c ∈ cs → Checked decl c) (he : parOf decl c0 cs = .ok t) :
    Checked decl t := by
  unfold parOf at he
  cases hf : parFold decl c0 cs 1 with
  | error j => simp [hf] at he
  | ok h =>
    simp [hf] at he
    subst he
    exact ⟨withCheck_nil decl h, checked_parFold decl cs c0 1 h h0 hcs hf, trivial⟩

theorem checked_foldl_seqWith (decl : Nat → Decl) (cs : List PS) (h : PS)
    (hh : Checked decl h) (hcs : ∀ c, c ∈ cs → Checked decl c) : Checked decl (cs.foldl seqWith h) := by
  induction cs generalizing h with
  | nil => exact hh
  | cons c cs ih =>
    simp only [List.foldl]
    exact ih (seqWith h c) ⟨hh, hcs c (by simp)⟩ (fun d hd => hcs d (by simp [hd]))

theorem checked_seqOf (decl : Nat → Decl) (c0 : PS) (cs : List PS)
    (h0 : Checked decl c0) (hcs : ∀ c, c ∈ cs → Checked decl c) : Checked decl (seqOf c0 cs) :=
  ⟨checked_foldl_seqWith decl cs c0 h0 hcs, trivial⟩

/-- a checked tree is a well-formed task: the two sides of every `par` are pairwise compatible -/
theorem wf_of_checked (decl : Nat → Decl) (t : PS) (h : Checked decl t) :
    WF (fun x y => ¬ conflictsD (decl x) (decl y)) (toTask t) := by
  induction t with
  | nil => trivial
  | leaf s => trivial
  | par a b ih1 ih2 =>
    refine ⟨?_, ih1 h.2.1, ih2 h.2.2⟩
    intro x hx y hy hc
    rw [sys_toTask] at hx hy
    exact (withCheck_true_iff decl a b).mp h.1 ⟨x, hx, y, hy, hc⟩
  | seq a b ih1 ih2 => exact ⟨ih1 h.1, ih2 h.2⟩

theorem noScope_toTask (t : PS) : (toTask t).NoScope := by
  induction t with
  | nil => trivial
  | leaf s => trivial
  | par a b ih1 ih2 => exact ⟨ih1, ih2⟩
  | seq a b ih1 ih2 => exact ⟨ih1, ih2⟩

end PS
end Shred
