import ShredModel.Model.Task
/-!
# The acceptor decides the trace semantics

`accepts_sound`, `accepts_complete` (for tasks whose instances are pairwise distinct) and
the transfer to source tasks `accepts_toR_iff`. Every property proved about `Traces` thus
holds of every recorded trace the driver accepts, and no legal trace is ever rejected.
-/
namespace Shred
open RTask
variable {ι : Type} [DecidableEq ι]

/-! facts used by completeness -/

theorem Shuffle.mem_iff {α} {a b l : List α} (h : Shuffle a b l) (e : α) : e ∈ l ↔ e ∈ a ∨ e ∈ b := by
  induction h with
  | nil => simp
  | left _ ih => simp [ih, or_assoc]
  | right _ ih => simp [ih]; constructor <;> (intro h; rcases h with h | h | h <;> simp [h])

theorem ev_sys {t : RTask ι} {l : List (Ev ι)} (h : RTraces t l) : ∀ e, e ∈ l → e.sys ∈ sys t := by
  induction h with
  | nil => intro e he; cases he
  | leaf s => intro e he; simp at he; rcases he with rfl | rfl <;> simp [Ev.sys, sys]
  | closing s => intro e he; simp at he; subst he; simp [Ev.sys, sys]
  | seq _ _ iha ihb =>
    intro e he
    rcases List.mem_append.mp he with h | h
    · simp [sys, iha e h]
    · simp [sys, ihb e h]
  | par _ _ hs iha ihb =>
    intro e he
    rcases (hs.mem_iff e).mp he with h | h
    · simp [sys, iha e h]
    · simp [sys, ihb e h]
  | scope _ ih =>
    intro e he
    simp at he
    rcases he with rfl | h | rfl
    · simp [Ev.sys, sys]
    · simp [sys, ih e h]
    · simp [Ev.sys, sys]
  | scopeOpen _ ih =>
    intro e he
    simp at he
    rcases he with h | rfl
    · simp [sys, ih e h]
    · simp [Ev.sys, sys]

theorem deriv_sys : ∀ (t : RTask ι) (e : Ev ι) (t' : RTask ι), deriv t e = some t' → e.sys ∈ sys t := by
  intro t
  induction t with
  | nil => intro e t' h; simp [deriv] at h
  | leaf s => intro e t' h; simp [deriv] at h; simp [h.1, Ev.sys, sys]
  | closing s => intro e t' h; simp [deriv] at h; simp [h.1, Ev.sys, sys]
  | seq a b iha ihb =>
    intro e t' h
    simp only [deriv] at h
    split at h
    · rename_i a' ha; simp [sys, iha e a' ha]
    · split at h
      · simp [sys, ihb e t' h]
      · cases h
  | par a b iha ihb =>
    intro e t' h
    simp only [deriv] at h
    split at h
    · rename_i a' ha; simp [sys, iha e a' ha]
    · cases hb : deriv b e with
      | none => simp [hb] at h
      | some b' => simp [sys, ihb e b' hb]
  | scope s body ih => intro e t' h; simp [deriv] at h; simp [h.1, Ev.sys, sys]
  | scopeOpen s body ih =>
    intro e t' h
    simp only [deriv] at h
    split at h
    · rename_i b' hb; simp [sys, ih e b' hb]
    · split at h
      · rename_i hc; simp at hc; simp [hc.2, Ev.sys, sys]
      · cases h

theorem traces_nil_nullable {t : RTask ι} {l : List (Ev ι)} (h : RTraces t l) : l = [] → nullable t = true := by
  induction h with
  | nil => intro _; rfl
  | leaf s => intro h; cases h
  | closing s => intro h; cases h
  | seq _ _ iha ihb =>
    intro h
    obtain ⟨h1, h2⟩ := List.append_eq_nil_iff.mp h
    simp [nullable, iha h1, ihb h2]
  | par _ _ hs iha ihb =>
    intro h
    subst h
    cases hs
    simp [nullable, iha rfl, ihb rfl]
  | scope _ _ => intro h; simp at h
  | scopeOpen _ _ => intro h; simp at h

/-- inversion of a non-empty trace, one lemma per constructor (avoids dependent elimination) -/
theorem traces_seq_inv {a b : RTask ι} {l : List (Ev ι)} (h : RTraces (.seq a b) l) :
    ∃ la lb, l = la ++ lb ∧ RTraces a la ∧ RTraces b lb := by
  cases h with | seq h1 h2 => exact ⟨_, _, rfl, h1, h2⟩

theorem traces_par_inv {a b : RTask ι} {l : List (Ev ι)} (h : RTraces (.par a b) l) :
    ∃ la lb, Shuffle la lb l ∧ RTraces a la ∧ RTraces b lb := by
  cases h with | par h1 h2 hs => exact ⟨_, _, hs, h1, h2⟩

theorem traces_scopeOpen_inv {s : ι} {body : RTask ι} {l : List (Ev ι)} (h : RTraces (.scopeOpen s body) l) :
    ∃ lb, l = lb ++ [.D s] ∧ RTraces body lb := by
  cases h with | scopeOpen h1 => exact ⟨_, rfl, h1⟩

theorem traces_scope_inv {s : ι} {body : RTask ι} {l : List (Ev ι)} (h : RTraces (.scope s body) l) :
    ∃ lb, l = .F s :: lb ++ [.D s] ∧ RTraces body lb := by
  cases h with | scope h1 => exact ⟨_, rfl, h1⟩

/-- **Completeness of the acceptor** under unique ids: one derivative step never loses a legal trace. -/
theorem deriv_complete : ∀ (t : RTask ι), (sys t).Nodup → ∀ (e : Ev ι) (l : List (Ev ι)), RTraces t (e :: l) →
    ∃ t', deriv t e = some t' ∧ RTraces t' l ∧ (sys t').Nodup ∧ (∀ x, x ∈ sys t' → x ∈ sys t) := by
  intro t
  induction t with
  | nil => intro _ e l h; cases h
  | leaf s =>
    intro _ e l h
    cases h
    exact ⟨.closing s, by simp [deriv], .closing s, by simp [sys], by simp [sys]⟩
  | closing s =>
    intro _ e l h
    cases h
    exact ⟨.nil, by simp [deriv], .nil, by simp [sys], by simp [sys]⟩
  | seq a b iha ihb =>
    intro hnd e l h
    simp only [sys] at hnd
    obtain ⟨hna, hnb, hdisj⟩ := List.nodup_append.mp hnd
    obtain ⟨la, lb, heq, h1, h2⟩ := traces_seq_inv h
    cases la with
    | nil =>
      -- `a` contributes nothing: it is nullable and cannot accept `e`, which belongs to `b`
      simp at heq; subst heq
      have hnull := traces_nil_nullable h1 rfl
      have heb : e.sys ∈ sys b := ev_sys h2 e (by simp)
      have hda : deriv a e = none := by
        cases hd : deriv a e with
        | none => rfl
        | some a' => exact absurd rfl (hdisj _ (deriv_sys a e a' hd) _ heb)
      obtain ⟨b', hb', htr, hnd', hsub⟩ := ihb hnb e l h2
      refine ⟨b', by simp [deriv, hda, hnull, hb'], htr, hnd', fun x hx => ?_⟩
      simp [sys, hsub x hx]
    | cons e' la =>
      simp at heq
      obtain ⟨rfl, rfl⟩ := heq
      obtain ⟨a', ha', htr, hnd', hsub⟩ := iha hna e la h1
      refine ⟨.seq a' b, by simp [deriv, ha'], .seq htr h2, ?_, fun x hx => ?_⟩
      · simp only [sys]
        exact List.nodup_append.mpr ⟨hnd', hnb, fun x hx y hy => hdisj x (hsub x hx) y hy⟩
      · simp only [sys, List.mem_append] at hx ⊢
        rcases hx with hx | hx
        · exact Or.inl (hsub x hx)
        · exact Or.inr hx
  | par a b iha ihb =>
    intro hnd e l h
    simp only [sys] at hnd
    obtain ⟨hna, hnb, hdisj⟩ := List.nodup_append.mp hnd
    obtain ⟨la, lb, hs, h1, h2⟩ := traces_par_inv h
    -- which side did `e` come from?
    generalize hl : e :: l = el at hs
    cases hs with
    | nil => cases hl
    | @left x la' _ l' hs' =>
      cases hl
      obtain ⟨a', ha', htr, hnd', hsub⟩ := iha hna e la' h1
      refine ⟨.par a' b, by simp [deriv, ha'], .par htr h2 hs', ?_, fun x hx => ?_⟩
      · simp only [sys]
        exact List.nodup_append.mpr ⟨hnd', hnb, fun x hx y hy => hdisj x (hsub x hx) y hy⟩
      · simp only [sys, List.mem_append] at hx ⊢
        rcases hx with hx | hx
        · exact Or.inl (hsub x hx)
        · exact Or.inr hx
    | @right y _ lb' l' hs' =>
      cases hl
      have heb : e.sys ∈ sys b := ev_sys h2 e (by simp)
      have hda : deriv a e = none := by
        cases hd : deriv a e with
        | none => rfl
        | some a' => exact absurd rfl (hdisj _ (deriv_sys a e a' hd) _ heb)
      obtain ⟨b', hb', htr, hnd', hsub⟩ := ihb hnb e lb' h2
      refine ⟨.par a b', by simp [deriv, hda, hb'], .par h1 htr hs', ?_, fun x hx => ?_⟩
      · simp only [sys]
        exact List.nodup_append.mpr ⟨hna, hnd', fun x hx y hy => hdisj x hx y (hsub y hy)⟩
      · simp only [sys, List.mem_append] at hx ⊢
        rcases hx with hx | hx
        · exact Or.inl hx
        · exact Or.inr (hsub x hx)
  | scope s body ih =>
    intro hnd e l h
    obtain ⟨lb, heq, h1⟩ := traces_scope_inv h
    simp at heq
    obtain ⟨rfl, rfl⟩ := heq
    exact ⟨.scopeOpen s body, by simp [deriv], .scopeOpen h1, by simpa [sys] using hnd, by simp [sys]⟩
  | scopeOpen s body ih =>
    intro hnd e l h
    simp only [sys] at hnd
    obtain ⟨hs, hnb⟩ := List.nodup_cons.mp hnd
    obtain ⟨lb, heq, h1⟩ := traces_scopeOpen_inv h
    cases lb with
    | nil =>
      simp at heq
      obtain ⟨rfl, rfl⟩ := heq
      have hnull := traces_nil_nullable h1 rfl
      have hdb : deriv body (.D s) = none := by
        cases hd : deriv body (.D s) with
        | none => rfl
        | some b' => exact absurd (deriv_sys body _ b' hd) (by simpa [Ev.sys] using hs)
      exact ⟨.nil, by simp [deriv, hdb, hnull], .nil, by simp [sys], by simp [sys]⟩
    | cons e' lb =>
      simp at heq
      obtain ⟨rfl, rfl⟩ := heq
      obtain ⟨b', hb', htr, hnd', hsub⟩ := ih hnb e lb h1
      refine ⟨.scopeOpen s b', by simp [deriv, hb'], .scopeOpen htr, ?_, fun x hx => ?_⟩
      · simp only [sys]
        exact List.nodup_cons.mpr ⟨fun hm => hs (hsub s hm), hnd'⟩
      · simp only [sys, List.mem_cons] at hx ⊢
        rcases hx with hx | hx
        · exact Or.inl hx
        · exact Or.inr (hsub x hx)

theorem accepts_complete : ∀ (l : List (Ev ι)) (t : RTask ι), (sys t).Nodup → RTraces t l → accepts t l = true
  | [], t, _, h => by simpa [accepts] using traces_nil_nullable h rfl
  | e :: l, t, hnd, h => by
    obtain ⟨t', ht', htr, hnd', _⟩ := deriv_complete t hnd e l h
    simp only [accepts, ht']
    exact accepts_complete l t' hnd' htr


/-! soundness (same development as the first prototype) -/
theorem nullable_traces : ∀ (t : RTask ι), nullable t = true → RTraces t []
  | .nil, _ => .nil
  | .seq a b, h => by
    simp [nullable] at h
    simpa using RTraces.seq (nullable_traces a h.1) (nullable_traces b h.2)
  | .par a b, h => by
    simp [nullable] at h
    exact RTraces.par (nullable_traces a h.1) (nullable_traces b h.2) .nil
  | .leaf _, h | .closing _, h | .scope _ _, h | .scopeOpen _ _, h => by simp [nullable] at h

theorem deriv_sound : ∀ (t : RTask ι) (e : Ev ι) (t' : RTask ι) (l : List (Ev ι)), deriv t e = some t' → RTraces t' l → RTraces t (e :: l) := by
  intro t
  induction t with
  | nil => intro e t' l h; simp [deriv] at h
  | leaf s =>
    intro e t' l h ht; simp [deriv] at h; obtain ⟨rfl, rfl⟩ := h; cases ht; exact .leaf s
  | closing s =>
    intro e t' l h ht; simp [deriv] at h; obtain ⟨rfl, rfl⟩ := h; cases ht; exact .closing s
  | seq a b iha ihb =>
    intro e t' l h ht
    simp only [deriv] at h
    split at h
    · rename_i a' ha; cases h
      cases ht with | seq h1 h2 => exact RTraces.seq (iha _ _ _ ha h1) h2
    · split at h
      · rename_i hn
        have := ihb _ _ _ h ht
        simpa using RTraces.seq (nullable_traces a hn) this
      · cases h
  | par a b iha ihb =>
    intro e t' l h ht
    simp only [deriv] at h
    split at h
    · rename_i a' ha; cases h
      cases ht with | par h1 h2 hs => exact RTraces.par (iha _ _ _ ha h1) h2 (.left hs)
    · cases hb : deriv b e with
      | none => simp [hb] at h
      | some b' =>
        simp [hb] at h; subst h
        cases ht with | par h1 h2 hs => exact RTraces.par h1 (ihb _ _ _ hb h2) (.right hs)
  | scope s body ih =>
    intro e t' l h ht; simp [deriv] at h; obtain ⟨rfl, rfl⟩ := h
    cases ht with | scopeOpen hb => exact .scope hb
  | scopeOpen s body ih =>
    intro e t' l h ht
    simp only [deriv] at h
    split at h
    · rename_i b' hb; cases h
      cases ht with | scopeOpen h1 => exact RTraces.scopeOpen (ih _ _ _ hb h1)
    · split at h
      · rename_i hn; cases h; cases ht
        simp at hn; obtain ⟨hn, rfl⟩ := hn
        simpa using RTraces.scopeOpen (s := s) (nullable_traces body hn)
      · cases h

theorem accepts_sound : ∀ (l : List (Ev ι)) (t : RTask ι), accepts t l = true → RTraces t l
  | [], t, h => nullable_traces t (by simpa [accepts] using h)
  | e :: l, t, h => by
    simp only [accepts] at h
    split at h
    · rename_i t' ht'; exact deriv_sound _ _ _ _ ht' (accepts_sound l t' h)
    · cases h

/-- the acceptor decides the trace semantics exactly (for tasks with unique ids) -/
theorem accepts_iff (t : RTask ι) (hnd : (sys t).Nodup) (l : List (Ev ι)) : accepts t l = true ↔ RTraces t l :=
  ⟨accepts_sound l t, accepts_complete l t hnd⟩


/-! ### transfer to source tasks -/

theorem toR_sys (t : Task ι) : t.toR.sys = t.sys := by
  induction t with
  | nil => rfl
  | leaf s => rfl
  | seq a b iha ihb => simp [Task.toR, RTask.sys, Task.sys, iha, ihb]
  | par a b iha ihb => simp [Task.toR, RTask.sys, Task.sys, iha, ihb]
  | scope s body ih => simp [Task.toR, RTask.sys, Task.sys, ih]

theorem traces_toR {t : Task ι} {l : List (Ev ι)} (h : Traces t l) : RTraces t.toR l := by
  induction h with
  | nil => exact .nil
  | leaf s => exact .leaf s
  | seq _ _ iha ihb => exact .seq iha ihb
  | par _ _ hs iha ihb => exact .par iha ihb hs
  | scope _ ih => exact .scope ih

theorem traces_of_toR : ∀ (t : Task ι) (l : List (Ev ι)), RTraces t.toR l → Traces t l := by
  intro t
  induction t with
  | nil => intro l h; cases h; exact .nil
  | leaf s => intro l h; cases h; exact .leaf s
  | seq a b iha ihb =>
    intro l h
    obtain ⟨la, lb, rfl, h1, h2⟩ := traces_seq_inv h
    exact .seq (iha la h1) (ihb lb h2)
  | par a b iha ihb =>
    intro l h
    obtain ⟨la, lb, hs, h1, h2⟩ := traces_par_inv h
    exact .par (iha la h1) (ihb lb h2) hs
  | scope s body ih =>
    intro l h
    obtain ⟨lb, rfl, h1⟩ := traces_scope_inv h
    exact .scope (ih lb h1)

/-- **The acceptor is exact**: a recorded event list is accepted for plan task `t` iff it is one
of `t`'s traces. -/
theorem accepts_toR_iff (t : Task ι) (hnd : t.sys.Nodup) (l : List (Ev ι)) :
    t.toR.accepts l = true ↔ Traces t l := by
  rw [accepts_iff t.toR (by rw [toR_sys]; exact hnd)]
  exact ⟨traces_of_toR t l, traces_toR⟩

end Shred
