import ShredModel.Model.Effect
import ShredModel.Lemmas.Zip
/-!
# The harness systems satisfy the hypothesis of C05

`runSys` depends only on the system's own state and on the resources it declared, and changes
only what it declared to write — hence two systems with non-conflicting declarations and
different tags commute.
-/
namespace Shred

theorem updF_same {α β} [DecidableEq α] (f : α → β) (k : α) (v : β) : updF f k v k = v := by simp [updF]
theorem updF_other {α β} [DecidableEq α] (f : α → β) (k x : α) (v : β) (h : x ≠ k) : updF f k v x = f x := by
  simp [updF, h]

/-- `writeAll` does not touch keys outside `ws` -/
theorem writeAll_other (ws : List ResId) (tag sum c : UInt64) (w : ResId → UInt64) (x : ResId) (hx : x ∉ ws) :
    writeAll ws tag sum c w x = w x := by
  unfold writeAll
  induction ws generalizing w with
  | nil => rfl
  | cons r ws ih =>
    simp only [List.foldl]
    rw [ih _ (fun h => hx (by simp [h]))]
    exact updF_other w r x _ (fun h => hx (by simp [h]))

/-- the value `writeAll` leaves at a key depends only on the old value at that key -/
theorem writeAll_local (ws : List ResId) (tag sum c : UInt64) (w w' : ResId → UInt64) (x : ResId)
    (h : w x = w' x) : writeAll ws tag sum c w x = writeAll ws tag sum c w' x := by
  unfold writeAll
  induction ws generalizing w w' with
  | nil => exact h
  | cons r ws ih =>
    simp only [List.foldl]
    apply ih
    by_cases hx : x = r
    · subst hx; simp [updF, h]
    · simp [updF, hx, h]

theorem sumReads_congr (rs : List ResId) (w w' : ResId → UInt64) (h : ∀ r, r ∈ rs → w r = w' r) :
    sumReads rs w = sumReads rs w' := by
  unfold sumReads
  suffices ∀ (s : UInt64), rs.foldl (fun s r => s + w r) s = rs.foldl (fun s r => s + w' r) s from this 0
  induction rs with
  | nil => intro s; rfl
  | cons r rs ih =>
    intro s
    simp only [List.foldl]
    rw [h r (by simp)]
    exact ih (fun r' hr' => h r' (by simp [hr'])) _

theorem mem_uniq {α} [DecidableEq α] (l acc : List α) (x : α) : x ∈ uniq l acc ↔ x ∈ l ∨ x ∈ acc := by
  induction l generalizing acc with
  | nil => simp [uniq]
  | cons a l ih =>
    simp only [uniq]
    split
    · rename_i ha
      rw [ih]
      constructor
      · rintro (h | h)
        · exact Or.inl (by simp [h])
        · exact Or.inr h
      · rintro (h | h)
        · rcases List.mem_cons.mp h with rfl | h
          · exact Or.inr ha
          · exact Or.inl h
        · exact Or.inr h
    · rw [ih]
      simp only [List.mem_cons]
      constructor
      · rintro (h | h | h)
        · exact Or.inl (Or.inr h)
        · exact Or.inl (Or.inl h)
        · exact Or.inr h
      · rintro ((h | h) | h)
        · exact Or.inr (Or.inl h)
        · exact Or.inl h
        · exact Or.inr (Or.inr h)

theorem mem_fetchedWrites (d : Decl) (x : ResId) : x ∈ fetchedWrites d ↔ x ∈ d.writes := by
  simp [fetchedWrites, mem_uniq]

theorem mem_fetchedReads (d : Decl) (x : ResId) : x ∈ fetchedReads d → x ∈ d.reads := by
  simp only [fetchedReads, mem_uniq, List.mem_filter, List.not_mem_nil, or_false]
  exact fun h => h.1

theorem runSys_def (t : Nat) (d : Decl) (st : EffState) :
    runSys t d st =
      { world := writeAll (fetchedWrites d) t.toUInt64 (sumReads (fetchedReads d) st.world) (st.locals t).1 st.world,
        locals := updF st.locals t
          ((st.locals t).1 + 1, mix (st.locals t).2 t.toUInt64 (sumReads (fetchedReads d) st.world) (st.locals t).1) } := rfl

/-- **commutation**: systems with different tags and non-conflicting declarations commute -/
theorem runSys_comm (t1 t2 : Nat) (d1 d2 : Decl) (ht : t1 ≠ t2) (hc : ¬ conflictsD d1 d2) (st : EffState) :
    runSys t1 d1 (runSys t2 d2 st) = runSys t2 d2 (runSys t1 d1 st) := by
  -- what non-conflict gives
  have hww : ∀ x, x ∈ d1.writes → x ∉ d2.writes := fun x h1 h2 => hc (Or.inl ⟨x, h1, Or.inl h2⟩)
  have hwr : ∀ x, x ∈ d1.writes → x ∉ d2.reads := fun x h1 h2 => hc (Or.inl ⟨x, h1, Or.inr h2⟩)
  have hrw : ∀ x, x ∈ d1.reads → x ∉ d2.writes := fun x h1 h2 => hc (Or.inr ⟨x, h1, h2⟩)
  -- sums are not disturbed by the other system's writes
  have hs1 : sumReads (fetchedReads d1) (runSys t2 d2 st).world = sumReads (fetchedReads d1) st.world := by
    apply sumReads_congr
    intro r hr
    exact writeAll_other _ _ _ _ _ r (fun h => hrw r (mem_fetchedReads d1 r hr) ((mem_fetchedWrites d2 r).mp h))
  have hs2 : sumReads (fetchedReads d2) (runSys t1 d1 st).world = sumReads (fetchedReads d2) st.world := by
    apply sumReads_congr
    intro r hr
    exact writeAll_other _ _ _ _ _ r (fun h => hwr r ((mem_fetchedWrites d1 r).mp h) (mem_fetchedReads d2 r hr))
  have hl1 : (runSys t2 d2 st).locals t1 = st.locals t1 := by simp [runSys, updF, ht]
  have hl2 : (runSys t1 d1 st).locals t2 = st.locals t2 := by simp [runSys, updF, Ne.symm ht]
  have e1 : runSys t1 d1 (runSys t2 d2 st) =
      { world := writeAll (fetchedWrites d1) t1.toUInt64 (sumReads (fetchedReads d1) st.world) (st.locals t1).1
                   (runSys t2 d2 st).world,
        locals := updF (runSys t2 d2 st).locals t1
                   ((st.locals t1).1 + 1, mix (st.locals t1).2 t1.toUInt64 (sumReads (fetchedReads d1) st.world) (st.locals t1).1) } := by
    rw [runSys_def t1 d1 (runSys t2 d2 st), hs1, hl1]
  have e2 : runSys t2 d2 (runSys t1 d1 st) =
      { world := writeAll (fetchedWrites d2) t2.toUInt64 (sumReads (fetchedReads d2) st.world) (st.locals t2).1
                   (runSys t1 d1 st).world,
        locals := updF (runSys t1 d1 st).locals t2
                   ((st.locals t2).1 + 1, mix (st.locals t2).2 t2.toUInt64 (sumReads (fetchedReads d2) st.world) (st.locals t2).1) } := by
    rw [runSys_def t2 d2 (runSys t1 d1 st), hs2, hl2]
  rw [e1, e2, EffState.mk.injEq]
  refine ⟨?_, ?_⟩
  · funext x
    by_cases h1 : x ∈ fetchedWrites d1
    · have h2 : x ∉ fetchedWrites d2 := fun h => hww x ((mem_fetchedWrites d1 x).mp h1) ((mem_fetchedWrites d2 x).mp h)
      rw [writeAll_other _ _ _ _ _ x h2]
      apply writeAll_local
      exact writeAll_other _ _ _ _ _ x h2
    · rw [writeAll_other _ _ _ _ _ x h1]
      apply Eq.symm
      apply writeAll_local
      exact writeAll_other _ _ _ _ _ x h1
  · funext t
    rw [runSys_def t2 d2 st, runSys_def t1 d1 st]
    simp only [updF]
    by_cases h1 : t = t1
    · subst h1; simp [ht]
    · by_cases h2 : t = t2
      · subst h2; simp [h1]
      · simp [h1, h2]

end Shred
