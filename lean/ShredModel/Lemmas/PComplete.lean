import ShredModel.Lemmas.PAccept
import ShredModel.Lemmas.PExec
/-!
# The panic-aware acceptor accepts every declaratively legal execution

`PTraces pan t l o` (Lemmas/PExec.lean) is the readable specification of an execution in which
the instances in `pan` panic. Every such execution is accepted by the driver's acceptor, with
the same outcome: the acceptor raises no false alarm on behaviour the specification allows.
-/
namespace Shred
variable {ι : Type} [DecidableEq ι]
open PR

theorem pderiv_sys {r : PR ι} {e : PEv ι} {r' : PR ι} (h : deriv r e = some r') : e.sys ∈ insts r := by
  have : steps r [e] = some r' := by simp [steps, h]
  exact steps_ev_sys r this e (by simp)

theorem insts_deriv_sub {r : PR ι} {e : PEv ι} {r' : PR ι} (h : deriv r e = some r') :
    ∀ x, x ∈ insts r' → x ∈ insts r := by
  induction r generalizing r' with
  | nil => simp [deriv] at h
  | fin => simp [deriv] at h
  | dead => simp [deriv] at h
  | leaf s =>
    simp only [deriv] at h
    split at h
    · cases h; intro x hx; simpa [insts] using hx
    · cases h
  | closing s =>
    simp only [deriv] at h
    split at h
    · cases h; intro x hx; simp [insts] at hx
    · split at h
      · cases h; intro x hx; simp [insts] at hx
      · cases h
  | seq a b iha ihb =>
    simp only [deriv] at h
    cases hs : status a with
    | panicked => simp [hs] at h
    | ok =>
      simp only [hs] at h
      cases hb : deriv b e with
      | none => simp [hb] at h
      | some b1 =>
        simp only [hb, Option.map_some, Option.some.injEq] at h; subst h
        intro x hx
        simp only [insts, List.mem_append] at *
        rcases hx with hx | hx
        · exact Or.inl hx
        · exact Or.inr (ihb hb x hx)
    | running =>
      simp only [hs] at h
      cases ha : deriv a e with
      | none => simp [ha] at h
      | some a1 =>
        simp only [ha, Option.map_some, Option.some.injEq] at h; subst h
        intro x hx
        simp only [insts, List.mem_append] at *
        rcases hx with hx | hx
        · exact Or.inl (iha ha x hx)
        · exact Or.inr hx
  | par a b iha ihb =>
    simp only [deriv] at h
    cases ha : deriv a e with
    | some a1 =>
      simp only [ha, Option.some.injEq] at h; subst h
      intro x hx
      simp only [insts, List.mem_append] at *
      rcases hx with hx | hx
      · exact Or.inl (iha ha x hx)
      · exact Or.inr hx
    | none =>
      simp only [ha] at h
      cases hb : deriv b e with
      | none => simp [hb] at h
      | some b1 =>
        simp only [hb, Option.map_some, Option.some.injEq] at h; subst h
        intro x hx
        simp only [insts, List.mem_append] at *
        rcases hx with hx | hx
        · exact Or.inl hx
        · exact Or.inr (ihb hb x hx)
  | scope s body _ =>
    simp only [deriv] at h
    split at h
    · cases h; intro x hx; simpa [insts] using hx
    · cases h
  | scopeOpen s body ih =>
    simp only [deriv] at h
    cases hb : deriv body e with
    | some b1 =>
      simp only [hb, Option.some.injEq] at h; subst h
      intro x hx
      simp only [insts, List.mem_cons] at *
      rcases hx with hx | hx
      · exact Or.inl hx
      · exact Or.inr (ih hb x hx)
    | none =>
      simp only [hb] at h
      cases hst : status body <;> simp only [hst] at h <;> (split at h <;> try (split at h)) <;>
        first | (cases h; intro x hx; simp [insts] at hx) | cases h

theorem insts_steps_sub {r : PR ι} {l : List (PEv ι)} {r' : PR ι} (h : steps r l = some r') :
    ∀ x, x ∈ insts r' → x ∈ insts r := by
  induction l generalizing r with
  | nil => simp [steps] at h; subst h; intro x hx; exact hx
  | cons e l ih =>
    simp only [steps] at h
    cases hd : deriv r e with
    | none => simp [hd] at h
    | some r1 =>
      simp only [hd] at h
      intro x hx
      exact insts_deriv_sub hd x (ih h x hx)

/-- a residual that can still step is running -/
theorem running_of_deriv {r : PR ι} {e : PEv ι} {r' : PR ι} (h : deriv r e = some r') : status r = .running := by
  cases hs : status r with
  | running => rfl
  | ok => rw [deriv_none_of_ok r e hs] at h; cases h
  | panicked => rw [deriv_none_of_panicked r e hs] at h; cases h

/-! ### composing runs -/

theorem steps_seq_left {a b : PR ι} {la : List (PEv ι)} {a' : PR ι} (h : steps a la = some a') :
    steps (.seq a b) la = some (.seq a' b) := by
  induction la generalizing a with
  | nil => simp [steps] at h; subst h; rfl
  | cons e la ih =>
    simp only [steps] at h ⊢
    cases hd : deriv a e with
    | none => simp [hd] at h
    | some a1 =>
      simp only [hd] at h
      simp only [deriv, running_of_deriv hd, hd, Option.map_some]
      exact ih h

theorem steps_seq_right {a b : PR ι} (ha : status a = .ok) {lb : List (PEv ι)} {b' : PR ι}
    (h : steps b lb = some b') : steps (.seq a b) lb = some (.seq a b') := by
  induction lb generalizing b with
  | nil => simp [steps] at h; subst h; rfl
  | cons e lb ih =>
    simp only [steps] at h ⊢
    cases hd : deriv b e with
    | none => simp [hd] at h
    | some b1 =>
      simp only [hd] at h
      simp only [deriv, ha, hd, Option.map_some]
      exact ih h

theorem steps_par_shuffle {a b : PR ι} (hdis : ∀ x, x ∈ insts a → x ∉ insts b)
    {la lb l : List (PEv ι)} (hs : Shuffle la lb l) :
    ∀ {a' b' : PR ι}, steps a la = some a' → steps b lb = some b' → steps (.par a b) l = some (.par a' b') := by
  induction hs generalizing a b with
  | nil => intro a' b' ha hb; simp [steps] at ha hb; subst ha hb; rfl
  | @left e la lb l _ ih =>
    intro a' b' ha hb
    simp only [steps] at ha ⊢
    cases hd : deriv a e with
    | none => simp [hd] at ha
    | some a1 =>
      simp only [hd] at ha
      simp only [deriv, hd]
      exact ih (fun x hx => hdis x (insts_deriv_sub hd x hx)) ha hb
  | @right e la lb l _ ih =>
    intro a' b' ha hb
    simp only [steps] at hb ⊢
    cases hd : deriv b e with
    | none => simp [hd] at hb
    | some b1 =>
      simp only [hd] at hb
      have hna : deriv a e = none := by
        cases hda : deriv a e with
        | none => rfl
        | some a1 => exact absurd (pderiv_sys hd) (hdis _ (pderiv_sys hda))
      simp only [deriv, hna, hd, Option.map_some]
      exact ih (fun x hx hxb => hdis x hx (insts_deriv_sub hd x hxb)) ha hb

theorem steps_scopeOpen_body {s : ι} {body : PR ι} {lb : List (PEv ι)} {b' : PR ι} (h : steps body lb = some b') :
    steps (.scopeOpen s body) lb = some (.scopeOpen s b') := by
  induction lb generalizing body with
  | nil => simp [steps] at h; subst h; rfl
  | cons e lb ih =>
    simp only [steps] at h ⊢
    cases hd : deriv body e with
    | none => simp [hd] at h
    | some b1 =>
      simp only [hd] at h
      simp only [deriv, hd]
      exact ih h

/-- what a complete declarative execution leaves behind: a residual that is finished, with the
right outcome -/
theorem ptraces_steps {pan : ι → Prop} {t : Task ι} {l : List (PEv ι)} {o : Bool} (h : PTraces pan t l o) :
    t.sys.Nodup → ∃ r', steps t.toPR l = some r' ∧ status r' = (if o then .panicked else .ok) := by
  induction h with
  | nil => intro _; exact ⟨.nil, rfl, rfl⟩
  | @leafOk s _ => intro _; exact ⟨.fin, by simp [Task.toPR, steps, deriv], rfl⟩
  | @leafPanic s _ => intro _; exact ⟨.dead, by simp [Task.toPR, steps, deriv], rfl⟩
  | @seqOk a b la lb o _ _ iha ihb =>
    intro hnd
    simp only [Task.sys] at hnd
    obtain ⟨hna, hnb, _⟩ := List.nodup_append.mp hnd
    obtain ⟨a', ha, hsa⟩ := iha hna
    obtain ⟨b', hb, hsb⟩ := ihb hnb
    simp only [Bool.false_eq_true, ↓reduceIte] at hsa
    refine ⟨.seq a' b', ?_, ?_⟩
    · simp only [Task.toPR]
      rw [steps_append, steps_seq_left ha]
      simp only [Option.bind_some]
      exact steps_seq_right hsa hb
    · simp only [status, hsa, hsb]
  | @seqPanic a b la _ iha =>
    intro hnd
    simp only [Task.sys] at hnd
    obtain ⟨hna, _, _⟩ := List.nodup_append.mp hnd
    obtain ⟨a', ha, hsa⟩ := iha hna
    simp only [↓reduceIte] at hsa
    exact ⟨.seq a' b.toPR, by simp only [Task.toPR]; exact steps_seq_left ha, by simp [status, hsa]⟩
  | @par a b la lb l oa ob _ _ hs iha ihb =>
    intro hnd
    simp only [Task.sys] at hnd
    obtain ⟨hna, hnb, hdis⟩ := List.nodup_append.mp hnd
    obtain ⟨a', ha, hsa⟩ := iha hna
    obtain ⟨b', hb, hsb⟩ := ihb hnb
    refine ⟨.par a' b', ?_, ?_⟩
    · simp only [Task.toPR]
      apply steps_par_shuffle _ hs ha hb
      intro x hx hxb
      rw [insts_toPR] at hx hxb
      exact hdis x hx x hxb rfl
    · simp only [status, hsa, hsb]
      cases oa <;> cases ob <;> simp
  | @scopeOk s body l _ ih =>
    intro hnd
    simp only [Task.sys, List.nodup_cons] at hnd
    obtain ⟨b', hb, hsb⟩ := ih hnd.2
    simp only [Bool.false_eq_true, ↓reduceIte] at hsb
    refine ⟨.fin, ?_, rfl⟩
    have hnone : deriv b' (PEv.D s) = none := deriv_none_of_ok b' _ hsb
    have h1 : steps (.scope s body.toPR) (PEv.F s :: l) = some (.scopeOpen s b') := by
      simp only [steps, deriv, ↓reduceIte]
      exact steps_scopeOpen_body hb
    have e : PEv.F s :: l ++ [PEv.D s] = (PEv.F s :: l) ++ [PEv.D s] := rfl
    simp only [Task.toPR]
    rw [e, steps_append, h1]
    simp [steps, deriv, hnone, hsb]
  | @scopePanic s body l _ ih =>
    intro hnd
    simp only [Task.sys, List.nodup_cons] at hnd
    obtain ⟨b', hb, hsb⟩ := ih hnd.2
    simp only [↓reduceIte] at hsb
    refine ⟨.dead, ?_, rfl⟩
    have hnone : deriv b' (PEv.P s) = none := deriv_none_of_panicked b' _ hsb
    have h1 : steps (.scope s body.toPR) (PEv.F s :: l) = some (.scopeOpen s b') := by
      simp only [steps, deriv, ↓reduceIte]
      exact steps_scopeOpen_body hb
    have e : PEv.F s :: l ++ [PEv.P s] = (PEv.F s :: l) ++ [PEv.P s] := rfl
    simp only [Task.toPR]
    rw [e, steps_append, h1]
    simp [steps, deriv, hnone, hsb]

end Shred
