import ShredModel.Lemmas.Table
import ShredModel.Lemmas.Zip
import ShredModel.Lemmas.Tagging
import ShredModel.Model.Plan
/-!
# The layout does not depend on the numeric values of system ids

`DispatcherBuilder::add` draws the id of a system from a counter that also advances on the
registrations it rejects, so the ids `StagesBuilder::insert` sees are increasing but not
consecutive. `insert` only compares ids for equality (`find_conflict`'s dependency test,
`remove_ids`, the de-duplication of the dependency list), so an injective relabelling `σ` of ids —
applied to the new id and to the dependency list — yields, table for table, the same builder with
its `ids` table mapped. This is what lets the theorems (stated for ids `0, 1, 2, …`) speak about
builders that went through rejected registrations.
-/
namespace Shred

def mapIds (σ : Nat → Nat) (t : Table (List Nat)) : Table (List Nat) := t.map fun st => st.map fun g => g.map σ

structure IdRel (σ : Nat → Nat) (b b' : StagesBuilder) : Prop where
  barrier : b'.barrier = b.barrier
  ids : b'.ids = mapIds σ b.ids
  reads : b'.reads = b.reads
  writes : b'.writes = b.writes
  runningTime : b'.runningTime = b.runningTime
  stages : b'.stages = b.stages

theorem idRel_init (σ : Nat → Nat) : IdRel σ {} {} := ⟨rfl, rfl, rfl, rfl, rfl, rfl⟩

section
variable {σ : Nat → Nat} (hσ : ∀ a b, σ a = σ b → a = b)
include hσ

theorem inter_map_inj (i j : List Nat) : inter (i.map σ) (j.map σ) = inter i j := by
  apply Bool.eq_iff_iff.mpr
  rw [inter_iff, inter_iff]
  constructor
  · rintro ⟨x, hx, hy⟩
    obtain ⟨a, ha, rfl⟩ := List.mem_map.mp hx
    obtain ⟨b, hb, he⟩ := List.mem_map.mp hy
    exact ⟨a, ha, by rw [← hσ _ _ he]; exact hb⟩
  · rintro ⟨x, hx, hy⟩
    exact ⟨σ x, List.mem_map.mpr ⟨x, hx, rfl⟩, List.mem_map.mpr ⟨x, hy, rfl⟩⟩

theorem erase_map_inj (d : List Nat) (x : Nat) : (d.erase x).map σ = (d.map σ).erase (σ x) := by
  induction d with
  | nil => rfl
  | cons a d ih =>
    by_cases hax : a = x
    · subst hax; simp
    · have : σ a ≠ σ x := fun e => hax (hσ _ _ e)
      simp only [List.map_cons]
      rw [List.erase_cons_tail (by simpa using hax), List.erase_cons_tail (by simpa using this)]
      simp [ih]

theorem foldl_erase_map_inj (ids d : List Nat) :
    (ids.foldl (fun d id => d.erase id) d).map σ = (ids.map σ).foldl (fun d id => d.erase id) (d.map σ) := by
  induction ids generalizing d with
  | nil => rfl
  | cons a ids ih => simp only [List.foldl, List.map_cons]; rw [ih, erase_map_inj hσ]

theorem mem_map_inj (x : Nat) (l : List Nat) : σ x ∈ l.map σ ↔ x ∈ l := by
  constructor
  · intro h
    obtain ⟨y, hy, he⟩ := List.mem_map.mp h
    rw [← hσ _ _ he]; exact hy
  · intro h; exact List.mem_map.mpr ⟨x, h, rfl⟩

theorem dedup_map_inj (l : List Nat) : dedup (l.map σ) = (dedup l).map σ := by
  induction l with
  | nil => rfl
  | cons a l ih =>
    simp only [List.map_cons, dedup, mem_map_inj hσ]
    split
    · exact ih
    · simp [ih]

theorem flatten_mapIds_col (idsS : List (List Nat)) :
    (idsS.map fun g => g.map σ).flatten = idsS.flatten.map σ := by
  induction idsS with
  | nil => rfl
  | cons g gs ih => simp only [List.map_cons, List.flatten_cons, List.map_append, ih]

theorem removeIdsCol_map (idsS : List (List Nat)) (dep : List Nat) :
    StagesBuilder.removeIdsCol (idsS.map fun g => g.map σ) (dep.map σ) = (StagesBuilder.removeIdsCol idsS dep).map σ := by
  unfold StagesBuilder.removeIdsCol
  by_cases hd : dep = []
  · subst hd; rfl
  · have h1 : dep.isEmpty = false := by cases dep <;> simp_all
    have h2 : (dep.map σ).isEmpty = false := by cases dep <;> simp_all
    simp only [h1, h2, Bool.false_eq_true, ↓reduceIte]
    rw [flatten_mapIds_col hσ, foldl_erase_map_inj hσ]

theorem findConflictCols_map (idsS : List (List Nat)) (readsS writesS : List (List ResId)) (nr nw : List ResId)
    (dep : List Nat) :
    StagesBuilder.findConflictCols (idsS.map fun g => g.map σ) readsS writesS nr nw (dep.map σ) =
      StagesBuilder.findConflictCols idsS readsS writesS nr nw dep := by
  unfold StagesBuilder.findConflictCols
  have hd : ∀ g, inter (dep.map σ) ((idsS.map fun g => g.map σ).getD g []) = inter dep (idsS.getD g []) := by
    intro g
    simp only [List.getD_eq_getElem?_getD, List.getElem?_map]
    cases idsS[g]? with
    | none =>
      simp only [Option.map_none, Option.getD_none]
      have := inter_map_inj hσ dep []
      simpa using this
    | some x => simp [inter_map_inj hσ]
  simp only [List.length_map, hd]
  cases dep <;> simp

end

namespace IdRel
variable {σ : Nat → Nat} (hσ : ∀ a b, σ a = σ b → a = b) {b b' : StagesBuilder}
include hσ

theorem ids_col (h : IdRel σ b b') (s : Nat) : b'.ids.getD s [] = (b.ids.getD s []).map fun g => g.map σ := by
  rw [h.ids]
  simp only [mapIds, List.getD_eq_getElem?_getD, List.getElem?_map]
  cases b.ids[s]? <;> simp

theorem findConflict_eq (h : IdRel σ b b') (s : Nat) (nr nw : List ResId) (dep : List Nat) :
    b'.findConflict s nr nw (dep.map σ) = b.findConflict s nr nw dep := by
  unfold StagesBuilder.findConflict
  rw [h.ids_col hσ, h.reads, h.writes, findConflictCols_map hσ]

theorem removeIds_eq (h : IdRel σ b b') (s : Nat) (dep : List Nat) :
    b'.removeIds s (dep.map σ) = (b.removeIds s dep).map σ := by
  unfold StagesBuilder.removeIds
  rw [h.ids_col hσ, removeIdsCol_map hσ]

theorem joinOk_eq (h : IdRel σ b b') (s g t : Nat) : b'.joinOk s g t = b.joinOk s g t := by
  unfold StagesBuilder.joinOk
  rw [h.stages, h.runningTime]

theorem scan_eq (h : IdRel σ b b') (nr nw : List ResId) (t : Nat) (l : List Nat) (dep : List Nat) :
    b'.scan nr nw t l (dep.map σ) = b.scan nr nw t l dep := by
  induction l generalizing dep with
  | nil => rfl
  | cons s l ih =>
    simp only [StagesBuilder.scan, h.findConflict_eq hσ, h.removeIds_eq hσ, h.joinOk_eq hσ, ih]

theorem prepDep_eq (h : IdRel σ b b') (dep : List Nat) : b'.prepDep (dep.map σ) = (b.prepDep dep).map σ := by
  unfold StagesBuilder.prepDep
  rw [h.barrier, dedup_map_inj hσ]
  generalize dedup dep = d
  induction (List.range b.barrier) generalizing d with
  | nil => rfl
  | cons s l ih => simp only [List.foldl, h.removeIds_eq hσ]; exact ih _

theorem insertionTarget_eq (h : IdRel σ b b') (nr nw : List ResId) (dep : List Nat) (t : Nat) :
    b'.insertionTarget nr nw (dep.map σ) t = b.insertionTarget nr nw dep t := by
  unfold StagesBuilder.insertionTarget
  rw [h.scan_eq hσ, h.barrier, h.stages]

omit hσ in
theorem mapIds_addStage (t : Table (List Nat)) : mapIds σ t.addStage = (mapIds σ t).addStage := by
  simp [mapIds, Table.addStage]

omit hσ in
theorem mapIds_addGroup (t : Table (List Nat)) (s : Nat) : mapIds σ (t.addGroup s []) = (mapIds σ t).addGroup s [] := by
  unfold mapIds Table.addGroup
  exact map_modify' _ _ _ (by intro a; simp) t s

omit hσ in
theorem mapIds_update (t : Table (List Nat)) (s g : Nat) (x : Nat) :
    mapIds σ (t.update s g (· ++ [x])) = (mapIds σ t).update s g (· ++ [σ x]) := by
  unfold mapIds Table.update
  apply map_modify'
  intro st
  exact map_modify' _ _ _ (by intro a; simp) st g

/-- one registration under a relabelling of ids: same decision, `ids` table mapped -/
theorem insert_rel (h : IdRel σ b b') (dep : List Nat) (id : Nat) (tag : SysTag) (d : Decl) :
    IdRel σ (b.insert dep id tag d) (b'.insert (dep.map σ) (σ id) tag d) := by
  unfold StagesBuilder.insert
  simp only [h.prepDep_eq hσ, h.insertionTarget_eq hσ]
  have fin : ∀ (c c' : StagesBuilder) (s g : Nat), IdRel σ c c' →
      IdRel σ { c with ids := c.ids.update s g (· ++ [id]), reads := c.reads.update s g (· ++ sortDedup d.reads),
                       runningTime := c.runningTime.update s g (· + d.time),
                       stages := c.stages.update s g (· ++ [tag]), writes := c.writes.update s g (· ++ d.writes) }
               { c' with ids := c'.ids.update s g (· ++ [σ id]), reads := c'.reads.update s g (· ++ sortDedup d.reads),
                         runningTime := c'.runningTime.update s g (· + d.time),
                         stages := c'.stages.update s g (· ++ [tag]), writes := c'.writes.update s g (· ++ d.writes) } := by
    intro c c' s g hc
    refine ⟨hc.barrier, ?_, ?_, ?_, ?_, ?_⟩ <;> simp only []
    · rw [hc.ids, mapIds_update]
    · rw [hc.reads]
    · rw [hc.writes]
    · rw [hc.runningTime]
    · rw [hc.stages]
  have hag : ∀ (c c' : StagesBuilder) (s : Nat), IdRel σ c c' → IdRel σ (c.addGroup s) (c'.addGroup s) := by
    intro c c' s hc
    refine ⟨hc.barrier, ?_, ?_, ?_, ?_, ?_⟩ <;> simp only [StagesBuilder.addGroup]
    · rw [hc.ids, mapIds_addGroup]
    · rw [hc.reads]
    · rw [hc.writes]
    · rw [hc.runningTime]
    · rw [hc.stages]
  have has : IdRel σ b.addStage b'.addStage := by
    refine ⟨h.barrier, ?_, ?_, ?_, ?_, ?_⟩ <;> simp only [StagesBuilder.addStage]
    · rw [h.ids, mapIds_addStage]
    · rw [h.reads]
    · rw [h.writes]
    · rw [h.runningTime]
    · rw [h.stages]
  have hlen : ∀ s, (b'.ids.getD s []).length = (b.ids.getD s []).length := by
    intro s; rw [h.ids_col hσ]; simp
  cases b.insertionTarget (sortDedup d.reads) d.writes (b.prepDep dep) d.time with
  | stage s =>
    simp only [hlen]
    exact fin _ _ _ _ (hag _ _ s h)
  | group s g => exact fin _ _ _ _ h
  | newStage =>
    simp only [h.stages]
    exact fin _ _ _ _ (hag _ _ _ has)

omit hσ in
theorem addBarrier_rel (h : IdRel σ b b') : IdRel σ b.addBarrier b'.addBarrier := by
  refine ⟨?_, h.ids, h.reads, h.writes, h.runningTime, h.stages⟩
  simp only [StagesBuilder.addBarrier, h.stages]

end IdRel

/-- registrations with arbitrary (injectively relabelled) ids and arbitrary tags: the `n`-th
successful registration carries id `σ n`, its dependency list is relabelled alike -/
def SOp.stepI (σ : Nat → Nat) (τ : Nat → SysTag) (st : StagesBuilder × Nat) : SOp → StagesBuilder × Nat
  | .insert dep d => (st.1.insert (dep.map σ) (σ st.2) (τ st.2) d, st.2 + 1)
  | .barrier => (st.1.addBarrier, st.2)

/-- **every registration sequence, with any injective numbering of its systems**: the builder is
the consecutive-id builder with its `ids` table relabelled; executed table, accumulators, running
times and barrier are identical -/
theorem runOpsI_rel (σ : Nat → Nat) (hσ : ∀ a b, σ a = σ b → a = b) (τ : Nat → SysTag) (ops : List SOp) :
    IdRel σ (ops.foldl (SOp.stepT τ) ({}, 0)).1 (ops.foldl (SOp.stepI σ τ) ({}, 0)).1 := by
  suffices ∀ (st st' : StagesBuilder × Nat), IdRel σ st.1 st'.1 → st'.2 = st.2 →
      IdRel σ (ops.foldl (SOp.stepT τ) st).1 (ops.foldl (SOp.stepI σ τ) st').1 from
    this ({}, 0) ({}, 0) (idRel_init σ) rfl
  induction ops with
  | nil => intro st st' h _; exact h
  | cons op ops ih =>
    intro st st' h hn
    simp only [List.foldl]
    cases op with
    | barrier => exact ih _ _ h.addBarrier_rel hn
    | insert dep d =>
      apply ih
      · simp only [SOp.stepT, SOp.stepI, hn]; exact h.insert_rel hσ dep st.2 (τ st.2) d
      · simp [SOp.stepT, SOp.stepI, hn]

end Shred
