import ShredModel.Lemmas.Zip
import ShredModel.Lemmas.Table
/-!
# C10, "in particular": mutually compatible, dependency-free systems share one stage

After a barrier (or on an empty builder) every stage the scan may use starts empty. Systems
registered from there on that are pairwise compatible and have no dependencies are all placed
in the first such stage, one group each — nothing is serialised.
-/
namespace Shred

theorem inter_nil_left {α} [DecidableEq α] (j : List α) : inter ([] : List α) j = false := rfl

theorem zFindConflict_none_of {st : ZStage} {nr nw : List ResId} (h : ∀ g, g ∈ st → resHit nr nw g = false) :
    zFindConflict st nr nw [] = .none := by
  unfold zFindConflict
  have hh : zHits st nr nw [] = [] := by
    unfold zHits
    apply List.filter_eq_nil_iff.mpr
    intro i hi
    simp only [List.mem_range] at hi
    simp only [List.getElem?_eq_getElem hi, depHit, inter_nil_left, Bool.or_false, h _ (List.getElem_mem hi)]
    simp
  have hd : zDepConflict st nr nw [] = false := by
    unfold zDepConflict
    simp [depHit, inter_nil_left]
  simp [hh, hd]

theorem zPending_nil (sts : List ZStage) : zPending sts [] = [] := by
  unfold zPending
  induction sts with
  | nil => rfl
  | cons st sts ih => simpa [zRemoveIds] using ih

/-- the group a lone system forms -/
def soloGroup (p : Nat × Decl) : ZGroup := newGroup p.1 p.1 (sortDedup p.2.reads) p.2

theorem resHit_solo_false (d : Decl) (p : Nat × Decl) (h : ¬ conflictsD d p.2) :
    resHit (sortDedup d.reads) d.writes (soloGroup p) = false := by
  rw [← Bool.not_eq_true, resHit, hit_iff]
  intro hc
  apply h
  simp only [soloGroup, newGroup, mem_sortDedup] at hc
  exact hc

/-- one more compatible system: it joins the stage that opened after the barrier as a new group -/
theorem insert_compatible (joinOk : ZStage → Nat → Nat → Bool) (pre : List ZStage) (done : List (Nat × Decl))
    (p : Nat × Decl) (hp : ∀ q, q ∈ done → ¬ conflictsD p.2 q.2) :
    let b : ZB := { barrier := pre.length, stages := if done = [] then pre else pre ++ [done.map soloGroup] }
    b.insert joinOk sortDedup dedup [] p.1 p.1 p.2 =
      { barrier := pre.length, stages := pre ++ [(done ++ [p]).map soloGroup] } := by
  intro b
  unfold ZB.insert ZB.target zPrepDep
  have hd : dedup ([] : List Nat) = [] := rfl
  rw [hd, zPending_nil]
  by_cases hdone : done = []
  · subst hdone
    simp only [b, ↓reduceIte, List.drop_length, zScan, ZB.place, List.nil_append, List.map_cons, List.map_nil]
    rfl
  · simp only [b, hdone, ↓reduceIte, List.drop_left', zScan, zVerdict]
    rw [zFindConflict_none_of (by
      intro g hg
      obtain ⟨q, hq, rfl⟩ := List.mem_map.mp hg
      exact resHit_solo_false p.2 q (hp q hq))]
    simp only [ZB.place]
    congr 1
    rw [Table.modify_append_last]
    simp [soloGroup, List.map_append]

/-- **C10 ("in particular").** From a builder in which nothing was registered since the last
barrier, registering any list of pairwise compatible, dependency-free systems puts all of them
into one new stage, one group each, for **any** join policy. -/
theorem compatible_share_stage (joinOk : ZStage → Nat → Nat → Bool) (pre : List ZStage) (ds : List (Nat × Decl))
    (hds : ds ≠ []) (hcompat : ds.Pairwise fun p q => ¬ conflictsD p.2 q.2) :
    ds.foldl (fun b p => b.insert joinOk sortDedup dedup [] p.1 p.1 p.2) ({ barrier := pre.length, stages := pre } : ZB) =
      { barrier := pre.length, stages := pre ++ [ds.map soloGroup] } := by
  suffices ∀ (done rest : List (Nat × Decl)), (done ++ rest).Pairwise (fun p q => ¬ conflictsD p.2 q.2) →
      rest.foldl (fun b p => b.insert joinOk sortDedup dedup [] p.1 p.1 p.2)
        ({ barrier := pre.length, stages := if done = [] then pre else pre ++ [done.map soloGroup] } : ZB) =
        { barrier := pre.length, stages := if done ++ rest = [] then pre else pre ++ [(done ++ rest).map soloGroup] } by
    have := this [] ds (by simpa using hcompat)
    simpa [hds] using this
  intro done rest
  induction rest generalizing done with
  | nil => intro _; simp
  | cons p rest ih =>
    intro hpw
    simp only [List.foldl]
    have hp : ∀ q, q ∈ done → ¬ conflictsD p.2 q.2 := by
      intro q hq hc
      have := List.pairwise_append.mp hpw
      exact this.2.2 q hq p (by simp) (conflictsD_symm hc)
    rw [insert_compatible joinOk pre done p hp]
    have := ih (done ++ [p]) (by simpa using hpw)
    simpa using this

end Shred
