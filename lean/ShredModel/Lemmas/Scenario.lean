import ShredModel.Lemmas.PlanTask
/-!
# Scenarios: what is known about a registration sequence

Shared hypothesis bundle of the plan-level property theorems (C01–C04, C10, C12): any
list of `StagesBuilder` operations whose dependency lists name earlier registrations, any
list of thread-local systems.
-/
namespace Shred

/-- what is known about a registration sequence: declarations, dependency lists, and that
dependencies name earlier registrations -/
structure Scenario where
  ops : List SOp
  D : Nat → Decl
  Dep : Nat → List Nat
  consistent : Consistent D Dep 0 ops
  tl : List SysTag
  tl_nodup : tl.Nodup
  tl_fresh : ∀ t, t ∈ tl → (ops.foldl GState.step {}).n ≤ t

namespace Scenario
variable (sc : Scenario)

def final : GState := sc.ops.foldl GState.step {}
def plan : Task SysTag := dispatchTask sc.final.b.stages sc.tl
def planSeq : Task SysTag := dispatchSeqTask sc.final.b.stages sc.tl

theorem good : Good sc.D sc.Dep sc.final := good_run sc.ops sc.consistent

/-- `x` is placed in stage `s` of the executed layout -/
def StageOf (s : Nat) (x : SysTag) : Prop :=
  ∃ st g, sc.final.b.stages[s]? = some st ∧ g ∈ st ∧ x ∈ g

end Scenario
end Shred
