import ShredModel.Model.Nested
/-!
# Which thread runs what (C12)
-/
namespace Shred

/-- every thread-local system of a dispatcher is assigned the thread that called its dispatch -/
theorem tl_thread_mem (par : Bool) (stages : Table (List SysTag)) (tl : List SysTag)
    (bs : List (SysTag × Threads)) (caller : Char) (pfx : Inst) (t : SysTag) (ht : t ∈ tl) :
    (pfx ++ [t], caller) ∈ nThreads par stages tl bs caller pfx := by
  unfold nThreads
  exact List.mem_append_right _ (List.mem_map.mpr ⟨t, ht, rfl⟩)

/-- every staged system is assigned a pool worker under `dispatch` / `dispatch_par`, and the
calling thread under `dispatch_seq` -/
theorem staged_thread_mem (par : Bool) (stages : Table (List SysTag)) (tl : List SysTag)
    (bs : List (SysTag × Threads)) (caller : Char) (pfx : Inst) (t : SysTag) (ht : t ∈ stages.flatten.flatten) :
    (pfx ++ [t], if par then 'w' else caller) ∈ nThreads par stages tl bs caller pfx := by
  unfold nThreads
  apply List.mem_append_left
  apply List.mem_flatMap.mpr
  exact ⟨t, ht, by simp⟩

/-- the entries of `nThreads` for instances of length `pfx.length + 1` are exactly the staged
systems (with the staged thread) and the thread-local ones (with the caller's) -/
theorem nThreads_top_level (par : Bool) (stages : Table (List SysTag)) (tl : List SysTag)
    (bs : List (SysTag × Threads)) (hbs : ∀ t inner c p x, findThreads bs t = some inner → x ∈ inner c p → p.length < x.1.length)
    (caller : Char) (pfx : Inst) (x : Inst × Char) (hx : x ∈ nThreads par stages tl bs caller pfx)
    (hlen : x.1.length = pfx.length + 1) :
    (∃ t, t ∈ stages.flatten.flatten ∧ x = (pfx ++ [t], if par then 'w' else caller)) ∨
    (∃ t, t ∈ tl ∧ x = (pfx ++ [t], caller)) := by
  unfold nThreads at hx
  rcases List.mem_append.mp hx with h | h
  · obtain ⟨t, ht, hxt⟩ := List.mem_flatMap.mp h
    rcases List.mem_cons.mp hxt with rfl | hin
    · exact Or.inl ⟨t, ht, rfl⟩
    · exfalso
      cases hf : findThreads bs t with
      | none => simp [hf] at hin
      | some inner =>
        simp only [hf] at hin
        have := hbs t inner _ _ x hf hin
        simp at this
        omega
  · obtain ⟨t, ht, rfl⟩ := List.mem_map.mp h
    exact Or.inr ⟨t, ht, rfl⟩

end Shred
