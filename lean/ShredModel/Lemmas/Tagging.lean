import ShredModel.Lemmas.Table
import ShredModel.Model.Plan
/-!
# The layout does not depend on the tags stored in the executed table

`StagesBuilder.insert` appends the boxed system to `stages[stage][group]` and otherwise only
ever looks at the *length* of such a cell (`MAX_SYSTEMS_PER_GROUP` test). Hence a builder fed
with arbitrary tags `τ id` is, table for table, the builder of the proofs (tag = id) with its
executed table mapped by `τ`. The harness uses globally unique tags; this lemma is what lets
the theorems (stated with tag = id) speak about the plans the driver builds.
-/
namespace Shred

theorem map_modify' {α β} (F : α → β) (f : α → α) (g : β → β) (h : ∀ a, F (f a) = g (F a)) (l : List α) (k : Nat) :
    (l.modify k f).map F = (l.map F).modify k g := by
  apply List.ext_getElem?
  intro j
  simp only [List.getElem?_map, List.getElem?_modify]
  cases l[j]? with
  | none => rfl
  | some a =>
    simp only [Option.map_some]
    by_cases hk : k = j
    · simp [hk, h]
    · simp [hk]

def mapT (τ : Nat → SysTag) (t : Table (List Nat)) : Table (List SysTag) := t.map fun st => st.map fun g => g.map τ

structure TagRel (τ : Nat → SysTag) (b b' : StagesBuilder) : Prop where
  barrier : b'.barrier = b.barrier
  ids : b'.ids = b.ids
  reads : b'.reads = b.reads
  writes : b'.writes = b.writes
  runningTime : b'.runningTime = b.runningTime
  stages : b'.stages = mapT τ b.stages

theorem tagRel_init (τ : Nat → SysTag) : TagRel τ {} {} := ⟨rfl, rfl, rfl, rfl, rfl, rfl⟩

namespace TagRel
variable {τ : Nat → SysTag} {b b' : StagesBuilder}

theorem joinOk_eq (h : TagRel τ b b') (s g t : Nat) : b'.joinOk s g t = b.joinOk s g t := by
  unfold StagesBuilder.joinOk StagesBuilder.joinOkCols
  rw [h.runningTime, h.stages]
  congr 2
  simp only [mapT, List.getD_eq_getElem?_getD, List.getElem?_map]
  cases b.stages[s]? with
  | none => rfl
  | some st =>
    simp only [Option.map_some, Option.getD_some, List.getElem?_map]
    cases st[g]? <;> simp

theorem findConflict_eq (h : TagRel τ b b') (s : Nat) (nr nw : List ResId) (dep : List SysId) :
    b'.findConflict s nr nw dep = b.findConflict s nr nw dep := by
  unfold StagesBuilder.findConflict
  rw [h.ids, h.reads, h.writes]

theorem removeIds_eq (h : TagRel τ b b') (s : Nat) (dep : List SysId) : b'.removeIds s dep = b.removeIds s dep := by
  unfold StagesBuilder.removeIds
  rw [h.ids]

theorem scan_eq (h : TagRel τ b b') (nr nw : List ResId) (t : Nat) (l : List Nat) (dep : List SysId) :
    b'.scan nr nw t l dep = b.scan nr nw t l dep := by
  induction l generalizing dep with
  | nil => rfl
  | cons s l ih =>
    simp only [StagesBuilder.scan, h.findConflict_eq, h.removeIds_eq, h.joinOk_eq, ih]

theorem stages_length (h : TagRel τ b b') : b'.stages.length = b.stages.length := by
  rw [h.stages]; simp [mapT]

theorem insertionTarget_eq (h : TagRel τ b b') (nr nw : List ResId) (dep : List SysId) (t : Nat) :
    b'.insertionTarget nr nw dep t = b.insertionTarget nr nw dep t := by
  unfold StagesBuilder.insertionTarget
  rw [h.scan_eq, h.barrier, h.stages_length]

theorem prepDep_eq (h : TagRel τ b b') (dep : List SysId) : b'.prepDep dep = b.prepDep dep := by
  unfold StagesBuilder.prepDep
  rw [h.barrier]
  congr 1
  funext d s
  exact h.removeIds_eq s d

theorem mapT_addStage (t : Table (List Nat)) : mapT τ t.addStage = (mapT τ t).addStage := by
  simp [mapT, Table.addStage]

theorem mapT_addGroup (t : Table (List Nat)) (s : Nat) : mapT τ (t.addGroup s []) = (mapT τ t).addGroup s [] := by
  unfold mapT Table.addGroup
  exact map_modify' _ _ _ (by intro a; simp) t s

theorem mapT_update (t : Table (List Nat)) (s g : Nat) (x : Nat) :
    mapT τ (t.update s g (· ++ [x])) = (mapT τ t).update s g (· ++ [τ x]) := by
  unfold mapT Table.update
  apply map_modify'
  intro st
  exact map_modify' _ _ _ (by intro a; simp) st g

theorem addGroup_rel (h : TagRel τ b b') (s : Nat) : TagRel τ (b.addGroup s) (b'.addGroup s) := by
  refine ⟨h.barrier, ?_, ?_, ?_, ?_, ?_⟩ <;> simp only [StagesBuilder.addGroup]
  · rw [h.ids]
  · rw [h.reads]
  · rw [h.writes]
  · rw [h.runningTime]
  · rw [h.stages, mapT_addGroup]

theorem addStage_rel (h : TagRel τ b b') : TagRel τ b.addStage b'.addStage := by
  refine ⟨h.barrier, ?_, ?_, ?_, ?_, ?_⟩ <;> simp only [StagesBuilder.addStage]
  · rw [h.ids]
  · rw [h.reads]
  · rw [h.writes]
  · rw [h.runningTime]
  · rw [h.stages, mapT_addStage]

/-- one registration: same decision, same tables, executed table mapped -/
theorem insert_rel (h : TagRel τ b b') (dep : List SysId) (id : SysId) (d : Decl) :
    TagRel τ (b.insert dep id id d) (b'.insert dep id (τ id) d) := by
  unfold StagesBuilder.insert
  simp only [h.prepDep_eq, h.insertionTarget_eq]
  have fin : ∀ (c c' : StagesBuilder) (s g : Nat), TagRel τ c c' →
      TagRel τ { c with ids := c.ids.update s g (· ++ [id]), reads := c.reads.update s g (· ++ sortDedup d.reads),
                        runningTime := c.runningTime.update s g (· + d.time),
                        stages := c.stages.update s g (· ++ [id]), writes := c.writes.update s g (· ++ d.writes) }
               { c' with ids := c'.ids.update s g (· ++ [id]), reads := c'.reads.update s g (· ++ sortDedup d.reads),
                         runningTime := c'.runningTime.update s g (· + d.time),
                         stages := c'.stages.update s g (· ++ [τ id]), writes := c'.writes.update s g (· ++ d.writes) } := by
    intro c c' s g hc
    refine ⟨hc.barrier, ?_, ?_, ?_, ?_, ?_⟩ <;> simp only []
    · rw [hc.ids]
    · rw [hc.reads]
    · rw [hc.writes]
    · rw [hc.runningTime]
    · rw [hc.stages, mapT_update]
  cases b.insertionTarget (sortDedup d.reads) d.writes (b.prepDep dep) d.time with
  | stage s =>
    simp only []
    rw [h.ids]
    exact fin _ _ _ _ (h.addGroup_rel s)
  | group s g => exact fin _ _ _ _ h
  | newStage =>
    simp only []
    rw [h.stages_length]
    exact fin _ _ _ _ ((h.addStage_rel).addGroup_rel _)

theorem addBarrier_rel (h : TagRel τ b b') : TagRel τ b.addBarrier b'.addBarrier := by
  refine ⟨?_, h.ids, h.reads, h.writes, h.runningTime, h.stages⟩
  simp only [StagesBuilder.addBarrier, h.stages_length]

end TagRel

/-- registrations with arbitrary tags: the `n`-th registered system is tagged `τ n` -/
def SOp.stepT (τ : Nat → SysTag) (st : StagesBuilder × Nat) : SOp → StagesBuilder × Nat
  | .insert dep d => (st.1.insert dep st.2 (τ st.2) d, st.2 + 1)
  | .barrier => (st.1.addBarrier, st.2)

def runOpsT (τ : Nat → SysTag) (ops : List SOp) : StagesBuilder × Nat := ops.foldl (SOp.stepT τ) ({}, 0)

/-- **the tagged builder is the id builder with its executed table mapped** — for every
registration sequence -/
theorem runOpsT_rel (τ : Nat → SysTag) (ops : List SOp) :
    TagRel τ (runOps ops).1 (runOpsT τ ops).1 ∧ (runOpsT τ ops).2 = (runOps ops).2 := by
  unfold runOps runOpsT
  suffices ∀ (st st' : StagesBuilder × Nat), TagRel τ st.1 st'.1 → st'.2 = st.2 →
      TagRel τ (ops.foldl SOp.step st).1 (ops.foldl (SOp.stepT τ) st').1 ∧
        (ops.foldl (SOp.stepT τ) st').2 = (ops.foldl SOp.step st).2 from
    this ({}, 0) ({}, 0) (tagRel_init τ) rfl
  induction ops with
  | nil => intro st st' h hn; exact ⟨h, hn⟩
  | cons op ops ih =>
    intro st st' h hn
    simp only [List.foldl]
    cases op with
    | barrier => exact ih _ _ h.addBarrier_rel hn
    | insert dep d =>
      apply ih
      · simp only [SOp.step, SOp.stepT, hn]; exact h.insert_rel dep st.2 d
      · simp [SOp.step, SOp.stepT, hn]

end Shred
