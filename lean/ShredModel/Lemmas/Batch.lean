import ShredModel.Lemmas.PlanTask
import ShredModel.Lemmas.Expand
import ShredModel.Model.Builder
/-!
# C07, the accessor half: a batch declares exactly the union

For an inner builder reached by any registration sequence, `fetch_all_reads` /
`fetch_all_writes` contain exactly what the systems placed in it declare; `batchDecl` adds
the controller's declared data. Hence a conflict with anything inside is a conflict with the
batch (`conflict_lifts`), which is the hypothesis `wf_expand` needs.
-/
namespace Shred

theorem table_eq_of_zips {b : StagesBuilder} {z : ZB} (hz : Zips b z) :
    b.reads = z.stages.map (fun st => st.map (·.reads)) ∧
    b.writes = z.stages.map (fun st => st.map (·.writes)) := by
  have hlen := zips_length hz
  have hlr := congrArg List.length hz.lock.reads
  have hlw := congrArg List.length hz.lock.writes
  simp at hlr hlw
  constructor
  · apply List.ext_getElem?
    intro s
    have hcol := (cols_eq hz s).2.1
    rw [List.getElem?_map]
    by_cases hs : s < b.reads.length
    · have hs' : s < z.stages.length := by omega
      rw [List.getElem?_eq_getElem hs, List.getElem?_eq_getElem hs']
      simp only [Option.map_some]
      congr 1
      simpa [List.getD, List.getElem?_eq_getElem hs, List.getElem?_eq_getElem hs'] using hcol
    · rw [List.getElem?_eq_none (by omega), List.getElem?_eq_none (by omega)]; rfl
  · apply List.ext_getElem?
    intro s
    have hcol := (cols_eq hz s).2.2.1
    rw [List.getElem?_map]
    by_cases hs : s < b.writes.length
    · have hs' : s < z.stages.length := by omega
      rw [List.getElem?_eq_getElem hs, List.getElem?_eq_getElem hs']
      simp only [Option.map_some]
      congr 1
      simpa [List.getD, List.getElem?_eq_getElem hs, List.getElem?_eq_getElem hs'] using hcol
    · rw [List.getElem?_eq_none (by omega), List.getElem?_eq_none (by omega)]; rfl

/-- what `fetch_all_reads` returns: exactly the declared reads of the placed systems -/
theorem mem_fetchAllReads {D Dep g z} (h : GoodZ D Dep g z) (x : ResId) :
    x ∈ g.b.fetchAllReads ↔ ∃ s, s < g.n ∧ x ∈ (D s).reads := by
  unfold StagesBuilder.fetchAllReads
  rw [mem_sortDedup, (table_eq_of_zips h.zips).1]
  simp only [List.mem_flatten, List.mem_map]
  constructor
  · rintro ⟨l, ⟨l2, ⟨st, hst, rfl⟩, hl⟩, hx⟩
    obtain ⟨gr, hgr, rfl⟩ := List.mem_map.mp hl
    obtain ⟨s, hs, hxs⟩ := ((h.ok st hst).accum gr hgr).reads x |>.mp hx
    refine ⟨s, ?_, hxs⟩
    have hpair := (h.fit st hst gr hgr).pair
    have hmem : s ∈ z.allIds := by
      unfold ZB.allIds ZStage.ids
      exact List.mem_flatMap.mpr ⟨st, hst, List.mem_flatMap.mpr ⟨gr, hgr, by rw [← hpair]; exact hs⟩⟩
    have := List.count_pos_iff.mpr hmem
    rw [h.ids s] at this
    split at this <;> omega
  · rintro ⟨s, hs, hxs⟩
    obtain ⟨sidx, st, gr, hst, hgr, hsg⟩ := h.placed hs
    have hst' := List.mem_of_getElem? hst
    have hpair := (h.fit st hst' gr hgr).pair
    exact ⟨gr.reads, ⟨st.map (·.reads), ⟨st, hst', rfl⟩, List.mem_map.mpr ⟨gr, hgr, rfl⟩⟩,
      ((h.ok st hst').accum gr hgr).reads x |>.mpr ⟨s, by rw [hpair]; exact hsg, hxs⟩⟩

theorem mem_fetchAllWrites {D Dep g z} (h : GoodZ D Dep g z) (x : ResId) :
    x ∈ g.b.fetchAllWrites ↔ ∃ s, s < g.n ∧ x ∈ (D s).writes := by
  unfold StagesBuilder.fetchAllWrites
  rw [mem_sortDedup, (table_eq_of_zips h.zips).2]
  simp only [List.mem_flatten, List.mem_map]
  constructor
  · rintro ⟨l, ⟨l2, ⟨st, hst, rfl⟩, hl⟩, hx⟩
    obtain ⟨gr, hgr, rfl⟩ := List.mem_map.mp hl
    obtain ⟨s, hs, hxs⟩ := ((h.ok st hst).accum gr hgr).writes x |>.mp hx
    refine ⟨s, ?_, hxs⟩
    have hpair := (h.fit st hst gr hgr).pair
    have hmem : s ∈ z.allIds := by
      unfold ZB.allIds ZStage.ids
      exact List.mem_flatMap.mpr ⟨st, hst, List.mem_flatMap.mpr ⟨gr, hgr, by rw [← hpair]; exact hs⟩⟩
    have := List.count_pos_iff.mpr hmem
    rw [h.ids s] at this
    split at this <;> omega
  · rintro ⟨s, hs, hxs⟩
    obtain ⟨sidx, st, gr, hst, hgr, hsg⟩ := h.placed hs
    have hst' := List.mem_of_getElem? hst
    have hpair := (h.fit st hst' gr hgr).pair
    exact ⟨gr.writes, ⟨st.map (·.writes), ⟨st, hst', rfl⟩, List.mem_map.mpr ⟨gr, hgr, rfl⟩⟩,
      ((h.ok st hst').accum gr hgr).writes x |>.mpr ⟨s, by rw [hpair]; exact hsg, hxs⟩⟩

/-- **C07 (`batch_accessor_covers` and `_tight`).** The accessor `add_batch` computes contains
exactly the controller's declared data and what the systems inside declare. -/
theorem batchDecl_reads {D Dep g z} (h : GoodZ D Dep g z) (inner : DispatcherBuilder)
    (hinner : inner.stagesBuilder = g.b) (ctl : Decl) (x : ResId) :
    x ∈ (DispatcherBuilder.batchDecl inner ctl).reads ↔ x ∈ ctl.reads ∨ ∃ s, s < g.n ∧ x ∈ (D s).reads := by
  unfold DispatcherBuilder.batchDecl
  simp only [mem_sortDedup, List.mem_append, hinner, mem_fetchAllReads h]
  exact Or.comm

theorem batchDecl_writes {D Dep g z} (h : GoodZ D Dep g z) (inner : DispatcherBuilder)
    (hinner : inner.stagesBuilder = g.b) (ctl : Decl) (x : ResId) :
    x ∈ (DispatcherBuilder.batchDecl inner ctl).writes ↔ x ∈ ctl.writes ∨ ∃ s, s < g.n ∧ x ∈ (D s).writes := by
  unfold DispatcherBuilder.batchDecl
  simp only [mem_sortDedup, List.mem_append, hinner, mem_fetchAllWrites h]
  exact Or.comm

theorem conflictsD_mono_right {a b b' : Decl} (hr : ∀ x, x ∈ b.reads → x ∈ b'.reads)
    (hw : ∀ x, x ∈ b.writes → x ∈ b'.writes) (h : conflictsD a b) : conflictsD a b' := by
  rcases h with ⟨x, hx, hy | hy⟩ | ⟨x, hx, hy⟩
  · exact Or.inl ⟨x, hx, Or.inl (hw x hy)⟩
  · exact Or.inl ⟨x, hx, Or.inr (hr x hy)⟩
  · exact Or.inr ⟨x, hx, hw x hy⟩

/-- **`conflict_lifts`.** Whoever conflicts with a system inside the batch, or with the
controller's data, conflicts with the batch as the outer scheduler sees it. -/
theorem conflict_lifts {D Dep g z} (h : GoodZ D Dep g z) (inner : DispatcherBuilder)
    (hinner : inner.stagesBuilder = g.b) (ctl : Decl) (a : Decl) (s : Nat) (hs : s < g.n)
    (hc : conflictsD a (D s)) : conflictsD a (DispatcherBuilder.batchDecl inner ctl) :=
  conflictsD_mono_right
    (fun x hx => (batchDecl_reads h inner hinner ctl x).mpr (Or.inr ⟨s, hs, hx⟩))
    (fun x hx => (batchDecl_writes h inner hinner ctl x).mpr (Or.inr ⟨s, hs, hx⟩)) hc

theorem conflict_lifts_ctl {D Dep g z} (h : GoodZ D Dep g z) (inner : DispatcherBuilder)
    (hinner : inner.stagesBuilder = g.b) (ctl : Decl) (a : Decl)
    (hc : conflictsD a ctl) : conflictsD a (DispatcherBuilder.batchDecl inner ctl) :=
  conflictsD_mono_right
    (fun x hx => (batchDecl_reads h inner hinner ctl x).mpr (Or.inl hx))
    (fun x hx => (batchDecl_writes h inner hinner ctl x).mpr (Or.inl hx)) hc

#print axioms conflict_lifts
end Shred
