import ShredModel.Lemmas.ParSeqBuild
/-!
# The token machine `PS.build` computes the obvious recursion over n-ary shapes

`Sh` is a tree shape as the macros are written: a leaf, or `par![k0, k1, ..]` / `seq![k0, k1, ..]`
with at least one child. `Sh.eval` builds it bottom-up with `parOf` / `seqOf` (children left to
right, then the node), reporting the first `with` that panics as (position of the node's opening
token, child index). `build_shape`: running the driver's token machine on `Sh.toks s` gives
exactly `Sh.eval s`.
-/
namespace Shred
namespace PS

mutual
inductive Sh
  | leaf (s : Nat)
  | node (isPar : Bool) (kids : Kids)
inductive Kids
  | one (c : Sh)
  | cons (c : Sh) (rest : Kids)
end

mutual
def Sh.toks : Sh → List Tok
  | .leaf s => [.leaf s]
  | .node p ks => (if p then Tok.openPar else Tok.openSeq) :: (ks.toks ++ [Tok.close])
def Kids.toks : Kids → List Tok
  | .one c => c.toks
  | .cons c r => c.toks ++ r.toks
end

mutual
/-- `pos` = position of the shape's first token in the whole token list -/
def Sh.eval (decl : Nat → Decl) : Sh → Nat → Except (Nat × Nat) PS
  | .leaf s, _ => .ok (.leaf s)
  | .node p ks, pos =>
    match ks.eval decl (pos + 1) with
    | .error e => .error e
    | .ok (c0, cs) =>
      if p then
        match parOf decl c0 cs with
        | .ok t => .ok t
        | .error k => .error (pos, k)
      else .ok (seqOf c0 cs)
/-- first child and the remaining children -/
def Kids.eval (decl : Nat → Decl) : Kids → Nat → Except (Nat × Nat) (PS × List PS)
  | .one c, pos =>
    match c.eval decl pos with
    | .error e => .error e
    | .ok v => .ok (v, [])
  | .cons c r, pos =>
    match c.eval decl pos with
    | .error e => .error e
    | .ok v =>
      match r.eval decl (pos + c.toks.length) with
      | .error e => .error e
      | .ok (v', vs) => .ok (v, v' :: vs)
end

/-- what the machine does with a finished value -/
def afterPush (decl : Nat → Decl) (v : PS) (rest : List Tok) (pos : Nat) (st : List Frame) : BuildResult :=
  match st with
  | [] => buildGo decl rest pos [] (some v)
  | f :: fs => buildGo decl rest pos ({ f with kids := v :: f.kids } :: fs) none

theorem buildGo_leaf (decl : Nat → Decl) (s : Nat) (rest : List Tok) (pos : Nat) (st : List Frame) :
    buildGo decl (Tok.leaf s :: rest) pos st none = afterPush decl (.leaf s) rest (pos + 1) st := by
  cases st <;> simp [buildGo, stepTok, push, afterPush]

theorem buildGo_open (decl : Nat → Decl) (p : Bool) (rest : List Tok) (pos : Nat) (st : List Frame) :
    buildGo decl ((if p then Tok.openPar else Tok.openSeq) :: rest) pos st none
      = buildGo decl rest (pos + 1) (⟨p, pos, []⟩ :: st) none := by
  cases p <;> simp [buildGo, stepTok]

theorem buildGo_close (decl : Nat → Decl) (p : Bool) (id : Nat) (c0 : PS) (cs : List PS) (rest : List Tok)
    (pos : Nat) (st : List Frame) :
    buildGo decl (Tok.close :: rest) pos (⟨p, id, (c0 :: cs).reverse⟩ :: st) none =
      if p then
        match parOf decl c0 cs with
        | .ok t => afterPush decl t rest (pos + 1) st
        | .error k => .panic id k
      else afterPush decl (seqOf c0 cs) rest (pos + 1) st := by
  cases p
  · cases st <;> simp [buildGo, stepTok, push, afterPush]
  · cases hp : parOf decl c0 cs <;> cases st <;> simp [buildGo, stepTok, push, afterPush, hp]

mutual
theorem buildGo_sh (decl : Nat → Decl) : (s : Sh) → (rest : List Tok) → (pos : Nat) → (st : List Frame) →
    buildGo decl (s.toks ++ rest) pos st none =
      match s.eval decl pos with
      | .error (n, k) => .panic n k
      | .ok v => afterPush decl v rest (pos + s.toks.length) st
  | .leaf s, rest, pos, st => by
    simp [Sh.toks, Sh.eval, buildGo_leaf]
  | .node p ks, rest, pos, st => by
    have hk := buildGo_kids decl ks (Tok.close :: rest) (pos + 1) ⟨p, pos, []⟩ st
    simp only [Sh.toks, Sh.eval, List.cons_append, List.append_assoc, List.nil_append, buildGo_open]
    rw [hk]
    cases he : ks.eval decl (pos + 1) with
    | error e => rfl
    | ok r =>
      obtain ⟨c0, cs⟩ := r
      simp only [List.append_nil]
      have hc := buildGo_close decl p pos c0 cs rest (pos + 1 + ks.toks.length) st
      rw [hc]
      have hlen : pos + 1 + ks.toks.length + 1 = pos + (ks.toks.length + 1 + 1) := by omega
      cases p
      · simp [hlen]
      · cases parOf decl c0 cs <;> simp [hlen]
theorem buildGo_kids (decl : Nat → Decl) : (ks : Kids) → (rest : List Tok) → (pos : Nat) → (f : Frame) → (fs : List Frame) →
    buildGo decl (ks.toks ++ rest) pos (f :: fs) none =
      match ks.eval decl pos with
      | .error (n, k) => .panic n k
      | .ok (v, vs) =>
        buildGo decl rest (pos + ks.toks.length) ({ f with kids := (v :: vs).reverse ++ f.kids } :: fs) none
  | .one c, rest, pos, f, fs => by
    have h := buildGo_sh decl c rest pos (f :: fs)
    simp only [Kids.toks, Kids.eval]
    rw [h]
    cases c.eval decl pos with
    | error e => rfl
    | ok v => simp [afterPush]
  | .cons c r, rest, pos, f, fs => by
    have h := buildGo_sh decl c (r.toks ++ rest) pos (f :: fs)
    simp only [Kids.toks, Kids.eval, List.append_assoc]
    rw [h]
    cases c.eval decl pos with
    | error e => rfl
    | ok v =>
      simp only [afterPush]
      have h2 := buildGo_kids decl r rest (pos + c.toks.length) { f with kids := v :: f.kids } fs
      rw [h2]
      cases r.eval decl (pos + c.toks.length) with
      | error e => rfl
      | ok q =>
        obtain ⟨v', vs⟩ := q
        simp [List.length_append, Nat.add_assoc]
end

/-- **The driver's token machine is the recursive construction.** -/
theorem build_shape (decl : Nat → Decl) (s : Sh) :
    build decl s.toks =
      match s.eval decl 0 with
      | .ok t => .built t
      | .error (n, k) => .panic n k := by
  have h := buildGo_sh decl s [] 0 []
  simp only [List.append_nil] at h
  unfold build
  rw [h]
  cases s.eval decl 0 with
  | error e => rfl
  | ok v => simp [afterPush, buildGo]

end PS
end Shred
