import ShredModel.Model.SysData
/-!
# Lemmas for C06: the nested system-data model reduces to its sequence of leaf accesses

`fetch`, `reads`, `writes`, `setup` of an `SD` tree are the same functions of the flat lists
`leaves sd` / `handlers sd` (mutual structural induction, done once here); everything else is
plain list induction over leaf accesses.
-/
namespace Shred.SysData

/-! ## borrow counters -/

def decN : Nat → Borrow → Borrow
  | 0, b => b
  | n + 1, b => decN n (dec b)

theorem decN_add (m n : Nat) (b : Borrow) : decN (m + n) b = decN n (decN m b) := by
  induction m generalizing b with
  | zero => simp [decN]
  | succ m ih => rw [Nat.succ_add]; simp [decN, ih]

theorem decN_comm (m n : Nat) (b : Borrow) : decN m (decN n b) = decN n (decN m b) := by
  rw [← decN_add, ← decN_add, Nat.add_comm]

/-- number of guards of `gs` on resource `t` -/
def cnt (gs : List Guard) (t : Tag) : Nat := gs.countP fun g => g.tag = t

theorem drop_apply (fl : Flags) (gs : List Guard) (t : Tag) :
    drop fl gs t = decN (cnt gs t) (fl t) := by
  induction gs generalizing fl with
  | nil => simp [drop, cnt, decN]
  | cons g gs ih =>
    have h : drop fl (g :: gs) = drop (release1 fl g) gs := by simp [drop]
    rw [h, ih]
    by_cases hg : g.tag = t
    · simp [cnt, hg, release1, modify, decN]
    · have : ¬ t = g.tag := fun h => hg h.symm
      simp [cnt, hg, release1, modify, this]

theorem drop_append (fl : Flags) (g1 g2 : List Guard) : drop fl (g1 ++ g2) = drop (drop fl g1) g2 := by
  simp [drop]

/-- drops commute: the order in which guards are released does not matter -/
theorem drop_comm (fl : Flags) (g1 g2 : List Guard) : drop (drop fl g1) g2 = drop (drop fl g2) g1 := by
  funext t
  simp only [drop_apply]
  exact decN_comm _ _ _

theorem drop_perm (fl : Flags) {g1 g2 : List Guard} (h : g1.Perm g2) : drop fl g1 = drop fl g2 := by
  funext t
  simp only [drop_apply, cnt]
  rw [h.countP_eq]

theorem dec_tryBorrow {b b' : Borrow} {e : Bool} (h : tryBorrow b e = some b') : dec b' = b := by
  cases b <;> cases e <;> simp [tryBorrow] at h <;> subst h <;> simp [dec]

/-! ## the flat fetch -/

/-- one leaf access -/
def fetch1 (present : Tag → Bool) (a : Acc) (fl : Flags) : Flags × Except Panic (List Guard) :=
  if present a.tag then borrow1 fl a.tag a.excl
  else if a.optional then (fl, .ok []) else (fl, .error (.absent a.tag))

/-- leaf accesses left to right, unwinding on a panic -/
def fetchA (present : Tag → Bool) : List Acc → Flags → Flags × Except Panic (List Guard)
  | [], fl => (fl, .ok [])
  | a :: as, fl =>
    match fetch1 present a fl with
    | (fl1, .error p) => (fl1, .error p)
    | (fl1, .ok g1) =>
      match fetchA present as fl1 with
      | (fl2, .error p) => (drop fl2 g1, .error p)
      | (fl2, .ok g2) => (fl2, .ok (g1 ++ g2))

/-- sequential composition of two fetches with unwinding -/
def seqF (r1 : Flags × Except Panic (List Guard)) (k : Flags → Flags × Except Panic (List Guard)) :
    Flags × Except Panic (List Guard) :=
  match r1 with
  | (fl1, .error p) => (fl1, .error p)
  | (fl1, .ok g1) =>
    match k fl1 with
    | (fl2, .error p) => (drop fl2 g1, .error p)
    | (fl2, .ok g2) => (fl2, .ok (g1 ++ g2))

theorem fetchA_cons (p : Tag → Bool) (a : Acc) (as : List Acc) (fl : Flags) :
    fetchA p (a :: as) fl = seqF (fetch1 p a fl) (fetchA p as) := by
  simp only [fetchA, seqF]

theorem fetchL_cons (p : Tag → Bool) (m : SD) (ms : List SD) (fl : Flags) :
    fetchL p (m :: ms) fl = seqF (fetch p m fl) (fetchL p ms) := by
  simp only [fetchL, seqF]
  rfl

theorem seqF_assoc (r : Flags × Except Panic (List Guard)) (k1 k2 : Flags → Flags × Except Panic (List Guard)) :
    seqF (seqF r k1) k2 = seqF r (fun fl => seqF (k1 fl) k2) := by
  obtain ⟨fl1, r1⟩ := r
  cases r1 with
  | error e => simp [seqF]
  | ok g1 =>
    simp only [seqF]
    rcases h1 : k1 fl1 with ⟨fl2, r2⟩
    cases r2 with
    | error e => simp
    | ok g2 =>
      simp only []
      rcases h2 : k2 fl2 with ⟨fl3, r3⟩
      cases r3 with
      | error e => simp [drop_append]; exact drop_comm _ _ _
      | ok g3 => simp

theorem fetchA_append (p : Tag → Bool) (xs ys : List Acc) (fl : Flags) :
    fetchA p (xs ++ ys) fl = seqF (fetchA p xs fl) (fetchA p ys) := by
  induction xs generalizing fl with
  | nil =>
    simp only [List.nil_append, fetchA, seqF]
    rcases fetchA p ys fl with ⟨fl2, r⟩
    cases r <;> simp [drop]
  | cons a xs ih =>
    rw [List.cons_append, fetchA_cons, fetchA_cons, seqF_assoc]
    congr 1
    funext fl1
    exact ih fl1

mutual
theorem fetch_flat (p : Tag → Bool) : ∀ (sd : SD) (fl : Flags), fetch p sd fl = fetchA p (leaves sd) fl
  | .leaf e h t, fl => by
    simp only [fetch, leaves, fetchA, fetch1]
    split
    · simp only [borrow1]; split <;> simp
    · simp
  | .opt e h t, fl => by
    simp only [fetch, leaves, fetchA, fetch1]
    split
    · simp only [borrow1]; split <;> simp
    · simp
  | .unit, fl => by simp [fetch, leaves, fetchA]
  | .phantom, fl => by simp [fetch, leaves, fetchA]
  | .tuple ms, fl => by simp only [fetch, leaves]; exact fetchL_flat p ms fl
  | .struct ms, fl => by simp only [fetch, leaves]; exact fetchL_flat p ms fl
theorem fetchL_flat (p : Tag → Bool) : ∀ (ms : List SD) (fl : Flags), fetchL p ms fl = fetchA p (leavesL ms) fl
  | [], fl => by simp [fetchL, leavesL, fetchA]
  | m :: ms, fl => by
    rw [fetchL_cons, leavesL, fetchA_append, fetch_flat p m fl]
    congr 1
    funext fl1
    exact fetchL_flat p ms fl1
end

/-! ## declared access of a leaf sequence -/

/-- tags read by a leaf sequence (what `reads()` reports) -/
def rTags (as : List Acc) : List Tag := (as.filter fun a => !a.excl).map (·.tag)
/-- tags written by a leaf sequence (what `writes()` reports) -/
def wTags (as : List Acc) : List Tag := (as.filter fun a => a.excl).map (·.tag)
/-- tags of the non-optional leaves -/
def reqTags (as : List Acc) : List Tag := (as.filter fun a => !a.optional).map (·.tag)

theorem rTags_append (xs ys : List Acc) : rTags (xs ++ ys) = rTags xs ++ rTags ys := by simp [rTags]
theorem wTags_append (xs ys : List Acc) : wTags (xs ++ ys) = wTags xs ++ wTags ys := by simp [wTags]

mutual
theorem reads_flat : ∀ sd : SD, reads sd = rTags (leaves sd)
  | .leaf e h t => by cases e <;> simp [reads, leaves, rTags]
  | .opt e h t => by cases e <;> simp [reads, leaves, rTags]
  | .unit => by simp [reads, leaves, rTags]
  | .phantom => by simp [reads, leaves, rTags]
  | .tuple ms => by simp only [reads, leaves]; exact readsL_flat ms
  | .struct ms => by simp only [reads, leaves]; exact readsL_flat ms
theorem readsL_flat : ∀ ms : List SD, readsL ms = rTags (leavesL ms)
  | [] => by simp [readsL, leavesL, rTags]
  | m :: ms => by rw [readsL, leavesL, rTags_append, reads_flat m, readsL_flat ms]
end

mutual
theorem writes_flat : ∀ sd : SD, writes sd = wTags (leaves sd)
  | .leaf e h t => by cases e <;> simp [writes, leaves, wTags]
  | .opt e h t => by cases e <;> simp [writes, leaves, wTags]
  | .unit => by simp [writes, leaves, wTags]
  | .phantom => by simp [writes, leaves, wTags]
  | .tuple ms => by simp only [writes, leaves]; exact writesL_flat ms
  | .struct ms => by simp only [writes, leaves]; exact writesL_flat ms
theorem writesL_flat : ∀ ms : List SD, writesL ms = wTags (leavesL ms)
  | [] => by simp [writesL, leavesL, wTags]
  | m :: ms => by rw [writesL, leavesL, wTags_append, writes_flat m, writesL_flat ms]
end

/-! ## failure leaves the flags alone, dropping restores them -/

theorem fetch1_error {p : Tag → Bool} {a : Acc} {fl fl' : Flags} {e : Panic}
    (h : fetch1 p a fl = (fl', .error e)) : fl' = fl := by
  unfold fetch1 borrow1 at h
  split at h
  · split at h <;> simp at h
    exact h.1.symm
  · split at h <;> simp at h
    exact h.1.symm

theorem fetch1_ok_drop {p : Tag → Bool} {a : Acc} {fl fl' : Flags} {gs : List Guard}
    (h : fetch1 p a fl = (fl', .ok gs)) : drop fl' gs = fl := by
  unfold fetch1 borrow1 at h
  split at h
  · split at h <;> simp at h
    rename_i b hb
    obtain ⟨rfl, rfl⟩ := h
    funext t
    simp only [drop, List.foldl, release1, modify, upd]
    by_cases ht : t = a.tag
    · simp [ht, dec_tryBorrow hb]
    · simp [ht]
  · split at h <;> simp at h
    obtain ⟨rfl, rfl⟩ := h
    simp [drop]

theorem fetchA_ok_drop (p : Tag → Bool) (as : List Acc) (fl fl' : Flags) (gs : List Guard)
    (h : fetchA p as fl = (fl', .ok gs)) : drop fl' gs = fl := by
  induction as generalizing fl fl' gs with
  | nil => simp [fetchA] at h; obtain ⟨rfl, rfl⟩ := h; simp [drop]
  | cons a as ih =>
    rw [fetchA_cons] at h
    rcases h1 : fetch1 p a fl with ⟨fl1, r1⟩
    rw [h1] at h
    cases r1 with
    | error e => simp [seqF] at h
    | ok g1 =>
      simp only [seqF] at h
      rcases h2 : fetchA p as fl1 with ⟨fl2, r2⟩
      rw [h2] at h
      cases r2 with
      | error e => simp at h
      | ok g2 =>
        simp at h
        obtain ⟨rfl, rfl⟩ := h
        rw [drop_append, drop_comm, ih _ _ _ h2, fetch1_ok_drop h1]

theorem fetchA_error_flags (p : Tag → Bool) (as : List Acc) (fl fl' : Flags) (e : Panic)
    (h : fetchA p as fl = (fl', .error e)) : fl' = fl := by
  induction as generalizing fl fl' with
  | nil => simp [fetchA] at h
  | cons a as ih =>
    rw [fetchA_cons] at h
    rcases h1 : fetch1 p a fl with ⟨fl1, r1⟩
    rw [h1] at h
    cases r1 with
    | error e1 =>
      simp [seqF] at h
      obtain ⟨rfl, rfl⟩ := h
      exact fetch1_error h1
    | ok g1 =>
      simp only [seqF] at h
      rcases h2 : fetchA p as fl1 with ⟨fl2, r2⟩
      rw [h2] at h
      cases r2 with
      | error e2 =>
        simp at h
        obtain ⟨rfl, rfl⟩ := h
        rw [ih _ _ h2, fetch1_ok_drop h1]
      | ok g2 => simp at h

/-! ## which guards a successful fetch holds -/

/-- the guards of the present resources among the leaves, in order -/
def guardsOf (p : Tag → Bool) (as : List Acc) : List Guard :=
  (as.filter fun a => p a.tag).map fun a => ⟨a.tag, a.excl⟩

theorem fetchA_ok_guards (p : Tag → Bool) (as : List Acc) (fl fl' : Flags) (gs : List Guard)
    (h : fetchA p as fl = (fl', .ok gs)) : gs = guardsOf p as := by
  induction as generalizing fl fl' gs with
  | nil => simp [fetchA] at h; simp [guardsOf, h.2]
  | cons a as ih =>
    rw [fetchA_cons] at h
    rcases h1 : fetch1 p a fl with ⟨fl1, r1⟩
    rw [h1] at h
    cases r1 with
    | error e => simp [seqF] at h
    | ok g1 =>
      simp only [seqF] at h
      rcases h2 : fetchA p as fl1 with ⟨fl2, r2⟩
      rw [h2] at h
      cases r2 with
      | error e => simp at h
      | ok g2 =>
        simp at h
        obtain ⟨rfl, rfl⟩ := h
        rw [ih _ _ _ h2]
        unfold fetch1 borrow1 at h1
        split at h1
        · rename_i hp
          split at h1 <;> simp at h1
          simp [guardsOf, hp, ← h1.2]
        · rename_i hp
          split at h1 <;> simp at h1
          simp [guardsOf, hp, ← h1.2]

/-- present leaves, split into the shared and the exclusive ones -/
theorem guardsOf_perm (p : Tag → Bool) (as : List Acc) :
    (guardsOf p as).Perm
      (((rTags as).filter p).map (fun t => (⟨t, false⟩ : Guard)) ++
       ((wTags as).filter p).map (fun t => (⟨t, true⟩ : Guard))) := by
  induction as with
  | nil => simp [guardsOf, rTags, wTags]
  | cons a as ih =>
    obtain ⟨t, e, o⟩ := a
    by_cases hp : p t = true
    · cases e
      · have : guardsOf p (⟨t, false, o⟩ :: as) = ⟨t, false⟩ :: guardsOf p as := by simp [guardsOf, hp]
        rw [this]
        simp only [rTags, wTags] at ih ⊢
        simp [hp]
        exact ih
      · have : guardsOf p (⟨t, true, o⟩ :: as) = ⟨t, true⟩ :: guardsOf p as := by simp [guardsOf, hp]
        rw [this]
        simp only [rTags, wTags] at ih ⊢
        simp [hp]
        exact (List.Perm.cons _ ih).trans List.perm_middle.symm
    · have : guardsOf p (⟨t, e, o⟩ :: as) = guardsOf p as := by simp [guardsOf, hp]
      rw [this]
      cases e <;> simp only [rTags, wTags] at ih ⊢ <;> simp [hp] <;> exact ih

/-! ## when a fetch fails -/

/-- resource `t` cannot be borrowed as declared: it is written while borrowed at all, read
while borrowed exclusively, both read and written, or written twice -/
def Conflict (fl : Flags) (rs ws : List Tag) (t : Tag) : Prop :=
  (t ∈ ws ∧ fl t ≠ .free) ∨ (t ∈ rs ∧ fl t = .excl) ∨ (t ∈ ws ∧ t ∈ rs) ∨ 2 ≤ ws.count t

theorem rTags_cons (a : Acc) (as : List Acc) :
    rTags (a :: as) = if a.excl then rTags as else a.tag :: rTags as := by
  cases h : a.excl <;> simp [rTags, h]
theorem wTags_cons (a : Acc) (as : List Acc) :
    wTags (a :: as) = if a.excl then a.tag :: wTags as else wTags as := by
  cases h : a.excl <;> simp [wTags, h]
theorem reqTags_cons (a : Acc) (as : List Acc) :
    reqTags (a :: as) = if a.optional then reqTags as else a.tag :: reqTags as := by
  cases h : a.optional <;> simp [reqTags, h]

theorem tryBorrow_excl_some {b b' : Borrow} : tryBorrow b true = some b' ↔ b = .free ∧ b' = .excl := by
  cases b <;> simp [tryBorrow] <;> exact eq_comm
theorem tryBorrow_excl_none {b : Borrow} : tryBorrow b true = none ↔ b ≠ .free := by
  cases b <;> simp [tryBorrow]
theorem tryBorrow_shared_none {b : Borrow} : tryBorrow b false = none ↔ b = .excl := by
  cases b <;> simp [tryBorrow]
theorem tryBorrow_shared_some {b b' : Borrow} (h : tryBorrow b false = some b') :
    b ≠ .excl ∧ b' ≠ .free ∧ b' ≠ .excl := by
  cases b <;> simp [tryBorrow] at h <;> subst h <;> simp

theorem Conflict.mono_cons {fl : Flags} {a : Acc} {as : List Acc} {t : Tag}
    (h : Conflict fl (rTags as) (wTags as) t) : Conflict fl (rTags (a :: as)) (wTags (a :: as)) t := by
  unfold Conflict at *
  rw [rTags_cons, wTags_cons]
  cases a.excl <;> simp <;> grind

/-- what a panic payload claims: the named resource is required and absent / present and in conflict -/
def PanicReason (p : Tag → Bool) (fl : Flags) (rq rs ws : List Tag) : Panic → Prop
  | .absent t => t ∈ rq ∧ p t = false
  | .borrowed t => p t = true ∧ Conflict fl rs ws t

theorem fetchA_error_sound (p : Tag → Bool) (as : List Acc) (fl fl' : Flags) (e : Panic)
    (h : fetchA p as fl = (fl', .error e)) :
    PanicReason p fl (reqTags as) (rTags as) (wTags as) e := by
  induction as generalizing fl fl' with
  | nil => simp [fetchA] at h
  | cons a as ih =>
    rw [fetchA_cons] at h
    by_cases hp : p a.tag = true
    · -- present: borrow
      simp only [fetch1, hp, if_true, borrow1] at h
      cases hb : tryBorrow (fl a.tag) a.excl with
      | none =>
        rw [hb] at h
        simp [seqF] at h
        obtain ⟨_, rfl⟩ := h
        refine ⟨hp, ?_⟩
        unfold Conflict
        rw [rTags_cons, wTags_cons]
        cases he : a.excl
        · rw [he] at hb; have := tryBorrow_shared_none.mp hb; simp [this]
        · rw [he] at hb; have := tryBorrow_excl_none.mp hb; simp [this]
      | some b =>
        rw [hb] at h
        simp only [seqF] at h
        rcases h2 : fetchA p as (upd fl a.tag b) with ⟨fl2, r2⟩
        rw [h2] at h
        cases r2 with
        | ok g2 => simp at h
        | error e2 =>
          simp at h
          obtain ⟨_, rfl⟩ := h
          have := ih _ _ h2
          cases e2 with
          | absent t =>
            simp only [PanicReason] at this ⊢
            rw [reqTags_cons]; split <;> simp [this.1, this.2]
          | borrowed t =>
            simp only [PanicReason] at this ⊢
            refine ⟨this.1, ?_⟩
            by_cases ht : t = a.tag
            · subst ht
              have hc := this.2
              unfold Conflict at hc ⊢
              rw [rTags_cons, wTags_cons]
              simp only [upd, if_true] at hc
              cases he : a.excl
              · rw [he] at hb
                obtain ⟨h1, h2, h3⟩ := tryBorrow_shared_some hb
                have : a.tag ∈ wTags as := by
                  rcases hc with hc | hc | hc | hc
                  · exact hc.1
                  · exact absurd hc.2 h3
                  · exact hc.1
                  · exact List.count_pos_iff.mp (by omega)
                simp [this]
              · rw [he] at hb
                obtain ⟨h1, rfl⟩ := tryBorrow_excl_some.mp hb
                have : a.tag ∈ wTags as ∨ a.tag ∈ rTags as := by
                  rcases hc with hc | hc | hc | hc
                  · exact Or.inl hc.1
                  · exact Or.inr hc.1
                  · exact Or.inl hc.1
                  · exact Or.inl (List.count_pos_iff.mp (by omega))
                rcases this with hw | hr
                · right; right; right
                  simp
                  exact hw
                · right; right; left
                  simp [hr]
            · have hc := this.2
              apply Conflict.mono_cons
              unfold Conflict at hc ⊢
              simpa [upd, ht] using hc
    · -- absent
      simp only [fetch1, hp] at h
      cases ho : a.optional
      · simp [ho, seqF] at h
        obtain ⟨_, rfl⟩ := h
        simp only [PanicReason]
        rw [reqTags_cons]
        simp [ho]
        simpa using hp
      · simp only [ho, if_true, seqF, Bool.false_eq_true, if_false] at h
        rcases h2 : fetchA p as fl with ⟨fl2, r2⟩
        rw [h2] at h
        cases r2 with
        | ok g2 => simp at h
        | error e2 =>
          simp at h
          obtain ⟨_, rfl⟩ := h
          have := ih _ _ h2
          cases e2 with
          | absent t =>
            simp only [PanicReason] at this ⊢
            rw [reqTags_cons]; split <;> simp [this.1, this.2]
          | borrowed t =>
            simp only [PanicReason] at this ⊢
            exact ⟨this.1, Conflict.mono_cons this.2⟩

theorem fetchA_ok_sound (p : Tag → Bool) (as : List Acc) (fl fl' : Flags) (gs : List Guard)
    (h : fetchA p as fl = (fl', .ok gs)) :
    (∀ t ∈ reqTags as, p t = true) ∧ ∀ t, p t = true → ¬ Conflict fl (rTags as) (wTags as) t := by
  induction as generalizing fl fl' gs with
  | nil => simp [reqTags, rTags, wTags, Conflict]
  | cons a as ih =>
    rw [fetchA_cons] at h
    by_cases hp : p a.tag = true
    · simp only [fetch1, hp, if_true, borrow1] at h
      cases hb : tryBorrow (fl a.tag) a.excl with
      | none => rw [hb] at h; simp [seqF] at h
      | some b =>
        rw [hb] at h
        simp only [seqF] at h
        rcases h2 : fetchA p as (upd fl a.tag b) with ⟨fl2, r2⟩
        rw [h2] at h
        cases r2 with
        | error e2 => simp at h
        | ok g2 =>
          obtain ⟨ih1, ih2⟩ := ih _ _ _ h2
          refine ⟨?_, ?_⟩
          · intro t ht
            rw [reqTags_cons] at ht
            split at ht
            · exact ih1 t ht
            · rcases List.mem_cons.mp ht with rfl | ht
              · exact hp
              · exact ih1 t ht
          · intro t hpt
            have hc := ih2 t hpt
            by_cases ht : t = a.tag
            · subst ht
              unfold Conflict at hc ⊢
              rw [rTags_cons, wTags_cons]
              simp only [upd, if_true] at hc
              cases he : a.excl
              · rw [he] at hb
                obtain ⟨h1, h2', h3⟩ := tryBorrow_shared_some hb
                have hw : a.tag ∉ wTags as := fun hw => hc (Or.inl ⟨hw, h2'⟩)
                have hcnt : List.count a.tag (wTags as) = 0 := List.count_eq_zero.mpr hw
                simp [hw, h1, hcnt]
              · rw [he] at hb
                obtain ⟨h1, rfl⟩ := tryBorrow_excl_some.mp hb
                have hw : a.tag ∉ wTags as := fun hw => hc (Or.inl ⟨hw, by simp⟩)
                have hr : a.tag ∉ rTags as := fun hr => hc (Or.inr (Or.inl ⟨hr, rfl⟩))
                have hcnt : List.count a.tag (wTags as) = 0 := List.count_eq_zero.mpr hw
                simp [hw, hr, h1, hcnt]
            · unfold Conflict at hc ⊢
              rw [rTags_cons, wTags_cons]
              simp only [upd, ht, if_false] at hc
              have hne : ¬ a.tag = t := fun h => ht h.symm
              cases a.excl <;> simpa [ht, hne, List.count_cons] using hc
    · simp only [fetch1, hp] at h
      cases ho : a.optional
      · simp [ho, seqF] at h
      · simp only [ho, if_true, seqF, Bool.false_eq_true, if_false] at h
        rcases h2 : fetchA p as fl with ⟨fl2, r2⟩
        rw [h2] at h
        cases r2 with
        | error e2 => simp at h
        | ok g2 =>
          obtain ⟨ih1, ih2⟩ := ih _ _ _ h2
          refine ⟨?_, ?_⟩
          · intro t ht
            rw [reqTags_cons] at ht
            simp [ho] at ht
            exact ih1 t ht
          · intro t hpt
            have hc := ih2 t hpt
            have ht : ¬ t = a.tag := fun h => hp (h ▸ hpt)
            have hne : ¬ a.tag = t := fun h => ht h.symm
            unfold Conflict at hc ⊢
            rw [rTags_cons, wTags_cons]
            cases a.excl <;> simpa [ht, hne, List.count_cons] using hc

/-! ## the flags after a successful fetch -/

/-- `n` more shared borrows on a cell -/
def addShared (b : Borrow) (n : Nat) : Borrow :=
  if n = 0 then b else
  match b with
  | .free => .shared (n - 1)
  | .shared k => .shared (k + n)
  | .excl => .excl

/-- flag of a cell on which `r` shared and `w` exclusive guards were taken successfully -/
def flagAfter (b : Borrow) (r w : Nat) : Borrow := if w = 0 then addShared b r else .excl

theorem fetchA_ok_flags (p : Tag → Bool) (as : List Acc) (fl fl' : Flags) (gs : List Guard)
    (h : fetchA p as fl = (fl', .ok gs)) (t : Tag) :
    fl' t = if p t then flagAfter (fl t) ((rTags as).count t) ((wTags as).count t) else fl t := by
  induction as generalizing fl fl' gs with
  | nil => simp [fetchA] at h; simp [rTags, wTags, flagAfter, addShared, h.1]
  | cons a as ih =>
    have hsound := fetchA_ok_sound p _ _ _ _ h
    rw [fetchA_cons] at h
    by_cases hp : p a.tag = true
    · simp only [fetch1, hp, if_true, borrow1] at h
      cases hb : tryBorrow (fl a.tag) a.excl with
      | none => rw [hb] at h; simp [seqF] at h
      | some b =>
        rw [hb] at h
        simp only [seqF] at h
        rcases h2 : fetchA p as (upd fl a.tag b) with ⟨fl2, r2⟩
        rw [h2] at h
        cases r2 with
        | error e2 => simp at h
        | ok g2 =>
          simp at h
          obtain ⟨rfl, rfl⟩ := h
          rw [ih _ _ _ h2]
          have hs2 := (fetchA_ok_sound p _ _ _ _ h2).2
          by_cases ht : t = a.tag
          · subst ht
            simp only [hp, if_true, upd]
            have hc := hs2 a.tag hp
            unfold Conflict at hc
            simp only [upd, if_true] at hc
            rw [rTags_cons, wTags_cons]
            cases he : a.excl
            · rw [he] at hb
              obtain ⟨h1, h2', h3⟩ := tryBorrow_shared_some hb
              have hw : a.tag ∉ wTags as := fun hw => hc (Or.inl ⟨hw, h2'⟩)
              have hcnt : List.count a.tag (wTags as) = 0 := List.count_eq_zero.mpr hw
              simp [hcnt, flagAfter, addShared]
              cases hfl : fl a.tag with
              | excl => exact absurd hfl h1
              | free =>
                rw [hfl] at hb; simp [tryBorrow] at hb; subst hb
                split <;> simp_all
              | shared k =>
                rw [hfl] at hb; simp [tryBorrow] at hb; subst hb
                split <;> simp_all <;> omega
            · rw [he] at hb
              obtain ⟨h1, rfl⟩ := tryBorrow_excl_some.mp hb
              have hw : a.tag ∉ wTags as := fun hw => hc (Or.inl ⟨hw, by simp⟩)
              have hr : a.tag ∉ rTags as := fun hr => hc (Or.inr (Or.inl ⟨hr, rfl⟩))
              have hcnt : List.count a.tag (wTags as) = 0 := List.count_eq_zero.mpr hw
              have hcnt' : List.count a.tag (rTags as) = 0 := List.count_eq_zero.mpr hr
              simp [hcnt, hcnt', flagAfter, addShared]
          · have hne : ¬ a.tag = t := fun h => ht h.symm
            rw [rTags_cons, wTags_cons]
            cases a.excl <;> simp [upd, ht, hne]
    · simp only [fetch1, hp] at h
      cases ho : a.optional
      · simp [ho, seqF] at h
      · simp only [ho, if_true, seqF, Bool.false_eq_true, if_false] at h
        rcases h2 : fetchA p as fl with ⟨fl2, r2⟩
        rw [h2] at h
        cases r2 with
        | error e2 => simp at h
        | ok g2 =>
          simp at h
          obtain ⟨rfl, rfl⟩ := h
          rw [ih _ _ _ h2]
          by_cases hpt : p t = true
          · have ht : ¬ t = a.tag := fun h => hp (h ▸ hpt)
            have hne : ¬ a.tag = t := fun h => ht h.symm
            rw [rTags_cons, wTags_cons]
            cases a.excl <;> simp [hpt, hne]
          · simp [hpt]

/-! ## setup -/

/-- the leaf setup actions of a handler sequence, left to right -/
def setupH (henv : HEnv) (dv : Tag → Nat) (hs : List (Handler × Tag)) (w : Vals) : Vals :=
  hs.foldl (fun w p => setupLeaf henv dv p.1 p.2 w) w

theorem setupH_append (henv : HEnv) (dv : Tag → Nat) (xs ys : List (Handler × Tag)) (w : Vals) :
    setupH henv dv (xs ++ ys) w = setupH henv dv ys (setupH henv dv xs w) := by
  simp [setupH]

mutual
theorem setup_flat (henv : HEnv) (dv : Tag → Nat) :
    ∀ (sd : SD) (w : Vals), setup henv dv sd w = setupH henv dv (handlers sd) w
  | .leaf e h t, w => by simp [setup, handlers, setupH]
  | .opt e h t, w => by simp [setup, handlers, setupH]
  | .unit, w => by simp [setup, handlers, setupH]
  | .phantom, w => by simp [setup, handlers, setupH]
  | .tuple ms, w => by simp only [setup, handlers]; exact setupL_flat henv dv ms w
  | .struct ms, w => by simp only [setup, handlers]; exact setupL_flat henv dv ms w
theorem setupL_flat (henv : HEnv) (dv : Tag → Nat) :
    ∀ (ms : List SD) (w : Vals), setupL henv dv ms w = setupH henv dv (handlersL ms) w
  | [], w => by simp [setupL, handlersL, setupH]
  | m :: ms, w => by
    rw [setupL, handlersL, setupH_append, setup_flat henv dv m w, setupL_flat henv dv ms]
end

theorem setupL_foldl (henv : HEnv) (dv : Tag → Nat) (ms : List SD) (w : Vals) :
    setupL henv dv ms w = ms.foldl (fun w m => setup henv dv m w) w := by
  induction ms generalizing w with
  | nil => simp [setupL]
  | cons m ms ih => simp [setupL, ih]

theorem readsL_flatMap (ms : List SD) : readsL ms = ms.flatMap reads := by
  induction ms with
  | nil => simp [readsL]
  | cons m ms ih => simp [readsL, ih]

theorem writesL_flatMap (ms : List SD) : writesL ms = ms.flatMap writes := by
  induction ms with
  | nil => simp [writesL]
  | cons m ms ih => simp [writesL, ih]

/-- `f` never changes (or removes) a resource that is present -/
def Preserves (f : Vals → Vals) : Prop := ∀ w t v, w t = some v → f w t = some v
/-- `f` never removes a resource -/
def KeepsPresent (f : Vals → Vals) : Prop := ∀ w t, (w t).isSome = true → (f w t).isSome = true

theorem Preserves.keeps {f : Vals → Vals} (h : Preserves f) : KeepsPresent f := by
  intro w t ht
  cases hv : w t with
  | none => simp [hv] at ht
  | some v => simp [h w t v hv]

theorem setupLeaf_dflt_preserves (henv : HEnv) (dv : Tag → Nat) (t : Tag) :
    Preserves (setupLeaf henv dv .dflt t) := by
  intro w t' v hv
  simp only [setupLeaf, modify]
  by_cases ht : t' = t
  · simp [ht] at hv ⊢; simp [hv]
  · simp [ht, hv]

theorem setupLeaf_dflt_creates (henv : HEnv) (dv : Tag → Nat) (t : Tag) (w : Vals) :
    (setupLeaf henv dv .dflt t w t).isSome = true := by
  simp only [setupLeaf, modify]
  cases h : w t with
  | some x => simp
  | none => simp

/-- every user handler occurring in `hs` satisfies `P` -/
def CustomAll (henv : HEnv) (P : (Vals → Vals) → Prop) (hs : List (Handler × Tag)) : Prop :=
  ∀ k t, (Handler.custom k, t) ∈ hs → P (henv k t)

theorem setupH_preserves (henv : HEnv) (dv : Tag → Nat) (hs : List (Handler × Tag))
    (hc : CustomAll henv Preserves hs) : Preserves (setupH henv dv hs) := by
  induction hs with
  | nil => intro w t v hv; simpa [setupH] using hv
  | cons x hs ih =>
    intro w t v hv
    have hrest : CustomAll henv Preserves hs := fun k t h => hc k t (List.mem_cons_of_mem _ h)
    have hstep : setupLeaf henv dv x.1 x.2 w t = some v := by
      obtain ⟨h, tx⟩ := x
      cases h with
      | dflt => exact setupLeaf_dflt_preserves henv dv tx w t v hv
      | expect => simpa [setupLeaf] using hv
      | custom k => exact hc k tx (by simp) w t v hv
    have := ih hrest _ t v hstep
    simpa [setupH] using this

theorem setupH_keeps (henv : HEnv) (dv : Tag → Nat) (hs : List (Handler × Tag))
    (hc : CustomAll henv KeepsPresent hs) : KeepsPresent (setupH henv dv hs) := by
  induction hs with
  | nil => intro w t hv; simpa [setupH] using hv
  | cons x hs ih =>
    intro w t hv
    have hrest : CustomAll henv KeepsPresent hs := fun k t h => hc k t (List.mem_cons_of_mem _ h)
    have hstep : (setupLeaf henv dv x.1 x.2 w t).isSome = true := by
      obtain ⟨h, tx⟩ := x
      cases h with
      | dflt => exact (setupLeaf_dflt_preserves henv dv tx).keeps w t hv
      | expect => simpa [setupLeaf] using hv
      | custom k => exact hc k tx (by simp) w t hv
    have := ih hrest _ t hstep
    simpa [setupH] using this

theorem setupH_creates (henv : HEnv) (dv : Tag → Nat) (hs : List (Handler × Tag))
    (hc : CustomAll henv KeepsPresent hs) (t : Tag) (ht : (Handler.dflt, t) ∈ hs) (w : Vals) :
    (setupH henv dv hs w t).isSome = true := by
  induction hs generalizing w with
  | nil => simp at ht
  | cons x hs ih =>
    have hrest : CustomAll henv KeepsPresent hs := fun k t h => hc k t (List.mem_cons_of_mem _ h)
    have hunf : setupH henv dv (x :: hs) w = setupH henv dv hs (setupLeaf henv dv x.1 x.2 w) := by
      simp [setupH]
    rw [hunf]
    rcases List.mem_cons.mp ht with rfl | ht
    · exact setupH_keeps henv dv hs hrest _ t (setupLeaf_dflt_creates henv dv t w)
    · exact ih hrest ht _

theorem stdEnv_keeps_unless_del (k : Nat) (t : Tag) (hk : k ≠ 3) : KeepsPresent (stdEnv k t) := by
  intro w t' hv
  unfold stdEnv
  split
  · simp only [modify]
    by_cases ht : t' = t
    · simp [ht] at hv ⊢
      cases hw : w t with
      | some x => simp
      | none => simp
    · simp [ht, hv]
  · by_cases h : t' = t <;> simp [upd, h, hv]
  · exact absurd rfl hk
  · exact hv

end Shred.SysData
